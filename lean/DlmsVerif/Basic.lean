/-
  Basic vocabulary shared by every model: byte strings, big-endian integers,
  hexadecimal text (used by the line protocol of the driver), and the error
  enumeration to which both sides of the correspondence check are mapped.
  No Mathlib import: this file is linked into the `driver` executable.
-/

abbrev Bytes := List UInt8

namespace Dlms

/-- Small error enumeration (DESIGN.md §4). The Python harness maps exception classes
    to these names; messages are never compared. -/
inductive Err where
  | decode        -- ValueError / KeyError / IndexError / TypeError / AssertionError / ...
  | protocol      -- LocalDlmsProtocolError, hdlc LocalProtocolError
  | preEstablished
  | auth          -- DecryptionError
  | replay
  | protection    -- ProtectionError / RuntimeError from protect/unprotect
  | client        -- DataResultError, ActionError, HLSError, DlmsClientException
  | range         -- value outside what the encoder accepts (OverflowError/ValueError on build)
  | parse         -- hdlc HdlcParsingError / MissingHdlcFlags (turned into NEED_DATA by the connection)
  deriving DecidableEq, Repr, Inhabited

def Err.name : Err → String
  | .decode => "decode" | .protocol => "protocol" | .preEstablished => "preEstablished"
  | .auth => "auth" | .replay => "replay" | .protection => "protection"
  | .client => "client" | .range => "range" | .parse => "parse"

deriving instance DecidableEq for Except

/-- big-endian encoding of `n` on exactly `k` bytes (caller checks the range). -/
def beBytes : (k : Nat) → (n : Nat) → Bytes
  | 0, _ => []
  | k+1, n => UInt8.ofNat (n / 256 ^ k % 256) :: beBytes k n

/-- big-endian decoding. -/
def beNat (bs : Bytes) : Nat := bs.foldl (fun acc b => acc * 256 + b.toNat) 0

def hexDigit (n : Nat) : Char :=
  if n < 10 then Char.ofNat (48 + n) else Char.ofNat (87 + n)

def hexOfBytes (bs : Bytes) : String :=
  if bs.isEmpty then "-" else
  String.ofList (bs.flatMap fun b => [hexDigit (b.toNat / 16), hexDigit (b.toNat % 16)])

def hexVal (c : Char) : Option Nat :=
  if '0' ≤ c ∧ c ≤ '9' then some (c.toNat - 48)
  else if 'a' ≤ c ∧ c ≤ 'f' then some (c.toNat - 87)
  else if 'A' ≤ c ∧ c ≤ 'F' then some (c.toNat - 55)
  else none

def bytesOfHexChars : List Char → Option Bytes
  | [] => some []
  | [_] => none
  | a :: b :: rest => do
      let x ← hexVal a
      let y ← hexVal b
      let r ← bytesOfHexChars rest
      pure (UInt8.ofNat (x * 16 + y) :: r)

def bytesOfHex (s : String) : Option Bytes :=
  if s == "-" then some [] else bytesOfHexChars s.toList

end Dlms
