import DlmsVerif.Gen.Tables
import DlmsVerif.Model.Client
import DlmsVerif.Spec.Client

namespace Run.Client
open Dlms Model.Client Spec.Client

def T : Table := Gen.Tables.dlmsTransitions

structure S where
  state : String := Gen.Tables.dlmsInitialState

def parseQ : String → Option ProofQ
  | "valid" => some .valid | "invalid" => some .invalid | "unparsable" => some .unparsable | _ => none

def parseEv (s : String) : Option Ev :=
  match s.splitOn ":" with
  | ["gn", i, h] => (bytesOfHex h).map (.getNormal i.toNat!)
  | ["ge", i, e] => some (.getErr i.toNat! e.toNat!)
  | ["gb", i, n, h] => (bytesOfHex h).map (.getBlock i.toNat! n.toNat!)
  | ["gl", i, n, h] => (bytesOfHex h).map (.getLast i.toNat! n.toNat!)
  | ["gle", i, n, e] => some (.getLastErr i.toNat! n.toNat! e.toNat!)
  | ["sr", i, r] => some (.setResp i.toNat! r.toNat!)
  | ["ar", i, st] => some (.actResp i.toNat! st.toNat!)
  | ["ard", i, st, h, q] => do
    let d ← bytesOfHex h
    let q ← parseQ q
    pure (.actRespData i.toNat! st.toNat! d q)
  | ["are", i, st, e] => some (.actRespErr i.toNat! st.toNat! e.toNat!)
  | ["ex", a, b] => some (.exception a.toNat! b.toNat!)
  | ["aare", r, h] => some (.aare r.toNat! (h == "1"))
  | ["rlre"] => some .rlre
  | ["dn"] => some .dataNotif
  | ["undec"] => some .undecodable
  | _ => none

def parseEvs : List String → Option (List Ev)
  | [] => some []
  | x :: xs => do
    let e ← parseEv x
    let r ← parseEvs xs
    pure (e :: r)

def showReq : Req → String
  | .aarq => "aarq" | .rlrq => "rlrq" | .get i => s!"get:{i}" | .next i n => s!"next:{i}:{n}"
  | .set i => s!"set:{i}" | .act i => s!"act:{i}"

def showDemand : Demand → String
  | .data d => "data " ++ hexOfBytes d | .nothing => "nothing" | .result r => s!"result {r}"
  | .accepted => "accepted" | .raise => "raise" | .silent => "na"

/-- C19's demands are about operations started on a ready association (associate: on none). -/
def demandIn (st : S) (need : String) (d : Demand) : String :=
  if st.state == need then showDemand d else "na"

def tail (s : St) : String :=
  s!"st={s.state} left={s.script.length + (if s.buf.isSome then 1 else 0)} sent={",".intercalate (s.sent.map showReq)}"

/-- `cli init <state>`; `cli get|set|act|assoc <invoke> <answer>*`; `cli release <answer>*`.
    Output: `<what C19 demands for these answers> | <outcome> | <state, unconsumed answers, requests handed to the transport>`. -/
def handle (st : S) : List String → S × String
  | ["init", state] => ({ state := state }, "ok")
  | "get" :: inv :: evs =>
    match parseEvs evs with
    | none => (st, "bad-op")
    | some script =>
      let (r, s') := get T { state := st.state, script := script } inv.toNat!
      let out := match r with | .ok d => "ok " ++ hexOfBytes d | .error e => "err " ++ e.name
      ({ state := s'.state }, s!"{demandIn st "READY" (getDemand script)} | {out} | {tail s'}")
  | "set" :: inv :: evs =>
    match parseEvs evs with
    | none => (st, "bad-op")
    | some script =>
      let (r, s') := set T { state := st.state, script := script } inv.toNat!
      let out := match r with
        | .ok (.setResp _ x) => s!"ok result {x}"
        | .ok ev => "ok " ++ ev.cls
        | .error e => "err " ++ e.name
      ({ state := s'.state }, s!"{demandIn st "READY" (setDemand script)} | {out} | {tail s'}")
  | "act" :: inv :: evs =>
    match parseEvs evs with
    | none => (st, "bad-op")
    | some script =>
      let (r, s') := action T { state := st.state, script := script } inv.toNat!
      let out := match r with
        | .ok (some d) => "ok " ++ hexOfBytes d
        | .ok none => "ok none"
        | .error e => "err " ++ e.name
      ({ state := s'.state }, s!"{demandIn st "READY" (actionDemand script)} | {out} | {tail s'}")
  | "assoc" :: inv :: evs =>
    match parseEvs evs with
    | none => (st, "bad-op")
    | some script =>
      let (r, s') := associate T { state := st.state, script := script } inv.toNat!
      let out := match r with | .ok ev => "ok " ++ ev.cls | .error e => "err " ++ e.name
      ({ state := s'.state }, s!"{demandIn st "NO_ASSOCIATION" (associateDemand script)} | {out} | {tail s'}")
  | "release" :: evs =>
    match parseEvs evs with
    | none => (st, "bad-op")
    | some script =>
      let (r, s') := release T { state := st.state, script := script }
      let out := match r with | .ok ev => "ok " ++ ev.cls | .error e => "err " ++ e.name
      ({ state := s'.state }, s!"na | {out} | {tail s'}")
  | _ => (st, "bad-op")

end Run.Client
