import DlmsVerif.Model.Wrapper

namespace Run.Wrapper
open Dlms Model.Wrapper

def showErr (e : Err) : String := "err " ++ e.name

/-- `wrp hdr <version> <src> <dst> <len>` : header bytes
    `wrp unhdr <hex>` : header fields
    `wrp wrap <client> <server> <apduhex>` : bytes put on the socket by `send`
    `wrp unpdu <hex>` : `WrapperProtocolDataUnit.from_bytes`
    `wrp recv <streamhex> <sched: a,b,c | ->` : one transport `recv()` over the scripted socket:
        `ok <payload> rest=<unread bytes> reads=<number of reads>`. -/
def handle : List String → String
  | ["hdr", v, s, d, n] =>
    match Header.toBytes { version := v.toNat!, src := s.toNat!, dst := d.toNat!, length := n.toNat! } with
    | .ok bs => "ok " ++ hexOfBytes bs
    | .error e => showErr e
  | ["unhdr", h] => match bytesOfHex h with
    | some bs => match Header.fromBytes bs with
      | .ok x => s!"ok {x.version} {x.src} {x.dst} {x.length}"
      | .error e => showErr e
    | none => "bad-op"
  | ["wrap", c, s, h] => match bytesOfHex h with
    | some apdu => match wrap c.toNat! s.toNat! apdu with
      | .ok bs => "ok " ++ hexOfBytes bs
      | .error e => showErr e
    | none => "bad-op"
  | ["unpdu", h] => match bytesOfHex h with
    | some bs => match pduFromBytes bs with
      | .ok (x, data) => s!"ok {x.version} {x.src} {x.dst} {x.length} {hexOfBytes data}"
      | .error e => showErr e
    | none => "bad-op"
  | ["recv", h, sched] => match bytesOfHex h with
    | some stream =>
      let sc := if sched == "-" then [] else (sched.splitOn ",").map String.toNat!
      match transportRecv { stream := stream, sched := sc } with
      | .ok (p, s') => s!"ok {hexOfBytes p} rest={hexOfBytes s'.stream} reads={sc.length - s'.sched.length}"
      | .error e => showErr e
    | none => "bad-op"
  | _ => "bad-op"

end Run.Wrapper
