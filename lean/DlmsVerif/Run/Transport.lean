import DlmsVerif.Lemmas.TransportDefs

namespace Run.Transport
open Dlms Model.Transport Spec.Meter Lemmas.TransportDefs

structure S where
  w : W Meter := { link := { state := Gen.Tables.hdlcInitialState }, meter := {} }
  maxData : Nat := 128

def showFrame : LFrame → String
  | .snrm => "snrm" | .ua => "ua" | .disc => "disc" | .rr n => s!"rr:{n}"
  | .info s r seg fin p => s!"i:{s}:{r}:{if seg then 1 else 0}:{if fin then 1 else 0}:{hexOfBytes p}"
  | .raw b => "raw:" ++ hexOfBytes b

def showErr : TErr → String
  | .link e => "err " ++ e.name | .starved => "err starved" | .stuck => "err stuck"

def syncB (w : W Meter) : Bool :=
  w.link.state == "IDLE" && w.line.isEmpty && w.meter.pending.isEmpty && w.meter.reqBuf.isEmpty &&
  w.link.serverSsn == w.meter.vr && w.link.clientRsn == w.meter.vr &&
  w.link.serverRsn == w.meter.vs && w.link.clientSsn == w.meter.vs

def tail (old : W Meter) (w : W Meter) : String :=
  s!"link={w.link.state},{w.link.serverSsn},{w.link.serverRsn},{w.link.clientSsn},{w.link.clientRsn} " ++
  s!"meter={w.meter.vs},{w.meter.vr},{w.meter.violations},{w.meter.pending.length},{w.meter.script.length} " ++
  s!"req={match w.meter.requests.getLast? with | some r => hexOfBytes r | none => "none"} " ++
  s!"nreq={w.meter.requests.length} pending-line={w.line.length} " ++
  s!"written={",".intercalate ((w.written.drop old.written.length).map showFrame)}"

def parseSegs (s : String) : Option (List Bytes) :=
  (s.splitOn ",").foldr (fun h acc => match acc, bytesOfHex h with
    | some l, some b => some (b :: l)
    | _, _ => none) (some [])

/-- `tr init <maxData> <maxInfo> <vs> <vr>` (link NOT_CONNECTED, counters preset on both sides: the state after
      that many exchanges) | `tr script <seg>,<seg>,…` (one more answer and its split) |
    `tr connect` | `tr disconnect` | `tr send <apdu>`.
    Answer of send: `<what C18 demands> | <outcome> | <link, meter, last request as reassembled, frames written>`. -/
def handle (st : S) : List String → S × String
  | ["init", md, mi, vs, vr] =>
    let vs := vs.toNat!; let vr := vr.toNat!
    ({ w := { link := { state := Gen.Tables.hdlcInitialState, serverSsn := vr, clientRsn := vr, serverRsn := vs, clientSsn := vs },
              meter := { vs := vs, vr := vr, maxInfo := mi.toNat! } }, maxData := md.toNat! }, "ok")
  | ["script", segs] =>
    match parseSegs segs with
    | none => (st, "bad-op")
    | some l => ({ st with w := { st.w with meter := { st.w.meter with script := st.w.meter.script ++ [l] } } }, "ok")
  | ["connect"] =>
    let r := connect T react st.w
    ({ st with w := r.2 }, s!"na | {match r.1 with | .ok f => "ok " ++ showFrame f | .error e => showErr e} | {tail st.w r.2}")
  | ["disconnect"] =>
    let r := disconnect T react st.w
    ({ st with w := r.2 }, s!"na | {match r.1 with | .ok f => "ok " ++ showFrame f | .error e => showErr e} | {tail st.w r.2}")
  | ["send", h] =>
    match bytesOfHex h with
    | none => (st, "bad-op")
    | some apdu =>
      let demand := match st.w.meter.script with
        | segs :: _ =>
          if syncB st.w && !segs.isEmpty && segs.flatten.take 3 == llcResp && 0 < st.maxData && st.maxData ≤ st.w.meter.maxInfo
          then "data " ++ hexOfBytes (segs.flatten.drop 3) else "na"
        | [] => "na"
      let fuel := apdu.length + 3 + (match st.w.meter.script with | s :: _ => s.length | [] => 0) + st.w.line.length + 5
      let r := send T react st.maxData fuel st.w apdu
      ({ st with w := r.2 }, s!"{demand} | {match r.1 with | .ok d => "ok " ++ hexOfBytes d | .error e => showErr e} | {tail st.w r.2}")
  | _ => (st, "bad-op")

end Run.Transport
