import DlmsVerif.Spec.Xdlms

namespace Run.Xdlms
open Dlms Spec.Xdlms

def pb (s : String) : Bool := s == "1"
def hx? (s : String) : Option Bytes := bytesOfHex s

def inv (i c h : String) : Invoke := { id := i.toNat!, confirmed := pb c, high := pb h }

def desc (cls obis idx : String) : Option Descriptor :=
  (hx? obis).map fun o => { classId := cls.toNat!, obis := o.map (·.toNat), index := idx.toNat! }

def maskFlags (m : String) : List Bool := (List.range 17).map fun k => m.toNat!.testBit k

def parseDt (s : String) : Option (Option Spec.DateTime.DT) :=
  if s == "none" then some none else
  match s.splitOn "," with
  | [y, m, d, ho, mi, se, us, off] =>
    some (some { year := y.toNat!, month := m.toNat!, day := d.toNat!, hour := ho.toNat!, minute := mi.toNat!,
                 second := se.toNat!, micro := us.toNat!, offset := if off == "none" then none else some off.toInt! })
  | _ => none

def parseApdu : List String → Option Apdu
  | ["grn", i, c, h, cls, obis, idx, sel] => do
      let d ← desc cls obis idx
      let s ← (if sel == "none" then some none else (hx? sel).map some)
      pure (.getRequestNormal (inv i c h) d s)
  | ["grx", i, c, h, b] => some (.getRequestNext (inv i c h) b.toNat!)
  | ["gresn", i, c, h, data] => (hx? data).map fun x => .getResponseNormal (inv i c h) x
  | ["grese", i, c, h, e] => some (.getResponseNormalWithError (inv i c h) e.toNat!)
  | ["gresb", i, c, h, b, data] => (hx? data).map fun x => .getResponseWithBlock (inv i c h) b.toNat! x
  | ["greslb", i, c, h, b, data] => (hx? data).map fun x => .getResponseLastBlock (inv i c h) b.toNat! x
  | ["gresle", i, c, h, b, e] => some (.getResponseLastBlockWithError (inv i c h) b.toNat! e.toNat!)
  | ["setreq", i, c, h, cls, obis, idx, data] => do
      let d ← desc cls obis idx
      let x ← hx? data
      pure (.setRequestNormal (inv i c h) d x)
  | ["setres", i, c, h, r] => some (.setResponseNormal (inv i c h) r.toNat!)
  | ["actreq", i, c, h, cls, obis, idx, data] => do
      let d ← desc cls obis idx
      let x ← hx? data
      pure (.actionRequestNormal (inv i c h) d x)
  | ["actres", i, c, h, s] => some (.actionResponseNormal (inv i c h) s.toNat!)
  | ["actresd", i, c, h, s, data] => (hx? data).map fun x => .actionResponseNormalWithData (inv i c h) s.toNat! x
  | ["actrese", i, c, h, s, e] => some (.actionResponseNormalWithError (inv i c h) s.toNat! e.toNat!)
  | ["dn", lid, p, c, b, s, dt, body] => do
      let d ← parseDt dt
      let x ← hx? body
      pure (.dataNotification { id := lid.toNat!, prioritized := pb p, confirmed := pb c, breakOnError := pb b,
                                selfDescriptive := pb s } d x)
  | ["exc", st, sv, cnt] => some (.exceptionResponse st.toNat! sv.toNat! cnt.toNat!)
  | ["cse", t, v] => some (.confirmedServiceError t.toNat! v.toNat!)
  | ["ireq", key, ra, qos, ver, conf, maxPdu] =>
      (hx? key).map fun k => .initiateRequest k (pb ra) qos.toNat! ver.toNat! (maskFlags conf) maxPdu.toNat!
  | ["ires", qos, ver, conf, maxPdu] => some (.initiateResponse qos.toNat! ver.toNat! (maskFlags conf) maxPdu.toNat!)
  | ["gireq", sc, ic, ct] => (hx? ct).map fun x => .gloInitiateRequest sc.toNat! ic.toNat! x
  | ["gires", sc, ic, ct] => (hx? ct).map fun x => .gloInitiateResponse sc.toNat! ic.toNat! x
  | ["ggc", title, sc, ic, ct] => do
      let t ← hx? title
      let x ← hx? ct
      pure (.generalGlo t sc.toNat! ic.toNat! x)
  | _ => none

/-- `xdlms enc <kind> <fields…>`: the standard A-XDR encoding of the APDU value. -/
def handle : List String → String
  | "enc" :: rest => match parseApdu rest with
    | some a => "ok " ++ hexOfBytes (encode a)
    | none => "bad-op"
  | _ => "bad-op"

end Run.Xdlms
