import DlmsVerif.Spec.Acse

namespace Run.Acse
open Dlms Spec.Acse

def optHex (s : String) : Option (Option Bytes) :=
  if s == "none" then some none else (bytesOfHex s).map some

def optNat (s : String) : Option Nat := if s == "none" then none else some s.toNat!

/-- `acse aarq <ciphered> <title|none> <cert|none> <mech|none> <authvalue|none> <userinfo>`
    `acse aare <ciphered> <result> <diagUser 0/1> <diag> <title> <cert> <mech> <authvalue> <userinfo|none>`
    `acse rlrq|rlre <reason|none> <userinfo|none>`  -- the standard BER encoding. -/
def handle : List String → String
  | ["aarq", c, t, ce, m, v, ui] =>
    match optHex t, optHex ce, optHex v, bytesOfHex ui with
    | some t', some ce', some v', some ui' =>
      "ok " ++ hexOfBytes (encodeAarq { ciphered := c == "1", title := t', cert := ce', mechanism := optNat m,
                                         authValue := v', userInfo := ui' })
    | _, _, _, _ => "bad-op"
  | ["aare", c, res, du, dg, t, ce, m, v, ui] =>
    match optHex t, optHex ce, optHex v, optHex ui with
    | some t', some ce', some v', some ui' =>
      "ok " ++ hexOfBytes (encodeAare { ciphered := c == "1", result := res.toNat!, diagUser := du == "1", diag := dg.toNat!,
                                         title := t', cert := ce', mechanism := optNat m, authValue := v', userInfo := ui' })
    | _, _, _, _ => "bad-op"
  | [k, r, ui] =>
    match optHex ui with
    | some ui' =>
      if k == "rlrq" then "ok " ++ hexOfBytes (encodeRlrq { reason := optNat r, userInfo := ui' })
      else if k == "rlre" then "ok " ++ hexOfBytes (encodeRlre { reason := optNat r, userInfo := ui' })
      else "bad-op"
    | none => "bad-op"
  | _ => "bad-op"

end Run.Acse
