import DlmsVerif.Gen.Tables
import DlmsVerif.Model.Conn
import DlmsVerif.Model.ConnSpec

namespace Run.Conn
open Dlms Model.Conn Model.ConnSpec

structure S where
  cfg : Config := { clientTitle := [] }
  conn : Conn := { state := Gen.Tables.dlmsInitialState }
  phase : Option Spec.Assoc.Phase := none      -- the abstract procedure's phase while the history stays inside C03's alphabet

def T : Tables := { transitions := Gen.Tables.dlmsTransitions }

def kinds : List (String × Kind) :=
  [("aarq", .aarq), ("rlrq", .rlrq), ("getReq", .getReq), ("getNext", .getNext), ("setReq", .setReq), ("actReq", .actReq),
   ("aare", .aare), ("rlre", .rlre), ("getRespNormal", .getRespNormal), ("getRespErr", .getRespErr),
   ("getRespBlock", .getRespBlock), ("getRespLastBlock", .getRespLastBlock), ("getRespLastBlockErr", .getRespLastBlockErr),
   ("setResp", .setResp), ("actResp", .actResp), ("actRespData", .actRespData), ("actRespErr", .actRespErr),
   ("exceptionResp", .exceptionResp), ("dataNotif", .dataNotif), ("confirmedServiceErr", .confirmedServiceErr),
   ("initiateReq", .initiateReq), ("initiateResp", .initiateResp), ("gloInitReq", .gloInitReq),
   ("gloInitResp", .gloInitResp), ("generalGlo", .generalGlo), ("unknown", .unknown)]

def kindOf (s : String) : Option Kind := (kinds.find? (·.1 == s)).map (·.2)
def kindName (k : Kind) : String := ((kinds.find? (·.2 == k)).map (·.1)).getD "?"

def optHex (s : String) : Option (Option Bytes) := if s == "none" then some none else (bytesOfHex s).map some
def optNat (s : String) : Option Nat := if s == "none" then none else some s.toNat!
def optKey (s : String) : Option (Option Key) :=
  if s == "none" then some none else
  match s.splitOn ":" with
  | [i, l] => some (some { id := i.toNat!, len := l.toNat! })
  | _ => none

def parseMac (s : String) : Option Mac :=
  match s.splitOn "," with
  | ["junk"] => some (.junk 0)
  | ["mac", kid, klen, title, ic, sc, akid, aklen, chal] => do
    let t ← bytesOfHex title
    let ch ← bytesOfHex chal
    pure (.mac { key := { id := kid.toNat!, len := klen.toNat! }, title := t, ic := ic.toNat!, sc := sc.toNat!,
                 ak := { id := akid.toNat!, len := aklen.toNat! } } ch)
  | _ => none

def parseHls (s : String) : Option HlsData :=
  match s.splitOn ";" with
  | ["proof", sc, ic, m] => (parseMac m).map fun x => .proof sc.toNat! ic.toNat! x
  | [x] => if x.startsWith "mal" then some .malformed else none
  | _ => none

def parseInner (s : String) : Option Inner :=
  match s.splitOn "." with
  | ["s", k] => (kindOf k).map .simple
  | ["ard", st, h] => (parseHls h).map fun x => .actRespData st.toNat! x
  | ["init", c, m] => some (.initResp c.toNat! m.toNat!)
  | ["undec"] => some .undecodable
  | _ => none

def parseCipher (s : String) : Option Cipher :=
  match s.splitOn ":" with
  | ["short"] => some .tooShort
  | ["junk", i] => some (.junk i.toNat!)
  | ["seal", kid, klen, title, ic, sc, akid, aklen, inner] => do
    let t ← bytesOfHex title
    let p ← parseInner inner
    pure (.sealed { key := { id := kid.toNat!, len := klen.toNat! }, title := t, ic := ic.toNat!, sc := sc.toNat!,
                    ak := { id := akid.toNat!, len := aklen.toNat! } } p)
  | _ => none

def parseUi (s : String) : Option UserInfo :=
  if s == "absent" then some .absent else if s == "other" then some .other else
  match s.splitOn ":" with
  | "init" :: c :: m :: [] => some (.initResp c.toNat! m.toNat!)
  | "glo" :: sc :: ic :: rest => (parseCipher (":".intercalate rest)).map fun ct => .gloInitResp sc.toNat! ic.toNat! ct
  | _ => none

def parseInput : List String → Option Input
  | ["garbage"] => some .garbage
  | ["aare", res, mech, title, chal, ui] => do
    let t ← optHex title
    let ch ← optHex chal
    let u ← parseUi ui
    pure (.apdu (.aare res.toNat! (optNat mech) t ch u))
  | ["rlre", ui] => (parseUi ui).map fun u => .apdu (.rlre u)
  | ["ggc", title, sc, ic, ct] => do
    let t ← bytesOfHex title
    let c ← parseCipher ct
    pure (.apdu (.ggc t sc.toNat! ic.toNat! c))
  | ["ard", st, h] => (parseHls h).map fun x => .apdu (.actRespData st.toNat! x)
  | ["s", k] => (kindOf k).map fun x => .apdu (.simple x)
  | _ => none

def showKey (k : Key) : String := s!"{k.id}:{k.len}"

def showInner : Inner → String
  | .simple k => "s." ++ kindName k
  | .actRespData st _ => s!"ard.{st}"
  | .initResp c m => s!"init.{c}.{m}"
  | .undecodable => "undec"

def showCipher : Cipher → String
  | .tooShort => "short"
  | .junk i => s!"junk:{i}"
  | .sealed a p => s!"seal:{showKey a.key}:{hexOfBytes a.title}:{a.ic}:{a.sc}:{showKey a.ak}:{showInner p}"

def showMac : Mac → String
  | .junk _ => "junk"
  | .mac a ch => s!"mac,{a.key.id},{a.key.len},{hexOfBytes a.title},{a.ic},{a.sc},{a.ak.id},{a.ak.len},{hexOfBytes ch}"

def showSent : Sent → String
  | .plain k => "plain " ++ kindName k
  | .acseGlo k sc ic ct => s!"acseglo {kindName k} {sc} {ic} {showCipher ct}"
  | .ggc t sc ic ct => s!"ggc {hexOfBytes t} {sc} {ic} {showCipher ct}"

def oh (o : Option Bytes) : String := match o with | none => "none" | some b => hexOfBytes b
def on (o : Option Nat) : String := match o with | none => "none" | some n => toString n

def showObs (s : Conn) : String :=
  s!"st={s.state} cic={s.clientIC} mic={s.meterIC} mt={oh s.meterTitle} am={on s.authMethod} mc={oh s.meterChallenge} conf={s.conformance} mp={s.maxPdu}"

/-- the abstract procedure's verdict on an event: `acc <phase>` / `ref <phase>`; `na` once the
    history has left the alphabet of C03. -/
def specStep (pre : Bool) (ph : Option Spec.Assoc.Phase) (e : Option Spec.Assoc.Ev) : Option Spec.Assoc.Phase × String :=
  match ph, e with
  | some p, some ev =>
    match Spec.Assoc.next pre p ev with
    | some p' => (some p', "acc " ++ phaseName p')
    | none => (some p, "ref " ++ phaseName p)
  | _, _ => (none, "na")

/-- `conn init <clientTitle> <ek|none> <ak|none> <suite> <pre> <clientChallenge> <state> <cic> <mic> <meterTitle|none> <conf> <maxpdu> <authMethod|none>`
    `conn send <kind> <hasUserInfo>` | `conn recv <input…>` | `conn hls`.
    Answer: `<outcome> | <observable state>`. -/
def handle (st : S) : List String → S × String
  | ["init", title, ek, ak, suite, pre, chal, state, cic, mic, mt, conf, mp, am] =>
    match bytesOfHex title, optKey ek, optKey ak, bytesOfHex chal, optHex mt with
    | some t, some e, some a, some ch, some m =>
      ({ cfg := { clientTitle := t, ek := e, ak := a, suite := suite.toNat!, preEstablished := pre == "1", clientChallenge := ch },
         conn := { state := state, clientIC := cic.toNat!, meterIC := mic.toNat!, meterTitle := m, conformance := conf.toNat!,
                   maxPdu := mp.toNat!, authMethod := optNat am }, phase := phaseOfName state }, "ok")
    | _, _, _, _, _ => (st, "bad-op")
  | ["send", k, ui] =>
    match kindOf k with
    | none => (st, "bad-op")
    | some kind =>
      let (r, s') := send T st.cfg st.conn kind (ui == "1")
      -- when the state machine accepts but protection fails afterwards (counter space exhausted, unusable keys)
      -- the history has left what C03 speaks about
      let (ph0, v0) := specStep st.cfg.preEstablished st.phase (evOfSend kind)
      let protFailed : Bool := match r with
        | .error e => e != .protocol && e != .preEstablished
        | .ok _ => false
      let (ph, v) := if protFailed then (none, "na") else (ph0, v0)
      ({ st with conn := s', phase := ph },
        v ++ " | " ++ (match r with | .ok x => "ok " ++ showSent x | .error e => "err " ++ e.name) ++ " | " ++ showObs s')
  | "recv" :: rest =>
    match parseInput rest with
    | none => (st, "bad-op")
    | some x =>
      let (r, s') := recv T st.cfg st.conn x
      -- the abstract event is that of the APDU in the clear (after `unprotect`), if it gets that far
      let ev : Option Spec.Assoc.Ev := match x with
        | .garbage => none
        | .apdu a => match unprotect st.cfg st.conn a with
          | .ok (a1, s1) => evOfApdu st.cfg s1 a1
          | .error _ => none
      let (ph, v) := specStep st.cfg.preEstablished st.phase ev
      ({ st with conn := s', phase := ph },
        v ++ " | " ++ (match r with | .ok a => "ok " ++ kindName a.kind | .error e => "err " ++ e.name) ++ " | " ++ showObs s')
  | ["hls"] =>
    let (r, s') := hlsReply st.cfg st.conn
    ({ st with conn := s' },
      "na | " ++ (match r with | .ok (sc, ic, m) => s!"ok {sc} {ic} {showMac m}" | .error e => "err " ++ e.name) ++ " | " ++ showObs s')
  | _ => (st, "bad-op")

end Run.Conn
