import DlmsVerif.Gen.Tables
import DlmsVerif.Model.Link
import DlmsVerif.Spec.Nrm

namespace Run.Link
open Dlms Spec.Nrm

structure S where
  spec : State := {}
  model : Model.Link.St := { state := Gen.Tables.hdlcInitialState }

def T : Model.Link.Tables :=
  { transitions := Gen.Tables.hdlcTransitions, sendStates := Gen.Tables.hdlcSendStates,
    parseMethods := Gen.Tables.hdlcParseMethods }

def linkName : Link → String
  | .notConnected => "NOT_CONNECTED" | .awaitingConnection => "AWAITING_CONNECTION"
  | .idle => "IDLE" | .awaitingResponse => "AWAITING_RESPONSE"
  | .awaitingDisconnect => "AWAITING_DISCONNECT"

def kindOf : String → Option (Kind × String)
  | "snrm" => some (.snrm, "SetNormalResponseModeFrame")
  | "ua" => some (.ua, "UnNumberedAcknowledgmentFrame")
  | "disc" => some (.disc, "DisconnectFrame")
  | "rr" => some (.rr, "ReceiveReadyFrame")
  | "i" => some (.i, "InformationFrame")
  | "ui" => some (.ui, "UnnumberedInformationFrame")
  | _ => none

def resName : Model.Link.Res → String
  | .accepted => "accepted" | .needData => "needData" | .err e => "err-" ++ e.name

/-- `link init` | `link op <s|r> <kind> <ssn> <rsn>`.
    Answer: `<acc|ref> <phase> <nSent%8> <nRecv%8> | <model result> <state> <sSsn> <sRsn> <cSsn> <cRsn>`.
    The left part is the procedure (Spec.Nrm), the right part the model of the code. -/
def handle (st : S) : List String → S × String
  | ["init"] => ({}, "ok")
  | "op" :: d :: k :: ssn :: rsn :: rest =>
    match kindOf k with
    | none => (st, "bad-op")
    | some (kind, cls) =>
      let dir := if d == "s" then Dir.send else Dir.recv
      let _ := rest
      let (m', r) := match dir with
        | .send => Model.Link.send T st.model cls ssn.toNat! rsn.toNat!
        | .recv => Model.Link.recv T st.model cls ssn.toNat! rsn.toNat!
      -- an RR received while a response is awaited: the procedure allows it, C11 does not demand it;
      -- the abstract state follows what the code did and no verdict is given
      let free := dir == .recv && kind == .rr && st.spec.link == .awaitingResponse
      let (sp', acc) :=
        if free && r != .accepted then (st.spec, false)
        else step st.spec dir kind ssn.toNat! rsn.toNat!
      let left := if free then "na" else s!"{if acc then "acc" else "ref"} {linkName sp'.link} {sp'.nSent % 8} {sp'.nRecv % 8}"
      ({ spec := sp', model := m' },
        s!"{left} | {resName r} {m'.state} {m'.serverSsn} {m'.serverRsn} {m'.clientSsn} {m'.clientRsn}")
  | _ => (st, "bad-op")

end Run.Link
