import DlmsVerif.Gen.Crc
import DlmsVerif.Model.Crc
import DlmsVerif.Spec.Crc

namespace Run.Crc
open Dlms

/-- line protocol: `crc spec <hex>` | `crc model <hex> <0|1>` -/
def handle : List String → String
  | ["spec", h] => match bytesOfHex h with
      | some m => "ok " ++ hexOfBytes (Spec.Crc.fcs m)
      | none => "bad-op"
  | ["speclsb", h] => match bytesOfHex h with
      | some m => "ok " ++ hexOfBytes (Spec.Crc.fcs m).reverse
      | none => "bad-op"
  | ["model", h, f] => match bytesOfHex h with
      | some m => "ok " ++ hexOfBytes
          (Model.Crc.calculateFor Gen.Crc.crcTable Gen.Crc.rev8 Gen.Crc.startingValue m (f == "1"))
      | none => "bad-op"
  | ["reg", h] => match bytesOfHex h with
      | some m => "ok " ++ toString (Spec.Crc.x25reg m).toNat
      | none => "bad-op"
  | _ => "bad-op"

end Run.Crc
