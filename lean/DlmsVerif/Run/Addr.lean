import DlmsVerif.Model.Addr
import DlmsVerif.Spec.Addr

namespace Run.Addr
open Dlms

def optS : Option Nat → String
  | none => "none"
  | some n => toString n

def parseOpt (s : String) : Option Nat := if s == "none" then none else some s.toNat!

def showFound (r : Except Err ((Nat × Option Nat × Nat) × (Nat × Option Nat × Nat))) : String :=
  match r with
  | .ok ((dl, dp, dn), (sl, sp, sn)) => s!"ok {dl} {optS dp} {dn} {sl} {optS sp} {sn}"
  | .error e => "err " ++ e.name

/-- `addr enc <c|s> <logical> <physical|none>`: the standard form (Spec.Addr) or a refusal;
    `addr menc …`: the model of `to_bytes`; `addr find <hex>`: the model of
    `find_address_in_frame_bytes`. -/
def handle : List String → String
  | ["enc", t, l, p] =>
    let x : Spec.Addr.Address := if t == "c" then .client l.toNat! else .server l.toNat! (parseOpt p)
    if Spec.Addr.valid x && !(t == "c" && (parseOpt p).isSome) then
      "ok " ++ hexOfBytes ((Spec.Addr.encode x).map UInt8.ofNat)
    else "err range"
  | ["menc", t, l, p] =>
    match Model.Addr.encode { logical := l.toNat!, physical := parseOpt p, isClient := t == "c" } with
    | .ok bs => "ok " ++ hexOfBytes bs
    | .error e => "err " ++ e.name
  | ["find", h] => match bytesOfHex h with
    | some f => showFound (Model.Addr.find f)
    | none => "bad-op"
  | _ => "bad-op"

end Run.Addr
