import DlmsVerif.Model.Rx
import DlmsVerif.Model.Hdlc
import DlmsVerif.Spec.Crc

namespace Run.Rx
open Dlms

structure S where
  rx : Model.Rx.Rx := {}
  count : Nat := 0

def parseI (fb : Bytes) : Option Bytes :=
  match Model.Hdlc.parse Spec.Crc.fcs .i fb with
  | .ok p => some p.payload
  | .error _ => none

/-- `rx init` | `rx feed <hex> <token>`: append the chunk, poll until nothing is pending.
    Answer: `<token> | n=<frames delivered so far> buf=<len> pos=<search position> new=<payloads delivered by this chunk>`
    (the token is the harness's statement of what the property demands, echoed for the left/right split). -/
def handle (st : S) : List String → S × String
  | ["init"] => ({}, "ok")
  | ["feed", h, tok] =>
    match bytesOfHex h with
    | none => (st, "bad-op")
    | some chunk =>
      let (rx', fs) := Model.Rx.drain parseI (Model.Rx.receive st.rx chunk)
      let n := st.count + fs.length
      ({ rx := rx', count := n },
        s!"{tok} | n={n} buf={rx'.buf.length} pos={rx'.pos} new={",".intercalate (fs.map hexOfBytes)}")
  | _ => (st, "bad-op")

end Run.Rx
