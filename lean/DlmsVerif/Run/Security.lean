import DlmsVerif.Gen.Misc
import DlmsVerif.Model.Security
import DlmsVerif.Spec.Aes

namespace Run.Security
open Dlms Model.Security

def P : Params := { keyLengths := Gen.Misc.keyLengths, tagLength := Gen.Misc.tagLength }
def E := Spec.Aes.encryptBlock
def D := Spec.Aes.decryptBlock

def showR : Except Err Bytes → String
  | .ok b => "ok " ++ hexOfBytes b
  | .error e => "err " ++ e.name

def withSc (v : String) (f : SC → String) : String :=
  match SC.ofByte v.toNat! with
  | .ok sc => f sc
  | .error e => "err " ++ e.name

/-- `sec enc <sc> <title> <ic> <key> <ak> <plain>` | `sec dec <sc> <title> <ic> <key> <ak> <text>` |
    `sec gmac <sc> <title> <ic> <key> <ak> <challenge>` | `sec wrap <sc> <kek> <key>` | `sec unwrap <sc> <kek> <wrapped>` |
    `sec sc <byte>` (decode and re-encode the security-control byte) | `sec block <key> <block>` (one AES block). -/
def handle0 : List String → String
  | ["enc", sc, t, ic, k, ak, x] =>
    match bytesOfHex t, bytesOfHex k, bytesOfHex ak, bytesOfHex x with
    | some t, some k, some ak, some x => withSc sc fun s => showR (encrypt P E s t ic.toNat! k x ak)
    | _, _, _, _ => "bad-op"
  | ["dec", sc, t, ic, k, ak, x] =>
    match bytesOfHex t, bytesOfHex k, bytesOfHex ak, bytesOfHex x with
    | some t, some k, some ak, some x => withSc sc fun s => showR (decrypt P E s t ic.toNat! k x ak)
    | _, _, _, _ => "bad-op"
  | ["gmac", sc, t, ic, k, ak, x] =>
    match bytesOfHex t, bytesOfHex k, bytesOfHex ak, bytesOfHex x with
    | some t, some k, some ak, some x => withSc sc fun s => showR (gmac P E s t ic.toNat! k ak x)
    | _, _, _, _ => "bad-op"
  | ["wrap", sc, kek, k] =>
    match bytesOfHex kek, bytesOfHex k with
    | some kek, some k => withSc sc fun s => showR (wrapKey P E s kek k)
    | _, _ => "bad-op"
  | ["unwrap", sc, kek, w] =>
    match bytesOfHex kek, bytesOfHex w with
    | some kek, some w => withSc sc fun s => showR (unwrapKey P D s kek w)
    | _, _ => "bad-op"
  | ["sc", v] => withSc v fun s =>
      s!"ok {s.suite} {s.authenticated} {s.encrypted} {s.broadcast} {s.compressed} {s.toByte.toNat}"
  | ["block", k, b] =>
    match bytesOfHex k, bytesOfHex b with
    | some k, some b => s!"ok {hexOfBytes (E k b)} {hexOfBytes (D k (E k b))}"
    | _, _ => "bad-op"
  | _ => "bad-op"

/-- `sec tamper …` / `sec tunwrap …`: as `dec` / `unwrap`, preceded by what C05 demands: a refusal. -/
def handle : List String → String
  | "tamper" :: rest => "refused | " ++ handle0 ("dec" :: rest)
  | "tunwrap" :: rest => "refused | " ++ handle0 ("unwrap" :: rest)
  | op :: rest =>
    -- `<what C05 demands: these bytes, or a refusal> | <the model's outcome with its error class>`
    if op == "enc" || op == "dec" || op == "gmac" || op == "wrap" || op == "unwrap" then
      let r := handle0 (op :: rest)
      (if r.startsWith "ok " then r else if r.startsWith "err" then "refused" else r) ++ " | " ++ r
    else handle0 (op :: rest)
  | l => handle0 l

end Run.Security
