import DlmsVerif.Spec.Fields
import DlmsVerif.Model.Fields

namespace Run.Fields
open Dlms Spec.Fields

def b01 (b : Bool) : String := if b then "1" else "0"
def pb (s : String) : Bool := s == "1"

def maskToFlags (n mask : Nat) : List Bool := (List.range n).map fun k => mask.testBit k
def flagsToMask (fs : List Bool) : Nat :=
  (fs.zipIdx.map fun (f, k) => if f then 2 ^ k else 0).foldl (· + ·) 0

def optNat : Option Nat → String
  | some n => s!"ok {n}"
  | none => "err range"

def showExcept {α} (f : α → String) : Except Err α → String
  | .ok a => "ok " ++ f a
  | .error e => "err " ++ e.name

/-- `fld <field> <op> <args>`; every answer is the *standard's* value (Spec.Fields), except
    the `m…` ops which run the hand-written models of Model.Fields. -/
def handle : List String → String
  | ["conf", "enc", m] =>
      let fs := maskToFlags 17 m.toNat!
      "ok " ++ hexOfBytes (0 :: beBytes 3 (confEncode conformancePositions fs))
  | ["conf", "dec", h] => match bytesOfHex h with
      | some bs => s!"ok {flagsToMask (confDecode conformancePositions (beNat (bs.drop 1)))}"
      | none => "bad-op"
  | ["scf", "to", s, a, e, b, c] => optNat (scfByte s.toNat! (pb a) (pb e) (pb b) (pb c))
  | ["scf", "from", v] => match scfFields v.toNat! with
      | some (s, a, e, b, c) => s!"ok {s} {b01 a} {b01 e} {b01 b} {b01 c}"
      | none => "err decode"
  | ["inv", "to", i, c, h] => s!"ok {invokeByte i.toNat! (pb c) (pb h)}"
  | ["inv", "from", v] => let (i, c, h) := invokeFields v.toNat!; s!"ok {i} {b01 c} {b01 h}"
  | ["clk", "to", a, b, c, d, e] => s!"ok {clockByte (pb a) (pb b) (pb c) (pb d) (pb e)}"
  | ["clk", "from", v] => let (a, b, c, d, e) := clockFields v.toNat!
      s!"ok {b01 a} {b01 b} {b01 c} {b01 d} {b01 e}"
  | ["ctl", "snrm"] => s!"ok {snrmControl}"
  | ["ctl", "ua"] => s!"ok {uaControl}"
  | ["ctl", "disc"] => s!"ok {discControl}"
  | ["ctl", "rr", r] => optNat (rrControl r.toNat!)
  | ["ctl", "i", s, r, f] => optNat (iControl s.toNat! r.toNat! (pb f))
  | ["ctl", "ui", f] => s!"ok {uiControl (pb f)}"
  | ["ctl", "ifrom", v] => match iFields v.toNat! with
      | some (s, r, f) => s!"ok {s} {r} {b01 f}"
      | none => "err decode"
  | ["fmt", "to", l, s] => match formatWord l.toNat! (pb s) with
      | some w => "ok " ++ hexOfBytes (beBytes 2 w)
      | none => "err range"
  | ["fmt", "from", h] => match bytesOfHex h with
      | some bs => match formatFields (beNat bs) with
          | some (l, s) => if bs.length = 2 then s!"ok {l} {b01 s}" else "err parse"
          | none => "err parse"
      | none => "bad-op"
  | ["fmt", "mto", l, s] => showExcept hexOfBytes (Model.Fields.fmtToBytes l.toNat! (pb s))
  | ["fmt", "mfrom", h] => match bytesOfHex h with
      | some bs => showExcept (fun (l, s) => s!"{l} {b01 s}") (Model.Fields.fmtFromBytes bs)
      | none => "bad-op"
  | ["linv", "to", i, p, c, b, s] =>
      if i.toNat! < 2 ^ 24 then
        "ok " ++ hexOfBytes (beBytes 4 (longInvokeWord i.toNat! (pb p) (pb c) (pb b) (pb s)))
      else "err range"
  | ["linv", "from", h] => match bytesOfHex h with
      | some bs => showExcept (fun (i, p, c, b, s) => s!"{i} {b01 p} {b01 c} {b01 b} {b01 s}")
          (Model.Fields.longInvokeFromBytes bs)
      | none => "bad-op"
  | "obis" :: "to" :: xs => showExcept hexOfBytes (Model.Fields.obisToBytes (xs.map String.toNat!))
  | ["obis", "from", h] => match bytesOfHex h with
      | some bs => showExcept (fun o => " ".intercalate (o.map toString)) (Model.Fields.obisFromBytes bs)
      | none => "bad-op"
  | "obis" :: "dotted" :: xs => "ok " ++ Model.Fields.obisDotted (xs.map String.toNat!)
  | ["obis", "undotted", s] =>
      showExcept (fun o => " ".intercalate (o.map toString)) (Model.Fields.obisFromDotted s)
  | _ => "bad-op"

end Run.Fields
