import DlmsVerif.Gen.Data
import DlmsVerif.Model.Axdr

namespace Run.Axdr
open Dlms Spec.Axdr Model.Axdr

def T : Table := Gen.Data.dataMap

mutual
/-- value trees in prefix notation: `n`, `b0`, `i8:-5`, `u16:300`, `e:3`, `o:<hex>`, `dt:<hex>`,
    `da:<hex>`, `ti:<hex>`, `a:<count> <items…>`, `s:<count> <items…>`. -/
def parseData : Nat → List String → Option (Data × List String)
  | 0, _ => none
  | fuel + 1, tok :: rest =>
    match tok.splitOn ":" with
    | ["n"] => some (.null, rest)
    | ["b0"] => some (.bool false, rest)
    | ["b1"] => some (.bool true, rest)
    | ["i8", v] => some (.i8 v.toInt!, rest)
    | ["i16", v] => some (.i16 v.toInt!, rest)
    | ["i32", v] => some (.i32 v.toInt!, rest)
    | ["i64", v] => some (.i64 v.toInt!, rest)
    | ["u8", v] => some (.u8 v.toNat!, rest)
    | ["u16", v] => some (.u16 v.toNat!, rest)
    | ["u32", v] => some (.u32 v.toNat!, rest)
    | ["u64", v] => some (.u64 v.toNat!, rest)
    | ["e", v] => some (.enum v.toNat!, rest)
    | ["o", h] => (bytesOfHex h).map fun b => (.octets b, rest)
    | ["dt", h] => (bytesOfHex h).map fun b => (.dateTime b, rest)
    | ["da", h] => (bytesOfHex h).map fun b => (.date b, rest)
    | ["ti", h] => (bytesOfHex h).map fun b => (.time b, rest)
    | ["a", n] => (parseList fuel n.toNat! rest).map fun (xs, r) => (.array xs, r)
    | ["s", n] => (parseList fuel n.toNat! rest).map fun (xs, r) => (.structure xs, r)
    | _ => none
  | _, [] => none
def parseList : Nat → Nat → List String → Option (List Data × List String)
  | _, 0, toks => some ([], toks)
  | fuel, n + 1, toks =>
    match parseData fuel toks with
    | none => none
    | some (x, r) => (parseList fuel n r).map fun (xs, r') => (x :: xs, r')
end

partial def showPy : PyVal → String
  | .none => "none"
  | .bool b => if b then "T" else "F"
  | .int v => s!"i{v}"
  | .bytes bs => "b" ++ hexOfBytes bs
  | .dateTime d st =>
    let off := match d.offset with | Option.none => "none" | some o => toString o
    s!"dt({d.year},{d.month},{d.day},{d.hour},{d.minute},{d.second},{d.micro},{off},{st &&& 0x8F})"
  | .date y m d => s!"da({y},{m},{d})"
  | .time h m s us => s!"ti({h},{m},{s},{us})"
  | .list xs => "[" ++ ",".intercalate (xs.map showPy) ++ "]"

/-- `axdr enc <tree>`: the standard encoding; `axdr tobytes <tree>`: the model of `<Data>.to_bytes()`;
    `axdr parse <hex>`: the model of `utils.parse_as_dlms_data`. -/
def handle : List String → String
  | "enc" :: toks => match parseData (toks.length + 1) toks with
    | some (v, []) => "ok " ++ hexOfBytes (encode v)
    | _ => "bad-op"
  | "tobytes" :: toks => match parseData (toks.length + 1) toks with
    | some (v, []) => match toBytes T v with
      | .ok bs => "ok " ++ hexOfBytes bs
      | .error e => "err " ++ e.name
    | _ => "bad-op"
  | ["parse", h] => match bytesOfHex h with
    | some bs => match parseAsDlmsData T bs with
      | .ok v => "ok " ++ showPy v
      | .error e => "err " ++ e.name
    | none => "bad-op"
  | _ => "bad-op"

end Run.Axdr
