import DlmsVerif.Gen.Parsers
import DlmsVerif.Model.Parsers

namespace Run.Parsers
open Dlms Model.Parsers

def parseCell (s : String) : Option Cell :=
  if s == "N" then some .null
  else if s.startsWith "V" then some (.item (s.drop 1).toString.toNat! none)
  else if s.startsWith "T" then
    match (s.drop 1).toString.splitOn ":" with
    | [id, us, zone] => some (.item id.toNat! (some { us := us.toInt!, zone := zone.toNat! }))
    | _ => none
  else none

def parseRows (s : String) : Option (List (List Cell)) :=
  if s == "-" then some [] else
  (s.splitOn ";").mapM fun r => if r == "_" then some [] else (r.splitOn ",").mapM parseCell

def showOut : Out → String
  | .nothing => "-"
  | .bound c .null => s!"{c}=null"
  | .bound c (.val id) => s!"{c}=v{id}"
  | .bound c (.time t) => s!"{c}=t{t.us}:{t.zone}"

def parseSel (s : String) : Option (List Int) :=
  if s == "none" then none else if s == "empty" then some [] else some ((s.splitOn "+").map String.toInt!)

def parseObj (s : String) : Option ObjIn :=
  match s.splitOn "|" with
  | [cls, ver, ln, attrs, meths] => do
    let lnb ← bytesOfHex ln
    let as ← (if attrs == "" then some [] else (attrs.splitOn ",").mapM fun a =>
      match a.splitOn ":" with
      | [i, m, sel] => some ({ attrId := i.toInt!, mode := m.toNat!, selectors := parseSel sel } : AttrRight)
      | _ => none)
    let ms ← (if meths == "" then some [] else (meths.splitOn ",").mapM fun a =>
      match a.splitOn ":" with
      | [i, m] => some ({ methodId := i.toInt!, mode := m.toNat! } : MethodRight)
      | _ => none)
    pure { classId := cls.toNat!, version := ver.toNat!, logicalName := lnb, attrs := as, methods := ms }
  | _ => none

def plus {α} [ToString α] (l : List α) : String := "+".intercalate (l.map toString)

def showObj (o : ObjOut) : String :=
  s!"{o.classId}|{o.version}|{".".intercalate (o.logicalName.map toString)}|" ++
  ",".intercalate (o.attrs.map fun (a, r, sel) => s!"{a}:[{plus r}]:[{plus sel}]") ++ "|" ++
  ",".intercalate (o.methods.map fun (m, r) => s!"{m}:[{plus r}]")

/-- `pars entries <period> <clock flags, e.g. 101> <rows>` and `pars objects <objects>`. -/
def handle : List String → String
  | ["entries", period, clocks, rows] =>
    match parseRows rows with
    | none => "bad-op"
    | some rs =>
      match parseEntries period.toInt! (clocks.toList.map (· == '1')) rs with
      | .ok out => "ok " ++ ";".intercalate (out.map fun r => ",".intercalate (r.map showOut))
      | .error e => "err " ++ e.name
  | ["objects", objs] =>
    match (if objs == "-" then some [] else (objs.splitOn ";").mapM parseObj) with
    | none => "bad-op"
    | some os =>
      -- the rights C15 demands (the bits that are set), not the graph regenerated from the code: when the code's graph
      -- differs (C15_rights no longer builds) the correspondence then exhibits the access mode on which it does
      match parseObjects ((List.range 256).map fun mode => (List.range 8).filter fun b => mode.testBit b) Gen.Parsers.cosemInterfaces os with
      | .ok out => "ok " ++ ";".intercalate (out.map showObj)
      | .error e => "err " ++ e.name
  | _ => "bad-op"

end Run.Parsers
