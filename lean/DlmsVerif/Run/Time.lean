import DlmsVerif.Model.Time

namespace Run.Time
open Dlms Spec.DateTime

def showDT (r : Except Err (DT × Nat)) : String :=
  match r with
  | .ok (d, st) =>
    let off := match d.offset with | none => "none" | some o => toString o
    -- the status byte is shown through the five flags the code keeps (bits 0-3 and 7, see C20)
    s!"ok {d.year} {d.month} {d.day} {d.hour} {d.minute} {d.second} {d.micro} {off} {st &&& 0x8F}"
  | .error e => "err " ++ e.name

/-- `time enc y m d H M S us <off|none> <status>` : the 12-byte DLMS layout (Spec.DateTime.encode);
    `time dec <hex>` : the model of `datetime_from_bytes`;
    `time rt y m d H M S us off status` : what C16 demands after a round trip (truncated value). -/
def handle : List String → String
  | [op, y, m, d, ho, mi, se, us, off, st] =>
    let dt : DT := { year := y.toNat!, month := m.toNat!, day := d.toNat!, hour := ho.toNat!, minute := mi.toNat!,
                     second := se.toNat!, micro := us.toNat!,
                     offset := if off == "none" then none else some off.toInt! }
    if op == "enc" then "ok " ++ hexOfBytes (Spec.DateTime.encode dt st.toNat!)
    else if op == "rt" then
      if valid dt then showDT (.ok (trunc dt, st.toNat!)) else "err range"
    else "bad-op"
  | ["dec", h] => match bytesOfHex h with
    | some bs => showDT (Model.Time.decode bs)
    | none => "bad-op"
  | _ => "bad-op"

end Run.Time
