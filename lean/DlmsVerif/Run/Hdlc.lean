import DlmsVerif.Model.Hdlc
import DlmsVerif.Spec.Hdlc

namespace Run.Hdlc
open Dlms Spec.Hdlc

def optS : Option Nat → String
  | none => "none"
  | some n => toString n

def parseAddr (s : String) : Option Spec.Addr.Address :=
  match s.splitOn ":" with
  | ["c", l] => some (.client l.toNat!)
  | ["s", l, "none"] => some (.server l.toNat! none)
  | ["s", l, p] => some (.server l.toNat! (some p.toNat!))
  | _ => none

def parseKind : String → Option Kind
  | "snrm" => some .snrm | "ua" => some .ua | "disc" => some .disc
  | "rr" => some .rr | "i" => some .i | "ui" => some .ui | _ => none

def parsePKind : String → Option Model.Hdlc.PKind
  | "ua" => some .ua | "disc" => some .disc | "rr" => some .rr | "i" => some .i | "ui" => some .ui
  | _ => none

def b01 (b : Bool) : String := if b then "1" else "0"

def showParsed (r : Except Err Model.Hdlc.Parsed) : String :=
  match r with
  | .ok p => s!"ok {p.dstL} {optS p.dstP} {p.srcL} {optS p.srcP} {p.ssn} {p.rsn} {b01 p.final} {b01 p.segmented} {hexOfBytes p.payload}"
  | .error e => "err " ++ e.name

/-- `hdlc ser <kind> <dst> <src> <ssn> <rsn> <final> <seg> <payload>`: the standard layout with
    X-25 check sequences (Spec.Hdlc.serialize), `err range` where it has none;
    `hdlc mser …`: the model of `to_bytes`; `hdlc parse <kind> <hex>`: the model of `from_bytes`. -/
def handle : List String → String
  | [op, k, d, s, ssn, rsn, fin, seg, pl] =>
    match parseKind k, parseAddr d, parseAddr s, bytesOfHex pl with
    | some kind, some dst, some src, some payload =>
      let f : Frame := { kind := kind, dst := dst, src := src, ssn := ssn.toNat!, rsn := rsn.toNat!,
                         final := fin == "1", segmented := seg == "1", payload := payload }
      if op == "ser" then
        if Spec.Addr.valid dst && Spec.Addr.valid src && frameLength f ≤ 2047 then
          match serialize f with
          | some bs => "ok " ++ hexOfBytes bs
          | none => "err range"
        else "err range"
      else if op == "mser" then
        match Model.Hdlc.serialize Spec.Crc.fcs f with
        | .ok bs => "ok " ++ hexOfBytes bs
        | .error e => "err " ++ e.name
      else "bad-op"
    | _, _, _, _ => "bad-op"
  | ["parse", k, h] =>
    match parsePKind k, bytesOfHex h with
    | some pk, some fb => showParsed (Model.Hdlc.parse Spec.Crc.fcs pk fb)
    | _, _ => "bad-op"
  | _ => "bad-op"

end Run.Hdlc
