/-
  Definitions used in the statements of C19: running a client operation for an exchange,
  and reading its outcome as a demand.
-/
import DlmsVerif.Gen.Tables
import DlmsVerif.Model.Client
import DlmsVerif.Spec.Client

namespace Lemmas.ClientDefs
open Dlms Model.Client Spec.Client

def T : Table := Gen.Tables.dlmsTransitions

/-- the outcome of the model operation for an exchange, read as a demand. -/
def perform (s : St) : Exchange → Demand × St
  | .getNormal inv _ | .getBlocks inv .. | .getError inv _ | .getBlocksError inv .. =>
    match get T s inv with
    | (.ok d, s') => (.data d, s')
    | (.error _, s') => (.raise, s')
  | .set inv _ =>
    match set T s inv with
    | (.ok (.setResp _ r), s') => (.result r, s')
    | (.ok _, s') => (.silent, s')
    | (.error _, s') => (.raise, s')
  | .action inv | .actionData inv _ | .actionFailed inv .. =>
    match action T s inv with
    | (.ok (some d), s') => (.data d, s')
    | (.ok none, s') => (.nothing, s')
    | (.error _, s') => (.raise, s')

/-- a session: the operations one after the other on one association. -/
def session (s : St) : List Exchange → List Demand × St
  | [] => ([], s)
  | x :: xs =>
    let (d, s1) := perform s x
    let (ds, s2) := session s1 xs
    (d :: ds, s2)

end Lemmas.ClientDefs
