/- Lemmas on the A-XDR primitives: byte counts, variable-length integers, two's complement,
   list prefixes, and the bounded reads of the decoder model. -/
import DlmsVerif.Model.Axdr
import DlmsVerif.Lemmas.Basic

namespace Lemmas.Axdr
open Dlms Spec.Axdr Model.Axdr

/-! ### byteLen -/

theorem byteLen_of_lt {n : Nat} (h : n < 256) : byteLen n = 1 := by
  rw [byteLen]; simp [h]

theorem byteLen_of_ge {n : Nat} (h : 256 ≤ n) : byteLen n = 1 + byteLen (n / 256) := by
  rw [byteLen]; simp [Nat.not_lt.mpr h]

theorem byteLen_pos (n : Nat) : 1 ≤ byteLen n := by
  by_cases h : n < 256
  · rw [byteLen_of_lt h]; omega
  · rw [byteLen_of_ge (by omega)]; omega

theorem lt_pow_byteLen (n : Nat) : n < 256 ^ byteLen n := by
  induction n using Nat.strongRecOn with
  | _ n ih =>
    by_cases h : n < 256
    · rw [byteLen_of_lt h]; simpa using h
    · rw [byteLen_of_ge (by omega), Nat.add_comm, Nat.pow_succ]
      have := ih (n / 256) (by omega)
      omega

/-! ### getBytes -/

theorem getBytes_append (k : Nat) (a r : Bytes) (h : a.length = k) :
    getBytes k (a ++ r) = .ok (a, r) := by
  subst h
  simp [getBytes]

theorem getBytes_short (k : Nat) (q : Bytes) (h : q.length < k) :
    getBytes k q = .error .decode := by
  simp [getBytes]; omega

/-! ### variable-length integers -/

theorem axdrLen_lenPrefix (n : Nat) (h : byteLen n ≤ 127) (r : Bytes) :
    axdrLen (lenPrefix n ++ r) = .ok (n, r) := by
  unfold lenPrefix
  by_cases hn : n < 128
  · have e : (UInt8.ofNat n).toNat = n := by
      simp [UInt8.toNat_ofNat']; omega
    simp [hn, axdrLen, e]
  · have hk := byteLen_pos n
    have e : (UInt8.ofNat (0x80 + byteLen n)).toNat = 128 + byteLen n := by
      simp [UInt8.toNat_ofNat']; omega
    have e2 : 128 + byteLen n - 128 = byteLen n := by omega
    have e3 : ¬ (128 + byteLen n < 128) := by omega
    simp only [hn, ↓reduceIte, List.cons_append, axdrLen, e, e2, e3,
      getBytes_append _ _ _ (beBytes_length _ _), beNat_beBytes_of_lt _ _ (lt_pow_byteLen n)]

/-! ### prefixes -/

theorem proper_prefix_length {p a : Bytes} (hp : p <+: a) (hne : p ≠ a) : p.length < a.length := by
  have := hp.length_le
  by_cases e : p.length = a.length
  · exact absurd (hp.eq_of_length e) hne
  · omega

theorem proper_prefix_cons {p : Bytes} {t : UInt8} {a : Bytes} (hp : p <+: t :: a) (hne : p ≠ t :: a) :
    p = [] ∨ ∃ q, p = t :: q ∧ q <+: a ∧ q ≠ a := by
  rcases List.prefix_cons_iff.mp hp with h | ⟨q, rfl, hq⟩
  · exact .inl h
  · exact .inr ⟨q, rfl, hq, fun e => hne (by rw [e])⟩

theorem proper_prefix_append {p a b : Bytes} (hp : p <+: a ++ b) (hne : p ≠ a ++ b) :
    (p <+: a ∧ p ≠ a) ∨ ∃ q, p = a ++ q ∧ q <+: b ∧ q ≠ b := by
  rcases List.prefix_or_prefix_of_prefix hp (List.prefix_append a b) with h | ⟨q, rfl⟩
  · by_cases e : p = a
    · subst e
      exact .inr ⟨[], by simp, List.nil_prefix, fun e => hne (by rw [← e]; simp)⟩
    · exact .inl ⟨h, e⟩
  · exact .inr ⟨q, rfl, (List.prefix_append_right_inj a).mp hp, fun e => hne (by rw [e])⟩

theorem axdrLen_short (n : Nat) (h : byteLen n ≤ 127) (q : Bytes)
    (hq : q <+: lenPrefix n) (hne : q ≠ lenPrefix n) : axdrLen q = .error .decode := by
  unfold lenPrefix at hq hne
  by_cases hn : n < 128
  · simp only [hn, ↓reduceIte] at hq hne
    rcases proper_prefix_cons hq hne with rfl | ⟨q', rfl, hq', hne'⟩
    · rfl
    · exact absurd (List.prefix_nil.mp hq') hne'
  · simp only [hn, ↓reduceIte] at hq hne
    have hk := byteLen_pos n
    rcases proper_prefix_cons hq hne with rfl | ⟨q', rfl, hq', hne'⟩
    · rfl
    · have e : (UInt8.ofNat (0x80 + byteLen n)).toNat = 128 + byteLen n := by
        simp [UInt8.toNat_ofNat']; omega
      have hl := proper_prefix_length hq' hne'
      rw [beBytes_length] at hl
      have e2 : 128 + byteLen n - 128 = byteLen n := by omega
      have e3 : ¬ (128 + byteLen n < 128) := by omega
      simp only [axdrLen, e, e2, e3, ↓reduceIte, getBytes_short _ _ hl]

/-! ### two's complement -/

theorem p1 : (256 : Nat) ^ 1 = 256 := by decide
theorem p2 : (256 : Nat) ^ 2 = 65536 := by decide
theorem p4 : (256 : Nat) ^ 4 = 4294967296 := by decide
theorem p8 : (256 : Nat) ^ 8 = 18446744073709551616 := by decide

theorem signed_twos_1 (v : Int) (h1 : -128 ≤ v) (h2 : v ≤ 127) : signed 1 (twos 1 v) = v := by
  unfold signed twos
  simp only [beNat_beBytes, p1]
  omega

theorem signed_twos_2 (v : Int) (h1 : -32768 ≤ v) (h2 : v ≤ 32767) : signed 2 (twos 2 v) = v := by
  unfold signed twos
  simp only [beNat_beBytes, p2]
  omega

theorem signed_twos_4 (v : Int) (h1 : -2147483648 ≤ v) (h2 : v ≤ 2147483647) :
    signed 4 (twos 4 v) = v := by
  unfold signed twos
  simp only [beNat_beBytes, p4]
  omega

theorem signed_twos_8 (v : Int) (h1 : -9223372036854775808 ≤ v) (h2 : v ≤ 9223372036854775807) :
    signed 8 (twos 8 v) = v := by
  unfold signed twos
  simp only [beNat_beBytes, p8]
  omega

/-! ### the date/time decoders only refuse with `decode` -/

theorem time_decode_err (bs : Bytes) (e : Err) (h : Model.Time.decode bs = .error e) : e = .decode := by
  unfold Model.Time.decode at h
  repeat' (try dsimp only at h); split at h
  all_goals first | (cases h; rfl) | (cases h)

theorem time_decodeDate_err (bs : Bytes) (e : Err) (h : Model.Time.decodeDate bs = .error e) :
    e = .decode := by
  unfold Model.Time.decodeDate at h
  repeat' (try dsimp only at h); split at h
  all_goals first | (cases h; rfl) | (cases h)

theorem time_decodeTime_err (bs : Bytes) (e : Err) (h : Model.Time.decodeTime bs = .error e) :
    e = .decode := by
  unfold Model.Time.decodeTime at h
  repeat' (try dsimp only at h); split at h
  all_goals first | (cases h; rfl) | (cases h)

/-! ### one step of `decodeItem`, by kind of table row -/

section step
variable (T : Table) (t : UInt8) (cls : String) (len : Int) (hf : Bool) (fuel : Nat)

theorem decodeItem_nil : decodeItem T fuel [] = .error .decode := by
  cases fuel <;> simp [decodeItem]

/-- fixed-size type, enough bytes. -/
theorem decodeItem_fixed (hl : lookup T t.toNat = some (cls, len, true))
    (hc : (cls == "DataArray" || cls == "DataStructure") = false) (hv : (len == -1) = false)
    (data rest : Bytes) (hd : data.length = len.toNat) :
    decodeItem T (fuel + 1) (t :: (data ++ rest)) =
      match fromBytes cls data with
      | .error e => .error e
      | .ok v => .ok (v, rest) := by
  rw [decodeItem]
  simp only [hl, hc, hv, getBytes_append _ _ _ hd]
  cases fromBytes cls data <;> simp

/-- fixed-size type, too few bytes. -/
theorem decodeItem_fixed_short (hl : lookup T t.toNat = some (cls, len, hf))
    (hc : (cls == "DataArray" || cls == "DataStructure") = false) (hv : (len == -1) = false)
    (q : Bytes) (hq : q.length < len.toNat) :
    decodeItem T (fuel + 1) (t :: q) = .error .decode := by
  rw [decodeItem]
  simp only [hl, hc, hv, getBytes_short _ _ hq]
  simp

/-- length-prefixed type, enough bytes. -/
theorem decodeItem_var (hl : lookup T t.toNat = some (cls, -1, true))
    (hc : (cls == "DataArray" || cls == "DataStructure") = false)
    (data rest : Bytes) (hn : byteLen data.length ≤ 127) :
    decodeItem T (fuel + 1) (t :: (lenPrefix data.length ++ (data ++ rest))) =
      match fromBytes cls data with
      | .error e => .error e
      | .ok v => .ok (v, rest) := by
  rw [decodeItem]
  simp only [hl, hc, axdrLen_lenPrefix _ hn, getBytes_append _ _ _ rfl]
  cases fromBytes cls data <;> simp

/-- length-prefixed type, too few bytes after the length. -/
theorem decodeItem_var_short (hl : lookup T t.toNat = some (cls, -1, hf))
    (hc : (cls == "DataArray" || cls == "DataStructure") = false)
    (n : Nat) (hn : byteLen n ≤ 127) (q : Bytes) (hq : q.length < n) :
    decodeItem T (fuel + 1) (t :: (lenPrefix n ++ q)) = .error .decode := by
  rw [decodeItem]
  simp only [hl, hc, axdrLen_lenPrefix _ hn, getBytes_short _ _ hq]
  simp

/-- length-prefixed or counted type, truncated inside the length / count. -/
theorem decodeItem_len_short (hl : lookup T t.toNat = some (cls, len, hf))
    (hc : (cls == "DataArray" || cls == "DataStructure") = true ∨ len = -1)
    (n : Nat) (hn : byteLen n ≤ 127) (q : Bytes) (hq : q <+: lenPrefix n) (hne : q ≠ lenPrefix n) :
    decodeItem T (fuel + 1) (t :: q) = .error .decode := by
  rw [decodeItem]
  simp only [hl, axdrLen_short n hn q hq hne]
  rcases hc with hc | hc
  · simp [hc]
  · subst hc; simp

/-- array / structure: the count, then that many items. -/
theorem decodeItem_container (hl : lookup T t.toNat = some (cls, len, hf))
    (hc : (cls == "DataArray" || cls == "DataStructure") = true)
    (n : Nat) (hn : byteLen n ≤ 127) (body : Bytes) :
    decodeItem T (fuel + 1) (t :: (lenPrefix n ++ body)) =
      match decodeN T fuel n body with
      | .error e => .error e
      | .ok (vs, r) => .ok (.list vs, r) := by
  rw [decodeItem]
  simp only [hl, hc, axdrLen_lenPrefix _ hn]
  rcases decodeN T fuel n body with e | ⟨vs, r⟩ <;> simp

/-- fixed-size type: every proper prefix of `tag :: body` is refused, with any fuel. -/
theorem decodeItem_fixed_prefix (hl : lookup T t.toNat = some (cls, len, hf))
    (hc : (cls == "DataArray" || cls == "DataStructure") = false) (hv : (len == -1) = false)
    (body : Bytes) (hb : body.length = len.toNat) (p : Bytes)
    (hp : p <+: t :: body) (hne : p ≠ t :: body) :
    decodeItem T fuel p = .error .decode := by
  rcases proper_prefix_cons hp hne with rfl | ⟨q, rfl, hq, hqne⟩
  · exact decodeItem_nil T fuel
  · cases fuel with
    | zero => simp [decodeItem]
    | succ k =>
      have := proper_prefix_length hq hqne
      exact decodeItem_fixed_short T t cls len hf k hl hc hv q (by omega)

/-- length-prefixed type: every proper prefix of `tag :: len ++ data` is refused. -/
theorem decodeItem_var_prefix (hl : lookup T t.toNat = some (cls, -1, hf))
    (hc : (cls == "DataArray" || cls == "DataStructure") = false)
    (data : Bytes) (hn : byteLen data.length ≤ 127) (p : Bytes)
    (hp : p <+: t :: (lenPrefix data.length ++ data)) (hne : p ≠ t :: (lenPrefix data.length ++ data)) :
    decodeItem T fuel p = .error .decode := by
  rcases proper_prefix_cons hp hne with rfl | ⟨q, rfl, hq, hqne⟩
  · exact decodeItem_nil T fuel
  · cases fuel with
    | zero => simp [decodeItem]
    | succ k =>
      rcases proper_prefix_append hq hqne with ⟨h1, h2⟩ | ⟨q', rfl, h1, h2⟩
      · exact decodeItem_len_short T t cls (-1) hf k hl (.inr rfl) _ hn q h1 h2
      · exact decodeItem_var_short T t cls hf k hl hc _ hn q' (proper_prefix_length h1 h2)

end step

end Lemmas.Axdr
