/-
  The algebra of CRC-16/X-25 behind C12 (residue) and C09 (fault detection), over the
  bit-serial definition of Spec.Crc only.  Nothing here depends on the code under
  verification (no import of DlmsVerif.Gen.*).

  * `lsbStep` is GF(2)-linear and injective; the byte step is eight bit steps.
  * residue: a message followed by its check value leaves `iter lsbStep 16 0xFFFF`.
  * errors: the register is affine in the message, so an undetected error `e` has
    `reg0 e = 0`; this is impossible for odd weight (parity, i.e. the factor x+1), for a
    burst of at most 16 bits (injectivity) and for two bits less than 32767 positions
    apart (the order of the step map on the unit vector, checked by the kernel in chunks).
-/
import DlmsVerif.Basic
import DlmsVerif.Spec.Crc
import DlmsVerif.Lemmas.CrcFaultDefs

namespace Lemmas.CrcAlgebra
open Spec.Crc Lemmas.CrcFaultDefs

/-! ### iteration -/

theorem iter_succ' {α : Type} (f : α → α) (n : Nat) (a : α) : iter f (n+1) a = f (iter f n a) := by
  induction n generalizing a with
  | zero => rfl
  | succ n ih => rw [iter, ih]; rfl

theorem iter_add {α : Type} (f : α → α) (a b : Nat) (x : α) :
    iter f (a + b) x = iter f b (iter f a x) := by
  induction a generalizing x with
  | zero => simp [iter]
  | succ a ih => rw [Nat.add_right_comm, iter, ih]; rfl

/-! ### linearity and injectivity of the register step -/

theorem xor4 (x y p : BitVec 16) : (x ^^^ p) ^^^ (y ^^^ p) = x ^^^ y := by
  apply BitVec.eq_of_getLsbD_eq; intro i _
  simp only [BitVec.getLsbD_xor]
  cases x.getLsbD i <;> cases y.getLsbD i <;> cases p.getLsbD i <;> rfl

theorem lsbStep_xor (a b : BitVec 16) : lsbStep (a ^^^ b) = lsbStep a ^^^ lsbStep b := by
  unfold lsbStep
  simp only [BitVec.getLsbD_xor, BitVec.ushiftRight_xor_distrib]
  cases a.getLsbD 0 <;> cases b.getLsbD 0 <;>
    simp only [Bool.xor_false, Bool.xor_true, Bool.not_false, Bool.not_true, if_true, if_false,
      Bool.false_eq_true]
  · ac_rfl
  · ac_rfl
  · rw [xor4]

theorem lsbStep_zero : lsbStep 0 = 0 := by decide

theorem iter_xor (n : Nat) (a b : BitVec 16) :
    iter lsbStep n (a ^^^ b) = iter lsbStep n a ^^^ iter lsbStep n b := by
  induction n generalizing a b with
  | zero => rfl
  | succ n ih => simp only [iter, lsbStep_xor, ih]

theorem iter_zero (n : Nat) : iter lsbStep n 0 = 0 := by
  induction n with
  | zero => rfl
  | succ n ih => simp only [iter, lsbStep_zero, ih]

theorem poly_bits : ∀ i, i < 16 → (0x8408#16).getLsbD i = (i == 3 || i == 10 || i == 15) := by decide

theorem lsbStep_eq_zero (r : BitVec 16) (h : lsbStep r = 0) : r = 0 := by
  unfold lsbStep at h
  by_cases h0 : r.getLsbD 0 = true
  · rw [if_pos h0] at h
    have := congrArg (fun x => x.getLsbD 15) h
    simp at this
  · rw [if_neg h0] at h
    apply BitVec.eq_of_getLsbD_eq; intro i hi
    cases i with
    | zero => simpa using h0
    | succ i =>
      have := congrArg (fun x => x.getLsbD i) h
      simpa [BitVec.getLsbD_ushiftRight, Nat.add_comm] using this

theorem iter_eq_zero (n : Nat) (r : BitVec 16) (h : iter lsbStep n r = 0) : r = 0 := by
  induction n generalizing r with
  | zero => exact h
  | succ n ih => exact lsbStep_eq_zero r (ih _ h)

/-- shifting in a zero from the right and stepping cancels (no feedback). -/
theorem lsbStep_shl (c : BitVec 16) (h : c.getLsbD 15 = false) : lsbStep (c <<< 1) = c := by
  unfold lsbStep
  have h0 : (c <<< 1).getLsbD 0 = false := by simp
  rw [h0]
  simp only [Bool.false_eq_true, if_false]
  apply BitVec.eq_of_getLsbD_eq; intro i hi
  simp only [BitVec.getLsbD_ushiftRight, BitVec.getLsbD_shiftLeft]
  have e : 1 + i - 1 = i := by omega
  rw [e]
  by_cases h15 : i = 15
  · subst h15; rw [h]; simp
  · have h1 : 1 + i < 16 := by omega
    have h2 : ¬ (1 + i < 1) := by omega
    simp [h1, h2]

/-! ### bytes, and the residue -/

/-- a byte as a register value (what `x25Byte` XORs into the low byte). -/
def ext (b : UInt8) : BitVec 16 := b.toBitVec.setWidth 16

theorem x25Byte_eq (r : BitVec 16) (b : UInt8) : x25Byte r b = iter lsbStep 8 (r ^^^ ext b) := rfl

theorem ext_bits (b : UInt8) (i : Nat) : (ext b).getLsbD i = (decide (i < 8) && b.toNat.testBit i) := by
  unfold ext
  rw [BitVec.getLsbD_setWidth]
  by_cases h : i < 8
  · have : i < 16 := by omega
    simp only [h, this, decide_true, Bool.true_and]
    rfl
  · have : b.toBitVec.getLsbD i = false := BitVec.getLsbD_of_ge _ _ (by omega)
    simp [h, this]

theorem ext_high (b : UInt8) (i : Nat) (h : 8 ≤ i) : (ext b).getLsbD i = false := by
  rw [ext_bits]; have : ¬ i < 8 := by omega
  simp [this]

theorem ext_xor (a b : UInt8) : ext (a ^^^ b) = ext a ^^^ ext b := by
  unfold ext
  rw [UInt8.toBitVec_xor, BitVec.setWidth_xor]

theorem iter_shl (n : Nat) (y : BitVec 16) (hn : n ≤ 8) (hy : ∀ i, 8 ≤ i → y.getLsbD i = false) :
    iter lsbStep n (y <<< n) = y := by
  induction n with
  | zero => simp [iter]
  | succ n ih =>
    rw [BitVec.shiftLeft_add, iter, lsbStep_shl, ih (by omega)]
    rw [BitVec.getLsbD_shiftLeft, hy (15 - n) (by omega)]
    simp

theorem split_bytes (c : BitVec 16) : c = ext (lo c) ^^^ (ext (hi c) <<< 8) := by
  apply BitVec.eq_of_getLsbD_eq; intro i hlt
  simp only [BitVec.getLsbD_xor, BitVec.getLsbD_shiftLeft, ext, lo, hi, BitVec.getLsbD_setWidth,
    BitVec.getLsbD_ushiftRight]
  by_cases h : i < 8
  · simp [h, hlt]
  · have h1 : i - 8 < 8 := by omega
    have h2 : i - 8 < 16 := by omega
    have h3 : 8 + (i - 8) = i := by omega
    simp [h, hlt, h1, h2, h3]

/-- feeding the two bytes of `c`, low byte first, is sixteen steps after XOR-ing `c`. -/
theorem two_bytes (r c : BitVec 16) :
    x25Byte (x25Byte r (lo c)) (hi c) = iter lsbStep 16 (r ^^^ c) := by
  have e16 : ∀ x, iter lsbStep 16 x = iter lsbStep 8 (iter lsbStep 8 x) := fun x => iter_add lsbStep 8 8 x
  rw [x25Byte_eq, x25Byte_eq, e16]
  conv => rhs; rw [split_bytes c, ← BitVec.xor_assoc, iter_xor 8 (r ^^^ ext (lo c)),
    iter_shl 8 _ (Nat.le_refl _) (ext_high _)]

theorem xor_not_self (r : BitVec 16) : r ^^^ ~~~r = 0xFFFF#16 := by
  apply BitVec.eq_of_getLsbD_eq; intro i hi
  have : (0xFFFF#16).getLsbD i = true := by
    revert i; decide
  rw [this]
  simp [hi]

theorem residue_const : iter lsbStep 16 0xFFFF#16 = residue := by decide +kernel

/-- **residue**: a message followed by its check value leaves the fixed X-25 residue. -/
theorem x25reg_append_fcs (m : Bytes) : x25reg (m ++ fcs m) = residue := by
  unfold x25reg fcs x25
  rw [List.foldl_append]
  simp only [List.foldl_cons, List.foldl_nil]
  rw [two_bytes, ← x25reg, xor_not_self, residue_const]

/-! ### the register bit by bit -/

def bit (b : Bool) : BitVec 16 := if b then 1#16 else 0#16

/-- feed one bit: XOR into bit 0, then one register step. -/
def bitStep (r : BitVec 16) (b : Bool) : BitVec 16 := lsbStep (r ^^^ bit b)

def run (r : BitVec 16) (W : List Bool) : BitVec 16 := W.foldl bitStep r

/-- a list of at most 16 bits as a word, first bit = bit 0. -/
def word : List Bool → BitVec 16
  | [] => 0
  | b :: W => (word W <<< 1) ^^^ bit b

theorem bit_bits (b : Bool) (i : Nat) : (bit b).getLsbD i = (decide (i = 0) && b) := by
  cases b <;> cases i <;> simp [bit]

theorem word_bits (W : List Bool) (i : Nat) (hi : i < 16) : (word W).getLsbD i = W.getD i false := by
  induction W generalizing i with
  | nil => simp [word]
  | cons b W ih =>
    simp only [word, BitVec.getLsbD_xor, BitVec.getLsbD_shiftLeft, bit_bits]
    cases i with
    | zero => simp
    | succ i => simp [hi, ih i (by omega)]

theorem run_append (r : BitVec 16) (A B : List Bool) : run r (A ++ B) = run (run r A) B := by
  simp [run, List.foldl_append]

theorem run_cons (r : BitVec 16) (b : Bool) (W : List Bool) : run r (b :: W) = run (bitStep r b) W := rfl

theorem bitStep_false (r : BitVec 16) : bitStep r false = lsbStep r := by
  simp [bitStep, bit]

theorem run_false (n : Nat) (r : BitVec 16) : run r (List.replicate n false) = iter lsbStep n r := by
  induction n generalizing r with
  | zero => rfl
  | succ n ih => rw [List.replicate_succ, run_cons, bitStep_false, ih]; rfl

theorem run_word (W : List Bool) (r : BitVec 16) (h : W.length ≤ 16) :
    run r W = iter lsbStep W.length (r ^^^ word W) := by
  induction W generalizing r with
  | nil => simp [run, word, iter]
  | cons b W ih =>
    have h15 : (word W).getLsbD 15 = false := by
      rw [word_bits _ _ (by omega)]
      simp only [List.length_cons] at h
      simp [List.getD_eq_getElem?_getD, List.getElem?_eq_none (show W.length ≤ 15 by omega)]
    rw [run_cons, ih _ (by simp at h; omega)]
    simp only [List.length_cons, iter, word, bitStep]
    congr 1
    have e : r ^^^ (word W <<< 1 ^^^ bit b) = (r ^^^ bit b) ^^^ (word W <<< 1) := by ac_rfl
    rw [e, lsbStep_xor (r ^^^ bit b), lsbStep_shl _ h15]

/-- the bits of one byte in transmission order. -/
def byteBits (b : UInt8) : List Bool := (List.range 8).map fun j => b.toNat.testBit j

theorem word_byteBits (b : UInt8) : word (byteBits b) = ext b := by
  apply BitVec.eq_of_getLsbD_eq; intro i hi
  rw [word_bits _ _ hi, ext_bits]
  unfold byteBits
  by_cases h : i < 8 <;> simp [List.getD_eq_getElem?_getD, h]

theorem x25Byte_run (r : BitVec 16) (b : UInt8) : x25Byte r b = run r (byteBits b) := by
  rw [run_word _ _ (by simp [byteBits]), word_byteBits, x25Byte_eq]
  simp [byteBits]

theorem bitsOf_cons (b : UInt8) (e : Bytes) : bitsOf (b :: e) = byteBits b ++ bitsOf e := by
  simp [bitsOf, byteBits]

theorem bitsOf_length (e : Bytes) : (bitsOf e).length = 8 * e.length := by
  induction e with
  | nil => rfl
  | cons b e ih => rw [bitsOf_cons, List.length_append, ih]; simp [byteBits]; omega

theorem foldl_run (e : Bytes) (r : BitVec 16) : e.foldl x25Byte r = run r (bitsOf e) := by
  induction e generalizing r with
  | nil => rfl
  | cons b e ih => rw [List.foldl_cons, ih, bitsOf_cons, run_append, x25Byte_run]

/-! ### parity (the factor x+1 of the generator): odd-weight errors -/

/-- XOR of the bits below `n`. -/
def par : Nat → BitVec 16 → Bool
  | 0, _ => false
  | n+1, r => par n r ^^ r.getLsbD n

theorem par_xor (n : Nat) (a b : BitVec 16) : par n (a ^^^ b) = (par n a ^^ par n b) := by
  induction n with
  | zero => rfl
  | succ n ih =>
    simp only [par, ih, BitVec.getLsbD_xor]
    cases par n a <;> cases par n b <;> cases a.getLsbD n <;> cases b.getLsbD n <;> rfl

theorem par_shr (n : Nat) (r : BitVec 16) : par n (r >>> 1) = (par (n+1) r ^^ r.getLsbD 0) := by
  induction n with
  | zero => simp [par]
  | succ n ih =>
    rw [par, ih, BitVec.getLsbD_ushiftRight, Nat.add_comm 1 n]
    simp only [par]
    cases par n r <;> cases r.getLsbD n <;> cases r.getLsbD 0 <;> cases r.getLsbD (n+1) <;> rfl

theorem par_17 (r : BitVec 16) : par 17 r = par 16 r := by
  have : r.getLsbD 16 = false := BitVec.getLsbD_of_ge _ _ (by omega)
  rw [par, this]; simp

theorem par_poly : par 16 0x8408#16 = true := by decide

theorem par_lsbStep (r : BitVec 16) : par 16 (lsbStep r) = par 16 r := by
  unfold lsbStep
  cases h : r.getLsbD 0
  · simp only [Bool.false_eq_true, if_false]
    rw [par_shr, par_17, h]; simp
  · simp only [if_true]
    rw [par_xor, par_shr, par_17, h, par_poly]; simp

theorem par_bit (b : Bool) : par 16 (bit b) = b := by cases b <;> decide

theorem par_bitStep (r : BitVec 16) (b : Bool) : par 16 (bitStep r b) = (par 16 r ^^ b) := by
  rw [bitStep, par_lsbStep, par_xor, par_bit]

theorem par_run (W : List Bool) (r : BitVec 16) :
    par 16 (run r W) = (par 16 r ^^ decide (W.count true % 2 = 1)) := by
  induction W generalizing r with
  | nil => simp [run]
  | cons b W ih =>
    rw [run_cons, ih, par_bitStep, List.count_cons]
    cases b
    · simp
    · by_cases h : W.count true % 2 = 1
      · have : ¬ (W.count true + 1) % 2 = 1 := by omega
        simp [h, this]
      · have : (W.count true + 1) % 2 = 1 := by omega
        simp [h, this]

theorem run_odd (W : List Bool) (h : W.count true % 2 = 1) : run 0 W ≠ 0 := by
  intro hz
  have := par_run W 0
  rw [hz] at this
  simp [h] at this

/-! ### the order of the step map on the unit vector: double-bit errors

  `iter lsbStep d 1 ≠ 1` for `0 < d < 32767` (x has order 32767 modulo the generator).
  The orbit is walked by the kernel on plain naturals, in eight chunks. -/

def stepN (n : Nat) : Nat := if n % 2 = 1 then (n / 2) ^^^ 0x8408 else n / 2

def iterN : Nat → Nat → Nat
  | 0, s => s
  | n+1, s => iterN n (stepN s)

/-- walk `n` steps from `s`; `none` as soon as `v` is met, else the end state. -/
def orbitN (v : Nat) : Nat → Nat → Option Nat
  | 0, s => some s
  | n+1, s => if stepN s = v then none else orbitN v n (stepN s)

theorem lsbStep_toNat (r : BitVec 16) : (lsbStep r).toNat = stepN r.toNat := by
  unfold lsbStep stepN
  have h0 : r.getLsbD 0 = decide (r.toNat % 2 = 1) := by
    rw [BitVec.getLsbD, Nat.testBit_zero]
  rw [h0]
  by_cases h : r.toNat % 2 = 1
  · simp [h, BitVec.toNat_xor, BitVec.toNat_ushiftRight, Nat.shiftRight_eq_div_pow]
  · simp [h, BitVec.toNat_ushiftRight, Nat.shiftRight_eq_div_pow]

theorem iter_toNat (n : Nat) (r : BitVec 16) : (iter lsbStep n r).toNat = iterN n r.toNat := by
  induction n generalizing r with
  | zero => rfl
  | succ n ih => rw [iter, ih, lsbStep_toNat]; rfl

theorem iterN_add (a b s : Nat) : iterN (a + b) s = iterN b (iterN a s) := by
  induction a generalizing s with
  | zero => simp [iterN]
  | succ a ih => rw [Nat.add_right_comm, iterN, ih]; rfl

/-- `n` steps from `s` end in `t` and never meet `v` on the way (the start excluded). -/
def Avoids (v s n t : Nat) : Prop := iterN n s = t ∧ ∀ d, 0 < d → d ≤ n → iterN d s ≠ v

theorem orbitN_sound (v n s t : Nat) (h : orbitN v n s = some t) : Avoids v s n t := by
  induction n generalizing s with
  | zero =>
    simp only [orbitN, Option.some.injEq] at h
    exact ⟨h, fun d h1 h2 => by omega⟩
  | succ n ih =>
    rw [orbitN] at h
    by_cases hv : stepN s = v
    · simp [hv] at h
    · rw [if_neg hv] at h
      obtain ⟨h1, h2⟩ := ih _ h
      refine ⟨h1, fun d hd1 hd2 => ?_⟩
      obtain ⟨d', rfl⟩ : ∃ d', d = d' + 1 := ⟨d - 1, by omega⟩
      cases d' with
      | zero => exact hv
      | succ d' => exact h2 (d' + 1) (by omega) (by omega)

theorem Avoids.trans {v s a t b u : Nat} (h1 : Avoids v s a t) (h2 : Avoids v t b u) :
    Avoids v s (a + b) u := by
  refine ⟨by rw [iterN_add, h1.1, h2.1], fun d hd1 hd2 => ?_⟩
  by_cases h : d ≤ a
  · exact h1.2 d hd1 h
  · obtain ⟨d', rfl⟩ : ∃ d', d = a + d' := ⟨d - a, by omega⟩
    rw [iterN_add, h1.1]
    exact h2.2 d' (by omega) (by omega)

theorem chunk0 : orbitN 1 4096 1 = some 34322 := by decide +kernel
theorem chunk1 : orbitN 1 4096 34322 = some 25348 := by decide +kernel
theorem chunk2 : orbitN 1 4096 25348 = some 62335 := by decide +kernel
theorem chunk3 : orbitN 1 4096 62335 = some 22177 := by decide +kernel
theorem chunk4 : orbitN 1 4096 22177 = some 60765 := by decide +kernel
theorem chunk5 : orbitN 1 4096 60765 = some 53560 := by decide +kernel
theorem chunk6 : orbitN 1 4096 53560 = some 4953 := by decide +kernel
theorem chunk7 : orbitN 1 4094 4953 = some 2 := by decide +kernel

theorem orbit_one : Avoids 1 1 32766 2 := by
  have h := (((((((orbitN_sound _ _ _ _ chunk0).trans (orbitN_sound _ _ _ _ chunk1)).trans
    (orbitN_sound _ _ _ _ chunk2)).trans (orbitN_sound _ _ _ _ chunk3)).trans
    (orbitN_sound _ _ _ _ chunk4)).trans (orbitN_sound _ _ _ _ chunk5)).trans
    (orbitN_sound _ _ _ _ chunk6)).trans (orbitN_sound _ _ _ _ chunk7)
  have e : 4096 + 4096 + 4096 + 4096 + 4096 + 4096 + 4096 + 4094 = 32766 := by omega
  rw [e] at h
  exact h

/-- the unit vector does not return to itself in fewer than 32767 steps. -/
theorem order_one (d : Nat) (h1 : 0 < d) (h2 : d < 32767) : iter lsbStep d 1#16 ≠ 1#16 := by
  intro h
  have := congrArg BitVec.toNat h
  rw [iter_toNat] at this
  exact orbit_one.2 d h1 (by omega) this

/-! ### shapes of sparse bit strings -/

theorem allFalse_of_count (W : List Bool) (h : W.count true = 0) :
    W = List.replicate W.length false := by
  induction W with
  | nil => rfl
  | cons b W ih =>
    rw [List.count_cons] at h
    cases b
    · simp at h
      rw [List.length_cons, List.replicate_succ, ← ih h]
    · simp at h

theorem split_first (W : List Bool) (n : Nat) (h : W.count true = n + 1) :
    ∃ a rest, W = List.replicate a false ++ true :: rest ∧ rest.count true = n := by
  induction W with
  | nil => simp at h
  | cons b W ih =>
    rw [List.count_cons] at h
    cases b
    · simp at h
      obtain ⟨a, rest, h1, h2⟩ := ih h
      exact ⟨a + 1, rest, by rw [List.replicate_succ, List.cons_append, ← h1], h2⟩
    · simp at h
      exact ⟨0, W, rfl, h⟩

theorem allFalse_of_getD (W : List Bool) (h : ∀ i, W.getD i false = false) :
    W = List.replicate W.length false := by
  induction W with
  | nil => rfl
  | cons b W ih =>
    have h0 := h 0
    simp at h0
    subst h0
    rw [List.length_cons, List.replicate_succ, ← ih (fun i => by simpa using h (i+1))]

theorem window_split (k : Nat) (W : List Bool)
    (h : ∀ i, W.getD i false = true → k ≤ i ∧ i < k + 16) :
    ∃ a M c, W = List.replicate a false ++ M ++ List.replicate c false ∧ M.length ≤ 16 := by
  induction k generalizing W with
  | zero =>
    refine ⟨0, W.take 16, (W.drop 16).length, ?_, by simp; omega⟩
    have : W.drop 16 = List.replicate (W.drop 16).length false := by
      apply allFalse_of_getD
      intro i
      cases hb : (W.drop 16).getD i false
      · rfl
      · have := h (16 + i) (by simpa [List.getD_eq_getElem?_getD] using hb)
        omega
    rw [← this]; simp
  | succ k ih =>
    cases W with
    | nil => exact ⟨0, [], 0, rfl, by simp⟩
    | cons b W =>
      have hb : b = false := by
        cases b
        · rfl
        · have := h 0 (by simp); omega
      subst hb
      obtain ⟨a, M, c, h1, h2⟩ := ih W (fun i hi => by
        have := h (i+1) (by simpa using hi)
        omega)
      exact ⟨a + 1, M, c, by rw [List.replicate_succ, List.cons_append, List.cons_append, ← h1], h2⟩

theorem run_zero_false (a : Nat) (W : List Bool) : run 0 (List.replicate a false ++ W) = run 0 W := by
  rw [run_append, run_false, iter_zero]

/-! ### the register detects every small error -/

/-- a burst: all set bits within 16 consecutive positions. -/
theorem run_burst (W : List Bool) (hw : 0 < W.count true) (k : Nat)
    (h : ∀ i, W.getD i false = true → k ≤ i ∧ i < k + 16) : run 0 W ≠ 0 := by
  obtain ⟨a, M, c, hW, hM⟩ := window_split k W h
  intro hz
  rw [hW, List.append_assoc, run_zero_false, run_append, run_false, run_word _ _ hM] at hz
  have h0 : word M = 0 := by simpa using iter_eq_zero _ _ (iter_eq_zero _ _ hz)
  have hM0 : M = List.replicate M.length false := by
    apply allFalse_of_getD
    intro i
    by_cases hi : i < 16
    · rw [← word_bits _ _ hi, h0]; simp
    · simp [List.getD_eq_getElem?_getD, List.getElem?_eq_none (show M.length ≤ i by omega)]
  rw [hW, hM0] at hw
  simp [List.count_replicate] at hw

/-- two set bits, less than 32767 positions apart. -/
theorem run_double (W : List Bool) (hlen : W.length ≤ 32767) (h : W.count true = 2) : run 0 W ≠ 0 := by
  obtain ⟨a, r1, h1, c1⟩ := split_first W 1 h
  obtain ⟨d, r2, h2, c2⟩ := split_first r1 0 c1
  have h3 := allFalse_of_count r2 c2
  generalize r2.length = c at h3
  subst h3 h2 h1
  intro hz
  have hd : d + 1 < 32767 := by
    simp at hlen; omega
  rw [run_zero_false, run_cons, run_append, run_false, run_cons, run_false] at hz
  have h0 := iter_eq_zero _ _ hz
  simp only [bitStep, bit, if_true] at h0
  have h4 := lsbStep_eq_zero _ h0
  have h5 : iter lsbStep (d + 1) 1#16 = 1#16 := by
    have := congrArg (· ^^^ 1#16) h4
    rw [iter]
    simpa [BitVec.xor_assoc] using this
  exact order_one (d + 1) (by omega) hd h5

theorem run_small (W : List Bool) (hlen : W.length ≤ 32767) (hw : 0 < W.count true)
    (h : W.count true ≤ 3 ∨ ∃ k, ∀ i, W.getD i false = true → k ≤ i ∧ i < k + 16) :
    run 0 W ≠ 0 := by
  rcases h with h | ⟨k, h⟩
  · by_cases h2 : W.count true = 2
    · exact run_double W hlen h2
    · exact run_odd W (by omega)
  · exact run_burst W hw k h

/-! ### byte strings: the register is affine in the message -/

/-- the register run over an error pattern from the zero state. -/
def reg0 (e : Bytes) : BitVec 16 := e.foldl x25Byte 0

theorem x25Byte_xor (r d : BitVec 16) (x y : UInt8) :
    x25Byte (r ^^^ d) (x ^^^ y) = x25Byte r x ^^^ x25Byte d y := by
  rw [x25Byte_eq, x25Byte_eq, x25Byte_eq, ← iter_xor, ext_xor]
  congr 1
  ac_rfl

theorem foldl_affine (a b : Bytes) (r d : BitVec 16) (h : a.length = b.length) :
    (xorBytes a b).foldl x25Byte (r ^^^ d) = a.foldl x25Byte r ^^^ b.foldl x25Byte d := by
  induction a generalizing b r d with
  | nil =>
    cases b with
    | nil => rfl
    | cons y b => simp at h
  | cons x a ih =>
    cases b with
    | nil => simp at h
    | cons y b =>
      simp only [xorBytes, List.zipWith_cons_cons, List.foldl_cons, x25Byte_xor]
      exact ih b _ _ (by simpa using h)

theorem x25reg_xorBytes (a e : Bytes) (h : a.length = e.length) :
    x25reg (xorBytes a e) = x25reg a ^^^ reg0 e := by
  have := foldl_affine a e 0xFFFF#16 0#16 h
  rw [BitVec.xor_zero] at this
  exact this

theorem reg0_ne_zero (e : Bytes) (hlen : 8 * e.length ≤ 32767) (hs : SmallError e) : reg0 e ≠ 0 := by
  unfold reg0
  rw [foldl_run]
  exact run_small _ (by rw [bitsOf_length]; exact hlen) hs.1 hs.2

/-- **the check sequence detects every small error** (register form of C09). -/
theorem detects_small_errors (m e : Bytes) (hl : e.length = m.length + 2)
    (hlen : 8 * (m.length + 2) ≤ 32767) (hs : SmallError e) :
    fcs ((xorBytes (m ++ fcs m) e).take m.length) ≠ (xorBytes (m ++ fcs m) e).drop m.length := by
  intro heq
  have hS : (m ++ fcs m).length = e.length := by simp [fcs, hl]
  have h1 := x25reg_xorBytes (m ++ fcs m) e hS
  have h2 : x25reg (xorBytes (m ++ fcs m) e) = residue := by
    conv => lhs; rw [← List.take_append_drop m.length (xorBytes (m ++ fcs m) e), ← heq]
    exact x25reg_append_fcs _
  rw [h2, x25reg_append_fcs] at h1
  apply reg0_ne_zero e (by rw [hl]; exact hlen) hs
  have := congrArg (residue ^^^ ·) h1
  simpa [← BitVec.xor_assoc] using this.symm

/-! ### error patterns on a string between two untouched bytes (the flags of a frame) -/

theorem xorBytes_length (a b : Bytes) (h : a.length = b.length) : (xorBytes a b).length = b.length := by
  simp [xorBytes, h]

theorem xorBytes_eq_zero (a b : Bytes) (h : a.length = b.length)
    (hz : xorBytes a b = List.replicate b.length 0) : a = b := by
  induction a generalizing b with
  | nil =>
    cases b with
    | nil => rfl
    | cons y b => simp at h
  | cons x a ih =>
    cases b with
    | nil => simp at h
    | cons y b =>
      simp only [xorBytes, List.zipWith_cons_cons, List.length_cons, List.replicate_succ,
        List.cons.injEq] at hz
      have hxy : x = y := by
        have := congrArg (· ^^^ y) hz.1
        simpa [UInt8.xor_assoc] using this
      rw [hxy, ih b (by simpa using h) hz.2]

theorem xorBytes_cancel (a b : Bytes) (h : a.length = b.length) : xorBytes b (xorBytes a b) = a := by
  induction a generalizing b with
  | nil =>
    cases b with
    | nil => rfl
    | cons y b => simp at h
  | cons x a ih =>
    cases b with
    | nil => simp at h
    | cons y b =>
      simp only [xorBytes, List.zipWith_cons_cons, List.cons.injEq]
      refine ⟨?_, ih b (by simpa using h)⟩
      rw [UInt8.xor_comm x y, ← UInt8.xor_assoc]; simp

theorem xorBytes_framed (x y : UInt8) (a b : Bytes) (h : a.length = b.length) :
    xorBytes (x :: a ++ [y]) (x :: b ++ [y]) = 0 :: xorBytes a b ++ [0] := by
  simp only [xorBytes, List.cons_append, List.zipWith_cons_cons, UInt8.xor_self]
  rw [List.zipWith_append h]
  simp

theorem byteBits_zero : byteBits 0 = List.replicate 8 false := by decide

theorem bitsOf_append (a b : Bytes) : bitsOf (a ++ b) = bitsOf a ++ bitsOf b := by
  simp [bitsOf]

theorem bitsOf_framed (e : Bytes) :
    bitsOf (0 :: e ++ [0]) = List.replicate 8 false ++ (bitsOf e ++ List.replicate 8 false) := by
  rw [List.cons_append, bitsOf_cons, bitsOf_append, bitsOf_cons, byteBits_zero]
  simp [bitsOf]

/-- an error that leaves the first and the last byte alone is, on the bytes in between,
    an error of the same kind (same weight; the burst window moves by 8 positions). -/
theorem smallError_framed (e : Bytes) (h : SmallError (0 :: e ++ [0])) : SmallError e := by
  unfold SmallError weight inWindow at *
  rw [bitsOf_framed] at h
  simp only [List.count_append, List.count_replicate] at h
  simp only [show (false == true) = false from rfl, Bool.false_eq_true, if_false, Nat.zero_add,
    Nat.add_zero] at h
  refine ⟨h.1, h.2.imp id ?_⟩
  rintro ⟨k, hk⟩
  refine ⟨k - 8, fun i hi => ?_⟩
  have hlt : i < (bitsOf e).length := by
    by_cases hlt : i < (bitsOf e).length
    · exact hlt
    · simp [List.getD_eq_getElem?_getD, List.getElem?_eq_none (show (bitsOf e).length ≤ i by omega)] at hi
  have := hk (i + 8) (by
    rw [List.getD_eq_getElem?_getD, List.getElem?_append_right (by simp)]
    simp only [List.length_replicate, Nat.add_sub_cancel]
    rw [List.getElem?_append_left hlt, ← List.getD_eq_getElem?_getD]
    exact hi)
  omega

end Lemmas.CrcAlgebra
