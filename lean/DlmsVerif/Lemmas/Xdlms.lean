/- Helper lemmas for C01: field-level round trips of the xDLMS APDU codec. -/
import DlmsVerif.Model.Xdlms
import DlmsVerif.Lemmas.Basic
import DlmsVerif.Lemmas.Fields
import DlmsVerif.Props.C14
import DlmsVerif.Props.C16
import DlmsVerif.Props.C20

namespace Lemmas.Xdlms
open Dlms Spec.Xdlms Model.Xdlms

theorem toNat_ofNat_lt (x : Nat) (h : x < 256) : (UInt8.ofNat x).toNat = x := by
  rw [UInt8.toNat_ofNat']
  exact Nat.mod_eq_of_lt h

/-! ### big-endian pieces as explicit lists -/

theorem be2_split (n : Nat) :
    ∃ b1 b0, beBytes 2 n = [b1, b0] ∧ (n < 65536 → beNat [b1, b0] = n) :=
  ⟨_, _, rfl, fun h => beNat_beBytes_of_lt 2 n (by simpa using h)⟩

theorem be3_split (n : Nat) :
    ∃ b2 b1 b0, beBytes 3 n = [b2, b1, b0] ∧ (n < 2 ^ 24 → beNat [b2, b1, b0] = n) :=
  ⟨_, _, _, rfl, fun h => beNat_beBytes_of_lt 3 n (by simpa using h)⟩

theorem be4_split (n : Nat) :
    ∃ b3 b2 b1 b0, beBytes 4 n = [b3, b2, b1, b0] ∧ (n < 2 ^ 32 → beNat [b3, b2, b1, b0] = n) :=
  ⟨_, _, _, _, rfl, fun h => beNat_beBytes_of_lt 4 n (by simpa using h)⟩

/-! ### invoke-id-and-priority -/

theorem invokeOf_invokeByte (i : Invoke) (h : i.wf = true) : invokeOf (invokeByte i) = i := by
  obtain ⟨id, c, hi⟩ := i
  simp only [Invoke.wf, decide_eq_true_eq] at h
  unfold invokeOf invokeByte Spec.Fields.invokeByte
  have hlt : id + 64 * c.toNat + 128 * hi.toNat < 256 := by
    cases c <;> cases hi <;> simp <;> omega
  simp only [toNat_ofNat_lt _ hlt, Spec.Fields.invokeFields, Nat.testBit_eq_decide_div_mod_eq]
  have e6 : (2 : Nat) ^ 6 = 64 := by decide
  have e7 : (2 : Nat) ^ 7 = 128 := by decide
  rw [e6, e7]
  cases c <;> cases hi <;> simp <;> omega

/-! ### descriptors -/

theorem descOf_descBytes (cs : List Nat) (hcs : ∀ c ∈ cs, c < 65536) (d : Descriptor)
    (h : d.wf cs = true) : (descBytes d).length = 9 ∧ descOf (descBytes d) = some d := by
  obtain ⟨cid, obis, idx⟩ := d
  simp only [Descriptor.wf, Bool.and_eq_true, List.contains_iff_mem, beq_iff_eq, List.all_eq_true,
    decide_eq_true_eq] at h
  obtain ⟨⟨⟨hc, h6⟩, ho⟩, hi⟩ := h
  have hc' := hcs cid hc
  obtain ⟨o0, o1, o2, o3, o4, o5, rfl⟩ : ∃ o0 o1 o2 o3 o4 o5, obis = [o0, o1, o2, o3, o4, o5] := by
    match obis, h6 with
    | [a, b, c, d, e, f], _ => exact ⟨_, _, _, _, _, _, rfl⟩
  have h0 := ho o0 (by simp)
  have h1 := ho o1 (by simp)
  have h2 := ho o2 (by simp)
  have h3 := ho o3 (by simp)
  have h4 := ho o4 (by simp)
  have h5 := ho o5 (by simp)
  obtain ⟨b1, b0, hb, hn⟩ := be2_split cid
  have hn := hn hc'
  simp only [descBytes, hb, List.map_cons, List.map_nil, List.cons_append, List.nil_append]
  refine ⟨rfl, ?_⟩
  simp only [descOf, List.length_cons, List.length_nil, if_true, List.take, List.drop, List.map_cons,
    List.map_nil, List.headD_cons, hn, toNat_ofNat_lt _ h0, toNat_ofNat_lt _ h1, toNat_ofNat_lt _ h2,
    toNat_ofNat_lt _ h3, toNat_ofNat_lt _ h4, toNat_ofNat_lt _ h5, toNat_ofNat_lt _ hi]

theorem desc_take_drop (cs : List Nat) (hcs : ∀ c ∈ cs, c < 65536) (d : Descriptor)
    (h : d.wf cs = true) (t : Bytes) :
    descOf ((descBytes d ++ t).take 9) = some d ∧ (descBytes d ++ t).drop 9 = t := by
  obtain ⟨hl, hd⟩ := descOf_descBytes cs hcs d h
  rw [List.take_left' hl, List.drop_left' hl]
  exact ⟨hd, rfl⟩

/-! ### octet strings -/

theorem takeOctets_octets (bs rest : Bytes) (h : Spec.Axdr.byteLen bs.length ≤ 127) :
    takeOctets (octets bs ++ rest) = some (bs, rest) := by
  unfold takeOctets octets
  rw [List.append_assoc, Props.C14.C14_lenPrefix_roundtrip _ h]
  simp

theorem gloOf_octets (sc ic : Nat) (ct : Bytes) (hsc : sc < 256) (hic : ic < 2 ^ 32)
    (hl : Spec.Axdr.byteLen (5 + ct.length) ≤ 127) :
    gloOf (octets ([UInt8.ofNat sc] ++ beBytes 4 ic ++ ct)) = some (sc, ic, ct) := by
  obtain ⟨b3, b2, b1, b0, hb, hn⟩ := be4_split ic
  have hn := hn hic
  rw [hb]
  have hlen : ([UInt8.ofNat sc] ++ [b3, b2, b1, b0] ++ ct).length = 5 + ct.length := by
    simp only [List.cons_append, List.nil_append, List.length_cons]; omega
  have ht := takeOctets_octets ([UInt8.ofNat sc] ++ [b3, b2, b1, b0] ++ ct) [] (by rw [hlen]; exact hl)
  rw [List.append_nil] at ht
  unfold gloOf
  rw [ht]
  simp only [List.cons_append, List.nil_append, toNat_ofNat_lt _ hsc, hn]

/-! ### conformance block -/

theorem confOf_block (flags : List Bool) (h : flags.length = 17) (rest : Bytes) :
    confOf (conformanceBlock flags ++ rest) = some (flags, rest) := by
  have hpos : Props.C20.genPositions = Spec.Fields.conformancePositions := by decide
  have hsorted : Spec.Fields.conformancePositions.Pairwise (· > ·) := hpos ▸ Props.C20.positions_sorted
  have hlt24 : ∀ p ∈ Spec.Fields.conformancePositions, p < 24 := hpos ▸ Props.C20.positions_lt
  have hl : flags.length = Spec.Fields.conformancePositions.length := by rw [h]; decide
  have hlt := Lemmas.Fields.confEncode_lt Spec.Fields.conformancePositions flags 24 hsorted hlt24
  obtain ⟨c2, c1, c0, hb, hn⟩ := be3_split (Spec.Fields.confEncode Spec.Fields.conformancePositions flags)
  have hn := hn hlt
  unfold conformanceBlock
  rw [hb]
  show some (Spec.Fields.confDecode Spec.Fields.conformancePositions (beNat [c2, c1, c0]), rest) = _
  rw [hn, Lemmas.Fields.confDecode_encode _ _ hsorted hl]

/-! ### long invoke-id-and-priority -/

theorem status_bits (p c b s : Bool) :
    (UInt8.ofNat (16 * s.toNat + 32 * b.toNat + 64 * c.toNat + 128 * p.toNat)).toNat.testBit 7 = p ∧
    (UInt8.ofNat (16 * s.toNat + 32 * b.toNat + 64 * c.toNat + 128 * p.toNat)).toNat.testBit 6 = c ∧
    (UInt8.ofNat (16 * s.toNat + 32 * b.toNat + 64 * c.toNat + 128 * p.toNat)).toNat.testBit 5 = b ∧
    (UInt8.ofNat (16 * s.toNat + 32 * b.toNat + 64 * c.toNat + 128 * p.toNat)).toNat.testBit 4 = s := by
  cases p <;> cases c <;> cases b <;> cases s <;> decide

theorem longInvoke_split (l : LongInvoke) (h : l.wf = true) :
    ∃ s i2 i1 i0, longInvokeBytes l = [s, i2, i1, i0] ∧ beNat [i2, i1, i0] = l.id ∧
      s.toNat.testBit 7 = l.prioritized ∧ s.toNat.testBit 6 = l.confirmed ∧
      s.toNat.testBit 5 = l.breakOnError ∧ s.toNat.testBit 4 = l.selfDescriptive := by
  obtain ⟨id, p, c, b, s⟩ := l
  simp only [LongInvoke.wf, decide_eq_true_eq] at h
  have e24 : (2 : Nat) ^ 24 = 16777216 := by decide
  rw [e24] at h
  obtain ⟨i2, i1, i0, hb, hn⟩ := be3_split id
  have hn := hn (by rw [e24]; exact h)
  have e3 : (256 : Nat) ^ 3 = 16777216 := by decide
  have hW : Spec.Fields.longInvokeWord id p c b s
      = (16 * s.toNat + 32 * b.toNat + 64 * c.toNat + 128 * p.toNat) * 256 ^ 3 + id := by
    unfold Spec.Fields.longInvokeWord
    have e28 : (2 : Nat) ^ 28 = 268435456 := by decide
    have e29 : (2 : Nat) ^ 29 = 536870912 := by decide
    have e30 : (2 : Nat) ^ 30 = 1073741824 := by decide
    have e31 : (2 : Nat) ^ 31 = 2147483648 := by decide
    rw [e28, e29, e30, e31, e3]
    omega
  have hsplit : longInvokeBytes ⟨id, p, c, b, s⟩
      = UInt8.ofNat (Spec.Fields.longInvokeWord id p c b s / 256 ^ 3 % 256)
          :: beBytes 3 (Spec.Fields.longInvokeWord id p c b s) := rfl
  have hbyte : Spec.Fields.longInvokeWord id p c b s / 256 ^ 3 % 256
      = 16 * s.toNat + 32 * b.toNat + 64 * c.toNat + 128 * p.toNat := by
    rw [hW, e3]
    have : 16 * s.toNat + 32 * b.toNat + 64 * c.toNat + 128 * p.toNat < 256 := by
      cases p <;> cases c <;> cases b <;> cases s <;> decide
    omega
  refine ⟨UInt8.ofNat (16 * s.toNat + 32 * b.toNat + 64 * c.toNat + 128 * p.toNat), i2, i1, i0, ?_, hn, ?_⟩
  · rw [hsplit, hbyte]
    congr 1
    rw [hW, beBytes_add_mul, hb]
  · exact status_bits p c b s

/-! ### date-time inside data-notification -/

theorem dt_roundtrip (d : Spec.DateTime.DT) (hv : Spec.DateTime.valid d = true)
    (hm : d.micro % 10000 = 0) (body : Bytes) :
    ¬ (Spec.DateTime.encode d 0 ++ body).length < 12 ∧
    Model.Time.decode ((Spec.DateTime.encode d 0 ++ body).take 12) = .ok (d, 0) ∧
    (Spec.DateTime.encode d 0 ++ body).drop 12 = body := by
  have hl := Props.C16.C16_length d 0
  refine ⟨by rw [List.length_append, hl]; omega, ?_, List.drop_left' hl⟩
  rw [List.take_left' hl, Props.C16.C16_decode_encode d 0 hv (by decide)]
  have : Spec.DateTime.trunc d = d := by
    obtain ⟨y, mo, da, ho, mi, se, mc, off⟩ := d
    simp only [Spec.DateTime.trunc]
    simp only at hm
    congr 1
    omega
  rw [this]

/-! ### data-notification with a date-time, enumeration members, small lengths -/

theorem decode_dn_some (s i2 i1 i0 : UInt8) (more : Bytes) (d : Spec.DateTime.DT) (st : Nat)
    (h1 : ¬ more.length < 12) (h2 : Model.Time.decode (more.take 12) = .ok (d, st)) :
    decode (15 :: s :: i2 :: i1 :: i0 :: 12 :: more) =
      some (.dataNotification
        { id := beNat [i2, i1, i0], prioritized := s.toNat.testBit 7, confirmed := s.toNat.testBit 6,
          breakOnError := s.toNat.testBit 5, selfDescriptive := s.toNat.testBit 4 } (some d) (more.drop 12)) := by
  have e : decode (15 :: s :: i2 :: i1 :: i0 :: 12 :: more) =
      if more.length < 12 then none
      else match Model.Time.decode (more.take 12) with
        | .ok (d, _) => some (.dataNotification
            { id := beNat [i2, i1, i0], prioritized := s.toNat.testBit 7, confirmed := s.toNat.testBit 6,
              breakOnError := s.toNat.testBit 5, selfDescriptive := s.toNat.testBit 4 } (some d) (more.drop 12))
        | .error _ => none := rfl
  rw [e, if_neg h1, h2]

theorem find_any {α} (l : List α) (p q : α → Bool) (h : (l.find? p).any q = true) :
    ∃ x ∈ l, p x = true ∧ q x = true := by
  cases hf : l.find? p with
  | none => simp [hf] at h
  | some x => rw [hf] at h; exact ⟨x, List.mem_of_find?_eq_some hf, List.find?_some hf, h⟩

theorem scLt (sc : Nat) (h : validScByte sc = true) : sc < 256 := by
  simp only [validScByte, Bool.and_eq_true, decide_eq_true_eq] at h
  exact h.1

theorem dar_toNat (x : Nat) (hx : dataAccessResults.contains x = true) : (UInt8.ofNat x).toNat = x := by
  rw [List.contains_iff_mem] at hx
  exact toNat_ofNat_lt x ((by decide : ∀ x ∈ dataAccessResults, x < 256) x hx)

theorem ar_toNat (x : Nat) (hx : actionResults.contains x = true) : (UInt8.ofNat x).toNat = x := by
  rw [List.contains_iff_mem] at hx
  exact toNat_ofNat_lt x ((by decide : ∀ x ∈ actionResults, x < 256) x hx)

theorem byteLen_small (n : Nat) (h : n < 65536) : Spec.Axdr.byteLen n ≤ 127 := by
  rw [Spec.Axdr.byteLen]; split
  · omega
  · rw [Spec.Axdr.byteLen]; split
    · omega
    · omega

end Lemmas.Xdlms
