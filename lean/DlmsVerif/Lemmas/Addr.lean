import DlmsVerif.Model.Addr
import DlmsVerif.Spec.Addr

namespace Lemmas.Addr
open Model.Addr

/-- `_split_address` in arithmetic, for all 16384 values (kernel-decided once). -/
theorem split_all :
    ((List.range 128).all fun h => (List.range 128).all fun l =>
      split (h * 128 + l) == (if h * 128 + l > 127 then some (2 * h) else none, 2 * l)) = true := by
  decide +kernel

theorem split_eq (a : Nat) (h : a < 16384) :
    split a = (if a > 127 then some (2 * (a / 128)) else none, 2 * (a % 128)) := by
  have hall := split_all
  rw [List.all_eq_true] at hall
  have h1 := hall (a / 128) (by simp; omega)
  rw [List.all_eq_true] at h1
  have h2 := h1 (a % 128) (by simp; omega)
  have e : a / 128 * 128 + a % 128 = a := by omega
  rw [e] at h2
  simpa using h2

theorem or_one_all : ((List.range 128).all fun k => (2 * k) ||| 1 == 2 * k + 1) = true := by
  decide +kernel

theorem or_one (k : Nat) (h : k < 128) : (2 * k) ||| 1 = 2 * k + 1 := by
  have hall := or_one_all
  rw [List.all_eq_true] at hall
  simpa using hall k (by simp [h])

end Lemmas.Addr
