/-
  Helper lemmas for C12: the table-driven, MSB-first, bit-reversed computation of
  crc.py equals the bit-serial reflected CRC-16/X-25 of Spec.Crc, for every message.
  Finite facts (256 table entries, 256 reversals, 256 low-byte shifts) are decided by the
  kernel over the tables extracted from the code; the lift to all 2^16 register values
  and all messages is structural (XOR-linearity, bit extensionality, induction).
-/
import DlmsVerif.Gen.Crc
import DlmsVerif.Model.Crc
import DlmsVerif.Spec.Crc

namespace Lemmas.Crc
open Spec.Crc Model.Crc

/-- one step of the MSB-first register, polynomial 0x1021 (what the table encodes). -/
def msbStep (r : BitVec 16) : BitVec 16 :=
  if r.msb then (r <<< 1) ^^^ 0x1021#16 else r <<< 1

theorem xor4 (x y p : BitVec 16) : (x ^^^ p) ^^^ (y ^^^ p) = x ^^^ y := by
  apply BitVec.eq_of_getLsbD_eq; intro i _
  simp only [BitVec.getLsbD_xor]
  cases x.getLsbD i <;> cases y.getLsbD i <;> cases p.getLsbD i <;> rfl

theorem msbStep_xor (a b : BitVec 16) : msbStep (a ^^^ b) = msbStep a ^^^ msbStep b := by
  unfold msbStep
  simp only [BitVec.msb_xor, BitVec.shiftLeft_xor_distrib]
  cases a.msb <;> cases b.msb <;>
    simp only [Bool.xor_false, Bool.xor_true, Bool.not_false, Bool.not_true, if_true, if_false,
      Bool.false_eq_true]
  · ac_rfl
  · ac_rfl
  · rw [xor4]

theorem iter_msb_xor (n : Nat) (a b : BitVec 16) :
    iter msbStep n (a ^^^ b) = iter msbStep n a ^^^ iter msbStep n b := by
  induction n generalizing a b with
  | zero => rfl
  | succ n ih => simp only [iter, msbStep_xor, ih]

theorem reverse_xor (a b : BitVec 16) : (a ^^^ b).reverse = a.reverse ^^^ b.reverse := by
  apply BitVec.eq_of_getLsbD_eq; intro i hi
  simp only [BitVec.getLsbD_reverse, BitVec.getMsbD, BitVec.getLsbD_xor]
  cases decide (i < 16) <;> simp

theorem reflect (r : BitVec 16) : (msbStep r).reverse = lsbStep r.reverse := by
  unfold msbStep lsbStep
  have h0 : r.reverse.getLsbD 0 = r.msb := by
    rw [BitVec.getLsbD_reverse]; simp [BitVec.msb]
  rw [h0]
  have h1 : (r <<< 1).reverse = r.reverse >>> 1 := by
    apply BitVec.eq_of_getLsbD_eq; intro i hi
    simp only [BitVec.getLsbD_reverse, BitVec.getMsbD, BitVec.getLsbD_shiftLeft,
      BitVec.getLsbD_ushiftRight]
    have e : 16 - 1 - i - 1 = 16 - 1 - (1+i) := by omega
    rw [e]
    by_cases h : i < 15
    · have h2 : 1 + i < 16 := by omega
      have h3 : 16 - 1 - i < 16 := by omega
      have h4 : ¬ (16 - 1 - i < 1) := by omega
      simp [hi, h2, h3, h4]
    · have h2 : ¬ (1 + i < 16) := by omega
      have h4 : (16 - 1 - i < 1) := by omega
      simp [h2, h4]
  have h2 : (0x1021#16).reverse = 0x8408#16 := by decide
  cases r.msb
  · simp [h1]
  · simp [h1, reverse_xor, h2]

theorem iter_reflect (n : Nat) (x : BitVec 16) :
    (iter msbStep n x).reverse = iter lsbStep n x.reverse := by
  induction n generalizing x with
  | zero => rfl
  | succ n ih => simp only [iter, ih, reflect]

/-! ### finite facts about the extracted tables (kernel-decided, 256 cases each) -/

/-- every entry of the code's table is eight MSB-first steps of `index << 8`. -/
theorem table_ok :
    Gen.Crc.crcTable =
      (List.range 256).map (fun i => (iter msbStep 8 (BitVec.ofNat 16 i <<< 8)).toNat) := by
  decide +kernel

/-- the code's `init_crc_table`, as modelled, yields the table the code holds. -/
theorem table_is_initTable :
    Gen.Crc.crcTable = initTable (BitVec.ofNat 16 Gen.Crc.polyConstant) := by
  decide +kernel

/-- `reverse_byte` is bit reversal on all 256 bytes. -/
theorem rev8_ok :
    Gen.Crc.rev8 = (List.range 256).map (fun i => (BitVec.ofNat 8 i).reverse.toNat) := by
  decide +kernel

theorem low_shift_all :
    (List.range 256).all (fun n => iter msbStep 8 (BitVec.ofNat 16 n) == BitVec.ofNat 16 n <<< 8) = true := by
  decide +kernel

theorem getD_table (n : Nat) (h : n < 256) :
    Gen.Crc.crcTable.getD n 0 = (iter msbStep 8 (BitVec.ofNat 16 n <<< 8)).toNat := by
  rw [table_ok]
  simp [List.getD_eq_getElem?_getD, h]

theorem low_shift (x : BitVec 16) (h : x.toNat < 256) : iter msbStep 8 x = x <<< 8 := by
  have := low_shift_all
  rw [List.all_eq_true] at this
  have h2 := this x.toNat (by simp [h])
  simpa using h2

theorem ff_bits : ∀ i, i < 16 → (255#16).getLsbD i = decide (i < 8) := by decide
theorem ff00_bits : ∀ i, i < 16 → (0xFF00#16).getLsbD i = !decide (i < 8) := by decide

theorem split16 (r : BitVec 16) : r = ((r >>> 8) <<< 8) ^^^ (r &&& 0xFF#16) := by
  apply BitVec.eq_of_getLsbD_eq; intro i hi
  simp only [BitVec.getLsbD_xor, BitVec.getLsbD_shiftLeft, BitVec.getLsbD_ushiftRight, BitVec.getLsbD_and, ff_bits i hi]
  by_cases h : i < 8
  · simp [h, hi]
  · have : 8 + (i - 8) = i := by omega
    simp [h, hi, this]

theorem hi_mask (r : BitVec 16) : (r >>> 8) &&& 0xFF#16 = r >>> 8 := by
  apply BitVec.eq_of_getLsbD_eq; intro i hi
  simp only [BitVec.getLsbD_ushiftRight, BitVec.getLsbD_and, ff_bits i hi]
  by_cases h : i < 8
  · simp [h]
  · have : r.getLsbD (8 + i) = false := by
      apply BitVec.getLsbD_of_ge; omega
    simp [h, this]

theorem lo_shift (r : BitVec 16) : (r <<< 8) &&& 0xFF00#16 = (r &&& 0xFF#16) <<< 8 := by
  apply BitVec.eq_of_getLsbD_eq; intro i hi
  simp only [BitVec.getLsbD_shiftLeft, BitVec.getLsbD_and, ff00_bits i hi]
  by_cases h : i < 8
  · simp [h]
  · have h8 : i - 8 < 16 := by omega
    have h9 : i - 8 < 8 := by omega
    simp [h, hi, ff_bits (i-8) h8, h9]

theorem toNat_hi_lt (r : BitVec 16) : (r >>> 8).toNat < 256 := by
  rw [BitVec.toNat_ushiftRight, Nat.shiftRight_eq_div_pow]
  have := r.isLt
  omega

theorem toNat_lo_lt (r : BitVec 16) : (r &&& 0xFF#16).toNat < 256 := by
  rw [BitVec.toNat_and]
  exact Nat.lt_of_le_of_lt Nat.and_le_right (by decide)

/-- the table-driven byte update equals eight bit-serial steps. -/
theorem calcStep_eq (r c : BitVec 16) (hc : c.toNat < 256) :
    calcStep Gen.Crc.crcTable r c = iter msbStep 8 (r ^^^ (c <<< 8)) := by
  unfold calcStep
  simp only [hi_mask, lo_shift]
  have hidx : ((r >>> 8) ^^^ c).toNat < 256 := by
    rw [BitVec.toNat_xor]
    exact Nat.xor_lt_two_pow (n := 8) (toNat_hi_lt r) hc
  rw [getD_table _ hidx]
  simp only [BitVec.ofNat_toNat, BitVec.setWidth_eq]
  rw [← low_shift _ (toNat_lo_lt r), ← iter_msb_xor]
  congr 1
  conv => rhs; rw [split16 r]
  simp only [BitVec.shiftLeft_xor_distrib]
  ac_rfl

def revc (b : UInt8) : BitVec 16 := BitVec.ofNat 16 (Gen.Crc.rev8.getD b.toNat 0)

theorem getD_rev8 (x : BitVec 8) : Gen.Crc.rev8.getD x.toNat 0 = x.reverse.toNat := by
  rw [rev8_ok]
  have h := x.isLt
  simp [List.getD_eq_getElem?_getD, h]

theorem revc_eq (b : UInt8) : revc b = b.toBitVec.reverse.setWidth 16 := by
  unfold revc
  have : b.toNat = b.toBitVec.toNat := rfl
  rw [this, getD_rev8]
  simp

theorem revc_lt (b : UInt8) : (revc b).toNat < 256 := by
  rw [revc_eq]
  simp
  have := (b.toBitVec.reverse).isLt
  omega

theorem reverse_reverse {w : Nat} (x : BitVec w) : x.reverse.reverse = x := by
  apply BitVec.eq_of_getLsbD_eq; intro i hi
  rw [BitVec.getLsbD_reverse, BitVec.getMsbD_reverse]

theorem reverse_low (b : BitVec 8) : (b.setWidth 16).reverse = (b.reverse.setWidth 16) <<< 8 := by
  apply BitVec.eq_of_getLsbD_eq; intro i hi
  simp only [BitVec.getLsbD_reverse, BitVec.getMsbD, BitVec.getLsbD_shiftLeft, BitVec.getLsbD_setWidth]
  by_cases h : i < 8
  · simp [h, hi]
    intro _
    apply BitVec.getLsbD_of_ge; omega
  · have h1 : 16 - 1 - i < 8 := by omega
    have h2 : i - 8 < 8 := by omega
    have h3 : 16 - 1 - i < 16 := by omega
    have h4 : i - 8 < 16 := by omega
    have h5 : 8 - 1 - (i - 8) = 16 - 1 - i := by omega
    simp [h, hi, h1, h2, h3, h4, h5]

theorem step_reflect (s : BitVec 16) (b : UInt8) :
    calcStep Gen.Crc.crcTable s.reverse (revc b) = (x25Byte s b).reverse := by
  rw [calcStep_eq _ _ (revc_lt b), x25Byte]
  have e : s.reverse ^^^ (revc b <<< 8) = (s ^^^ b.toBitVec.setWidth 16).reverse := by
    rw [reverse_xor, reverse_low, revc_eq]
  rw [e]
  have := iter_reflect 8 (s ^^^ b.toBitVec.setWidth 16).reverse
  rw [reverse_reverse] at this
  rw [← this, reverse_reverse]

theorem fold_reflect (m : Bytes) (s : BitVec 16) :
    (m.map revc).foldl (calcStep Gen.Crc.crcTable) s.reverse = (m.foldl x25Byte s).reverse := by
  induction m generalizing s with
  | nil => rfl
  | cons b m ih => simp only [List.map_cons, List.foldl_cons, step_reflect, ih]

theorem calculate_eq (m : Bytes) :
    calculate Gen.Crc.crcTable Gen.Crc.startingValue (m.map revc) = (x25reg m).reverse := by
  unfold calculate x25reg
  have : BitVec.ofNat 16 Gen.Crc.startingValue = (0xFFFF#16).reverse := by decide
  rw [this, fold_reflect]

theorem hi_byte_reverse (s : BitVec 16) :
    ((s.reverse &&& 0xFF00#16) >>> 8) = ((s.setWidth 8).reverse).setWidth 16 := by
  apply BitVec.eq_of_getLsbD_eq; intro i hi
  simp only [BitVec.getLsbD_ushiftRight, BitVec.getLsbD_and, BitVec.getLsbD_reverse, BitVec.getMsbD,
    BitVec.getLsbD_setWidth]
  by_cases h : i < 8
  · have h1 : 8 + i < 16 := by omega
    have h2 : 16 - 1 - (8 + i) = 8 - 1 - i := by omega
    have h3 : 8 - 1 - i < 8 := by omega
    simp [h, hi, h1, h2, h3, ff00_bits (8+i) h1]
  · have h1 : ¬ (8 + i < 16) := by omega
    simp [h, h1]

theorem lo_byte_reverse (s : BitVec 16) :
    (s.reverse &&& 0x00FF#16) = (((s >>> 8).setWidth 8).reverse).setWidth 16 := by
  apply BitVec.eq_of_getLsbD_eq; intro i hi
  simp only [BitVec.getLsbD_ushiftRight, BitVec.getLsbD_and, BitVec.getLsbD_reverse, BitVec.getMsbD,
    BitVec.getLsbD_setWidth, ff_bits i hi]
  by_cases h : i < 8
  · have h2 : 8 + (8 - 1 - i) = 16 - 1 - i := by omega
    have h3 : 8 - 1 - i < 8 := by omega
    simp [h, hi, h2, h3]
  · simp [h]

end Lemmas.Crc
