import DlmsVerif.Spec.Fields
import DlmsVerif.Model.Fields
import DlmsVerif.Lemmas.Basic

namespace Lemmas.Fields
open Spec.Fields

/-- positions strictly decreasing and all below `b` ⇒ the encoded word is below `2^b`. -/
theorem confEncode_lt (ps : List Nat) (fs : List Bool) (b : Nat)
    (hs : ps.Pairwise (· > ·)) (hb : ∀ p ∈ ps, p < b) : confEncode ps fs < 2 ^ b := by
  induction ps generalizing fs b with
  | nil => simp [confEncode]; exact Nat.pow_pos (by decide)
  | cons p ps ih =>
    cases fs with
    | nil => simp [confEncode]; exact Nat.pow_pos (by decide)
    | cons f fs =>
      rw [List.pairwise_cons] at hs
      have hrest := ih fs p hs.2 (fun q hq => hs.1 q hq)
      have hp : p < b := hb p (by simp)
      have h2 : 2 ^ (p + 1) ≤ 2 ^ b := Nat.pow_le_pow_right (by decide) hp
      simp only [confEncode]
      rw [Nat.pow_succ] at h2
      split <;> omega

/-- decoding the encoded word returns every flag (any strictly decreasing position list). -/
theorem confDecode_encode (ps : List Nat) (fs : List Bool)
    (hs : ps.Pairwise (· > ·)) (hl : fs.length = ps.length) :
    confDecode ps (confEncode ps fs) = fs := by
  induction ps generalizing fs with
  | nil => cases fs <;> simp_all [confDecode]
  | cons p ps ih =>
    cases fs with
    | nil => simp at hl
    | cons f fs =>
      rw [List.pairwise_cons] at hs
      have hrest : confEncode ps fs < 2 ^ p := confEncode_lt ps fs p hs.2 (fun q hq => hs.1 q hq)
      simp only [confDecode, confEncode, List.map_cons]
      have hl' : fs.length = ps.length := by simpa using hl
      have ih' := ih fs hs.2 hl'
      unfold confDecode at ih'
      congr 1
      · cases f
        · simp [Nat.testBit_lt_two_pow hrest]
        · simp [Nat.testBit_two_pow_add_eq, Nat.testBit_lt_two_pow hrest]
      · refine Eq.trans (List.map_congr_left ?_) ih'
        intro q hq
        cases f
        · simp
        · simp only [if_true]
          rw [Nat.testBit_two_pow_add_gt (hs.1 q hq)]

theorem confEncode_injective (ps : List Nat) (f g : List Bool)
    (hs : ps.Pairwise (· > ·)) (hf : f.length = ps.length) (hg : g.length = ps.length)
    (h : confEncode ps f = confEncode ps g) : f = g := by
  rw [← confDecode_encode ps f hs hf, ← confDecode_encode ps g hs hg, h]

end Lemmas.Fields

namespace Lemmas.Fields

theorem and_two_pow' (w p : Nat) : w &&& 2 ^ p = if w.testBit p then 2 ^ p else 0 := by
  apply Nat.eq_of_testBit_eq; intro i
  rw [Nat.testBit_and, Nat.testBit_two_pow]
  by_cases h : p = i
  · subst h; cases hw : w.testBit p <;> simp [Nat.testBit_two_pow_self]
  · cases hw : w.testBit p <;> simp [h, Nat.testBit_two_pow_of_ne h]

theorem and_two_pow_ne (w p : Nat) : (w &&& 2 ^ p != 0) = w.testBit p := by
  rw [and_two_pow']
  cases w.testBit p <;> simp

theorem confSum_eq : ∀ ps fs, Model.Fields.confSum ps fs = Spec.Fields.confEncode ps fs
  | [], _ => by simp [Model.Fields.confSum, Spec.Fields.confEncode]
  | _ :: _, [] => by simp [Model.Fields.confSum, Spec.Fields.confEncode]
  | p :: ps, f :: fs => by simp [Model.Fields.confSum, Spec.Fields.confEncode, confSum_eq ps fs]

end Lemmas.Fields
