/- Lemmas on the BER framing of the ACSE APDUs: definite lengths read back, the component
   loop on a sequence of TLVs, nesting well-formedness, and the field decoders on what the
   encoder emits. -/
import DlmsVerif.Model.Acse
import DlmsVerif.Lemmas.Axdr

namespace Lemmas.Acse
open Dlms Spec.Axdr Spec.Acse Model.Acse Lemmas.Axdr

theorem byteLen_le_of_lt : ∀ (k n : Nat), 1 ≤ k → n < 256 ^ k → byteLen n ≤ k := by
  intro k
  induction k with
  | zero => intro n h; omega
  | succ k ih =>
    intro n _ hn
    by_cases h : n < 256
    · rw [byteLen_of_lt h]; omega
    · rw [byteLen_of_ge (by omega)]
      have hk : 1 ≤ k := by
        cases k with
        | zero => simp at hn; omega
        | succ k => omega
      have : n / 256 < 256 ^ k := by
        rw [Nat.pow_succ] at hn
        exact Nat.div_lt_of_lt_mul (by rw [Nat.mul_comm]; exact hn)
      have := ih (n / 256) hk this
      omega

theorem lt_of_byteLen_le {n k : Nat} (h : byteLen n ≤ k) : n < 256 ^ k :=
  Nat.lt_of_lt_of_le (lt_pow_byteLen n) (Nat.pow_le_pow_right (by decide) h)

/-- the largest length a definite-length header can carry, plus one. -/
def big : Nat := 256 ^ 127

theorem big_ge : 65536 ≤ big := by unfold big; decide

theorem byteLen_le_iff (n : Nat) : byteLen n ≤ 127 ↔ n < big :=
  ⟨lt_of_byteLen_le, byteLen_le_of_lt 127 n (by decide)⟩

theorem splitTlv_long (tag l : UInt8) (bs c rest : Bytes) (hl : l.toNat = 128 + bs.length)
    (hb : 0 < bs.length) (hv : beNat bs = c.length) :
    splitTlv (tag :: l :: (bs ++ (c ++ rest))) = some (tag, c, rest) := by
  have e1 : ¬ (128 + bs.length < 128) := by omega
  have e2 : 128 + bs.length - 128 = bs.length := by omega
  have e3 : ¬ (bs.length = 0 ∨ bs.length > (bs ++ (c ++ rest)).length) := by
    rw [List.length_append]; omega
  simp only [splitTlv, hl, e1, e2, e3, ↓reduceIte, List.take_left', List.drop_left', hv]
  simp

theorem splitTlv_tlv (tag : UInt8) (c rest : Bytes) (h : c.length < big) :
    splitTlv (tlv tag c ++ rest) = some (tag, c, rest) := by
  have h := (byteLen_le_iff _).2 h
  unfold tlv berLen lenPrefix
  by_cases hn : c.length < 128
  · have e : (UInt8.ofNat c.length).toNat = c.length := by
      simp [UInt8.toNat_ofNat']; omega
    simp [hn, splitTlv, e]
  · have hk := byteLen_pos c.length
    have e : (UInt8.ofNat (0x80 + byteLen c.length)).toNat = 128 + byteLen c.length := by
      simp [UInt8.toNat_ofNat']; omega
    have l := beBytes_length (byteLen c.length) c.length
    have hv := beNat_beBytes_of_lt _ _ (lt_pow_byteLen c.length)
    simp only [hn, ↓reduceIte, List.cons_append, List.append_assoc]
    exact splitTlv_long _ _ _ _ _ (by rw [e, l]) (by omega) hv

theorem splitTlv_tlv_nil (tag : UInt8) (c : Bytes) (h : c.length < big) :
    splitTlv (tlv tag c) = some (tag, c, []) := by
  have := splitTlv_tlv tag c [] h
  rwa [List.append_nil] at this

/-! ### lengths -/

theorem berLen_length_small {n : Nat} (h : n < 128) : (berLen n).length = 1 := by
  simp [berLen, lenPrefix, h]

theorem berLen_length_le {n : Nat} (h : n < big) : (berLen n).length ≤ 128 := by
  have h := (byteLen_le_iff _).2 h
  unfold berLen lenPrefix
  split
  · simp
  · simp [beBytes_length]; omega

theorem berLen_length_pos (n : Nat) : 1 ≤ (berLen n).length := by
  unfold berLen lenPrefix
  split <;> simp

theorem tlv_length (t : UInt8) (c : Bytes) : (tlv t c).length = c.length + 1 + (berLen c.length).length := by
  simp [tlv]; omega

theorem tlv_small (t : UInt8) (c : Bytes) (h : c.length < 128) : tlv t c = t :: UInt8.ofNat c.length :: c := by
  simp [tlv, berLen, lenPrefix, h]

theorem tlv_append_isEmpty (t : UInt8) (c rest : Bytes) : (tlv t c ++ rest).isEmpty = false := by
  simp [tlv]

/-! ### single / components -/

theorem single_tlv (t : UInt8) (c : Bytes) (h : c.length < big) : single t (tlv t c) = some c := by
  have := splitTlv_tlv t c [] h
  rw [List.append_nil] at this
  simp [single, this]

/-- a sequence of components, encoded. -/
def enc : List (UInt8 × Bytes) → Bytes
  | [] => []
  | p :: r => tlv p.1 p.2 ++ enc r

theorem components_nil (f : Nat) : components f [] = some [] := by
  cases f <;> simp [components]

theorem components_enc (cs : List (UInt8 × Bytes)) (h : ∀ p ∈ cs, p.2.length < big) :
    ∀ f, cs.length ≤ f → components f (enc cs) = some cs := by
  induction cs with
  | nil => intro f _; exact components_nil f
  | cons p r ih =>
    intro f hf
    cases f with
    | zero => simp at hf
    | succ f =>
      have hp := h p (by simp)
      have hr := ih (fun q hq => h q (by simp [hq])) f (by simpa using hf)
      simp only [enc, components, tlv_append_isEmpty, splitTlv_tlv _ _ _ hp, hr]
      simp

theorem enc_length_ge (cs : List (UInt8 × Bytes)) : cs.length ≤ (enc cs).length := by
  induction cs with
  | nil => simp [enc]
  | cons p r ih =>
    simp only [enc, List.length_cons, List.length_append, tlv_length]
    omega

theorem components_enc_self (cs : List (UInt8 × Bytes)) (h : ∀ p ∈ cs, p.2.length < big) :
    components (enc cs).length (enc cs) = some cs :=
  components_enc cs h _ (enc_length_ge cs)

/-! ### berWF -/

theorem berWF_nil (f : Nat) : berWF f [] = true := by
  cases f <;> simp [berWF]

theorem berWF_tlv (f : Nat) (t : UInt8) (c rest : Bytes) (h : c.length < big) :
    berWF (f + 1) (tlv t c ++ rest) =
      ((if t.toNat &&& 0x20 != 0 then berWF f c else true) && berWF f rest) := by
  simp only [berWF, tlv_append_isEmpty, splitTlv_tlv _ _ _ h]
  simp

theorem berWF_succ : ∀ (f : Nat) (x : Bytes), berWF f x = true → berWF (f + 1) x = true := by
  intro f
  induction f with
  | zero =>
    intro x h
    simp [berWF] at h
    subst h; exact berWF_nil _
  | succ f ih =>
    intro x h
    rw [berWF] at h ⊢
    split
    · rfl
    · rename_i hx
      simp only [hx] at h
      cases hs : splitTlv x with
      | none => simp [hs] at h
      | some r =>
        obtain ⟨tag, content, rest⟩ := r
        simp only [hs, Bool.false_eq_true, ↓reduceIte, Bool.and_eq_true] at h ⊢
        refine ⟨?_, ih _ h.2⟩
        split
        · rename_i hc; simp only [hc, ↓reduceIte] at h; exact ih _ h.1
        · rfl

theorem berWF_mono {f g : Nat} {x : Bytes} (h : berWF f x = true) (hfg : f ≤ g) : berWF g x = true := by
  induction hfg with
  | refl => exact h
  | step _ ih => exact berWF_succ _ _ ih

/-! ### lookup -/

theorem lookup_nil (tag : UInt8) : lookup [] tag = none := rfl

theorem lookup_cons (p : UInt8 × Bytes) (cs : List (UInt8 × Bytes)) (tag : UInt8) :
    lookup (p :: cs) tag = (lookup cs tag).or (if p.1 == tag then some p.2 else none) := by
  simp only [lookup, List.reverse_cons, List.find?_append, Option.map_or]
  congr 1
  by_cases h : p.1 == tag <;> simp [h]

/-! ### the field decoders on what the encoder emits -/

theorem contextName_length (c : Bool) : (contextName c).length = 9 := by
  cases c <;> rfl

theorem mechanismOid_length (m : Nat) : (mechanismOid m).length = 7 := rfl

theorem contextOf_contextName (c : Bool) : contextOf (contextName c) = some c := by
  have hb : (oidPrefix ++ [1, if c then 3 else 1]).length < big := by
    have := big_ge; simp [oidPrefix]; omega
  unfold contextOf contextName
  rw [single_tlv _ _ hb]
  cases c <;> simp [oidPrefix]

theorem mechanismOf_mechanismOid (m : Nat) (h : m ≤ 7) : mechanismOf (mechanismOid m) = some m := by
  have e : (UInt8.ofNat m).toNat = m := by simp [UInt8.toNat_ofNat']; omega
  simp [mechanismOf, mechanismOid, oidPrefix, e, h]

theorem octetOf_tlv (tag : UInt8) (t : Bytes) (h : t.length < 128) : octetOf (some (tlv tag t)) = some t := by
  simp [octetOf, tlv_small _ _ h]

theorem octetOf_none : octetOf none = none := rfl

theorem userInfoOf_tlv (u : Bytes) (h : u.length < big)
    (hh : (match u.head? with | some t => [1, 8, 14, 33, 40].contains t.toNat | none => false) = true) :
    userInfoOf (tlv 0x04 u) = some u := by
  unfold userInfoOf
  rw [single_tlv _ _ h]
  cases hu : u.head? with
  | none => simp [hu] at hh
  | some t => simp only [hu] at hh ⊢; rw [if_pos hh]

theorem intOf_tlv (r : Nat) (h : r < 256) : intOf (tlv 0x02 [UInt8.ofNat r]) = some r := by
  have hb : ([UInt8.ofNat r] : Bytes).length < big := by have := big_ge; simp; omega
  have e : (UInt8.ofNat r).toNat = r := by simp [UInt8.toNat_ofNat']; omega
  simp [intOf, single_tlv _ _ hb, e]

/-! ### the APDU decoders after the component loop -/

def aarqOfCs (tags : List Nat) (cs : List (UInt8 × Bytes)) : Option Aarq :=
  if !allowed cs tags then none else
  match (lookup cs 0xA1).bind contextOf, authOf cs 0x8A 0x8B 0xAC, (lookup cs 0xBE).bind userInfoOf with
  | some ciph, some (mech, val), some ui =>
    some { ciphered := ciph, title := octetOf (lookup cs 0xA6), cert := octetOf (lookup cs 0xA7),
           mechanism := mech, authValue := val, userInfo := ui }
  | _, _, _ => none

theorem decodeAarq_enc (tags : List Nat) (cs : List (UInt8 × Bytes)) (h : ∀ p ∈ cs, p.2.length < big)
    (hb : (enc cs).length < big) : decodeAarq tags (tlv 0x60 (enc cs)) = aarqOfCs tags cs := by
  simp only [decodeAarq, single_tlv _ _ hb, components_enc_self cs h]
  rfl

def aareOfCs (tags : List Nat) (cs : List (UInt8 × Bytes)) : Option Aare :=
  if !allowed cs tags then none else
  let diag : Option (Bool × Nat) := match lookup cs 0xA3 with
    | none => none
    | some c => match splitTlv c with
      | some (t, inner, []) =>
        if t == 0xA1 then (intOf inner).map fun v => (true, v)
        else if t == 0xA2 then (intOf inner).map fun v => (false, v)
        else none
      | _ => none
  let ui : Option (Option Bytes) := match lookup cs 0xBE with
    | none => some none
    | some c => (userInfoOf c).map some
  match (lookup cs 0xA1).bind contextOf, (lookup cs 0xA2).bind intOf, diag, authOf cs 0x88 0x89 0xAA, ui with
  | some ciph, some res, some (du, dv), some (mech, val), some u =>
    some { ciphered := ciph, result := res, diagUser := du, diag := dv, title := octetOf (lookup cs 0xA4),
           cert := octetOf (lookup cs 0xA5), mechanism := mech, authValue := val, userInfo := u }
  | _, _, _, _, _ => none

theorem decodeAare_enc (tags : List Nat) (cs : List (UInt8 × Bytes)) (h : ∀ p ∈ cs, p.2.length < big)
    (hb : (enc cs).length < big) : decodeAare tags (tlv 0x61 (enc cs)) = aareOfCs tags cs := by
  simp only [decodeAare, single_tlv _ _ hb, components_enc_self cs h]
  rfl

def releaseOfCs (tags : List Nat) (cs : List (UInt8 × Bytes)) : Option Release :=
  if !allowed cs tags then none else
  let reason : Option (Option Nat) := match lookup cs 0x80 with
    | none => some none
    | some [r] => some (some r.toNat)
    | some _ => none
  let ui : Option (Option Bytes) := match lookup cs 0xBE with
    | none => some none
    | some c => (userInfoOf c).map some
  match reason, ui with
  | some r, some u => some { reason := r, userInfo := u }
  | _, _ => none

theorem decodeRelease_enc (apduTag : UInt8) (tags : List Nat) (cs : List (UInt8 × Bytes))
    (h : ∀ p ∈ cs, p.2.length < big) (hb : (enc cs).length < big) :
    decodeRelease apduTag tags (tlv apduTag (enc cs)) = releaseOfCs tags cs := by
  simp only [decodeRelease, single_tlv _ _ hb, components_enc_self cs h]
  rfl

/-! ### the encoders as sequences of components -/

theorem enc_append (a b : List (UInt8 × Bytes)) : enc (a ++ b) = enc a ++ enc b := by
  induction a with
  | nil => rfl
  | cons p r ih => simp [enc, ih]

def optCs {α} (o : Option α) (f : α → UInt8 × Bytes) : List (UInt8 × Bytes) :=
  match o with
  | some x => [f x]
  | none => []

theorem enc_optCs {α} (o : Option α) (f : α → UInt8 × Bytes) :
    enc (optCs o f) = opt o (fun x => tlv (f x).1 (f x).2) := by
  cases o <;> simp [optCs, opt, enc]

def authCs (reqTag mechTag valTag : UInt8) (mechanism : Option Nat) (authValue : Option Bytes) :
    List (UInt8 × Bytes) :=
  match mechanism with
  | some m =>
    if m != 0 then
      [(reqTag, [0x07, 0x80]), (mechTag, mechanismOid m)] ++ optCs authValue (fun v => (valTag, tlv 0x80 v))
    else []
  | none => []

theorem enc_authCs (r m v : UInt8) (mech : Option Nat) (av : Option Bytes) :
    enc (authCs r m v mech av) = authPart r m v mech av := by
  unfold authCs authPart
  cases mech with
  | none => rfl
  | some k =>
    by_cases hk : (k != 0) = true
    · simp only [hk, ↓reduceIte, enc_append, enc_optCs]; simp [enc]
    · simp only [hk]; rfl

def aarqCs (a : Aarq) : List (UInt8 × Bytes) :=
  [(0xA1, contextName a.ciphered)] ++ optCs a.title (fun t => (0xA6, tlv 0x04 t)) ++
    optCs a.cert (fun c => (0xA7, tlv 0x04 c)) ++ authCs 0x8A 0x8B 0xAC a.mechanism a.authValue ++
    [(0xBE, tlv 0x04 a.userInfo)]

theorem encodeAarq_eq (a : Aarq) : encodeAarq a = tlv 0x60 (enc (aarqCs a)) := by
  simp [encodeAarq, aarqCs, enc_append, enc_optCs, enc_authCs, enc]

def aareCs (a : Aare) : List (UInt8 × Bytes) :=
  [(0xA1, contextName a.ciphered), (0xA2, tlv 0x02 [UInt8.ofNat a.result]),
   (0xA3, tlv (if a.diagUser then 0xA1 else 0xA2) (tlv 0x02 [UInt8.ofNat a.diag]))] ++
    optCs a.title (fun t => (0xA4, tlv 0x04 t)) ++ optCs a.cert (fun c => (0xA5, tlv 0x04 c)) ++
    authCs 0x88 0x89 0xAA a.mechanism a.authValue ++ optCs a.userInfo (fun u => (0xBE, tlv 0x04 u))

theorem encodeAare_eq (a : Aare) : encodeAare a = tlv 0x61 (enc (aareCs a)) := by
  simp [encodeAare, aareCs, enc_append, enc_optCs, enc_authCs, enc]

def releaseCs (r : Release) : List (UInt8 × Bytes) :=
  optCs r.reason (fun x => (0x80, [UInt8.ofNat x])) ++ optCs r.userInfo (fun u => (0xBE, tlv 0x04 u))

theorem encodeRelease_eq (tag : UInt8) (r : Release) : encodeRelease tag r = tlv tag (enc (releaseCs r)) := by
  simp [encodeRelease, releaseCs, enc_append, enc_optCs]

/-! ### nesting well-formedness of component sequences -/

theorem berWF_enc_nil (f : Nat) : berWF f (enc []) = true := berWF_nil f

theorem berWF_enc_cons (f : Nat) (t : UInt8) (c : Bytes) (r : List (UInt8 × Bytes)) (h : c.length < big) :
    berWF (f + 1) (enc ((t, c) :: r)) =
      ((if t.toNat &&& 0x20 != 0 then berWF f c else true) && berWF f (enc r)) :=
  berWF_tlv f t c (enc r) h

theorem berWF_tlv_nil (f : Nat) (t : UInt8) (c : Bytes) (h : c.length < big) :
    berWF (f + 1) (tlv t c) = (if t.toNat &&& 0x20 != 0 then berWF f c else true) := by
  have := berWF_tlv f t c [] h
  rw [List.append_nil, berWF_nil, Bool.and_true] at this
  exact this

theorem berWF_contextName (f : Nat) (c : Bool) : berWF (f + 1) (contextName c) = true := by
  have hb : (oidPrefix ++ [1, if c then 3 else 1]).length < big := by
    have := big_ge; simp [oidPrefix]; omega
  unfold contextName
  rw [berWF_tlv_nil _ _ _ hb]
  rfl

/-- a whole APDU: the fuel its own length provides is enough for the body. -/
theorem berWF_top (t : UInt8) (c : Bytes) (h : c.length < big) (hc : berWF c.length c = true) :
    berWF (tlv t c).length (tlv t c) = true := by
  have e : (tlv t c).length = (c.length + (berLen c.length).length) + 1 := by
    rw [tlv_length]; omega
  rw [e, berWF_tlv_nil _ _ _ h]
  split
  · exact berWF_mono hc (by omega)
  · rfl

/-! ### which components occur -/

theorem any_tag_cons (p : UInt8 × Bytes) (cs : List (UInt8 × Bytes)) (tag : UInt8) :
    (p :: cs).any (·.1 == tag) = (p.1 == tag || cs.any (·.1 == tag)) := by
  simp

end Lemmas.Acse
