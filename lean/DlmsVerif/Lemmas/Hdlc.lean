/-
  Lemmas for C09: Python slices on lists of known shape, the format field in arithmetic
  form, the serialiser with valid addresses, and the shape of a serialised frame.
-/
import DlmsVerif.Model.Hdlc
import DlmsVerif.Props.C13
import DlmsVerif.Props.C20

set_option linter.unusedSimpArgs false

namespace Lemmas.Hdlc
open Dlms Spec.Hdlc Model.Hdlc Model.Fields

/-! ### Python slices -/
theorem pySlice_eq {α} (l p m r : List α) (a b : Int) (hl : l = p ++ m ++ r)
    (ha : pyIdx l.length a = p.length) (hb : pyIdx l.length b = p.length + m.length) :
    pySlice l a b = m := by
  unfold pySlice
  simp only [ha, hb]
  subst hl
  simp

theorem pyIdx_nat (n : Nat) (i : Int) (k : Nat) (hi : i = k) (hk : k ≤ n) : pyIdx n i = k := by
  unfold pyIdx; subst hi; split <;> omega

theorem pyIdx_neg (n : Nat) (i : Int) (k : Nat) (hi : i < 0) (hk : (n:Int) + i = k) : pyIdx n i = k := by
  unfold pyIdx; simp [hi]; omega

/-! ### format field -/

theorem fmt_to (len : Nat) (seg : Bool) (h : len ≤ 2047) :
    fmtToBytes len seg = .ok (beBytes 2 (0xA000 + 2048 * seg.toNat + len)) := by
  have hall := Props.C20.C20_format_model
  rw [List.all_eq_true] at hall
  have h1 := hall (2 * len + seg.toNat) (by cases seg <;> simp <;> omega)
  have e1 : (2 * len + seg.toNat) / 2 = len := by cases seg <;> simp <;> omega
  have e2 : decide ((2 * len + seg.toNat) % 2 = 1) = seg := by cases seg <;> simp <;> omega
  rw [e1, e2] at h1
  have hnot : ¬ len > 0x7FF := by omega
  simp only [fmtToBytes, hnot, if_false] at h1 ⊢
  simp only [Except.map, Props.C20.exceptToOption, Spec.Fields.formatWord, h, if_true, beq_iff_eq,
    Option.some.injEq] at h1
  have := beBytes_beNat (beBytes 2 (if seg = true then 0xA000 ||| len ||| 0x0800 else 0xA000 ||| len))
  rw [beBytes_length, h1] at this
  rw [this]

theorem fmt_from (len : Nat) (seg : Bool) (h : len ≤ 2047) :
    fmtFromBytes (beBytes 2 (0xA000 + 2048 * seg.toNat + len)) = .ok (len, seg) := by
  have hall := Props.C20.C20_format_roundtrip
  rw [List.all_eq_true] at hall
  have h1 := hall (2 * len + seg.toNat) (by cases seg <;> simp <;> omega)
  have e1 : (2 * len + seg.toNat) / 2 = len := by cases seg <;> simp <;> omega
  have e2 : decide ((2 * len + seg.toNat) % 2 = 1) = seg := by cases seg <;> simp <;> omega
  rw [e1, e2, fmt_to len seg h] at h1
  simp only at h1
  generalize fmtFromBytes (beBytes 2 (0xA000 + 2048 * seg.toNat + len)) = r at h1
  cases r with
  | error e => simp [Props.C20.exceptToOption] at h1
  | ok v => simp [Props.C20.exceptToOption] at h1; rw [h1]

/-! ### serialiser -/

def toAddr : Spec.Addr.Address → Model.Addr.Addr
  | .client a => mkAddr a none true
  | .server l p => mkAddr l p false

theorem accepted_toAddr (a : Spec.Addr.Address) : Model.Addr.accepted (toAddr a) = Spec.Addr.valid a := by
  rw [Props.C13.C13_accepted_iff_valid]
  cases a with
  | client a => simp [toAddr, mkAddr, Props.C13.toSpec]
  | server l p => simp [toAddr, mkAddr, Props.C13.toSpec]

theorem toSpec_toAddr (a : Spec.Addr.Address) : Props.C13.toSpec (toAddr a) = a := by
  cases a <;> simp [toAddr, mkAddr, Props.C13.toSpec]

theorem encode_toAddr (a : Spec.Addr.Address) (hv : Spec.Addr.valid a = true) :
    Model.Addr.encode (toAddr a) = .ok (addrBytes a) := by
  have ha : Model.Addr.accepted (toAddr a) = true := by rw [accepted_toAddr, hv]
  unfold Model.Addr.encode addrBytes
  rw [if_pos ha, Props.C13.C13_encode_eq_spec _ ha, toSpec_toAddr]

theorem encode_toAddr_bad (a : Spec.Addr.Address) (hv : Spec.Addr.valid a = false) :
    Model.Addr.encode (toAddr a) = .error .range := by
  have ha : Model.Addr.accepted (toAddr a) = false := by rw [accepted_toAddr, hv]
  simp [Model.Addr.encode, ha]

theorem frameLength_eq (f : Frame) :
    (if f.kind.hasInfo = true then 7 else 5) + (addrBytes f.dst).length + (addrBytes f.src).length +
      (info f).length = frameLength f := by
  unfold frameLength; split <;> omega

/-- `to_bytes` with valid addresses. -/
theorem serialize_eq (crc : Bytes → Bytes) (f : Frame)
    (hd : Spec.Addr.valid f.dst = true) (hs : Spec.Addr.valid f.src = true) :
    Model.Hdlc.serialize crc f =
      match control f with
      | none => .error .range
      | some ctl =>
        match fmtToBytes (frameLength f) f.segmented with
        | .error e => .error e
        | .ok fmt =>
          .ok (0x7E :: (if f.kind.hasInfo then
                  (fmt ++ addrBytes f.dst ++ addrBytes f.src ++ [UInt8.ofNat ctl]) ++
                    crc (fmt ++ addrBytes f.dst ++ addrBytes f.src ++ [UInt8.ofNat ctl]) ++ info f
                else fmt ++ addrBytes f.dst ++ addrBytes f.src ++ [UInt8.ofNat ctl]) ++
               crc (if f.kind.hasInfo then
                  (fmt ++ addrBytes f.dst ++ addrBytes f.src ++ [UInt8.ofNat ctl]) ++
                    crc (fmt ++ addrBytes f.dst ++ addrBytes f.src ++ [UInt8.ofNat ctl]) ++ info f
                else fmt ++ addrBytes f.dst ++ addrBytes f.src ++ [UInt8.ofNat ctl]) ++ [0x7E]) := by
  have e : Model.Hdlc.serialize crc f =
      match Model.Addr.encode (toAddr f.dst), Model.Addr.encode (toAddr f.src) with
      | .ok d, .ok s =>
        match control f with
        | none => .error .range
        | some ctl =>
          match fmtToBytes ((if f.kind.hasInfo then 7 else 5) + d.length + s.length + (info f).length) f.segmented with
          | .error e => .error e
          | .ok fmt =>
            .ok (0x7E :: (if f.kind.hasInfo then (fmt ++ d ++ s ++ [UInt8.ofNat ctl]) ++ crc (fmt ++ d ++ s ++ [UInt8.ofNat ctl]) ++ info f else fmt ++ d ++ s ++ [UInt8.ofNat ctl])
              ++ crc (if f.kind.hasInfo then (fmt ++ d ++ s ++ [UInt8.ofNat ctl]) ++ crc (fmt ++ d ++ s ++ [UInt8.ofNat ctl]) ++ info f else fmt ++ d ++ s ++ [UInt8.ofNat ctl]) ++ [0x7E])
      | _, _ => .error .range := rfl
  rw [e, encode_toAddr _ hd, encode_toAddr _ hs]
  simp only [frameLength_eq]

theorem WF_parts (f : Frame) (h : WF f = true) :
    Spec.Addr.valid f.dst = true ∧ Spec.Addr.valid f.src = true ∧ frameLength f ≤ 2047 ∧
    (match f.kind with
     | .i => f.ssn ≤ 7 ∧ f.rsn ≤ 7
     | .rr => f.ssn = 0 ∧ f.rsn ≤ 7 ∧ f.final = true ∧ f.payload = []
     | .ui => f.ssn = 0 ∧ f.rsn = 0
     | .ua => f.ssn = 0 ∧ f.rsn = 0 ∧ f.final = true
     | _ => f.ssn = 0 ∧ f.rsn = 0 ∧ f.final = true ∧ f.payload = []) := by
  unfold WF at h
  simp only [Bool.and_eq_true, decide_eq_true_eq] at h
  refine ⟨h.1.1.1, h.1.1.2, h.1.2, ?_⟩
  have h2 := h.2
  cases hk : f.kind <;> simp only [hk] at h2 <;> simp_all

theorem layout (crc : Bytes → Bytes) (f : Frame) (h : WF f = true) :
    (match Model.Hdlc.serialize crc f with
      | .ok bs => some bs
      | .error _ => none) = Spec.Hdlc.serializeWith crc f := by
  obtain ⟨hd, hs, hlen, _⟩ := WF_parts f h
  rw [serialize_eq crc f hd hs, fmt_to _ _ hlen]
  unfold serializeWith
  cases control f with
  | none => rfl
  | some ctl => simp [Spec.Fields.formatWord, hlen]

theorem too_long (crc : Bytes → Bytes) (f : Frame)
    (hv : Spec.Addr.valid f.dst = true ∧ Spec.Addr.valid f.src = true)
    (hc : (control f).isSome = true) (h : frameLength f > 2047) :
    Model.Hdlc.serialize crc f = .error .range := by
  rw [serialize_eq crc f hv.1 hv.2]
  cases hcf : control f with
  | none => simp [hcf] at hc
  | some ctl =>
    have : frameLength f > 0x7FF := h
    simp [fmtToBytes, this]


/-! ### parser -/

theorem enclosed_true (X : Bytes) (h : enclosed X = .ok true) :
    X.head? = some 0x7E ∧ X.getLast? = some 0x7E := by
  unfold enclosed at h
  split at h
  · rename_i f l hf hl
    simp at h
    rw [hf, hl, ← h.1, h.2]; simp
  · contradiction

theorem accepted_is_checked (crc : Bytes → Bytes) (k : PKind) (X : Bytes) (p : Parsed)
    (h : Model.Hdlc.parse crc k X = .ok p) :
    pySlice X (-3) (-1) = crc (pySlice X 1 (-3)) ∧
    X.head? = some 0x7E ∧ X.getLast? = some 0x7E ∧
    ∃ len seg, Model.Fields.fmtFromBytes (pySlice X 1 3) = .ok (len, seg) ∧ len + 2 = X.length := by
  unfold parse at h
  split at h
  · contradiction
  · contradiction
  rename_i henc
  split at h
  · contradiction
  rename_i len seg hfmt
  split at h
  · contradiction
  rename_i hlen
  split at h
  · contradiction
  simp only at h
  split at h
  · contradiction
  split at h
  · contradiction
  have hcs : ∀ o, ¬ (!checkSequences crc X o) = true → pySlice X (-3) (-1) = crc (pySlice X 1 (-3)) := by
    intro o ho
    simp [checkSequences] at ho
    exact ho.2
  refine ⟨?_, (enclosed_true X henc).1, (enclosed_true X henc).2, len, seg, hfmt, by omega⟩
  cases k <;> simp only at h
  all_goals (repeat' (split at h)) <;> first | contradiction | skip
  all_goals (rename_i hc; exact hcs _ hc)


def fmtOf (f : Frame) : Bytes := beBytes 2 (0xA000 + 2048 * f.segmented.toNat + frameLength f)

def hdrOf (f : Frame) (ctl : Nat) : Bytes :=
  fmtOf f ++ addrBytes f.dst ++ addrBytes f.src ++ [UInt8.ofNat ctl]

def bodyOf (crc : Bytes → Bytes) (f : Frame) (ctl : Nat) : Bytes :=
  if f.kind.hasInfo then hdrOf f ctl ++ crc (hdrOf f ctl) ++ info f else hdrOf f ctl

theorem fmtOf_length (f : Frame) : (fmtOf f).length = 2 := beBytes_length _ _

theorem fmtOf_from (f : Frame) (h : frameLength f ≤ 2047) :
    fmtFromBytes (fmtOf f) = .ok (frameLength f, f.segmented) := fmt_from _ _ h

theorem shape (crc : Bytes → Bytes) (f : Frame) (h : WF f = true) (bs : Bytes)
    (hs : serializeWith crc f = some bs) :
    ∃ ctl, control f = some ctl ∧ bs = 0x7E :: bodyOf crc f ctl ++ crc (bodyOf crc f ctl) ++ [0x7E] := by
  obtain ⟨_, _, hlen, _⟩ := WF_parts f h
  unfold serializeWith at hs
  cases hc : control f with
  | none => simp [hc] at hs
  | some ctl =>
    refine ⟨ctl, rfl, ?_⟩
    simp only [hc, Spec.Fields.formatWord, hlen, if_true, Option.bind_eq_bind, Option.bind_some,
      Option.some.injEq] at hs
    rw [← hs]
    rfl

theorem bodyOf_eq (crc : Bytes → Bytes) (f : Frame) (ctl : Nat) :
    bodyOf crc f ctl = fmtOf f ++ (addrBytes f.dst ++ addrBytes f.src ++ [UInt8.ofNat ctl] ++
      (if f.kind.hasInfo then crc (hdrOf f ctl) ++ info f else [])) := by
  unfold bodyOf
  split <;> simp [hdrOf]

theorem bodyOf_length (crc : Bytes → Bytes) (hcrc : ∀ x, (crc x).length = 2) (f : Frame) (ctl : Nat) :
    (bodyOf crc f ctl).length + 2 = frameLength f := by
  unfold bodyOf hdrOf frameLength info
  by_cases hi : f.kind.hasInfo = true <;> simp [hi, fmtOf_length, hcrc] <;> omega

/-- first three bytes and total length of a serialised frame. -/
theorem shape_prefix (crc : Bytes → Bytes) (hcrc : ∀ x, (crc x).length = 2) (f : Frame)
    (h : WF f = true) (bs : Bytes) (hs : serializeWith crc f = some bs) :
    ∃ b0 b1 rest, bs = 0x7E :: b0 :: b1 :: rest ∧
      fmtFromBytes [b0, b1] = .ok (frameLength f, f.segmented) ∧ bs.length = frameLength f + 2 := by
  obtain ⟨ctl, _, hbs⟩ := shape crc f h bs hs
  obtain ⟨_, _, hlen, _⟩ := WF_parts f h
  have hf := fmtOf_from f hlen
  have hl := bodyOf_length crc hcrc f ctl
  have e : fmtOf f = [UInt8.ofNat ((0xA000 + 2048 * f.segmented.toNat + frameLength f) / 256 % 256),
      UInt8.ofNat ((0xA000 + 2048 * f.segmented.toNat + frameLength f) % 256)] := by
    simp [fmtOf, beBytes]
  have hl2 : bs.length = frameLength f + 2 := by rw [hbs]; simp [hcrc]; omega
  rw [e] at hf
  generalize crc (bodyOf crc f ctl) = fcs at hbs
  rw [bodyOf_eq, e] at hbs
  exact ⟨_, _, _, by rw [hbs]; simp; rfl, hf, hl2⟩

theorem pySlice_1_3 {α} (x b0 b1 : α) (rest : List α) : pySlice (x :: b0 :: b1 :: rest) 1 3 = [b0, b1] := by
  apply pySlice_eq _ [x] [b0,b1] rest
  · simp
  · apply pyIdx_nat <;> simp
  · apply pyIdx_nat <;> simp

theorem parse_len_mismatch (crc : Bytes → Bytes) (k : PKind) (x b0 b1 : UInt8) (rest : Bytes) (len : Nat) (seg : Bool)
    (hf : fmtFromBytes [b0, b1] = .ok (len, seg)) (hne : len + 2 ≠ (x :: b0 :: b1 :: rest).length) :
    ∃ e, parse crc k (x :: b0 :: b1 :: rest) = .error e := by
  cases hp : parse crc k (x :: b0 :: b1 :: rest) with
  | error e => exact ⟨e, rfl⟩
  | ok p =>
    obtain ⟨_, _, _, len', seg', h1, h2⟩ := accepted_is_checked crc k _ p hp
    rw [pySlice_1_3, hf] at h1
    simp at h1
    omega

theorem parse_short (crc : Bytes → Bytes) (k : PKind) (X : Bytes) (h : X.length < 3) :
    ∃ e, parse crc k X = .error e := by
  cases hp : parse crc k X with
  | error e => exact ⟨e, rfl⟩
  | ok p =>
    obtain ⟨_, _, _, len', seg', h1, h2⟩ := accepted_is_checked crc k _ p hp
    exfalso
    match X, h with
    | [], _ => simp [pySlice, fmtFromBytes] at h1
    | [a], _ => simp [pySlice, pyIdx, fmtFromBytes] at h1
    | [a, b], _ => simp [pySlice, pyIdx, fmtFromBytes] at h1

theorem truncated (crc : Bytes → Bytes) (hcrc : ∀ x, (crc x).length = 2)
    (k : PKind) (f : Frame) (h : WF f = true) (bs : Bytes)
    (hs : Spec.Hdlc.serializeWith crc f = some bs) (n : Nat) (hn : n < bs.length) :
    ∃ e, Model.Hdlc.parse crc k (bs.take n) = .error e := by
  obtain ⟨b0, b1, rest, hbs, hf, hl⟩ := shape_prefix crc hcrc f h bs hs
  by_cases h3 : n < 3
  · apply parse_short; simp; omega
  · obtain ⟨m, rfl⟩ : ∃ m, n = m + 3 := ⟨n - 3, by omega⟩
    subst hbs
    simp only [List.take_succ_cons]
    apply parse_len_mismatch _ _ _ _ _ _ _ _ hf
    simp at hn hl ⊢
    omega

theorem appended (crc : Bytes → Bytes) (hcrc : ∀ x, (crc x).length = 2)
    (k : PKind) (f : Frame) (h : WF f = true) (bs : Bytes)
    (hs : Spec.Hdlc.serializeWith crc f = some bs) (extra : Bytes) (he : extra ≠ []) :
    ∃ e, Model.Hdlc.parse crc k (bs ++ extra) = .error e := by
  obtain ⟨b0, b1, rest, hbs, hf, hl⟩ := shape_prefix crc hcrc f h bs hs
  subst hbs
  have : extra.length > 0 := List.length_pos_iff.mpr he
  simp only [List.cons_append]
  apply parse_len_mismatch _ _ _ _ _ _ _ _ hf
  simp at hl ⊢
  omega


/-- the part of `parse` after the checks common to every kind. -/
def parseTail (crc : Bytes → Bytes) (k : PKind) (fb : Bytes) (dl : Nat) (dp : Option Nat) (dn : Nat)
    (sl : Nat) (sp : Option Nat) (sn : Nat) (seg : Bool) : Except Err Parsed :=
  let ctlPos := 3 + dn + sn
  let hcsPos := ctlPos + 1
  let base : Parsed := { dstL := dl, dstP := dp, srcL := sl, srcP := sp, segmented := seg }
  match k with
  | .ua =>
    if pySlice fb ctlPos (ctlPos + 1) != [UInt8.ofNat Spec.Fields.uaControl] then .error .parse
    else if !checkSequences crc fb (some hcsPos) then .error .parse
    else .ok { base with payload := pySlice fb (hcsPos + 2) (-3) }
  | .disc =>
    if pySlice fb ctlPos (ctlPos + 1) != [UInt8.ofNat Spec.Fields.discControl] then .error .parse
    else if !checkSequences crc fb none then .error .parse
    else .ok base
  | .rr =>
    match pySlice fb ctlPos (ctlPos + 1) with
    | [c] =>
      if c.toNat % 16 != 1 then .error .decode
      else if !checkSequences crc fb none then .error .parse
      else .ok { base with rsn := c.toNat / 32 }
    | _ => .error .decode
  | .i =>
    match pySlice fb ctlPos (ctlPos + 1) with
    | [c] =>
      match Spec.Fields.iFields c.toNat with
      | none => .error .decode
      | some (ssn, rsn, fin) =>
        if !checkSequences crc fb (some hcsPos) then .error .parse
        else .ok { base with ssn := ssn, rsn := rsn, final := fin, payload := pySlice fb (hcsPos + 2) (-3) }
    | _ => .error .decode
  | .ui =>
    match pySlice fb ctlPos (ctlPos + 1) with
    | [c] =>
      if c.toNat % 16 != 3 || c.toNat / 32 != 0 then .error .decode
      else if !checkSequences crc fb (some hcsPos) then .error .parse
      else .ok { base with final := c.toNat.testBit 4, payload := pySlice fb (hcsPos + 2) (-3) }
    | _ => .error .decode

theorem parse_of (crc : Bytes → Bytes) (k : PKind) (fb : Bytes) (len : Nat) (seg : Bool)
    (dl : Nat) (dp : Option Nat) (dn : Nat) (sl : Nat) (sp : Option Nat) (sn : Nat)
    (h1 : enclosed fb = .ok true) (h2 : fmtFromBytes (pySlice fb 1 3) = .ok (len, seg))
    (h3 : len + 2 = fb.length) (h4 : Model.Addr.find fb = .ok ((dl, dp, dn), (sl, sp, sn)))
    (h5 : Model.Addr.accepted (mkAddr dl dp (k != .disc)) = true)
    (h6 : Model.Addr.accepted (mkAddr sl sp (!(k != .disc))) = true) :
    parse crc k fb = parseTail crc k fb dl dp (Model.Addr.encodeNat (mkAddr dl dp (k != .disc))).length
      sl sp (Model.Addr.encodeNat (mkAddr sl sp (!(k != .disc)))).length seg := by
  unfold parse
  rw [h1]; simp only []
  rw [h2]; simp only []
  rw [if_neg (by simpa using h3)]
  rw [h4]; simp only []
  rw [h5, h6]
  simp only [Bool.not_true, Bool.false_eq_true, if_false]
  rfl


/-! ### slices of a frame of known shape -/

theorem pyIdx_nat' (n : Nat) (i : Int) (k m : Nat) (hi : i = k) (hm : k = m) (hk : k ≤ n) :
    pyIdx n i = m := by subst hm; exact pyIdx_nat n i k hi hk

section slices
variable {α : Type} (x y c : α) (pre hcs inf fcs body : List α)

theorem slice_fcs (hf : fcs.length = 2) :
    pySlice (x :: body ++ fcs ++ [y]) (-3) (-1) = fcs := by
  apply pySlice_eq _ (x :: body) fcs [y]
  · simp
  · apply pyIdx_neg <;> simp [hf]; omega
  · apply pyIdx_neg <;> simp [hf]; omega

theorem slice_body (hf : fcs.length = 2) :
    pySlice (x :: body ++ fcs ++ [y]) 1 (-3) = body := by
  apply pySlice_eq _ [x] body (fcs ++ [y])
  · simp
  · apply pyIdx_nat <;> simp
  · apply pyIdx_neg <;> simp [hf]; omega

theorem slice_ctl (rest : List α) (pos : Nat) (hp : pos = pre.length + 1) :
    pySlice (x :: (pre ++ [c]) ++ rest) (pos : Int) ((pos : Int) + 1) = [c] := by
  apply pySlice_eq _ (x :: pre) [c] rest
  · simp
  · apply pyIdx_nat' _ _ pos <;> simp [hp] <;> omega
  · apply pyIdx_nat' _ _ (pos + 1) <;> simp [hp] <;> omega

theorem slice_hcs (rest : List α) (pos : Nat) (hp : pos = pre.length + 2) (hh : hcs.length = 2) :
    pySlice (x :: (pre ++ [c]) ++ hcs ++ rest) (pos : Int) ((pos : Int) + 2) = hcs := by
  apply pySlice_eq _ (x :: (pre ++ [c])) hcs rest
  · simp
  · apply pyIdx_nat' _ _ pos <;> simp [hp] <;> omega
  · apply pyIdx_nat' _ _ (pos + 2) <;> simp [hp, hh] <;> omega

theorem slice_hdr (rest : List α) (pos : Nat) (hp : pos = pre.length + 2) :
    pySlice (x :: (pre ++ [c]) ++ rest) 1 (pos : Int) = pre ++ [c] := by
  apply pySlice_eq _ [x] (pre ++ [c]) rest
  · simp
  · apply pyIdx_nat _ _ 1 <;> simp
  · apply pyIdx_nat' _ _ pos <;> simp [hp] <;> omega

theorem slice_inf (pos : Nat) (hp : pos = pre.length + 2) (hh : hcs.length = 2) (hf : fcs.length = 2) :
    pySlice (x :: ((pre ++ [c]) ++ hcs ++ inf) ++ fcs ++ [y]) ((pos : Int) + 2) (-3) = inf := by
  apply pySlice_eq _ (x :: (pre ++ [c]) ++ hcs) inf (fcs ++ [y])
  · simp
  · apply pyIdx_nat' _ _ (pos + 2) <;> simp [hp, hh] <;> omega
  · apply pyIdx_neg <;> simp [hf, hh]; omega

end slices

theorem enclosed_flags (body : Bytes) : enclosed (0x7E :: body ++ [0x7E]) = .ok true := by
  have e : (0x7E :: body ++ [0x7E] : Bytes) = (0x7E :: body) ++ [0x7E] := by simp
  have hl : ((0x7E :: body) ++ [0x7E] : Bytes).getLast? = some 0x7E := List.getLast?_concat
  unfold enclosed
  rw [e, hl]
  rfl

theorem addrBytes_toNat (a : Spec.Addr.Address) (hv : Spec.Addr.valid a = true) :
    (addrBytes a).map (·.toNat) = Spec.Addr.encode a := by
  have bound : ∀ b ∈ Spec.Addr.encode a, b < 256 := by
    intro b hb
    have := Props.C13.C13_form a hv
    simp [Spec.Addr.formOk] at this
    exact this.1.1.2 b hb
  unfold addrBytes
  rw [List.map_map]
  conv => rhs; rw [← List.map_id (Spec.Addr.encode a)]
  apply List.map_congr_left
  intro b hb
  simp [Nat.mod_eq_of_lt (bound b hb)]

theorem addrBytes_length (a : Spec.Addr.Address) : (addrBytes a).length = (Props.C13.fields a).2.2 := by
  rw [Props.C13.fields_len]; simp [addrBytes]

theorem find_frame (d s : Spec.Addr.Address) (hd : Spec.Addr.valid d = true)
    (hs : Spec.Addr.valid s = true) (b0 b1 : UInt8) (rest : Bytes) :
    Model.Addr.find (0x7E :: b0 :: b1 :: (addrBytes d ++ addrBytes s ++ rest)) =
      .ok (Props.C13.fields d, Props.C13.fields s) := by
  unfold Model.Addr.find
  simp only [List.map_cons, List.map_append, addrBytes_toNat d hd, addrBytes_toNat s hs]
  exact Props.C13.C13_locate_decode d s hd hs b0.toNat b1.toNat _


def frameInfo (crc : Bytes → Bytes) (pre : Bytes) (c : UInt8) (inf : Bytes) : Bytes :=
  0x7E :: (pre ++ [c] ++ crc (pre ++ [c]) ++ inf) ++ crc (pre ++ [c] ++ crc (pre ++ [c]) ++ inf) ++ [0x7E]

def frameNoInfo (crc : Bytes → Bytes) (pre : Bytes) (c : UInt8) : Bytes :=
  0x7E :: (pre ++ [c]) ++ crc (pre ++ [c]) ++ [0x7E]

theorem frameInfo_slices (crc : Bytes → Bytes) (hcrc : ∀ x, (crc x).length = 2) (pre : Bytes) (c : UInt8)
    (inf : Bytes) (pos : Nat) (hp : pos = pre.length + 1) :
    pySlice (frameInfo crc pre c inf) (pos : Int) ((pos : Int) + 1) = [c] ∧
    checkSequences crc (frameInfo crc pre c inf) (some (pos + 1)) = true ∧
    pySlice (frameInfo crc pre c inf) (((pos + 1 : Nat) : Int) + 2) (-3) = inf := by
  refine ⟨?_, ?_, ?_⟩
  · have e : frameInfo crc pre c inf = 0x7E :: (pre ++ [c]) ++ (crc (pre ++ [c]) ++ inf ++
        crc (pre ++ [c] ++ crc (pre ++ [c]) ++ inf) ++ [0x7E]) := by simp [frameInfo]
    rw [e]; exact slice_ctl _ _ _ _ _ hp
  · unfold checkSequences
    have e : frameInfo crc pre c inf = 0x7E :: (pre ++ [c]) ++ crc (pre ++ [c]) ++ (inf ++
        crc (pre ++ [c] ++ crc (pre ++ [c]) ++ inf) ++ [0x7E]) := by simp [frameInfo]
    have h1 : pySlice (frameInfo crc pre c inf) ((pos + 1 : Nat) : Int) (((pos + 1 : Nat) : Int) + 2)
        = crc (pre ++ [c]) := by
      rw [e]; exact slice_hcs _ _ _ _ _ _ (by omega) (hcrc _)
    have e2 : frameInfo crc pre c inf = 0x7E :: (pre ++ [c]) ++ (crc (pre ++ [c]) ++ inf ++
        crc (pre ++ [c] ++ crc (pre ++ [c]) ++ inf) ++ [0x7E]) := by simp [frameInfo]
    have h2 : pySlice (frameInfo crc pre c inf) 1 ((pos + 1 : Nat) : Int) = pre ++ [c] := by
      rw [e2]; exact slice_hdr _ _ _ _ _ (by omega)
    have h3 : pySlice (frameInfo crc pre c inf) (-3) (-1) = crc (pre ++ [c] ++ crc (pre ++ [c]) ++ inf) :=
      slice_fcs _ _ _ _ (hcrc _)
    have h4 : pySlice (frameInfo crc pre c inf) 1 (-3) = pre ++ [c] ++ crc (pre ++ [c]) ++ inf :=
      slice_body _ _ _ _ (hcrc _)
    simp only [h1, h2, h3, h4, beq_self_eq_true, Bool.and_self]
  · exact slice_inf _ _ _ _ _ _ _ _ (by omega) (hcrc _) (hcrc _)

theorem frameNoInfo_slices (crc : Bytes → Bytes) (hcrc : ∀ x, (crc x).length = 2) (pre : Bytes) (c : UInt8)
    (pos : Nat) (hp : pos = pre.length + 1) :
    pySlice (frameNoInfo crc pre c) (pos : Int) ((pos : Int) + 1) = [c] ∧
    checkSequences crc (frameNoInfo crc pre c) none = true := by
  refine ⟨?_, ?_⟩
  · have e : frameNoInfo crc pre c = 0x7E :: (pre ++ [c]) ++ (crc (pre ++ [c]) ++ [0x7E]) := by
      simp [frameNoInfo]
    rw [e]; exact slice_ctl _ _ _ _ _ hp
  · unfold checkSequences
    have h3 : pySlice (frameNoInfo crc pre c) (-3) (-1) = crc (pre ++ [c]) :=
      slice_fcs _ _ _ _ (hcrc _)
    have h4 : pySlice (frameNoInfo crc pre c) 1 (-3) = pre ++ [c] :=
      slice_body _ _ _ _ (hcrc _)
    simp only [h3, h4, beq_self_eq_true, Bool.and_self]


theorem fmtOf_two (f : Frame) : ∃ b0 b1, fmtOf f = [b0, b1] := ⟨_, _, by simp only [fmtOf, beBytes]; rfl⟩

def preOf (f : Frame) : Bytes := fmtOf f ++ addrBytes f.dst ++ addrBytes f.src

theorem shape' (crc : Bytes → Bytes) (f : Frame) (h : WF f = true) (bs : Bytes)
    (hs : serializeWith crc f = some bs) :
    ∃ ctl, control f = some ctl ∧
      bs = if f.kind.hasInfo then frameInfo crc (preOf f) (UInt8.ofNat ctl) (info f)
           else frameNoInfo crc (preOf f) (UInt8.ofNat ctl) := by
  obtain ⟨ctl, hc, hbs⟩ := shape crc f h bs hs
  refine ⟨ctl, hc, ?_⟩
  rw [hbs]
  unfold bodyOf hdrOf frameInfo frameNoInfo preOf
  split <;> rfl

/-- common part: everything up to the kind-specific tail. -/
theorem parse_common (crc : Bytes → Bytes) (hcrc : ∀ x, (crc x).length = 2)
    (k : PKind) (f : Frame)
    (h : WF f = true) (bs : Bytes) (hs : Spec.Hdlc.serializeWith crc f = some bs)
    (h5 : Model.Addr.accepted (mkAddr (Props.C13.fields f.dst).1 (Props.C13.fields f.dst).2.1 (k != .disc)) = true)
    (h6 : Model.Addr.accepted (mkAddr (Props.C13.fields f.src).1 (Props.C13.fields f.src).2.1 (!(k != .disc))) = true)
    (h7 : Props.C13.toSpec (mkAddr (Props.C13.fields f.dst).1 (Props.C13.fields f.dst).2.1 (k != .disc)) = f.dst)
    (h8 : Props.C13.toSpec (mkAddr (Props.C13.fields f.src).1 (Props.C13.fields f.src).2.1 (!(k != .disc))) = f.src) :
    parse crc k bs = parseTail crc k bs (Props.C13.fields f.dst).1 (Props.C13.fields f.dst).2.1
      (Props.C13.fields f.dst).2.2 (Props.C13.fields f.src).1 (Props.C13.fields f.src).2.1
      (Props.C13.fields f.src).2.2 f.segmented := by
  obtain ⟨ctl, hc, hbs⟩ := shape crc f h bs hs
  obtain ⟨hd, hsv, hlen, _⟩ := WF_parts f h
  obtain ⟨b0, b1, hF⟩ := fmtOf_two f
  have hl := bodyOf_length crc hcrc f ctl
  have hbs2 : bs = 0x7E :: b0 :: b1 :: (addrBytes f.dst ++ addrBytes f.src ++
      ([UInt8.ofNat ctl] ++ (if f.kind.hasInfo then crc (hdrOf f ctl) ++ info f else []) ++
        crc (bodyOf crc f ctl) ++ [0x7E])) := by
    rw [hbs]
    generalize crc (bodyOf crc f ctl) = fcs
    rw [bodyOf_eq, hF]
    simp
  have l7 : (Model.Addr.encodeNat (mkAddr (Props.C13.fields f.dst).1 (Props.C13.fields f.dst).2.1
      (k != .disc))).length = (Props.C13.fields f.dst).2.2 := by
    rw [Props.C13.C13_encode_eq_spec _ h5, h7, Props.C13.fields_len]
  have l8 : (Model.Addr.encodeNat (mkAddr (Props.C13.fields f.src).1 (Props.C13.fields f.src).2.1
      (!(k != .disc)))).length = (Props.C13.fields f.src).2.2 := by
    rw [Props.C13.C13_encode_eq_spec _ h6, h8, Props.C13.fields_len]
  have key := parse_of crc k bs (frameLength f) f.segmented (Props.C13.fields f.dst).1
    (Props.C13.fields f.dst).2.1 (Props.C13.fields f.dst).2.2 (Props.C13.fields f.src).1
    (Props.C13.fields f.src).2.1 (Props.C13.fields f.src).2.2
  rw [l7, l8] at key
  apply key
  · have e : bs = 0x7E :: (bodyOf crc f ctl ++ crc (bodyOf crc f ctl)) ++ [0x7E] := by rw [hbs]; simp
    rw [e]; exact enclosed_flags _
  · rw [hbs2, pySlice_1_3, ← hF]; exact fmtOf_from f hlen
  · rw [hbs]; simp [hcrc]; omega
  · rw [hbs2]; exact find_frame _ _ hd hsv _ _ _
  · exact h5
  · exact h6

theorem preOf_pos (f : Frame) :
    3 + (Props.C13.fields f.dst).2.2 + (Props.C13.fields f.src).2.2 = (preOf f).length + 1 := by
  simp [preOf, fmtOf_length, addrBytes_length]; omega

end Lemmas.Hdlc
