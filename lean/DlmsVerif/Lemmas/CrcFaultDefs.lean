/-
  Error patterns on the wire, for the fault theorem of C09: an error is the bitwise
  difference of the received and the sent bytes; bits are numbered in transmission order
  (HDLC sends the least significant bit of each byte first).
-/
import DlmsVerif.Basic

namespace Lemmas.CrcFaultDefs

def xorBytes (a b : Bytes) : Bytes := List.zipWith (· ^^^ ·) a b

/-- the bits of a byte string in transmission order. -/
def bitsOf (e : Bytes) : List Bool := e.flatMap fun b => (List.range 8).map fun j => b.toNat.testBit j

/-- number of altered bits. -/
def weight (e : Bytes) : Nat := (bitsOf e).count true

/-- every altered bit lies in the window of 16 consecutive bit positions starting at `k`. -/
def inWindow (e : Bytes) (k : Nat) : Prop := ∀ i, (bitsOf e).getD i false = true → k ≤ i ∧ i < k + 16

/-- what the frame check sequence is guaranteed to detect: one to three altered bits, or any
    number of altered bits confined to a burst of at most 16 bit positions. -/
def SmallError (e : Bytes) : Prop := 0 < weight e ∧ (weight e ≤ 3 ∨ ∃ k, inWindow e k)

end Lemmas.CrcFaultDefs
