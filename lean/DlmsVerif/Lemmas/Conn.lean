/-
  Helper lemmas for C03: the transition table regenerated from the code (Gen.Tables) looked
  up once per (phase, event class) pair and compared with the abstract procedure
  `Spec.Assoc.next`; facts about the model that do not depend on the table.
-/
import DlmsVerif.Gen.Tables
import DlmsVerif.Model.ConnSpec

namespace Lemmas.Conn
open Dlms Model.Conn Model.ConnSpec Spec.Assoc

/-- the table of the code (the same term as `Props.C03.T`). -/
def tbl : Tables := { transitions := Gen.Tables.dlmsTransitions }

/-- requests of the alphabet: the table row is the procedure's `next` (no pre-established guard). -/
theorem send_lookup (p : Phase) (k : Kind) (e : Ev) (he : evOfSend k = some e) :
    lookup tbl (phaseName p) k.cls = (next false p e).map phaseName := by
  cases k <;> simp [evOfSend] at he <;> subst he <;> cases p <;> decide

/-- responses of the alphabet whose fields the connection ignores. -/
theorem simple_lookup (c : Config) (s : Conn) (p : Phase) (k : Kind) (e : Ev)
    (he : evOfApdu c s (.simple k) = some e) :
    lookup tbl (phaseName p) k.cls = (next false p e).map phaseName := by
  cases k <;> simp [evOfApdu] at he <;> subst he <;> cases p <;> decide

theorem aare_lookup (p : Phase) :
    lookup tbl (phaseName p) "ApplicationAssociationResponse" =
      if p = .awaitingAssociationResponse then some "READY" else none := by
  cases p <;> decide

theorem rlre_lookup (p : Phase) :
    lookup tbl (phaseName p) "ReleaseResponse" =
      if p = .awaitingReleaseResponse then some "NO_ASSOCIATION" else none := by
  cases p <;> decide

theorem actRespData_lookup (p : Phase) :
    lookup tbl (phaseName p) "ActionResponseNormalWithData" =
      if p = .awaitingActionResponse then some "READY"
      else if p = .awaitingHlsClientChallengeResult then some "HLS_DONE" else none := by
  cases p <;> decide

/-- the internal follow-up events. -/
theorem reject_lookup : lookup tbl "READY" "RejectAssociation" = some "NO_ASSOCIATION" := by decide
theorem hlsStart_lookup : lookup tbl "READY" "HlsStart" = some "SHOULD_SEND_HLS_SEVER_CHALLENGE_RESULT" := by decide
theorem hlsSuccess_lookup : lookup tbl "HLS_DONE" "HlsSuccess" = some "READY" := by decide
theorem hlsFailed_lookup : lookup tbl "HLS_DONE" "HlsFailed" = some "NO_ASSOCIATION" := by decide

/-- the transient state is not a phase. -/
theorem phaseName_ne_hlsDone (p : Phase) : (phaseName p == "HLS_DONE") = false := by
  cases p <;> decide

theorem phaseName_inj (p q : Phase) (h : phaseName p = phaseName q) : p = q := by
  cases p <;> cases q <;> first | rfl | (revert h; decide)

/-- the HLS check reads only the meter's system title. -/
theorem hlsValid_state (c : Config) (s : Conn) (d : HlsData) (st : String) :
    hlsValid c { s with state := st } d = hlsValid c s d := rfl

/-- without keys `unprotect` is the identity. -/
theorem unprotect_unprotected (c : Config) (h : c.useProtection = false) (s : Conn) (a : Apdu) :
    unprotect c s a = .ok (a, s) := by
  simp [unprotect, h]

/-- `encrypt` succeeds with both keys of the right length, an 8-byte title and a counter in range. -/
theorem encrypt_ok (c : Config) (s : Conn) (pl : Inner) (ek ak : Key) (hek : c.ek = some ek) (hak : c.ak = some ak)
    (hsuite : c.suite ≤ 2) (hekl : keyLenOk c.suite ek = true) (hakl : keyLenOk c.suite ak = true)
    (htitle : c.clientTitle.length = 8) (hic : s.clientIC < 2 ^ 32) :
    encrypt c s pl = .ok (.sealed ⟨ek, c.clientTitle, s.clientIC, c.scByte, ak⟩ pl, s.clientIC,
      { s with clientIC := s.clientIC + 1, log := s.log ++ [.seal ⟨ek, c.clientTitle, s.clientIC, c.scByte, ak⟩] }) := by
  unfold encrypt
  rw [hek, hak]
  simp [hsuite, hekl, hakl, htitle, Nat.not_le.mpr hic]

end Lemmas.Conn
