/-
  Helper lemmas for C04 / C08: consequences of `keysOk`, inversion of `encrypt` and `send`,
  the rows of the extracted transition table that concern the HLS sub-states, and what
  `deliver` does while the HLS answer is awaited.
-/
import DlmsVerif.Lemmas.ConnDefs

namespace Lemmas.ConnSend
open Dlms Model.Conn Lemmas.ConnDefs

theorem keysOk_useProtection {c : Config} {ek ak : Key} (hk : keysOk c ek ak) : c.useProtection = true := by
  obtain ⟨hek, _⟩ := hk
  simp [Config.useProtection, hek]

theorem keysOk_scByte {c : Config} {ek ak : Key} (hk : keysOk c ek ak) : c.scByte = c.suite + 48 := by
  obtain ⟨hek, hak, _⟩ := hk
  unfold Config.scByte; simp [hek, hak]

theorem encrypt_keysOk {c : Config} {ek ak : Key} (hk : keysOk c ek ak) (s : Conn) (p : Inner)
    {r : Cipher × Nat × Conn} (h : encrypt c s p = .ok r) :
    r = (.sealed { key := ek, title := c.clientTitle, ic := s.clientIC, sc := c.suite + 48, ak := ak } p, s.clientIC,
          { s with clientIC := s.clientIC + 1, log := s.log ++ [.seal { key := ek, title := c.clientTitle, ic := s.clientIC, sc := c.suite + 48, ak := ak }] }) := by
  have hsc := keysOk_scByte hk
  obtain ⟨hek, hak, hs, hl1, hl2, ht⟩ := hk
  unfold encrypt at h
  simp only [hek, hak] at h
  split at h
  · cases h
  · split at h
    · cases h
    · split at h
      · cases h
      · simp only [hsc] at h
        cases h; rfl

theorem lk_should (k : Kind) : lookup T "SHOULD_SEND_HLS_SEVER_CHALLENGE_RESULT" k.cls =
    if k = .actReq then some "AWAITING_HLS_CLIENT_CHALLENGE_RESULT" else none := by
  cases k <;> decide
theorem lk_await (k : Kind) : lookup T "AWAITING_HLS_CLIENT_CHALLENGE_RESULT" k.cls =
    if k = .actRespData then some "HLS_DONE" else if k = .actResp ∨ k = .actRespErr then some "NO_ASSOCIATION" else none := by
  cases k <;> decide
theorem lk_done (k : Kind) : lookup T "HLS_DONE" k.cls = none := by
  cases k <;> decide
theorem lk_noassoc (k : Kind) : lookup T "NO_ASSOCIATION" k.cls =
    if k = .aarq then some "AWAITING_ASSOCIATION_RESPONSE" else none := by
  cases k <;> decide
theorem lk_succ : lookup T "HLS_DONE" "HlsSuccess" = some "READY" := by decide
theorem lk_fail : lookup T "HLS_DONE" "HlsFailed" = some "NO_ASSOCIATION" := by decide

theorem encrypt_state {c : Config} {s : Conn} {p : Inner} {ct : Cipher} {ic : Nat} {s2 : Conn}
    (h : encrypt c s p = .ok (ct, ic, s2)) : s2.state = s.state := by
  unfold encrypt at h
  split at h
  · split at h
    · cases h
    · split at h
      · cases h
      · split at h
        · cases h
        · cases h; rfl
  · cases h

/-- a successful send took a transition of the table, and the new state is its target. -/
theorem send_ok_inv {T : Tables} {c : Config} {s s' : Conn} {k : Kind} {ui : Bool} {out : Sent}
    (h : send T c s k ui = (.ok out, s')) :
    (c.preEstablished && k.isAcseRequest) = false ∧ lookup T s.state k.cls = some s'.state := by
  unfold send at h
  split at h
  · simp at h
  · rename_i hpre
    refine ⟨by simpa using hpre, ?_⟩
    split at h
    · simp at h
    · rename_i st' hl
      rw [hl]
      split at h
      · cases h; rfl
      · split at h
        · split at h
          · dsimp only at h
            split at h
            · rename_i he
              cases h; rw [encrypt_state he]
            · simp at h
          · cases h; rfl
        · split at h
          · dsimp only at h
            split at h
            · rename_i he
              cases h; rw [encrypt_state he]
            · simp at h
          · simp at h

theorem send_lookup_none {T : Tables} {c : Config} {s : Conn} {k : Kind} {ui : Bool}
    (h : lookup T s.state k.cls = none) : ∃ e, (send T c s k ui).1 = .error e ∧ (send T c s k ui).2 = s := by
  unfold send
  split
  · exact ⟨_, rfl, rfl⟩
  · rw [h]; exact ⟨_, rfl, rfl⟩

theorem hlsValid_state (c : Config) (s : Conn) (st : String) (d : HlsData) :
    hlsValid c { s with state := st } d = hlsValid c s d := rfl

theorem ne_ready1 : ("AWAITING_HLS_CLIENT_CHALLENGE_RESULT" : String) ≠ "READY" := by decide
theorem ne_ready2 : ("NO_ASSOCIATION" : String) ≠ "READY" := by decide

/-- what `deliver` does while the HLS answer is awaited. -/
theorem deliver_await (c : Config) (s : Conn) (hs : s.state = "AWAITING_HLS_CLIENT_CHALLENGE_RESULT") (a : Apdu)
    (ha : Apdu.wf a = true) :
    (∃ status d, a = .actRespData status d ∧
        (deliver T c s a).2 = { s with state := if (status == 0 && hlsValid c s d) = true then "READY" else "NO_ASSOCIATION" }) ∨
    ((∀ status d, a ≠ .actRespData status d) ∧
        ((deliver T c s a).2 = s ∨ (deliver T c s a).2.state = "NO_ASSOCIATION")) := by
  cases a with
  | actRespData status d =>
    left
    refine ⟨status, d, rfl, ?_⟩
    unfold deliver transition
    simp only [Apdu.kind, Kind.isAcseResponse, hs, lk_await]
    simp only [show (Kind.actRespData == Kind.aare) = false from rfl, show (Kind.actRespData == Kind.rlre) = false from rfl,
      Bool.or_false, Bool.and_false, Bool.false_eq_true, if_false, if_true, Option.map_some, beq_self_eq_true, hlsValid_state]
    by_cases hb : (status == 0 && hlsValid c s d) = true
    · simp only [hb, if_true, lk_succ, Option.map_some]
    · simp only [hb, if_false, lk_fail, Option.map_some, Bool.false_eq_true]
  | aare r m t ch ui =>
    right
    refine ⟨(by intro _ _ h; cases h), Or.inl ?_⟩
    unfold deliver transition
    simp only [Apdu.kind, hs, lk_await]
    split <;> rfl
  | rlre ui =>
    right
    refine ⟨(by intro _ _ h; cases h), Or.inl ?_⟩
    unfold deliver transition
    simp only [Apdu.kind, hs, lk_await]
    split <;> rfl
  | ggc t sc ic ct =>
    right
    refine ⟨(by intro _ _ h; cases h), Or.inl ?_⟩
    unfold deliver transition
    simp only [Apdu.kind, hs, lk_await]
    split <;> rfl
  | simple k =>
    right
    refine ⟨(by intro _ _ h; cases h), ?_⟩
    unfold deliver transition
    simp only [Apdu.kind, hs, lk_await]
    cases k <;> simp [Apdu.wf, plainKindOk] at ha <;> simp [Kind.isAcseResponse]

end Lemmas.ConnSend
