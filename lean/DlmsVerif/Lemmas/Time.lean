/- Helper lemmas for the COSEM date-time codec (C16). -/
import DlmsVerif.Model.Time
import DlmsVerif.Lemmas.Basic

namespace Lemmas.Time
open Dlms Spec.DateTime Model.Time

theorem daysIn_le (y m : Nat) : daysIn y m ≤ 31 := by
  unfold daysIn; split <;> (try split) <;> omega

theorem optByte_of_ne (v : Nat) (r : Option Nat) (h : v ≠ 255) : optByte v r = some v := by
  simp [optByte, h]

theorem optByte_255 (r : Option Nat) : optByte 255 r = r := by
  simp [optByte]

theorem twos16_lt (v : Int) : twos16 v < 65536 := by unfold twos16; omega

theorem twos16_split (v : Int) : twos16 v / 256 % 256 * 256 + twos16 v % 256 = twos16 v := by
  have := twos16_lt v; omega

theorem twos16_signed (v : Int) (h : -32768 ≤ v ∧ v < 32768) :
    (if twos16 v ≥ 32768 then ((twos16 v : Nat) : Int) - 65536 else ((twos16 v : Nat) : Int)) = v := by
  unfold twos16; split <;> omega

theorem encode_map (d : DT) (st : Nat) :
    (Spec.DateTime.encode d st).map (·.toNat) =
      [d.year / 256 % 256, d.year % 256, d.month % 256, d.day % 256, 255, d.hour % 256, d.minute % 256,
       d.second % 256, d.micro / 10000 % 256,
       (match d.offset with | none => 128 | some o => twos16 (-o) / 256 % 256),
       (match d.offset with | none => 0 | some o => twos16 (-o) % 256), st % 256] := by
  unfold Spec.DateTime.encode
  cases d.offset <;> simp [deviationBytes, beBytes]

theorem optByte_none_some {v m : Nat} (h : optByte v none = some m) : v ≠ 255 ∧ m = v := by
  unfold optByte at h
  split at h
  · cases h
  · rename_i hv; simp at hv; cases h; exact ⟨hv, rfl⟩

theorem inRange_optByte_none {lo hi v : Nat} (h : inRange lo hi (optByte v none) = true) :
    v = 255 ∨ (lo ≤ v ∧ v ≤ hi) := by
  unfold optByte at h
  split at h
  · rename_i hv; simp at hv; exact Or.inl hv
  · simp [inRange] at h; exact Or.inr h

theorem inRange_optByte_some0 {hi v : Nat} (h : inRange 0 hi (optByte v (some 0)) = true) :
    v = 255 ∨ v ≤ hi := by
  unfold optByte at h
  split at h
  · rename_i hv; simp at hv; exact Or.inl hv
  · simp [inRange] at h; exact Or.inr h

end Lemmas.Time
