/- Generic lemmas on big-endian byte strings used by every codec proof. -/
import DlmsVerif.Basic

namespace Dlms

theorem pow256_pos (k : Nat) : 0 < 256 ^ k := Nat.pow_pos (by decide)

theorem beBytes_length (k n : Nat) : (beBytes k n).length = k := by
  induction k with
  | zero => rfl
  | succ k ih => simp [beBytes, ih]

theorem foldl_be (bs : Bytes) (acc : Nat) :
    bs.foldl (fun acc b => acc * 256 + b.toNat) acc = acc * 256 ^ bs.length + beNat bs := by
  unfold beNat
  induction bs generalizing acc with
  | nil => simp
  | cons b bs ih =>
    simp only [List.foldl_cons, List.length_cons]
    rw [ih, ih (0 * 256 + b.toNat), Nat.pow_succ]
    simp only [Nat.zero_mul, Nat.zero_add, Nat.add_mul]
    rw [Nat.mul_assoc, Nat.mul_comm 256 (256 ^ bs.length)]
    omega

theorem beNat_cons (b : UInt8) (bs : Bytes) : beNat (b :: bs) = b.toNat * 256 ^ bs.length + beNat bs := by
  have := foldl_be bs (0 * 256 + b.toNat)
  simpa [beNat] using this

theorem beNat_append (a b : Bytes) : beNat (a ++ b) = beNat a * 256 ^ b.length + beNat b := by
  have := foldl_be b (beNat a)
  unfold beNat at *
  rw [List.foldl_append]; exact this

theorem beNat_lt (bs : Bytes) : beNat bs < 256 ^ bs.length := by
  induction bs with
  | nil => simp [beNat]
  | cons b bs ih =>
    rw [beNat_cons, List.length_cons, Nat.pow_succ]
    have hb : b.toNat < 256 := b.toNat_lt
    have h1 : b.toNat * 256 ^ bs.length ≤ 255 * 256 ^ bs.length := Nat.mul_le_mul_right _ (by omega)
    have h2 : 256 ^ bs.length * 256 = 255 * 256 ^ bs.length + 256 ^ bs.length := by
      rw [Nat.mul_comm]; omega
    omega

theorem toNat_ofNat_mod (x : Nat) : (UInt8.ofNat (x % 256)).toNat = x % 256 := by
  simp

/-- decoding what was encoded gives the value modulo 256^k. -/
theorem beNat_beBytes (k n : Nat) : beNat (beBytes k n) = n % 256 ^ k := by
  induction k with
  | zero => simp [beBytes, beNat, Nat.mod_one]
  | succ k ih =>
    rw [beBytes, beNat_cons, beBytes_length, ih, toNat_ofNat_mod]
    rw [Nat.pow_succ, Nat.mod_mul, Nat.mul_comm]
    omega

theorem beNat_beBytes_of_lt (k n : Nat) (h : n < 256 ^ k) : beNat (beBytes k n) = n := by
  rw [beNat_beBytes, Nat.mod_eq_of_lt h]

theorem beBytes_add_mul (k m x : Nat) : beBytes k (m * 256 ^ k + x) = beBytes k x := by
  induction k generalizing m with
  | zero => rfl
  | succ k ihk =>
    rw [beBytes, beBytes]
    have e : m * 256 ^ (k + 1) = (m * 256) * 256 ^ k := by
      rw [Nat.pow_succ, Nat.mul_assoc, Nat.mul_comm (256 ^ k) 256]
    rw [e]
    congr 1
    · congr 1
      rw [Nat.add_comm, Nat.add_mul_div_right _ _ (pow256_pos k), Nat.add_mul_mod_self_right]
    · exact ihk _

/-- encoding what was decoded gives the bytes back. -/
theorem beBytes_beNat (bs : Bytes) : beBytes bs.length (beNat bs) = bs := by
  induction bs with
  | nil => rfl
  | cons b bs ih =>
    rw [List.length_cons, beBytes, beNat_cons]
    have hlt := beNat_lt bs
    have hpos := pow256_pos bs.length
    have h1 : (b.toNat * 256 ^ bs.length + beNat bs) / 256 ^ bs.length = b.toNat := by
      rw [Nat.add_comm, Nat.add_mul_div_right _ _ hpos, Nat.div_eq_of_lt hlt]; omega
    rw [h1, beBytes_add_mul, ih]
    have hb : b.toNat < 256 := b.toNat_lt
    rw [Nat.mod_eq_of_lt hb]
    congr 1
    exact UInt8.ofNat_toNat

end Dlms
