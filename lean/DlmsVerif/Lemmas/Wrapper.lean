/- Lemmas on the wrapper header codec and the scripted-socket receive loop (C17). -/
import DlmsVerif.Model.Wrapper
import DlmsVerif.Lemmas.Basic

namespace Model.Wrapper
open Dlms

theorem len2 (a : Bytes) (h : a.length = 2) : ∃ x y, a = [x, y] := by
  match a, h with
  | [x, y], _ => exact ⟨x, y, rfl⟩

/-- unpacking four 2-byte blocks. -/
theorem fromBytes_append4 (a b c d : Bytes) (ha : a.length = 2) (hb : b.length = 2)
    (hc : c.length = 2) (hd : d.length = 2) :
    Header.fromBytes (a ++ b ++ c ++ d) =
      .ok { version := beNat a, src := beNat b, dst := beNat c, length := beNat d } := by
  obtain ⟨a0, a1, rfl⟩ := len2 a ha
  obtain ⟨b0, b1, rfl⟩ := len2 b hb
  obtain ⟨c0, c1, rfl⟩ := len2 c hc
  obtain ⟨d0, d1, rfl⟩ := len2 d hd
  simp [Header.fromBytes]

theorem beNat_beBytes2 (x : Nat) (h : x < 65536) : beNat (beBytes 2 x) = x :=
  beNat_beBytes_of_lt 2 x (by simpa using h)

theorem fromBytes_header (v s d n : Nat) (hv : v < 65536) (hs : s < 65536) (hd : d < 65536)
    (hn : n < 65536) :
    Header.fromBytes (beBytes 2 v ++ beBytes 2 s ++ beBytes 2 d ++ beBytes 2 n) =
      .ok { version := v, src := s, dst := d, length := n } := by
  rw [fromBytes_append4 _ _ _ _ (beBytes_length _ _) (beBytes_length _ _) (beBytes_length _ _)
    (beBytes_length _ _)]
  rw [beNat_beBytes2 v hv, beNat_beBytes2 s hs, beNat_beBytes2 d hd, beNat_beBytes2 n hn]

theorem header_length (v s d n : Nat) :
    (beBytes 2 v ++ beBytes 2 s ++ beBytes 2 d ++ beBytes 2 n).length = 8 := by
  simp [beBytes_length]

/-- shape of one read. -/
theorem Sock.recv_spec (s : Sock) (n : Nat) (hn : 1 ≤ n) :
    ∃ cap, 1 ≤ cap ∧ cap ≤ n ∧
      s.recv n = (s.stream.take cap, { stream := s.stream.drop cap, sched := s.sched.drop 1 }) := by
  unfold Sock.recv
  cases s.sched with
  | nil => exact ⟨n, hn, Nat.le_refl _, rfl⟩
  | cons c t => exact ⟨min n (max c 1), by omega, by omega, rfl⟩

/-- the receive loop returns exactly the wanted prefix, for every schedule. -/
theorem recvExactly_ok (fuel : Nat) : ∀ (need : Nat) (want rest acc : Bytes) (sched : List Nat),
    need ≤ fuel → want.length = need →
    ∃ sched', recvExactly fuel { stream := want ++ rest, sched := sched } need acc
      = .ok (acc ++ want, { stream := rest, sched := sched' }) := by
  induction fuel with
  | zero =>
    intro need want rest acc sched hf hw
    have h0 : need = 0 := by omega
    subst h0
    have : want = [] := List.eq_nil_of_length_eq_zero hw
    subst this
    exact ⟨sched, by simp [recvExactly]⟩
  | succ fuel ih =>
    intro need want rest acc sched hf hw
    by_cases h0 : need = 0
    · subst h0
      have : want = [] := List.eq_nil_of_length_eq_zero hw
      subst this
      exact ⟨sched, by simp [recvExactly]⟩
    · obtain ⟨cap, hc1, hc2, hrecv⟩ :=
        Sock.recv_spec { stream := want ++ rest, sched := sched } need (by omega)
      rw [recvExactly, if_neg h0]
      simp only [hrecv]
      have hcl : cap ≤ want.length := by omega
      rw [List.take_append_of_le_length hcl, List.drop_append_of_le_length hcl]
      have hlen : (want.take cap).length = cap := by rw [List.length_take]; omega
      have hne : (want.take cap).isEmpty = false := by
        cases hx : want.take cap with
        | nil => rw [hx] at hlen; simp at hlen; omega
        | cons _ _ => rfl
      simp only [hne]
      obtain ⟨sched', h⟩ := ih (need - (want.take cap).length) (want.drop cap) rest
        (acc ++ want.take cap) (sched.drop 1) (by omega) (by simp [List.length_drop]; omega)
      refine ⟨sched', ?_⟩
      simpa [List.append_assoc] using h

/-- a stream shorter than what is needed never yields data. -/
theorem recvExactly_short (fuel : Nat) : ∀ (s : Sock) (need : Nat) (acc : Bytes),
    s.stream.length < need → ∃ e, recvExactly fuel s need acc = .error e := by
  induction fuel with
  | zero =>
    intro s need acc h
    have h0 : need ≠ 0 := by omega
    exact ⟨.client, by simp [recvExactly, h0]⟩
  | succ fuel ih =>
    intro s need acc h
    have h0 : need ≠ 0 := by omega
    obtain ⟨cap, hc1, hc2, hrecv⟩ := Sock.recv_spec s need (by omega)
    rw [recvExactly, if_neg h0]
    simp only [hrecv]
    split
    · exact ⟨_, rfl⟩
    · apply ih
      simp only [List.length_take, List.length_drop]
      omega

end Model.Wrapper
