/- Definitions shared by the statements of C04, C06, C07, C08 (no proofs here). -/
import DlmsVerif.Gen.Tables
import DlmsVerif.Model.Conn

namespace Lemmas.ConnDefs
open Dlms Model.Conn

def T : Tables := { transitions := Gen.Tables.dlmsTransitions }

/-- both keys configured, of the length the security suite demands, and an 8-byte title. -/
def keysOk (c : Config) (ek ak : Key) : Prop :=
  c.ek = some ek ∧ c.ak = some ak ∧ c.suite ≤ 2 ∧ keyLenOk c.suite ek = true ∧ keyLenOk c.suite ak = true ∧
  c.clientTitle.length = 8

def plainKindOk (k : Kind) : Bool := !(k == .aare || k == .rlre || k == .generalGlo || k == .actRespData)

/-- a protected text as a meter produces it: what is sealed is a service APDU, an ACTION
    response with data, an initiate response (or undecodable bytes), never an ACSE APDU or
    another ciphered APDU. -/
def Cipher.wf : Cipher → Bool
  | .sealed _ (.simple k) => plainKindOk k
  | _ => true

def UserInfo.wf : UserInfo → Bool
  | .gloInitResp _ _ ct => Cipher.wf ct
  | _ => true

/-- decoded APDUs as the real decoder produces them: the kinds with dedicated constructors
    never appear as `simple`. -/
def Apdu.wf : Apdu → Bool
  | .simple k => plainKindOk k
  | .ggc _ _ _ ct => Cipher.wf ct
  | .aare _ _ _ _ ui => UserInfo.wf ui
  | .rlre ui => UserInfo.wf ui
  | .actRespData .. => true

def Input.wf : Input → Bool
  | .garbage => true
  | .apdu a => Apdu.wf a

/-- the request kinds (the only kinds a client sends). -/
def Kind.isRequest (k : Kind) : Bool :=
  k == .aarq || k == .rlrq || k == .getReq || k == .getNext || k == .setReq || k == .actReq

def Op.wf : Op → Bool
  | .recv x => Input.wf x
  | _ => true

/-- a fresh connection object in a given protocol state with given counters. -/
def fresh (state : String) (cic mic : Nat) (mt : Option Bytes := none) : Conn :=
  { state := state, clientIC := cic, meterIC := mic, meterTitle := mt }

end Lemmas.ConnDefs
