/-
  Lemmas for C10 about the receive-path model `Model.Rx`:
  specification of `indexFrom`, one `poll` in closed form, fuel-independence of `drainAux`
  (unfolding equation `drain_step`), draining commutes with appending bytes
  (`drain_receive`, hence `feed = drain` of the concatenation), and the scan of one frame.
-/
import DlmsVerif.Model.Rx

namespace Lemmas.Rx
open Model.Rx

/-! ### `indexFrom` -/

theorem indexFrom_some {buf : Bytes} {p i : Nat} (h : indexFrom buf p = some i) :
    p ≤ i ∧ buf[i]? = some 0x7E ∧ ∀ j, p ≤ j → j < i → buf[j]? ≠ some 0x7E := by
  induction buf generalizing p i with
  | nil => simp [indexFrom] at h
  | cons b bs ih =>
    cases p with
    | zero =>
      unfold indexFrom at h
      split at h
      · rename_i hb
        simp only [beq_iff_eq] at hb
        simp only [Option.some.injEq] at h
        subst h
        refine ⟨Nat.le_refl _, by simp [hb], ?_⟩
        intro j _ hj; omega
      · rename_i hb
        simp only [beq_iff_eq] at hb
        cases hr : indexFrom bs 0 with
        | none => simp [hr] at h
        | some i' =>
          simp only [hr, Option.map_some, Option.some.injEq] at h
          subst h
          obtain ⟨_, h2, h3⟩ := ih hr
          refine ⟨Nat.zero_le _, by simpa using h2, ?_⟩
          intro j _ hj
          cases j with
          | zero => simpa using hb
          | succ j => simpa using h3 j (Nat.zero_le _) (by omega)
    | succ p =>
      unfold indexFrom at h
      cases hr : indexFrom bs p with
      | none => simp [hr] at h
      | some i' =>
        simp only [hr, Option.map_some, Option.some.injEq] at h
        subst h
        obtain ⟨h1, h2, h3⟩ := ih hr
        refine ⟨by omega, by simpa using h2, ?_⟩
        intro j hj1 hj2
        cases j with
        | zero => omega
        | succ j => simpa using h3 j (by omega) (by omega)

theorem indexFrom_none {buf : Bytes} {p : Nat} (h : indexFrom buf p = none) :
    ∀ j, p ≤ j → buf[j]? ≠ some 0x7E := by
  induction buf generalizing p with
  | nil => intro j _; simp
  | cons b bs ih =>
    cases p with
    | zero =>
      unfold indexFrom at h
      split at h
      · simp at h
      · rename_i hb
        simp only [beq_iff_eq] at hb
        simp only [Option.map_eq_none_iff] at h
        intro j _
        cases j with
        | zero => simpa using hb
        | succ j => simpa using ih h j (Nat.zero_le _)
    | succ p =>
      unfold indexFrom at h
      simp only [Option.map_eq_none_iff] at h
      intro j hj
      cases j with
      | zero => omega
      | succ j => simpa using ih h j (by omega)

theorem indexFrom_eq_some {buf : Bytes} {p i : Nat} (h1 : p ≤ i) (h2 : buf[i]? = some 0x7E)
    (h3 : ∀ j, p ≤ j → j < i → buf[j]? ≠ some 0x7E) : indexFrom buf p = some i := by
  cases hr : indexFrom buf p with
  | none => exact absurd h2 (indexFrom_none hr i h1)
  | some i' =>
    obtain ⟨g1, g2, g3⟩ := indexFrom_some hr
    have : i' = i := by
      rcases Nat.lt_trichotomy i' i with hlt | heq | hgt
      · exact absurd g2 (h3 i' g1 hlt)
      · exact heq
      · exact absurd h2 (g3 i h1 hgt)
    rw [this]

theorem indexFrom_lt {buf : Bytes} {p i : Nat} (h : indexFrom buf p = some i) : i < buf.length := by
  have := (indexFrom_some h).2.1
  exact (List.getElem?_eq_some_iff.mp this).1

theorem indexFrom_append {buf : Bytes} {p i : Nat} (c : Bytes) (h : indexFrom buf p = some i) :
    indexFrom (buf ++ c) p = some i := by
  obtain ⟨h1, h2, h3⟩ := indexFrom_some h
  have hl := indexFrom_lt h
  apply indexFrom_eq_some h1
  · rw [List.getElem?_append_left hl]; exact h2
  · intro j hj1 hj2
    rw [List.getElem?_append_left (by omega)]
    exact h3 j hj1 hj2

/-! ### one poll -/

/-- the candidate of `_find_frame` when the flag found is at index `i`. -/
def cand (buf : Bytes) (i : Nat) : Bytes :=
  if (buf.take (i + 1)).head? == some 0x7E then buf.take (i + 1) else 0x7E :: buf.take (i + 1)

theorem poll_of_index {F : Type} (parse : Bytes → Option F) (s : Rx) (i : Nat)
    (h : indexFrom s.buf s.pos = some i) :
    poll parse s =
      match parse (cand s.buf i) with
      | none => ({ s with pos := i + 1 }, none)
      | some f => ({ buf := s.buf.drop (i + 1), pos := 1 }, some f) := by
  unfold poll findFrame cand
  simp only [h]
  cases parse _ <;> rfl

theorem poll_none {F : Type} (parse : Bytes → Option F) (s : Rx) (i : Nat)
    (h : indexFrom s.buf s.pos = some i) (hp : parse (cand s.buf i) = none) :
    poll parse s = ({ s with pos := i + 1 }, none) := by
  rw [poll_of_index parse s i h, hp]

theorem poll_some {F : Type} (parse : Bytes → Option F) (s : Rx) (i : Nat) (f : F)
    (h : indexFrom s.buf s.pos = some i) (hp : parse (cand s.buf i) = some f) :
    poll parse s = ({ buf := s.buf.drop (i + 1), pos := 1 }, some f) := by
  rw [poll_of_index parse s i h, hp]

/-- termination measure of the drain loop. -/
def meas (s : Rx) : Nat := s.buf.length + 1 - s.pos

theorem pending_iff (s : Rx) : pending s = true ↔ ∃ i, indexFrom s.buf s.pos = some i := by
  unfold pending
  cases indexFrom s.buf s.pos <;> simp

theorem poll_meas {F : Type} (parse : Bytes → Option F) (s : Rx) (h : pending s = true) :
    meas (poll parse s).1 < meas s := by
  obtain ⟨i, hi⟩ := (pending_iff s).mp h
  have h1 := (indexFrom_some hi).1
  have h2 := indexFrom_lt hi
  rw [poll_of_index parse s i hi]
  cases parse (cand s.buf i) <;> simp only [meas, List.length_drop] <;> omega

theorem not_pending_of_meas (s : Rx) (h : meas s = 0) : pending s = false := by
  cases hp : pending s with
  | false => rfl
  | true =>
    obtain ⟨i, hi⟩ := (pending_iff s).mp hp
    have h1 := (indexFrom_some hi).1
    have h2 := indexFrom_lt hi
    unfold meas at h
    omega

/-! ### fuel -/

theorem drainAux_not_pending {F : Type} (parse : Bytes → Option F) (n : Nat) (s : Rx) (acc : List F)
    (h : pending s = false) : drainAux parse n s acc = (s, acc) := by
  cases n with
  | zero => rfl
  | succ n => simp [drainAux, h]

theorem drainAux_fuel {F : Type} (parse : Bytes → Option F) :
    ∀ (n1 n2 : Nat) (s : Rx) (acc : List F), meas s ≤ n1 → meas s ≤ n2 →
      drainAux parse n1 s acc = drainAux parse n2 s acc := by
  intro n1
  induction n1 with
  | zero =>
    intro n2 s acc h1 _
    have := not_pending_of_meas s (by omega)
    rw [drainAux_not_pending parse _ s acc this, drainAux_not_pending parse _ s acc this]
  | succ n1 ih =>
    intro n2 s acc h1 h2
    cases hp : pending s with
    | false =>
      rw [drainAux_not_pending parse _ s acc hp, drainAux_not_pending parse _ s acc hp]
    | true =>
      have hm := poll_meas parse s hp
      cases n2 with
      | zero =>
        have := not_pending_of_meas s (by omega)
        rw [this] at hp; contradiction
      | succ n2 =>
        simp only [drainAux, hp, if_true]
        rcases hq : poll parse s with ⟨s', o⟩
        rw [hq] at hm
        cases o with
        | none => exact ih n2 s' acc (by simp only at hm; omega) (by simp only at hm; omega)
        | some f => exact ih n2 s' _ (by simp only at hm; omega) (by simp only at hm; omega)

theorem drainAux_acc {F : Type} (parse : Bytes → Option F) :
    ∀ (n : Nat) (s : Rx) (acc : List F),
      drainAux parse n s acc = ((drainAux parse n s []).1, acc ++ (drainAux parse n s []).2) := by
  intro n
  induction n with
  | zero => intro s acc; simp [drainAux]
  | succ n ih =>
    intro s acc
    cases hp : pending s with
    | false => simp [drainAux, hp]
    | true =>
      simp only [drainAux, hp, if_true]
      rcases hq : poll parse s with ⟨s', o⟩
      cases o with
      | none => exact ih s' acc
      | some f =>
        simp only
        rw [ih s' (acc ++ [f]), ih s' ([] ++ [f])]
        simp

/-- unfolding equation of `drain`, free of fuel. -/
theorem drain_step {F : Type} (parse : Bytes → Option F) (s : Rx) :
    drain parse s =
      if pending s then
        ((drain parse (poll parse s).1).1, (poll parse s).2.toList ++ (drain parse (poll parse s).1).2)
      else (s, []) := by
  cases hp : pending s with
  | false => simp [drain, drainAux, hp]
  | true =>
    have hm := poll_meas parse s hp
    have e : ∀ s' o, poll parse s = (s', o) →
        drain parse s = drainAux parse s.buf.length s' ([] ++ o.toList) := by
      intro s' o hq
      show drainAux parse (s.buf.length + 1) s [] = _
      rw [drainAux]; simp only [hp, if_true, hq]
      cases o <;> rfl
    rcases hq : poll parse s with ⟨s', o⟩
    rw [e s' o hq]
    rw [hq] at hm
    simp only at hm
    have hf : ∀ acc, drainAux parse s.buf.length s' acc = drainAux parse (s'.buf.length + 1) s' acc :=
      fun acc => drainAux_fuel parse _ _ s' acc (by unfold meas at hm ⊢; omega) (by unfold meas; omega)
    cases o with
    | none => simp only [hf, if_true, Option.toList, List.nil_append]; rfl
    | some f =>
      simp only [hf, if_true, Option.toList]
      rw [drainAux_acc]
      rfl

theorem drain_not_pending {F : Type} (parse : Bytes → Option F) (s : Rx) (h : pending s = false) :
    drain parse s = (s, []) := by
  rw [drain_step, h]; simp

theorem drain_pending {F : Type} (parse : Bytes → Option F) (s : Rx) (h : pending s = true) :
    drain parse s =
      ((drain parse (poll parse s).1).1, (poll parse s).2.toList ++ (drain parse (poll parse s).1).2) := by
  rw [drain_step, h]; simp

/-! ### draining commutes with receiving -/

theorem pending_receive (s : Rx) (c : Bytes) (h : pending s = true) : pending (receive s c) = true := by
  obtain ⟨i, hi⟩ := (pending_iff s).mp h
  exact (pending_iff _).mpr ⟨i, indexFrom_append c hi⟩

theorem cand_append (buf c : Bytes) (i : Nat) (h : i < buf.length) : cand (buf ++ c) i = cand buf i := by
  unfold cand
  rw [List.take_append_of_le_length (by omega)]

theorem poll_receive {F : Type} (parse : Bytes → Option F) (s : Rx) (c : Bytes)
    (h : pending s = true) :
    poll parse (receive s c) = (receive (poll parse s).1 c, (poll parse s).2) := by
  obtain ⟨i, hi⟩ := (pending_iff s).mp h
  have hl := indexFrom_lt hi
  have hi' : indexFrom (receive s c).buf (receive s c).pos = some i := indexFrom_append c hi
  rw [poll_of_index parse s i hi, poll_of_index parse _ i hi']
  simp only [receive, cand_append _ _ _ hl]
  cases parse (cand s.buf i) with
  | none => rfl
  | some f =>
    simp only
    rw [List.drop_append_of_le_length (by omega)]

theorem drain_receive {F : Type} (parse : Bytes → Option F) (c : Bytes) :
    ∀ (n : Nat) (s : Rx), meas s < n →
      drain parse (receive s c) =
        ((drain parse (receive (drain parse s).1 c)).1,
          (drain parse s).2 ++ (drain parse (receive (drain parse s).1 c)).2) := by
  intro n
  induction n with
  | zero => intro s h; omega
  | succ n ih =>
    intro s h
    cases hp : pending s with
    | false => rw [drain_not_pending parse s hp]; simp
    | true =>
      have hm := poll_meas parse s hp
      rw [drain_pending parse s hp, drain_pending parse _ (pending_receive s c hp),
        poll_receive parse s c hp]
      simp only
      rw [ih (poll parse s).1 (by omega)]
      simp

/-- `feed` from a drained state is one `drain` of the concatenation. -/
theorem feed_from {F : Type} (parse : Bytes → Option F) (chunks : List Bytes) :
    ∀ (s : Rx),
      chunks.foldl (fun (acc : Rx × List F) c =>
        let r := drain parse (receive acc.1 c)
        (r.1, acc.2 ++ r.2)) (drain parse s) =
      drain parse { s with buf := s.buf ++ chunks.flatten } := by
  induction chunks with
  | nil => intro s; simp
  | cons c cs ih =>
    intro s
    simp only [List.foldl_cons, List.flatten_cons]
    rw [← drain_receive parse c _ s (Nat.lt_succ_self _)]
    rw [ih (receive s c)]
    simp [receive]

theorem feed_eq_drain {F : Type} (parse : Bytes → Option F) (chunks : List Bytes) :
    feed parse chunks = drain parse { buf := chunks.flatten, pos := 1 } := by
  have h0 : drain parse ({} : Rx) = (({} : Rx), ([] : List F)) :=
    drain_not_pending parse _ (by simp [pending, indexFrom])
  have := feed_from parse chunks {}
  rw [h0] at this
  unfold feed
  rw [this]
  simp

/-! ### scanning one frame -/

section scan
variable {F : Type} (parse : Bytes → Option F) (pre b rest : Bytes) (f : F)

theorem frame_take (hpre : pre = [] ∨ pre = [0x7E]) (i : Nat) (_h1 : 1 ≤ i)
    (h2 : i ≤ pre.length + b.length) :
    (pre ++ b ++ [0x7E] ++ rest).take (i + 1) = pre ++ (b ++ [0x7E]).take (i + 1 - pre.length) := by
  have e : pre ++ b ++ [0x7E] ++ rest = pre ++ ((b ++ [0x7E]) ++ rest) := by simp
  rw [e, List.take_append, List.take_of_length_le (by rcases hpre with h | h <;> simp [h]),
    List.take_append_of_le_length (by simp; omega)]

theorem cand_frame (hpre : pre = [] ∨ pre = [0x7E]) (hb : b ≠ []) (hh : b.head? ≠ some 0x7E)
    (k i : Nat) (h1 : 1 ≤ i) (h2 : i ≤ pre.length + b.length) (h3 : i < k) :
    cand ((pre ++ b ++ [0x7E] ++ rest).take k) i
      = 0x7E :: (b ++ [0x7E]).take (i + 1 - pre.length) := by
  unfold cand
  rw [List.take_take, Nat.min_eq_left (by omega), frame_take pre b rest hpre i h1 h2]
  rcases hpre with h | h
  · subst h
    cases b with
    | nil => contradiction
    | cons x b' =>
      have hx : x ≠ 0x7E := by simpa using hh
      simp [hx]
  · subst h
    simp

theorem frame_flag (k : Nat) (h : pre.length + b.length < k) :
    ((pre ++ b ++ [0x7E] ++ rest).take k)[pre.length + b.length]? = some 0x7E := by
  have e : pre ++ b ++ [0x7E] ++ rest = (pre ++ b) ++ (0x7E :: rest) := by simp
  rw [List.getElem?_take, if_pos h, e, List.getElem?_append_right (by simp)]
  simp

theorem frame_drop (k : Nat) :
    ((pre ++ b ++ [0x7E] ++ rest).take k).drop (pre.length + b.length + 1)
      = rest.take (k - (pre.length + b.length + 1)) := by
  have e : pre.length + b.length + 1 = (pre ++ b ++ [0x7E]).length := by simp [Nat.add_assoc]
  rw [List.drop_take]
  congr 1
  rw [e, List.drop_left]

/-- draining a prefix of `pre ++ b ++ [0x7E] ++ rest` from a search position inside the frame:
    the frame is delivered iff its closing flag is within the prefix, and then the drain
    continues on the rest with the search position reset. -/
theorem scan (hpre : pre = [] ∨ pre = [0x7E]) (hb : b ≠ []) (hh : b.head? ≠ some 0x7E)
    (hP1 : parse (0x7E :: b ++ [0x7E]) = some f)
    (hP2 : ∀ n, n < (b ++ [0x7E]).length → parse (0x7E :: (b ++ [0x7E]).take n) = none)
    (k : Nat) :
    ∀ (n p : Nat), pre.length + b.length - p < n → 1 ≤ p → p ≤ pre.length + b.length →
      (pre.length + b.length < k →
        drain parse { buf := (pre ++ b ++ [0x7E] ++ rest).take k, pos := p } =
          ((drain parse { buf := rest.take (k - (pre.length + b.length + 1)), pos := 1 }).1,
            f :: (drain parse { buf := rest.take (k - (pre.length + b.length + 1)), pos := 1 }).2)) ∧
      (k ≤ pre.length + b.length →
        (drain parse { buf := (pre ++ b ++ [0x7E] ++ rest).take k, pos := p }).2 = []) := by
  intro n
  induction n with
  | zero => intro p h; omega
  | succ n ih =>
    intro p hlt h1 h2
    cases hi : indexFrom ((pre ++ b ++ [0x7E] ++ rest).take k) p with
    | none =>
      have hnp : pending { buf := (pre ++ b ++ [0x7E] ++ rest).take k, pos := p } = false := by
        show (indexFrom _ _).isSome = false
        rw [hi]; rfl
      rw [drain_not_pending parse _ hnp]
      refine ⟨fun hk => ?_, fun _ => rfl⟩
      exact absurd (frame_flag pre b rest k hk) (indexFrom_none hi _ h2)
    | some i =>
      obtain ⟨g1, g2, g3⟩ := indexFrom_some hi
      have hik : i < k := by
        have := indexFrom_lt hi
        rw [List.length_take] at this
        omega
      have hiL : i ≤ pre.length + b.length := by
        apply Nat.le_of_not_lt
        intro hgt
        exact g3 _ h2 hgt (frame_flag pre b rest k (by omega))
      have hpend : pending { buf := (pre ++ b ++ [0x7E] ++ rest).take k, pos := p } = true :=
        (pending_iff _).mpr ⟨i, hi⟩
      have hc := cand_frame pre b rest hpre hb hh k i (by omega) hiL hik
      rw [drain_pending parse _ hpend]
      by_cases hEq : i = pre.length + b.length
      · -- the closing flag
        have hfull : (b ++ [0x7E]).take (i + 1 - pre.length) = b ++ [0x7E] := by
          apply List.take_of_length_le; simp; omega
        rw [hfull] at hc
        have hp : parse (cand ((pre ++ b ++ [0x7E] ++ rest).take k) i) = some f := by
          rw [hc]; exact hP1
        have hps : poll parse ({ buf := (pre ++ b ++ [0x7E] ++ rest).take k, pos := p } : Rx) = _ :=
          poll_some parse _ i f hi hp
        rw [hps]
        refine ⟨fun _ => ?_, fun hk => by omega⟩
        simp only [hEq, frame_drop, Option.toList, List.singleton_append]
      · -- a flag inside the body
        have hp : parse (cand ((pre ++ b ++ [0x7E] ++ rest).take k) i) = none := by
          rw [hc]; apply hP2; simp; omega
        have hps : poll parse ({ buf := (pre ++ b ++ [0x7E] ++ rest).take k, pos := p } : Rx) = _ :=
          poll_none parse _ i hi hp
        rw [hps]
        simp only [Option.toList, List.nil_append]
        exact ih (i + 1) (by omega) (by omega) (by omega)

end scan

end Lemmas.Rx
