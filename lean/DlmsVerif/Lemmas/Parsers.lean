/- Helper lemmas for the profile-buffer / association-object-list parsers (C15). -/
import DlmsVerif.Model.Parsers

namespace Lemmas.Parsers
open Dlms Model.Parsers

/-- the per-cell step of `parseRow`, named. -/
def stepCell (period : Int) (idx : Nat) (isClock : Bool) (cell : Cell) (last : Option Stamp) :
    Except Err (Out × Option Stamp) :=
  match cell with
  | .item id ts =>
    if isClock then
      match ts with
      | none => .error .decode
      | some t => .ok (.bound idx (.time t), some t)
    else .ok (.bound idx (.val id), last)
  | .null =>
    if isClock then
      match last with
      | some t => .ok (.bound idx (.time (addMinutes t period)), some (addMinutes t period))
      | none => .ok (.nothing, last)
    else .ok (.bound idx .null, last)

theorem parseRow_nil (period : Int) (idx : Nat) (clocks : List Bool) (last : Option Stamp) :
    parseRow period idx clocks [] last = .ok ([], last) := by
  cases clocks <;> rfl

theorem parseRow_nil_clocks (period : Int) (idx : Nat) (cell : Cell) (cells : List Cell) (last : Option Stamp) :
    parseRow period idx [] (cell :: cells) last = .error .decode := by
  rfl

theorem parseRow_cons (period : Int) (idx : Nat) (b : Bool) (clocks : List Bool) (cell : Cell)
    (cells : List Cell) (last : Option Stamp) :
    parseRow period idx (b :: clocks) (cell :: cells) last =
      match stepCell period idx b cell last with
      | .error e => .error e
      | .ok (o, l1) =>
        match parseRow period (idx + 1) clocks cells l1 with
        | .error e => .error e
        | .ok (os, l2) => .ok (o :: os, l2) := by
  rfl

/-- inversion of a successful non-empty row. -/
theorem parseRow_cons_ok {period : Int} {idx : Nat} {b : Bool} {clocks : List Bool} {cell : Cell}
    {cells : List Cell} {last last' : Option Stamp} {os : List Out}
    (h : parseRow period idx (b :: clocks) (cell :: cells) last = .ok (os, last')) :
    ∃ o l1 os', stepCell period idx b cell last = .ok (o, l1) ∧
      parseRow period (idx + 1) clocks cells l1 = .ok (os', last') ∧ os = o :: os' := by
  rw [parseRow_cons] at h
  cases hs : stepCell period idx b cell last with
  | error e => rw [hs] at h; cases h
  | ok p =>
    obtain ⟨o, l1⟩ := p
    rw [hs] at h
    dsimp only at h
    cases hr : parseRow period (idx + 1) clocks cells l1 with
    | error e => rw [hr] at h; cases h
    | ok q =>
      obtain ⟨os', l2⟩ := q
      rw [hr] at h
      simp only [Except.ok.injEq, Prod.mk.injEq] at h
      exact ⟨o, l1, os', rfl, by rw [← h.2]; exact hr, h.1.symm⟩

/-- what the step produces, by case analysis. -/
def CellSpec (j : Nat) (cell : Cell) (isClock : Bool) (o : Out) : Prop :=
  match cell, isClock with
  | .item id _, false => o = .bound j (.val id)
  | .item _ ts, true => ∃ t, ts = some t ∧ o = .bound j (.time t)
  | .null, false => o = .bound j .null
  | .null, true => o = .nothing ∨ ∃ t, o = .bound j (.time t)

theorem stepCell_spec {period : Int} {idx : Nat} {b : Bool} {cell : Cell} {last l1 : Option Stamp} {o : Out}
    (h : stepCell period idx b cell last = .ok (o, l1)) : CellSpec idx cell b o := by
  unfold stepCell at h
  cases cell with
  | null =>
    cases b with
    | false => simp at h; simp [CellSpec, h.1]
    | true =>
      cases last with
      | none => simp at h; simp [CellSpec, h.1]
      | some t => simp at h; simp [CellSpec, ← h.1]
  | item id ts =>
    cases b with
    | false => simp at h; simp [CellSpec, h.1]
    | true =>
      cases ts with
      | none => simp at h
      | some t => simp at h; simp [CellSpec, ← h.1]

theorem stepCell_false {period : Int} {idx : Nat} {cell : Cell} {last l1 : Option Stamp} {o : Out}
    (h : stepCell period idx false cell last = .ok (o, l1)) : l1 = last := by
  unfold stepCell at h
  cases cell <;> simp at h <;> exact h.2.symm

/-- the running timestamp after a clock cell. -/
def fillOne (period : Int) (last : Option Stamp) (x : Option Stamp) : Option Stamp :=
  match x, last with
  | some t, _ => some t
  | none, some l => some (addMinutes l period)
  | none, none => none

def cellTs : Cell → Option Stamp
  | .item _ ts => ts
  | .null => none

/-- the output cell showing timestamp `s` in column `idx`. -/
def stampOut (idx : Nat) : Option Stamp → Out
  | some t => .bound idx (.time t)
  | none => .nothing

theorem stepCell_true {period : Int} {idx : Nat} {cell : Cell} {last l1 : Option Stamp} {o : Out}
    (h : stepCell period idx true cell last = .ok (o, l1)) :
    l1 = fillOne period last (cellTs cell) ∧ o = stampOut idx l1 := by
  unfold stepCell at h
  cases cell with
  | null =>
    cases last with
    | none => simp at h; simp [fillOne, cellTs, stampOut, ← h.1, ← h.2]
    | some t => simp at h; simp [fillOne, cellTs, stampOut, ← h.1, ← h.2]
  | item id ts =>
    cases ts with
    | none => simp at h
    | some t => simp at h; simp [fillOne, cellTs, stampOut, ← h.1, ← h.2]

/-- a successful row: as many outputs as cells, no more cells than capture objects. -/
theorem parseRow_length {period : Int} : ∀ {cells : List Cell} {idx : Nat} {clocks : List Bool}
    {last last' : Option Stamp} {os : List Out},
    parseRow period idx clocks cells last = .ok (os, last') →
    os.length = cells.length ∧ cells.length ≤ clocks.length
  | [], idx, clocks, last, last', os, h => by
    rw [parseRow_nil] at h
    simp only [Except.ok.injEq, Prod.mk.injEq] at h
    simp [← h.1]
  | cell :: cells, idx, [], last, last', os, h => by
    rw [parseRow_nil_clocks] at h; cases h
  | cell :: cells, idx, b :: clocks, last, last', os, h => by
    obtain ⟨o, l1, os', _, hr, rfl⟩ := parseRow_cons_ok h
    have := parseRow_length hr
    simp [this.1, this.2]

/-- a successful row, cell by cell: column `k` of the row is bound to capture object `idx + k`. -/
theorem parseRow_cell {period : Int} : ∀ {cells : List Cell} {idx : Nat} {clocks : List Bool}
    {last last' : Option Stamp} {os : List Out},
    parseRow period idx clocks cells last = .ok (os, last') →
    ∀ (k : Nat) (cell : Cell) (b : Bool), cells[k]? = some cell → clocks[k]? = some b →
      ∃ o, os[k]? = some o ∧ CellSpec (idx + k) cell b o
  | [], idx, clocks, last, last', os, h => by
    intro k cell b hk; simp at hk
  | c :: cells, idx, [], last, last', os, h => by
    rw [parseRow_nil_clocks] at h; cases h
  | c :: cells, idx, b0 :: clocks, last, last', os, h => by
    obtain ⟨o, l1, os', hs, hr, rfl⟩ := parseRow_cons_ok h
    intro k cell b hk hb
    cases k with
    | zero =>
      simp only [List.getElem?_cons_zero, Option.some.injEq] at hk hb
      subst hk hb
      exact ⟨o, by simp, stepCell_spec hs⟩
    | succ k =>
      simp only [List.getElem?_cons_succ] at hk hb
      obtain ⟨o', ho', hspec⟩ := parseRow_cell hr k cell b hk hb
      refine ⟨o', by simpa using ho', ?_⟩
      have : idx + (k + 1) = idx + 1 + k := by omega
      rw [this]; exact hspec

/-- no clock column among the remaining ones: the running timestamp is passed through. -/
theorem parseRow_noclock {period : Int} : ∀ {cells : List Cell} {idx : Nat} {clocks : List Bool}
    {last last' : Option Stamp} {os : List Out},
    parseRow period idx clocks cells last = .ok (os, last') →
    (∀ j : Nat, clocks[j]? ≠ some true) → last' = last
  | [], idx, clocks, last, last', os, h => by
    intro _
    rw [parseRow_nil] at h
    simp only [Except.ok.injEq, Prod.mk.injEq] at h
    exact h.2.symm
  | c :: cells, idx, [], last, last', os, h => by
    rw [parseRow_nil_clocks] at h; cases h
  | c :: cells, idx, b0 :: clocks, last, last', os, h => by
    intro hno
    obtain ⟨o, l1, os', hs, hr, rfl⟩ := parseRow_cons_ok h
    have hb : b0 = false := by
      have := hno 0
      simp at this; simpa using this
    subst hb
    have h1 := stepCell_false hs
    have h2 := parseRow_noclock hr (fun (j : Nat) => by have := hno (j + 1); simpa using this)
    rw [h2, h1]

/-- a single clock column `c` (relative to the current position): the running timestamp
    after the row and the output at `c` are determined by the cell at `c`. -/
theorem parseRow_oneclock {period : Int} : ∀ {cells : List Cell} {idx : Nat} {clocks : List Bool}
    {last last' : Option Stamp} {os : List Out} (c : Nat) (cell : Cell),
    parseRow period idx clocks cells last = .ok (os, last') →
    clocks[c]? = some true → (∀ j, j ≠ c → clocks[j]? ≠ some true) → cells[c]? = some cell →
    last' = fillOne period last (cellTs cell) ∧ os[c]? = some (stampOut (idx + c) last')
  | [], idx, clocks, last, last', os, c, cell, h => by
    intro _ _ hk; simp at hk
  | c0 :: cells, idx, [], last, last', os, c, cell, h => by
    rw [parseRow_nil_clocks] at h; cases h
  | c0 :: cells, idx, b0 :: clocks, last, last', os, c, cell, h => by
    intro hc hone hcell
    obtain ⟨o, l1, os', hs, hr, rfl⟩ := parseRow_cons_ok h
    cases c with
    | zero =>
      simp only [List.getElem?_cons_zero, Option.some.injEq] at hc hcell
      subst hc hcell
      have h1 := stepCell_true hs
      have h2 : last' = l1 := parseRow_noclock hr (fun (j : Nat) => by
        have := hone (j + 1) (by omega); simpa using this)
      subst h2
      exact ⟨h1.1, by simp [h1.2]⟩
    | succ c =>
      simp only [List.getElem?_cons_succ] at hc hcell
      have hb : b0 = false := by
        have := hone 0 (by omega)
        simp at this; simpa using this
      subst hb
      have h1 := stepCell_false hs
      subst h1
      have := parseRow_oneclock c cell hr hc (fun j hj => by
        have := hone (j + 1) (by omega); simpa using this) hcell
      refine ⟨this.1, ?_⟩
      have e : idx + (c + 1) = idx + 1 + c := by omega
      rw [e]; simpa using this.2

/-- inversion of a successful non-empty buffer. -/
theorem parseEntriesFrom_cons_ok {period : Int} {clocks : List Bool} {row : List Cell}
    {rows : List (List Cell)} {last : Option Stamp} {out : List (List Out)}
    (h : parseEntriesFrom period clocks (row :: rows) last = .ok out) :
    row.length = clocks.length ∧ ∃ o l1 outs, parseRow period 0 clocks row last = .ok (o, l1) ∧
      parseEntriesFrom period clocks rows l1 = .ok outs ∧ out = o :: outs := by
  simp only [parseEntriesFrom] at h
  split at h
  · cases h
  · rename_i hlen
    refine ⟨by simpa using hlen, ?_⟩
    cases hr : parseRow period 0 clocks row last with
    | error e => rw [hr] at h; cases h
    | ok p =>
      obtain ⟨o, l1⟩ := p
      rw [hr] at h
      dsimp only at h
      cases hq : parseEntriesFrom period clocks rows l1 with
      | error e => rw [hq] at h; cases h
      | ok outs =>
        rw [hq] at h
        simp only [Except.ok.injEq] at h
        exact ⟨o, l1, outs, rfl, hq, h.symm⟩

/-! ### dictionaries -/

theorem dictInsert_fresh {α} (d : List (Int × α)) (k : Int) (v : α) (h : ∀ e ∈ d, e.1 ≠ k) :
    dictInsert d k v = d ++ [(k, v)] := by
  unfold dictInsert
  have : d.any (·.1 == k) = false := by
    rw [List.any_eq_false]
    intro e he; simpa using h e he
  simp [this]

theorem foldl_dictInsert {α β} (key : β → Int) (val : β → α) : ∀ (l : List β) (d : List (Int × α)),
    (l.map key).Nodup → (∀ a ∈ l, ∀ e ∈ d, e.1 ≠ key a) →
    l.foldl (fun d a => dictInsert d (key a) (val a)) d = d ++ l.map (fun a => (key a, val a))
  | [], d, _, _ => by simp
  | a :: l, d, hnd, hdis => by
    simp only [List.map_cons, List.nodup_cons] at hnd
    simp only [List.foldl_cons]
    rw [dictInsert_fresh d (key a) (val a) (hdis a (by simp))]
    rw [foldl_dictInsert key val l _ hnd.2]
    · simp
    · intro a' ha' e he
      simp only [List.mem_append, List.mem_singleton] at he
      rcases he with he | he
      · exact hdis a' (by simp [ha']) e he
      · subst he
        intro heq
        apply hnd.1
        simp only [List.mem_map]
        exact ⟨a', ha', heq.symm⟩

end Lemmas.Parsers
