/-
  Helper lemmas for C19: closed facts about the transition table, the steps of the
  collection loop of `get` in the two states it runs in, the block-transfer induction,
  the inversion of a successful `get`, and the per-exchange behaviour of `perform`.
-/
import DlmsVerif.Lemmas.ClientDefs

namespace Lemmas.Client
open Dlms Model.Client Spec.Client Lemmas.ClientDefs

/-! ### the table lookups used (closed facts) -/

@[simp] theorem lookup_AWAITING_GET_RESPONSE_GetResponseNormal : lookup T "AWAITING_GET_RESPONSE" "GetResponseNormal" = some "READY" := by decide
@[simp] theorem lookup_AWAITING_GET_RESPONSE_GetResponseNormalWithError : lookup T "AWAITING_GET_RESPONSE" "GetResponseNormalWithError" = some "READY" := by decide
@[simp] theorem lookup_AWAITING_GET_RESPONSE_GetResponseWithBlock : lookup T "AWAITING_GET_RESPONSE" "GetResponseWithBlock" = some "SHOULD_ACK_LAST_GET_BLOCK" := by decide
@[simp] theorem lookup_AWAITING_GET_RESPONSE_GetResponseLastBlock : lookup T "AWAITING_GET_RESPONSE" "GetResponseLastBlock" = none := by decide
@[simp] theorem lookup_AWAITING_GET_RESPONSE_GetResponseLastBlockWithError : lookup T "AWAITING_GET_RESPONSE" "GetResponseLastBlockWithError" = none := by decide
@[simp] theorem lookup_AWAITING_GET_RESPONSE_SetResponseNormal : lookup T "AWAITING_GET_RESPONSE" "SetResponseNormal" = none := by decide
@[simp] theorem lookup_AWAITING_GET_RESPONSE_ActionResponseNormal : lookup T "AWAITING_GET_RESPONSE" "ActionResponseNormal" = none := by decide
@[simp] theorem lookup_AWAITING_GET_RESPONSE_ActionResponseNormalWithData : lookup T "AWAITING_GET_RESPONSE" "ActionResponseNormalWithData" = none := by decide
@[simp] theorem lookup_AWAITING_GET_RESPONSE_ActionResponseNormalWithError : lookup T "AWAITING_GET_RESPONSE" "ActionResponseNormalWithError" = none := by decide
@[simp] theorem lookup_AWAITING_GET_RESPONSE_ExceptionResponse : lookup T "AWAITING_GET_RESPONSE" "ExceptionResponse" = some "READY" := by decide
@[simp] theorem lookup_AWAITING_GET_RESPONSE_ApplicationAssociationResponse : lookup T "AWAITING_GET_RESPONSE" "ApplicationAssociationResponse" = none := by decide
@[simp] theorem lookup_AWAITING_GET_RESPONSE_ReleaseResponse : lookup T "AWAITING_GET_RESPONSE" "ReleaseResponse" = none := by decide
@[simp] theorem lookup_AWAITING_GET_RESPONSE_DataNotification : lookup T "AWAITING_GET_RESPONSE" "DataNotification" = none := by decide
@[simp] theorem lookup_AWAITING_GET_BLOCK_RESPONSE_GetResponseNormal : lookup T "AWAITING_GET_BLOCK_RESPONSE" "GetResponseNormal" = none := by decide
@[simp] theorem lookup_AWAITING_GET_BLOCK_RESPONSE_GetResponseNormalWithError : lookup T "AWAITING_GET_BLOCK_RESPONSE" "GetResponseNormalWithError" = some "READY" := by decide
@[simp] theorem lookup_AWAITING_GET_BLOCK_RESPONSE_GetResponseWithBlock : lookup T "AWAITING_GET_BLOCK_RESPONSE" "GetResponseWithBlock" = some "SHOULD_ACK_LAST_GET_BLOCK" := by decide
@[simp] theorem lookup_AWAITING_GET_BLOCK_RESPONSE_GetResponseLastBlock : lookup T "AWAITING_GET_BLOCK_RESPONSE" "GetResponseLastBlock" = some "READY" := by decide
@[simp] theorem lookup_AWAITING_GET_BLOCK_RESPONSE_GetResponseLastBlockWithError : lookup T "AWAITING_GET_BLOCK_RESPONSE" "GetResponseLastBlockWithError" = some "READY" := by decide
@[simp] theorem lookup_AWAITING_GET_BLOCK_RESPONSE_SetResponseNormal : lookup T "AWAITING_GET_BLOCK_RESPONSE" "SetResponseNormal" = none := by decide
@[simp] theorem lookup_AWAITING_GET_BLOCK_RESPONSE_ActionResponseNormal : lookup T "AWAITING_GET_BLOCK_RESPONSE" "ActionResponseNormal" = none := by decide
@[simp] theorem lookup_AWAITING_GET_BLOCK_RESPONSE_ActionResponseNormalWithData : lookup T "AWAITING_GET_BLOCK_RESPONSE" "ActionResponseNormalWithData" = none := by decide
@[simp] theorem lookup_AWAITING_GET_BLOCK_RESPONSE_ActionResponseNormalWithError : lookup T "AWAITING_GET_BLOCK_RESPONSE" "ActionResponseNormalWithError" = none := by decide
@[simp] theorem lookup_AWAITING_GET_BLOCK_RESPONSE_ExceptionResponse : lookup T "AWAITING_GET_BLOCK_RESPONSE" "ExceptionResponse" = some "READY" := by decide
@[simp] theorem lookup_AWAITING_GET_BLOCK_RESPONSE_ApplicationAssociationResponse : lookup T "AWAITING_GET_BLOCK_RESPONSE" "ApplicationAssociationResponse" = none := by decide
@[simp] theorem lookup_AWAITING_GET_BLOCK_RESPONSE_ReleaseResponse : lookup T "AWAITING_GET_BLOCK_RESPONSE" "ReleaseResponse" = none := by decide
@[simp] theorem lookup_AWAITING_GET_BLOCK_RESPONSE_DataNotification : lookup T "AWAITING_GET_BLOCK_RESPONSE" "DataNotification" = none := by decide
@[simp] theorem lookup_READY_GetRequestNormal : lookup T "READY" "GetRequestNormal" = some "AWAITING_GET_RESPONSE" := by decide
@[simp] theorem lookup_READY_SetRequestNormal : lookup T "READY" "SetRequestNormal" = some "AWAITING_SET_RESPONSE" := by decide
@[simp] theorem lookup_READY_ActionRequestNormal : lookup T "READY" "ActionRequestNormal" = some "AWAITING_ACTION_RESPONSE" := by decide
@[simp] theorem lookup_READY_RejectAssociation : lookup T "READY" "RejectAssociation" = some "NO_ASSOCIATION" := by decide
@[simp] theorem lookup_READY_HlsStart : lookup T "READY" "HlsStart" = some "SHOULD_SEND_HLS_SEVER_CHALLENGE_RESULT" := by decide
@[simp] theorem lookup_NO_ASSOCIATION_ApplicationAssociationRequest : lookup T "NO_ASSOCIATION" "ApplicationAssociationRequest" = some "AWAITING_ASSOCIATION_RESPONSE" := by decide
@[simp] theorem lookup_SHOULD_ACK_LAST_GET_BLOCK_GetRequestNext : lookup T "SHOULD_ACK_LAST_GET_BLOCK" "GetRequestNext" = some "AWAITING_GET_BLOCK_RESPONSE" := by decide
@[simp] theorem lookup_AWAITING_SET_RESPONSE_SetResponseNormal : lookup T "AWAITING_SET_RESPONSE" "SetResponseNormal" = some "READY" := by decide
@[simp] theorem lookup_AWAITING_ACTION_RESPONSE_ActionResponseNormal : lookup T "AWAITING_ACTION_RESPONSE" "ActionResponseNormal" = some "READY" := by decide
@[simp] theorem lookup_AWAITING_ACTION_RESPONSE_ActionResponseNormalWithData : lookup T "AWAITING_ACTION_RESPONSE" "ActionResponseNormalWithData" = some "READY" := by decide
@[simp] theorem lookup_AWAITING_ACTION_RESPONSE_ActionResponseNormalWithError : lookup T "AWAITING_ACTION_RESPONSE" "ActionResponseNormalWithError" = some "READY" := by decide
@[simp] theorem lookup_AWAITING_ASSOCIATION_RESPONSE_ApplicationAssociationResponse : lookup T "AWAITING_ASSOCIATION_RESPONSE" "ApplicationAssociationResponse" = some "READY" := by decide
@[simp] theorem lookup_AWAITING_ASSOCIATION_RESPONSE_ExceptionResponse : lookup T "AWAITING_ASSOCIATION_RESPONSE" "ExceptionResponse" = some "NO_ASSOCIATION" := by decide

/-! ### `get`: the request -/

theorem get_nil (sent : List Req) (inv : Nat) :
    get T { state := "READY", script := [], sent := sent } inv =
      (.error .decode, { state := "AWAITING_GET_RESPONSE", buf := none, script := [], sent := sent ++ [.get inv] }) := by
  simp [Model.Client.get, send, Req.cls, getLoop, nextEvent]

theorem get_cons (sent : List Req) (inv : Nat) (e : Ev) (rest : List Ev) :
    get T { state := "READY", script := e :: rest, sent := sent } inv =
      getLoop T rest "AWAITING_GET_RESPONSE" (some e) (sent ++ [.get inv]) [] := by
  simp [Model.Client.get, send, Req.cls]

/-! ### the collection loop: one pass in each of the two states -/

theorem getLoop_none (script : List Ev) (st : String) (sent : List Req) (acc : Bytes) :
    getLoop T script st none sent acc =
      (.error .decode, { state := st, buf := none, script := script, sent := sent }) := by
  rw [getLoop]; simp [nextEvent]

theorem getLoop_first_normal (script : List Ev) (i : Nat) (d : Bytes) (sent : List Req) (acc : Bytes) :
    getLoop T script "AWAITING_GET_RESPONSE" (some (.getNormal i d)) sent acc =
      (.ok (acc ++ d), { state := "READY", buf := none, script := script, sent := sent }) := by
  rw [getLoop]; simp [nextEvent, Ev.cls]

theorem getLoop_first_err (script : List Ev) (i e : Nat) (sent : List Req) (acc : Bytes) :
    getLoop T script "AWAITING_GET_RESPONSE" (some (.getErr i e)) sent acc =
      (.error .client, { state := "READY", buf := none, script := script, sent := sent }) := by
  rw [getLoop]; simp [nextEvent, Ev.cls]

theorem getLoop_first_block (e : Ev) (rest : List Ev) (i n : Nat) (d : Bytes) (sent : List Req) (acc : Bytes) :
    getLoop T (e :: rest) "AWAITING_GET_RESPONSE" (some (.getBlock i n d)) sent acc =
      getLoop T rest "AWAITING_GET_BLOCK_RESPONSE" (some e) (sent ++ [.next i n]) (acc ++ d) := by
  rw [getLoop]; simp [nextEvent, Ev.cls]

theorem getLoop_next_block (e : Ev) (rest : List Ev) (i n : Nat) (d : Bytes) (sent : List Req) (acc : Bytes) :
    getLoop T (e :: rest) "AWAITING_GET_BLOCK_RESPONSE" (some (.getBlock i n d)) sent acc =
      getLoop T rest "AWAITING_GET_BLOCK_RESPONSE" (some e) (sent ++ [.next i n]) (acc ++ d) := by
  rw [getLoop]; simp [nextEvent, Ev.cls]

theorem getLoop_next_last (script : List Ev) (i n : Nat) (d : Bytes) (sent : List Req) (acc : Bytes) :
    getLoop T script "AWAITING_GET_BLOCK_RESPONSE" (some (.getLast i n d)) sent acc =
      (.ok (acc ++ d), { state := "READY", buf := none, script := script, sent := sent }) := by
  rw [getLoop]; simp [nextEvent, Ev.cls]

theorem getLoop_next_lastErr (script : List Ev) (i n e : Nat) (sent : List Req) (acc : Bytes) :
    getLoop T script "AWAITING_GET_BLOCK_RESPONSE" (some (.getLastErr i n e)) sent acc =
      (.error .client, { state := "READY", buf := none, script := script, sent := sent }) := by
  rw [getLoop]; simp [nextEvent, Ev.cls]

theorem getLoop_next_err (script : List Ev) (i e : Nat) (sent : List Req) (acc : Bytes) :
    getLoop T script "AWAITING_GET_BLOCK_RESPONSE" (some (.getErr i e)) sent acc =
      (.error .client, { state := "READY", buf := none, script := script, sent := sent }) := by
  rw [getLoop]; simp [nextEvent, Ev.cls]


/-! ### a block transfer, whatever the final answer does -/

/-- the non-final blocks after the first are collected and acknowledged one by one; `R` is
    what the loop does with the final answer `last`. -/
theorem getLoop_blocks (last : Ev) (rest : List Ev) (R : Bytes → Except Err Bytes)
    (hlast : ∀ sent acc, getLoop T rest "AWAITING_GET_BLOCK_RESPONSE" (some last) sent acc =
      (R acc, { state := "READY", buf := none, script := rest, sent := sent }))
    (more : List (Nat × Nat × Bytes)) :
    ∀ (b : Nat × Nat × Bytes) (sent : List Req) (acc : Bytes),
      getLoop T (more.map blockEv ++ last :: rest) "AWAITING_GET_BLOCK_RESPONSE" (some (blockEv b)) sent acc =
        (R (acc ++ b.2.2 ++ blocksData more),
         { state := "READY", buf := none, script := rest, sent := sent ++ blockAck b :: more.map blockAck }) := by
  induction more with
  | nil =>
    intro b sent acc
    simp [blockEv, blockAck, blocksData, getLoop_next_block, hlast]
  | cons b' more ih =>
    intro b sent acc
    have := ih b' (sent ++ [blockAck b]) (acc ++ b.2.2)
    simp only [blockEv, blockAck] at this
    simp [blockEv, blockAck, blocksData, getLoop_next_block, this, List.append_assoc]

/-- the same from the first block on (which is answered in the state after the request). -/
theorem getLoop_first_blocks (last : Ev) (rest : List Ev) (R : Bytes → Except Err Bytes)
    (hlast : ∀ sent acc, getLoop T rest "AWAITING_GET_BLOCK_RESPONSE" (some last) sent acc =
      (R acc, { state := "READY", buf := none, script := rest, sent := sent }))
    (f : Nat × Nat × Bytes) (more : List (Nat × Nat × Bytes)) (sent : List Req) (acc : Bytes) :
    getLoop T (more.map blockEv ++ last :: rest) "AWAITING_GET_RESPONSE" (some (blockEv f)) sent acc =
      (R (acc ++ f.2.2 ++ blocksData more),
       { state := "READY", buf := none, script := rest, sent := sent ++ blockAck f :: more.map blockAck }) := by
  cases more with
  | nil => simp [blockEv, blockAck, blocksData, getLoop_first_block, hlast]
  | cons b more =>
    have := getLoop_blocks last rest R hlast more b (sent ++ [blockAck f]) (acc ++ f.2.2)
    simp only [blockEv, blockAck] at this
    simp [blockEv, blockAck, blocksData, getLoop_first_block, this, List.append_assoc]


/-! ### inversion: when the loop returns data -/

theorem getLoop_next_ok_inv (script : List Ev) :
    ∀ (e : Ev) (sent : List Req) (acc d : Bytes) (s' : St),
      getLoop T script "AWAITING_GET_BLOCK_RESPONSE" (some e) sent acc = (.ok d, s') →
      ∃ more li ln ld rest, e :: script = more.map blockEv ++ .getLast li ln ld :: rest ∧
        d = acc ++ blocksData more ++ ld := by
  induction script with
  | nil =>
    intro e sent acc d s' h
    cases e <;> (rw [getLoop] at h; simp [nextEvent, Ev.cls] at h)
    next i n ld =>
      exact ⟨[], i, n, ld, [], by simp, by simp [blocksData, h.1]⟩
  | cons e' script ih =>
    intro e sent acc d s' h
    cases e
    case getBlock i n dd =>
      rw [getLoop_next_block] at h
      obtain ⟨more, li, ln, ld, rest, h1, h2⟩ := ih _ _ _ _ _ h
      exact ⟨(i, n, dd) :: more, li, ln, ld, rest, by simp [blockEv, h1], by simp [blocksData, h2]⟩
    case getLast i n ld =>
      rw [getLoop_next_last] at h
      simp at h
      exact ⟨[], i, n, ld, e' :: script, by simp, by simp [blocksData, h.1]⟩
    all_goals (rw [getLoop] at h; simp [nextEvent, Ev.cls] at h)

theorem get_ok_inv (sent : List Req) (inv : Nat) (script : List Ev) (d : Bytes) (s' : St)
    (h : Model.Client.get T { state := "READY", script := script, sent := sent } inv = (.ok d, s')) :
    (∃ i rest, script = .getNormal i d :: rest) ∨
    (∃ f more li ln ld rest, script = blockEv f :: more.map blockEv ++ .getLast li ln ld :: rest ∧
        d = f.2.2 ++ blocksData more ++ ld) := by
  cases script with
  | nil => simp [get_nil] at h
  | cons e script =>
    rw [get_cons] at h
    cases e
    case getNormal i dd =>
      rw [getLoop_first_normal] at h
      simp at h
      exact .inl ⟨i, script, by simp [h.1]⟩
    case getBlock i n dd =>
      cases script with
      | nil => rw [getLoop] at h; simp [nextEvent, Ev.cls] at h
      | cons e' script =>
        rw [getLoop_first_block] at h
        obtain ⟨more, li, ln, ld, rest, h1, h2⟩ := getLoop_next_ok_inv _ _ _ _ _ _ h
        exact .inr ⟨(i, n, dd), more, li, ln, ld, rest, by simp [blockEv, h1], by simpa using h2⟩
    all_goals (rw [getLoop] at h; simp [nextEvent, Ev.cls] at h)


/-! ### the demand function of the specification -/

theorem getLoop_blockDemand_data (script : List Ev) :
    ∀ (e : Ev) (sent : List Req) (acc d : Bytes), blockDemand acc (e :: script) = .data d →
      ∃ s', getLoop T script "AWAITING_GET_BLOCK_RESPONSE" (some e) sent acc = (.ok d, s') ∧
        s'.state = "READY" ∧ s'.script = [] := by
  induction script with
  | nil =>
    intro e sent acc d h
    cases e <;> simp [blockDemand] at h
    subst h
    exact ⟨_, getLoop_next_last .., rfl, rfl⟩
  | cons e' script ih =>
    intro e sent acc d h
    cases e <;> simp [blockDemand] at h
    rw [getLoop_next_block]
    exact ih _ _ _ _ h

theorem getLoop_blockDemand_raise (script : List Ev) :
    ∀ (e : Ev) (sent : List Req) (acc : Bytes), blockDemand acc (e :: script) = .raise →
      ∃ err s', getLoop T script "AWAITING_GET_BLOCK_RESPONSE" (some e) sent acc = (.error err, s') := by
  induction script with
  | nil =>
    intro e sent acc h
    cases e <;> simp [blockDemand] at h
    · exact ⟨_, _, getLoop_next_err ..⟩
    · exact ⟨_, _, getLoop_next_lastErr ..⟩
  | cons e' script ih =>
    intro e sent acc h
    cases e <;> simp [blockDemand] at h
    rw [getLoop_next_block]
    exact ih _ _ _ h

theorem get_getDemand_data (sent : List Req) (inv : Nat) (answers : List Ev) (d : Bytes)
    (h : getDemand answers = .data d) :
    ∃ s', Model.Client.get T { state := "READY", script := answers, sent := sent } inv = (.ok d, s') ∧
      s'.state = "READY" ∧ s'.script = [] := by
  cases answers with
  | nil => simp [getDemand] at h
  | cons e script =>
    rw [get_cons]
    cases script with
    | nil =>
      cases e <;> simp [getDemand, blockDemand] at h
      subst h
      exact ⟨_, getLoop_first_normal .., rfl, rfl⟩
    | cons e' script =>
      cases e <;> simp [getDemand] at h
      rw [getLoop_first_block]
      simpa using getLoop_blockDemand_data _ _ _ _ _ h

theorem get_getDemand_raise (sent : List Req) (inv : Nat) (answers : List Ev)
    (h : getDemand answers = .raise) :
    ∃ err s', Model.Client.get T { state := "READY", script := answers, sent := sent } inv = (.error err, s') := by
  cases answers with
  | nil => simp [getDemand] at h
  | cons e script =>
    rw [get_cons]
    cases script with
    | nil =>
      cases e <;> simp [getDemand, blockDemand] at h
      exact ⟨_, _, getLoop_first_err ..⟩
    | cons e' script =>
      cases e <;> simp [getDemand] at h
      rw [getLoop_first_block]
      exact getLoop_blockDemand_raise _ _ _ _ h


/-! ### SET, ACTION, associate -/

theorem set_result (sent : List Req) (inv i r : Nat) (rest : List Ev) :
    Model.Client.set T { state := "READY", script := .setResp i r :: rest, sent := sent } inv =
      (.ok (.setResp i r), { state := "READY", buf := none, script := rest, sent := sent ++ [.set inv] }) := by
  simp [Model.Client.set, send, Req.cls, nextEvent, Ev.cls]

theorem action_nothing (sent : List Req) (inv i : Nat) (rest : List Ev) :
    action T { state := "READY", script := .actResp i 0 :: rest, sent := sent } inv =
      (.ok none, { state := "READY", buf := none, script := rest, sent := sent ++ [.act inv] }) := by
  simp [action, send, Req.cls, nextEvent, Ev.cls]

theorem action_status (sent : List Req) (inv i status : Nat) (rest : List Ev) (h : status ≠ 0) :
    action T { state := "READY", script := .actResp i status :: rest, sent := sent } inv =
      (.error .client, { state := "READY", buf := none, script := rest, sent := sent ++ [.act inv] }) := by
  simp [action, send, Req.cls, nextEvent, Ev.cls, h]

theorem action_data (sent : List Req) (inv i : Nat) (d : Bytes) (q : ProofQ) (rest : List Ev) :
    action T { state := "READY", script := .actRespData i 0 d q :: rest, sent := sent } inv =
      (.ok (some d), { state := "READY", buf := none, script := rest, sent := sent ++ [.act inv] }) := by
  simp [action, send, Req.cls, nextEvent, Ev.cls]

theorem action_data_status (sent : List Req) (inv i status : Nat) (d : Bytes) (q : ProofQ) (rest : List Ev)
    (h : status ≠ 0) :
    action T { state := "READY", script := .actRespData i status d q :: rest, sent := sent } inv =
      (.error .client, { state := "READY", buf := none, script := rest, sent := sent ++ [.act inv] }) := by
  simp [action, send, Req.cls, nextEvent, Ev.cls, h]

theorem action_err (sent : List Req) (inv i status e : Nat) (rest : List Ev) :
    action T { state := "READY", script := .actRespErr i status e :: rest, sent := sent } inv =
      (.error .client, { state := "READY", buf := none, script := rest, sent := sent ++ [.act inv] }) := by
  simp [action, send, Req.cls, nextEvent, Ev.cls]

theorem action_actionDemand (sent : List Req) (inv : Nat) (answers : List Ev) :
    (∀ d, actionDemand answers = .data d →
      ∃ s', action T { state := "READY", script := answers, sent := sent } inv = (.ok (some d), s') ∧ s'.state = "READY") ∧
    (actionDemand answers = .nothing →
      ∃ s', action T { state := "READY", script := answers, sent := sent } inv = (.ok none, s') ∧ s'.state = "READY") ∧
    (actionDemand answers = .raise →
      ∃ s', action T { state := "READY", script := answers, sent := sent } inv = (.error .client, s') ∧ s'.state = "READY") := by
  match answers with
  | [] => simp [actionDemand]
  | _ :: _ :: _ => simp [actionDemand]
  | [e] =>
    cases e <;> simp [actionDemand]
    case actResp i status =>
      by_cases h : status = 0
      · subst h; simp [action_nothing]
      · simp [h, action_status]
    case actRespData i status d q =>
      by_cases h : status = 0
      · subst h; simp [action_data]
      · simp [h, action_data_status]
    case actRespErr i status e => simp [action_err]

theorem associate_associateDemand (sent : List Req) (inv : Nat) (answers : List Ev) :
    (associateDemand answers = .accepted →
      ∃ ev s', associate T { state := "NO_ASSOCIATION", script := answers, sent := sent } inv = (.ok ev, s') ∧
        s'.state = "READY") ∧
    (associateDemand answers = .raise →
      ∃ s', associate T { state := "NO_ASSOCIATION", script := answers, sent := sent } inv = (.error .client, s') ∧
        s'.state = "NO_ASSOCIATION") := by
  match answers with
  | [] => simp [associateDemand]
  | _ :: _ :: _ => simp [associateDemand]
  | [e] =>
    cases e <;> simp [associateDemand]
    case aare result hls =>
      by_cases h0 : result = 0
      · subst h0
        cases hls <;> simp [associate, send, Req.cls, nextEvent, Ev.cls]
        exact ⟨_, _, ⟨rfl, rfl⟩, rfl⟩
      · by_cases h12 : result = 1 ∨ result = 2
        · rcases h12 with h | h <;> subst h <;> simp [associate, send, Req.cls, nextEvent, Ev.cls]
        · simp [h0, h12]
    case exception a b => simp [associate, send, Req.cls, nextEvent, Ev.cls]


/-! ### complete exchanges, with more of the script following -/

theorem get_normal (sent : List Req) (inv i : Nat) (d : Bytes) (rest : List Ev) :
    Model.Client.get T { state := "READY", script := .getNormal i d :: rest, sent := sent } inv =
      (.ok d, { state := "READY", buf := none, script := rest, sent := sent ++ [.get inv] }) := by
  simp [get_cons, getLoop_first_normal]

theorem get_error (sent : List Req) (inv i e : Nat) (rest : List Ev) :
    Model.Client.get T { state := "READY", script := .getErr i e :: rest, sent := sent } inv =
      (.error .client, { state := "READY", buf := none, script := rest, sent := sent ++ [.get inv] }) := by
  simp [get_cons, getLoop_first_err]

theorem get_blocks (sent : List Req) (inv : Nat) (f : Nat × Nat × Bytes) (more : List (Nat × Nat × Bytes))
    (li ln : Nat) (ld : Bytes) (rest : List Ev) :
    Model.Client.get T { state := "READY", script := (Exchange.getBlocks inv f more li ln ld).answers ++ rest, sent := sent } inv =
      (.ok (f.2.2 ++ blocksData more ++ ld),
       { state := "READY", buf := none, script := rest, sent := sent ++ (Exchange.getBlocks inv f more li ln ld).requests }) := by
  have := getLoop_first_blocks (.getLast li ln ld) rest (fun acc => .ok (acc ++ ld))
    (fun sent acc => getLoop_next_last rest li ln ld sent acc) f more (sent ++ [.get inv]) []
  simpa [Exchange.answers, Exchange.requests, get_cons, List.append_assoc] using this

theorem get_blocks_error (sent : List Req) (inv : Nat) (f : Nat × Nat × Bytes) (more : List (Nat × Nat × Bytes))
    (li ln e : Nat) (rest : List Ev) :
    Model.Client.get T { state := "READY", script := (Exchange.getBlocksError inv f more li ln e).answers ++ rest, sent := sent } inv =
      (.error .client,
       { state := "READY", buf := none, script := rest, sent := sent ++ (Exchange.getBlocksError inv f more li ln e).requests }) := by
  have := getLoop_first_blocks (.getLastErr li ln e) rest (fun _ => .error .client)
    (fun sent acc => getLoop_next_lastErr rest li ln e sent acc) f more (sent ++ [.get inv]) []
  simpa [Exchange.answers, Exchange.requests, get_cons, List.append_assoc] using this

/-- every well-formed exchange on a ready association gives what is demanded, hands exactly
    the prescribed requests to the transport and leaves the association ready. -/
theorem perform_exchange (sent : List Req) (x : Exchange) (rest : List Ev) :
    perform { state := "READY", script := x.answers ++ rest, sent := sent } x =
      (x.demand, { state := "READY", buf := none, script := rest, sent := sent ++ x.requests }) := by
  cases x with
  | getNormal inv d => simp [perform, Exchange.answers, Exchange.requests, Exchange.demand, get_normal]
  | getBlocks inv f more li ln ld => simp [perform, get_blocks, Exchange.demand]
  | getError inv e => simp [perform, Exchange.answers, Exchange.requests, Exchange.demand, get_error]
  | getBlocksError inv f more li ln e => simp [perform, get_blocks_error, Exchange.demand]
  | set inv r => simp [perform, Exchange.answers, Exchange.requests, Exchange.demand, set_result]
  | action inv => simp [perform, Exchange.answers, Exchange.requests, Exchange.demand, action_nothing]
  | actionData inv d => simp [perform, Exchange.answers, Exchange.requests, Exchange.demand, action_data]
  | actionFailed inv st e => simp [perform, Exchange.answers, Exchange.requests, Exchange.demand, action_err]

end Lemmas.Client
