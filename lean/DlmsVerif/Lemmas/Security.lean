/-
  Helper lemmas for Props.C05: XOR of byte strings, GCTR (length, involution), the tag
  length, big-endian injectivity, RFC 3394 wrap/unwrap steps and `split8`/`flatten`.
-/
import DlmsVerif.Gen.Misc
import DlmsVerif.Model.Security

namespace Lemmas.Security
open Dlms Spec.Gcm

/-! ### XOR of byte strings -/

theorem u8_xor_cancel (a k : UInt8) : (a ^^^ k) ^^^ k = a := by
  rw [UInt8.xor_assoc, UInt8.xor_self, UInt8.xor_zero]

theorem xorBytes_length (a b : Bytes) : (xorBytes a b).length = min a.length b.length := by
  simp [xorBytes]

theorem xorBytes_nil_left (b : Bytes) : xorBytes [] b = [] := by simp [xorBytes]

theorem xorBytes_cancel : ∀ (a k : Bytes), a.length ≤ k.length → xorBytes (xorBytes a k) k = a
  | [], _, _ => by simp [xorBytes]
  | _ :: _, [], h => by simp at h
  | a :: as, k :: ks, h => by
    have ih := xorBytes_cancel as ks (by simpa using h)
    simp only [xorBytes, List.zipWith_cons_cons] at ih ⊢
    rw [ih, u8_xor_cancel]

/-! ### GCTR -/

theorem gctr_nil (E : Bytes → Bytes) (iv : Bytes) (n i : Nat) : gctr E iv n i [] = [] := by
  cases n <;> simp [gctr]

theorem gctr_length (E : Bytes → Bytes) (hE : ∀ b, (E b).length = 16) (iv : Bytes) :
    ∀ (n i : Nat) (bs : Bytes), bs.length < n → (gctr E iv n i bs).length = bs.length
  | 0, _, _, h => by omega
  | n + 1, i, bs, h => by
    unfold gctr
    split
    · rename_i he; simp at he; simp [he]
    · rename_i he
      have hne : bs ≠ [] := by simpa using he
      have hpos : 0 < bs.length := List.length_pos_iff.mpr hne
      rw [List.length_append, xorBytes_length, hE, List.length_take,
        gctr_length E hE iv n (i + 1) (bs.drop 16) (by simp; omega), List.length_drop]
      omega

theorem gctr_invol (E : Bytes → Bytes) (hE : ∀ b, (E b).length = 16) (iv : Bytes) :
    ∀ (n i : Nat) (bs : Bytes), bs.length < n → gctr E iv n i (gctr E iv n i bs) = bs
  | 0, _, _, h => by omega
  | n + 1, i, bs, h => by
    by_cases he : bs = []
    · subst he; simp [gctr]
    · have hpos : 0 < bs.length := List.length_pos_iff.mpr he
      have hstep : gctr E iv (n + 1) i bs =
          xorBytes (bs.take 16) (E (counterBlock iv i)) ++ gctr E iv n (i + 1) (bs.drop 16) := by
        rw [gctr]; simp [he]
      have hlen1 : (xorBytes (bs.take 16) (E (counterBlock iv i))).length = min 16 bs.length := by
        rw [xorBytes_length, hE, List.length_take]; omega
      have hxpos : xorBytes (bs.take 16) (E (counterBlock iv i)) ≠ [] := by
        intro h0; rw [h0] at hlen1; simp at hlen1; omega
      have hcancel : xorBytes (xorBytes (bs.take 16) (E (counterBlock iv i))) (E (counterBlock iv i)) = bs.take 16 :=
        xorBytes_cancel _ _ (by rw [hE, List.length_take]; omega)
      rw [hstep]
      by_cases h16 : 16 ≤ bs.length
      · have hl : (xorBytes (bs.take 16) (E (counterBlock iv i))).length = 16 := by rw [hlen1]; omega
        rw [gctr]
        simp only [List.isEmpty_iff, List.append_eq_nil_iff, hxpos, false_and, if_false]
        rw [List.take_left' hl, List.drop_left' hl, hcancel,
          gctr_invol E hE iv n (i + 1) (bs.drop 16) (by simp; omega), List.take_append_drop]
      · have hd : bs.drop 16 = [] := List.drop_eq_nil_of_le (by omega)
        have ht : bs.take 16 = bs := List.take_of_length_le (by omega)
        rw [hd, gctr_nil, List.append_nil]
        rw [ht] at hlen1 hxpos hcancel ⊢
        have hl : (xorBytes bs (E (counterBlock iv i))).length ≤ 16 := by rw [hlen1]; omega
        rw [gctr]
        simp only [List.isEmpty_iff, hxpos, if_false]
        rw [List.take_of_length_le hl, List.drop_eq_nil_of_le hl, gctr_nil, List.append_nil, hcancel]

/-! ### the tag -/

theorem beBytes_length : ∀ (k n : Nat), (beBytes k n).length = k
  | 0, _ => rfl
  | k + 1, n => by simp [beBytes, beBytes_length k n]

theorem tag_length (E : Bytes → Bytes) (hE : ∀ b, (E b).length = 16) (iv ad ct : Bytes) :
    (tag E iv ad ct).length = 16 := by
  simp [tag, xorBytes_length, beBytes_length, hE]

/-! ### key-length table -/

open Model.Security in
theorem validateKey_table (P : Params) (hP : P.keyLengths = [(0, 16), (1, 16), (2, 32)]) (suite : Nat) (key : Bytes) :
    validateKey P suite key = true ↔
      (suite = 0 ∧ key.length = 16) ∨ (suite = 1 ∧ key.length = 16) ∨ (suite = 2 ∧ key.length = 32) := by
  unfold validateKey
  rw [hP]
  match suite with
  | 0 => simp [List.find?]
  | 1 => simp [List.find?]
  | 2 => simp [List.find?]
  | n + 3 => simp [List.find?]

/-! ### big-endian encoding on 4 bytes is injective below 2^32 -/

theorem u8_ofNat_inj {a b : Nat} (h : UInt8.ofNat a = UInt8.ofNat b) : a % 256 = b % 256 := by
  have := congrArg UInt8.toNat h
  simpa [UInt8.toNat_ofNat'] using this

theorem beBytes4_inj {a b : Nat} (ha : a < 2 ^ 32) (hb : b < 2 ^ 32) (h : beBytes 4 a = beBytes 4 b) : a = b := by
  simp only [beBytes, List.cons.injEq, and_true] at h
  obtain ⟨h3, h2, h1, h0⟩ := h
  have h3 := u8_ofNat_inj h3
  have h2 := u8_ofNat_inj h2
  have h1 := u8_ofNat_inj h1
  have h0 := u8_ofNat_inj h0
  omega

/-! ### RFC 3394 steps -/

def KwInv (s : KwState) : Prop := s.a.length = 8 ∧ ∀ r ∈ s.rs, r.length = 8

theorem wrapStep_inv (E : Bytes → Bytes) (hE : ∀ b, (E b).length = 16) (s : KwState) (t : Nat) (h : KwInv s) :
    KwInv (wrapStep E s t) ∧ (wrapStep E s t).rs.length = s.rs.length := by
  obtain ⟨ha, hr⟩ := h
  obtain ⟨a, rs⟩ := s
  cases rs with
  | nil => exact ⟨⟨ha, hr⟩, rfl⟩
  | cons r rest =>
    refine ⟨⟨?_, ?_⟩, ?_⟩
    · simp [wrapStep, xorBytes_length, beBytes_length, hE]
    · intro x hx
      simp only [wrapStep, List.mem_append, List.mem_singleton] at hx
      rcases hx with hx | hx
      · exact hr x (List.mem_cons_of_mem _ hx)
      · subst hx; simp [hE]
    · simp [wrapStep]

theorem unwrapStep_wrapStep (E D : Bytes → Bytes) (hE : ∀ b, (E b).length = 16)
    (hD : ∀ b, b.length = 16 → D (E b) = b) (s : KwState) (t : Nat) (h : KwInv s) :
    unwrapStep D t (wrapStep E s t) = s := by
  obtain ⟨ha, hr⟩ := h
  obtain ⟨a, rs⟩ := s
  cases rs with
  | nil => simp [wrapStep, unwrapStep]
  | cons r rest =>
    have hr8 : r.length = 8 := hr r (List.mem_cons_self ..)
    simp only at ha
    have hb : (E (a ++ r)).length = 16 := hE _
    have hc : xorBytes (xorBytes ((E (a ++ r)).take 8) (beBytes 8 t)) (beBytes 8 t) = (E (a ++ r)).take 8 :=
      xorBytes_cancel _ _ (by simp [beBytes_length]; omega)
    simp only [wrapStep, unwrapStep, List.getLast?_concat, List.dropLast_concat, hc, List.take_append_drop]
    rw [hD _ (by simp [ha, hr8]), List.take_left' ha, List.drop_left' ha]

theorem foldl_wrapStep_inv (E : Bytes → Bytes) (hE : ∀ b, (E b).length = 16) :
    ∀ (ts : List Nat) (s : KwState), KwInv s →
      KwInv (ts.foldl (wrapStep E) s) ∧ (ts.foldl (wrapStep E) s).rs.length = s.rs.length
  | [], _, h => ⟨h, rfl⟩
  | t :: ts, s, h => by
    have h1 := wrapStep_inv E hE s t h
    have h2 := foldl_wrapStep_inv E hE ts (wrapStep E s t) h1.1
    rw [List.foldl_cons]
    exact ⟨h2.1, h2.2.trans h1.2⟩

theorem foldr_unwrap_foldl_wrap (E D : Bytes → Bytes) (hE : ∀ b, (E b).length = 16)
    (hD : ∀ b, b.length = 16 → D (E b) = b) :
    ∀ (ts : List Nat) (s : KwState), KwInv s → ts.foldr (unwrapStep D) (ts.foldl (wrapStep E) s) = s
  | [], _, _ => rfl
  | t :: ts, s, h => by
    rw [List.foldl_cons, List.foldr_cons,
      foldr_unwrap_foldl_wrap E D hE hD ts (wrapStep E s t) (wrapStep_inv E hE s t h).1,
      unwrapStep_wrapStep E D hE hD s t h]

/-! ### `split8` and `flatten` -/

theorem split8_nil (n : Nat) : split8 n [] = [] := by cases n <;> simp [split8]

theorem split8_flatten : ∀ (n : Nat) (bs : Bytes), bs.length ≤ n → (split8 n bs).flatten = bs
  | 0, bs, h => by
    have : bs = [] := List.length_eq_zero_iff.mp (by omega)
    subst this; rfl
  | n + 1, bs, h => by
    unfold split8
    split
    · rename_i he; simp at he; simp [he]
    · rw [List.flatten_cons, split8_flatten n (bs.drop 8) (by simp; omega), List.take_append_drop]

theorem split8_blocks : ∀ (n : Nat) (bs : Bytes), bs.length % 8 = 0 → bs.length ≤ n →
    ∀ r ∈ split8 n bs, r.length = 8
  | 0, _, _, _ => by simp [split8]
  | n + 1, bs, h8, h => by
    unfold split8
    split
    · simp
    · rename_i he
      have hne : bs ≠ [] := by simpa using he
      have hpos : 0 < bs.length := List.length_pos_iff.mpr hne
      intro r hr
      rcases List.mem_cons.mp hr with hr | hr
      · subst hr; simp; omega
      · exact split8_blocks n (bs.drop 8) (by simp; omega) (by simp; omega) r hr

theorem split8_of_blocks : ∀ (rs : List Bytes) (n : Nat), (∀ r ∈ rs, r.length = 8) → rs.length ≤ n →
    split8 n rs.flatten = rs
  | [], n, _, _ => by simp [split8_nil]
  | r :: rs, 0, _, h => by simp at h
  | r :: rs, n + 1, hr, h => by
    have hr8 : r.length = 8 := hr r (List.mem_cons_self ..)
    have hne : r ≠ [] := by intro h0; simp [h0] at hr8
    rw [List.flatten_cons, split8]
    simp only [List.isEmpty_iff, List.append_eq_nil_iff, hne, false_and, if_false]
    rw [List.take_left' hr8, List.drop_left' hr8,
      split8_of_blocks rs n (fun x hx => hr x (List.mem_cons_of_mem _ hx)) (by simpa using h)]

theorem flatten_length_blocks : ∀ (rs : List Bytes), (∀ r ∈ rs, r.length = 8) → rs.flatten.length = 8 * rs.length
  | [], _ => rfl
  | r :: rs, h => by
    have h1 := h r (List.mem_cons_self ..)
    have h2 := flatten_length_blocks rs (fun x hx => h x (List.mem_cons_of_mem _ hx))
    simp only [List.flatten_cons, List.length_append, List.length_cons, h1, h2]; omega

theorem kwIv_length : kwIv.length = 8 := rfl

theorem unwrap_wrap (E D : Bytes → Bytes) (hE : ∀ b, (E b).length = 16)
    (hD : ∀ b, b.length = 16 → D (E b) = b) (key : Bytes) (hk : key.length % 8 = 0) :
    unwrap D (wrap E key) = some key := by
  have h0 : KwInv { a := kwIv, rs := split8 key.length key } :=
    ⟨kwIv_length, split8_blocks _ _ hk (Nat.le_refl _)⟩
  have hinv := foldl_wrapStep_inv E hE (steps (split8 key.length key).length) _ h0
  have hround := foldr_unwrap_foldl_wrap E D hE hD (steps (split8 key.length key).length) _ h0
  generalize hs : (steps (split8 key.length key).length).foldl (wrapStep E) { a := kwIv, rs := split8 key.length key } = s
    at hinv hround
  obtain ⟨⟨ha, hr⟩, hlen⟩ := hinv
  simp only at hlen
  have hw : wrap E key = s.a ++ s.rs.flatten := by simp only [wrap, hs]
  have hsplit : split8 (s.a ++ s.rs.flatten).length s.rs.flatten = s.rs :=
    split8_of_blocks s.rs _ hr (by
      have := flatten_length_blocks s.rs hr
      rw [List.length_append]; omega)
  unfold unwrap
  simp only [hw, List.take_left' ha, List.drop_left' ha, hsplit, hlen]
  rw [hround]
  simp [split8_flatten _ _ (Nat.le_refl key.length)]

/-- the wrapped key is 8 bytes longer. -/
theorem wrap_length (E : Bytes → Bytes) (hE : ∀ b, (E b).length = 16) (key : Bytes) (hk : key.length % 8 = 0) :
    (wrap E key).length = key.length + 8 := by
  have h0 : KwInv { a := kwIv, rs := split8 key.length key } :=
    ⟨kwIv_length, split8_blocks _ _ hk (Nat.le_refl _)⟩
  have hinv := foldl_wrapStep_inv E hE (steps (split8 key.length key).length) _ h0
  generalize hs : (steps (split8 key.length key).length).foldl (wrapStep E) { a := kwIv, rs := split8 key.length key } = s
    at hinv
  obtain ⟨⟨ha, hr⟩, hlen⟩ := hinv
  simp only at hlen
  have hw : wrap E key = s.a ++ s.rs.flatten := by simp only [wrap, hs]
  have h1 := flatten_length_blocks s.rs hr
  have h2 := flatten_length_blocks _ h0.2
  simp only [split8_flatten _ _ (Nat.le_refl key.length)] at h2
  rw [hw, List.length_append, ha, h1, hlen]; omega

/-! ### GCM round trip and tag check -/

theorem gcm_ct_length (E : Bytes → Bytes) (hE : ∀ b, (E b).length = 16) (iv ad pt : Bytes) :
    (Spec.Gcm.encrypt E iv ad pt).1.length = pt.length := by
  simp only [Spec.Gcm.encrypt]
  exact gctr_length E hE iv _ _ _ (Nat.lt_succ_self _)

theorem gcm_tag12_length (E : Bytes → Bytes) (hE : ∀ b, (E b).length = 16) (iv ad pt : Bytes) :
    ((Spec.Gcm.encrypt E iv ad pt).2.take 12).length = 12 := by
  simp only [Spec.Gcm.encrypt, List.length_take, tag_length E hE]; omega

theorem gcm_decrypt_encrypt (E : Bytes → Bytes) (hE : ∀ b, (E b).length = 16) (iv ad pt : Bytes) :
    Spec.Gcm.decrypt E iv ad (Spec.Gcm.encrypt E iv ad pt).1 ((Spec.Gcm.encrypt E iv ad pt).2.take 12) = some pt := by
  have hl := gcm_ct_length E hE iv ad pt
  have ht := gcm_tag12_length E hE iv ad pt
  unfold Spec.Gcm.decrypt
  rw [ht, hl]
  simp only [Spec.Gcm.encrypt] at *
  simp [gctr_invol E hE iv _ _ _ (Nat.lt_succ_self pt.length)]

theorem gcm_decrypt_bad_tag (E : Bytes → Bytes) (iv ad ct t : Bytes) (hl : t.length = 12)
    (hne : t ≠ (tag E iv ad ct).take 12) : Spec.Gcm.decrypt E iv ad ct t = none := by
  unfold Spec.Gcm.decrypt
  rw [hl]
  simp [Ne.symm hne]

/-! ### the protection layer -/

section Layer
open Model.Security

theorem flags_iff (sc : SC) : (!sc.encrypted && !sc.authenticated) = false ↔ (sc.encrypted = true ∨ sc.authenticated = true) := by
  cases sc.encrypted <;> cases sc.authenticated <;> simp

theorem encrypt_eq (P : Params) (E : Bytes → Bytes → Bytes) (sc : SC) (title : Bytes) (ic : Nat) (key pt ak : Bytes)
    (hsc : sc.encrypted = true ∨ sc.authenticated = true) (h : argsOk P sc title ic key ak = true) :
    Model.Security.encrypt P E sc title ic key pt ak =
      .ok ((Spec.Gcm.encrypt (E key) (iv title ic) (aad sc ak) pt).1 ++
           ((Spec.Gcm.encrypt (E key) (iv title ic) (aad sc ak) pt).2.take P.tagLength)) := by
  simp [Model.Security.encrypt, (flags_iff sc).mpr hsc, h]

theorem encrypt_ok (P : Params) (E : Bytes → Bytes → Bytes) (sc : SC) (title : Bytes) (ic : Nat) (key pt ak ct : Bytes)
    (h : Model.Security.encrypt P E sc title ic key pt ak = .ok ct) :
    (sc.encrypted = true ∨ sc.authenticated = true) ∧ argsOk P sc title ic key ak = true ∧
    ct = (Spec.Gcm.encrypt (E key) (iv title ic) (aad sc ak) pt).1 ++
           ((Spec.Gcm.encrypt (E key) (iv title ic) (aad sc ak) pt).2.take P.tagLength) := by
  by_cases hf : (!sc.encrypted && !sc.authenticated) = true
  · simp [Model.Security.encrypt, hf] at h
  · by_cases ha : argsOk P sc title ic key ak = true
    · have hsc := (flags_iff sc).mp (by simpa using hf)
      rw [encrypt_eq P E sc title ic key pt ak hsc ha] at h
      exact ⟨hsc, ha, (Except.ok.inj h).symm⟩
    · simp [Model.Security.encrypt, hf, ha] at h

theorem decrypt_some (P : Params) (E : Bytes → Bytes → Bytes) (sc : SC) (title : Bytes) (ic : Nat) (key ct ak pt : Bytes)
    (hsc : sc.encrypted = true ∨ sc.authenticated = true) (h : argsOk P sc title ic key ak = true)
    (hl : 12 ≤ ct.length)
    (hd : Spec.Gcm.decrypt (E key) (iv title ic) (aad sc ak) (ct.take (ct.length - 12)) (ct.drop (ct.length - 12)) = some pt) :
    Model.Security.decrypt P E sc title ic key ct ak = .ok pt := by
  simp [Model.Security.decrypt, (flags_iff sc).mpr hsc, h, Nat.not_lt.mpr hl, hd]

theorem decrypt_none (P : Params) (E : Bytes → Bytes → Bytes) (sc : SC) (title : Bytes) (ic : Nat) (key ct ak : Bytes)
    (hsc : sc.encrypted = true ∨ sc.authenticated = true) (h : argsOk P sc title ic key ak = true)
    (hl : 12 ≤ ct.length)
    (hd : Spec.Gcm.decrypt (E key) (iv title ic) (aad sc ak) (ct.take (ct.length - 12)) (ct.drop (ct.length - 12)) = none) :
    Model.Security.decrypt P E sc title ic key ct ak = .error .auth := by
  simp [Model.Security.decrypt, (flags_iff sc).mpr hsc, h, Nat.not_lt.mpr hl, hd]

theorem argsOk_false_of (P : Params) (sc : SC) (title : Bytes) (ic : Nat) (key ak : Bytes)
    (h : title.length ≠ 8 ∨ 2 ^ 32 ≤ ic ∨ validateKey P sc.suite key = false ∨ validateKey P sc.suite ak = false) :
    argsOk P sc title ic key ak = false := by
  unfold argsOk
  rcases h with h | h | h | h
  · simp [h]
  · simp [Nat.not_lt.mpr h]
  · simp [h]
  · simp [h]

theorem argsOk_iff (P : Params) (sc : SC) (title : Bytes) (ic : Nat) (key ak : Bytes) :
    argsOk P sc title ic key ak = true ↔
      title.length = 8 ∧ ic < 2 ^ 32 ∧ validateKey P sc.suite key = true ∧ validateKey P sc.suite ak = true := by
  simp [argsOk, and_assoc]

end Layer

end Lemmas.Security
