/-
  Definitions used in the statements of C18.
-/
import DlmsVerif.Gen.Tables
import DlmsVerif.Model.Transport
import DlmsVerif.Spec.Meter

namespace Lemmas.TransportDefs
open Dlms Model.Transport Spec.Meter

def T : Model.Link.Tables :=
  { transitions := Gen.Tables.hdlcTransitions, sendStates := Gen.Tables.hdlcSendStates,
    parseMethods := Gen.Tables.hdlcParseMethods }

/-- client and meter agree: the link is idle, nothing is in flight, and the client's four
    counters are the meter's two state variables. -/
def Sync (w : W Meter) : Prop :=
  w.link.state = "IDLE" ∧ w.line = [] ∧ w.meter.pending = [] ∧ w.meter.reqBuf = [] ∧
  w.meter.vs < 8 ∧ w.meter.vr < 8 ∧
  w.link.serverSsn = w.meter.vr ∧ w.link.clientRsn = w.meter.vr ∧
  w.link.serverRsn = w.meter.vs ∧ w.link.clientSsn = w.meter.vs

/-- the information frames C18 prescribes for a request: pieces of at most `maxData` bytes in
    order, all but the last marked segmented, all final, send numbers counting up modulo 8
    from `ssn`, all carrying the receive number `rsn`. -/
def requestFrames (maxData : Nat) : Nat → Nat → Nat → Bytes → List LFrame
  | 0, _, _, _ => []
  | fuel + 1, ssn, rsn, out =>
    if out.isEmpty then []
    else
      let rest := out.drop maxData
      .info ssn rsn (!rest.isEmpty) true (out.take maxData) :: requestFrames maxData fuel ((ssn + 1) % 8) rsn rest

/-- `n` receive-ready frames acknowledging the frames after number `rsn`. -/
def ackFrames : Nat → Nat → List LFrame
  | 0, _ => []
  | n + 1, rsn => .rr ((rsn + 1) % 8) :: ackFrames n ((rsn + 1) % 8)

/-- one request/response exchange: the request, how the meter splits its answer, the answer. -/
structure Exch where
  apdu : Bytes
  segs : List Bytes
  answer : Bytes
  deriving Repr

def Exch.ok (x : Exch) : Prop := x.segs ≠ [] ∧ x.segs.flatten = llcResp ++ x.answer

def Exch.request (x : Exch) : Bytes := llcCmd ++ x.apdu

/-- the loop bound of the model that is enough for the exchange. -/
def Exch.need (x : Exch) : Nat := x.request.length + x.segs.length + 1

/-- several `send()` calls one after the other. -/
def session (maxData fuel : Nat) (w : W Meter) : List Bytes → List (Except TErr Bytes) × W Meter
  | [] => ([], w)
  | a :: as =>
    let r := send T react maxData fuel w a
    let rs := session maxData fuel r.2 as
    (r.1 :: rs.1, rs.2)

end Lemmas.TransportDefs
