/-
  Frame-level glue for the fault theorem of C09: a received string that differs from a
  valid frame by a small error is refused by every parser.  The parser only accepts
  strings with both flags whose last two bytes before the closing flag are the check value
  of the bytes before them (`Lemmas.Hdlc.accepted_is_checked`); the error is therefore zero
  on the flags and, between them, a small error on `body ++ fcs body`, which X-25 detects
  (`Lemmas.CrcAlgebra.detects_small_errors`).
-/
import DlmsVerif.Lemmas.Hdlc
import DlmsVerif.Lemmas.CrcAlgebra

namespace Lemmas.HdlcFault
open Dlms Spec.Hdlc Model.Hdlc Lemmas.Hdlc Lemmas.CrcFaultDefs Lemmas.CrcAlgebra

theorem fcs_length (x : Bytes) : (Spec.Crc.fcs x).length = 2 := rfl

/-- a string of length at least two is its first byte, a middle, and its last byte. -/
theorem framed_of_ends (X : Bytes) (n : Nat) (x y : UInt8) (hl : X.length = n + 2)
    (hh : X.head? = some x) (ht : X.getLast? = some y) :
    ∃ mid, X = x :: mid ++ [y] ∧ mid.length = n := by
  obtain ⟨ys, rfl⟩ := List.getLast?_eq_some_iff.mp ht
  cases ys with
  | nil => simp at hl
  | cons a mid =>
    simp only [List.cons_append, List.head?_cons, Option.some.injEq] at hh
    subst hh
    exact ⟨mid, rfl, by simpa using hl⟩

/-- **a small error on a valid frame is refused** by the parser of every kind. -/
theorem corrupted_refused (k : PKind) (f : Frame) (h : WF f = true) (S : Bytes)
    (hs : serializeWith Spec.Crc.fcs f = some S) (X : Bytes) (hl : X.length = S.length)
    (he : SmallError (xorBytes X S)) :
    ∃ err, parse Spec.Crc.fcs k X = .error err := by
  cases hp : parse Spec.Crc.fcs k X with
  | error e => exact ⟨e, rfl⟩
  | ok p =>
    exfalso
    obtain ⟨hchk, hhead, hlast, _⟩ := accepted_is_checked Spec.Crc.fcs k X p hp
    obtain ⟨ctl, _, hS⟩ := shape Spec.Crc.fcs f h S hs
    obtain ⟨_, _, hlen, _⟩ := WF_parts f h
    have hbl := bodyOf_length Spec.Crc.fcs fcs_length f ctl
    generalize bodyOf Spec.Crc.fcs f ctl = body at hS hbl
    have hSl : S.length = (body.length + 2) + 2 := by rw [hS]; simp [fcs_length]
    obtain ⟨mid, hX, hmid⟩ := framed_of_ends X (body.length + 2) 0x7E 0x7E (by omega) hhead hlast
    have hS' : S = 0x7E :: (body ++ Spec.Crc.fcs body) ++ [0x7E] := by rw [hS]; simp
    have hml : mid.length = (body ++ Spec.Crc.fcs body).length := by simp [hmid, fcs_length]
    rw [hX, hS', xorBytes_framed _ _ _ _ hml] at he
    have he' := smallError_framed _ he
    have hcancel := xorBytes_cancel mid _ hml
    have hel : (xorBytes mid (body ++ Spec.Crc.fcs body)).length = body.length + 2 := by
      rw [xorBytes_length _ _ hml]; simp [fcs_length]
    have key := detects_small_errors body _ hel (by omega) he'
    rw [hcancel] at key
    apply key
    -- the two slices of the accepted string
    have hd : (mid.drop body.length).length = 2 := by simp [hmid]
    have hsplit : X = 0x7E :: mid.take body.length ++ mid.drop body.length ++ [0x7E] := by
      rw [hX]; simp
    have s1 : pySlice X 1 (-3) = mid.take body.length := by
      rw [hsplit]; exact slice_body _ _ _ _ hd
    have s2 : pySlice X (-3) (-1) = mid.drop body.length := by
      rw [hsplit]; exact slice_fcs _ _ _ _ hd
    rw [s1, s2] at hchk
    exact hchk.symm

end Lemmas.HdlcFault
