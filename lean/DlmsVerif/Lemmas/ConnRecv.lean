/-
  Lemmas about the receive path of Model.Conn (unprotect / deliver / recv) over the concrete
  transition table, and the invariants of histories used by C06 / C07.
-/
import DlmsVerif.Lemmas.ConnDefs

namespace Lemmas.ConnRecv
open Dlms Model.Conn Lemmas.ConnDefs

/-! ### the transition table -/

theorem rows_aare : ∀ r ∈ T.transitions, r.2.1 = "ApplicationAssociationResponse" → r.2.2 = "READY" := by
  decide

theorem rows_hlsdone : ∀ r ∈ T.transitions, r.2.2 = "HLS_DONE" → r.2.1 = "ActionResponseNormalWithData" := by
  decide

theorem lookup_mem {T : Tables} {st cls st' : String} (h : lookup T st cls = some st') :
    ∃ r ∈ T.transitions, r.1 = st ∧ r.2.1 = cls ∧ r.2.2 = st' := by
  unfold lookup at h
  simp only [Option.map_eq_some_iff] at h
  obtain ⟨r, hr, rfl⟩ := h
  have h1 := List.mem_of_find?_eq_some hr
  have h2 := List.find?_some hr
  simp at h2
  exact ⟨r, h1, h2.1, h2.2, rfl⟩

theorem l1 : lookup T "READY" "RejectAssociation" = some "NO_ASSOCIATION" := by decide
theorem l2 : lookup T "READY" "HlsStart" = some "SHOULD_SEND_HLS_SEVER_CHALLENGE_RESULT" := by decide
theorem l3 : lookup T "HLS_DONE" "HlsSuccess" = some "READY" := by decide
theorem l4 : lookup T "HLS_DONE" "HlsFailed" = some "NO_ASSOCIATION" := by decide

theorem cls_inj (k k' : Kind) (h : k.cls = k'.cls) : k = k' := by
  revert h; cases k <;> cases k' <;> decide

theorem lookup_aare {st st' : String} (h : lookup T st "ApplicationAssociationResponse" = some st') : st' = "READY" := by
  obtain ⟨r, hr, _, h2, h3⟩ := lookup_mem h
  rw [← h3]; exact rows_aare r hr h2

theorem lookup_hlsdone {st cls : String} (h : lookup T st cls = some "HLS_DONE") : cls = "ActionResponseNormalWithData" := by
  obtain ⟨r, hr, _, h2, h3⟩ := lookup_mem h
  rw [← h2]; exact rows_hlsdone r hr h3

theorem transition_some {s s2 : Conn} {cls : String} (h : transition T s cls = some s2) :
    ∃ st', lookup T s.state cls = some st' ∧ s2 = { s with state := st' } := by
  unfold transition at h
  simp only [Option.map_eq_some_iff] at h
  obtain ⟨st', h1, h2⟩ := h
  exact ⟨st', h1, h2.symm⟩


theorem transition_ne_none {s : Conn} {cls st' : String} (h : lookup T s.state cls = some st') :
    transition T s cls ≠ none := by
  simp [transition, h]

theorem tr_ready_reject {s : Conn} (h : s.state = "READY") : transition T s "RejectAssociation" ≠ none :=
  transition_ne_none (st' := "NO_ASSOCIATION") (by rw [h]; exact l1)
theorem tr_ready_hls {s : Conn} (h : s.state = "READY") : transition T s "HlsStart" ≠ none :=
  transition_ne_none (st' := "SHOULD_SEND_HLS_SEVER_CHALLENGE_RESULT") (by rw [h]; exact l2)
theorem tr_hlsdone {s : Conn} (h : s.state = "HLS_DONE") (b : Bool) :
    transition T s (if b = true then "HlsSuccess" else "HlsFailed") ≠ none := by
  cases b
  · exact transition_ne_none (st' := "NO_ASSOCIATION") (by rw [h]; exact l4)
  · exact transition_ne_none (st' := "READY") (by rw [h]; exact l3)

theorem deliver_error (c : Config) (s1 s' : Conn) (a1 : Apdu) (e : Err) (hw : Apdu.wf a1 = true)
    (h : deliver T c s1 a1 = (.error e, s')) : (e = .preEstablished ∨ e = .protocol) ∧ s' = s1 := by
  unfold deliver at h
  split at h
  · simp at h; simp [h]
  · split at h
    · simp at h; simp [h]
    · rename_i s2 htr
      obtain ⟨st', hl, rfl⟩ := transition_some htr
      cases a1 with
      | aare result mech title challenge ui =>
        have := lookup_aare hl
        subst this
        cases ui
        all_goals dsimp only at h
        all_goals repeat' split at h
        all_goals first
          | (simp at h; done)
          | exact absurd (by assumption) (tr_ready_reject rfl)
          | exact absurd (by assumption) (tr_ready_hls rfl)
      | actRespData status data =>
        dsimp only at h
        split at h
        · rename_i hst
          simp at hst
          subst hst
          repeat' split at h
          all_goals first
            | (simp at h; done)
            | exact absurd (by assumption) (tr_hlsdone rfl _)
        · simp at h
      | _ =>
        dsimp only at h
        split at h
        · rename_i hst
          simp at hst
          subst hst
          have hc := lookup_hlsdone hl
          have hk := cls_inj _ .actRespData hc
          simp_all [Apdu.kind, Apdu.wf, plainKindOk]
        · simp at h

/-! ### decrypt / unprotect -/

theorem decrypt_ok {c : Config} {t : Option Bytes} {ic : Nat} {ct : Cipher} {p : Inner}
    (h : decrypt c t ic ct = .ok p) : ∃ args, ct = .sealed args p := by
  unfold decrypt at h
  repeat' split at h
  all_goals first
    | (simp at h; done)
    | skip
  simp at h
  subst h
  exact ⟨_, rfl⟩

def bump (s : Conn) (ic : Nat) : Conn := { s with meterIC := ic, accepted := s.accepted ++ [ic] }

theorem unprotect_ok_gen {c : Config} {s s1 : Conn} {a a1 : Apdu}
    (h : unprotect c s a = .ok (a1, s1)) :
    (Apdu.wf a = true → Apdu.wf a1 = true) ∧ (s1 = s ∨ ∃ ic, s.meterIC < ic ∧ s1 = bump s ic) := by
  unfold unprotect at h
  split at h
  · simp at h; obtain ⟨rfl, rfl⟩ := h; exact ⟨fun hw => hw, .inl rfl⟩
  · split at h
    · -- aare glo
      split at h
      · simp at h
      · rename_i hic
        split at h
        · simp at h
        · simp at h; obtain ⟨rfl, rfl⟩ := h
          exact ⟨fun _ => rfl, .inr ⟨_, by omega, rfl⟩⟩
        · simp at h
    · split at h
      · simp at h
      · rename_i hic
        split at h
        · simp at h
        · simp at h; obtain ⟨rfl, rfl⟩ := h
          exact ⟨fun _ => rfl, .inr ⟨_, by omega, rfl⟩⟩
        · simp at h
    · simp at h; obtain ⟨rfl, rfl⟩ := h; exact ⟨fun hw => hw, .inl rfl⟩
    · simp at h; obtain ⟨rfl, rfl⟩ := h; exact ⟨fun hw => hw, .inl rfl⟩
    · split at h
      · simp at h
      · rename_i hic
        split at h
        · simp at h
        · simp at h
        · rename_i k hd
          obtain ⟨args, rfl⟩ := decrypt_ok hd
          simp at h; obtain ⟨rfl, rfl⟩ := h
          exact ⟨fun hw => hw, .inr ⟨_, by omega, rfl⟩⟩
        · simp at h; obtain ⟨rfl, rfl⟩ := h
          exact ⟨fun _ => rfl, .inr ⟨_, by omega, rfl⟩⟩
        · simp at h; obtain ⟨rfl, rfl⟩ := h
          exact ⟨fun _ => rfl, .inr ⟨_, by omega, rfl⟩⟩
    · simp at h

theorem unprotect_ok {c : Config} {s s1 : Conn} {a a1 : Apdu} (hw : Apdu.wf a = true)
    (h : unprotect c s a = .ok (a1, s1)) :
    Apdu.wf a1 = true ∧ (s1 = s ∨ ∃ ic, s.meterIC < ic ∧ s1 = bump s ic) :=
  ⟨(unprotect_ok_gen h).1 hw, (unprotect_ok_gen h).2⟩

/-! ### what `deliver` leaves alone -/

def sameCounters (s s' : Conn) : Prop :=
  s'.clientIC = s.clientIC ∧ s'.meterIC = s.meterIC ∧ s'.log = s.log ∧ s'.accepted = s.accepted

theorem transition_frame {T : Tables} {s s2 : Conn} {cls : String} (h : transition T s cls = some s2) :
    sameCounters s s2 := by
  unfold transition at h
  simp only [Option.map_eq_some_iff] at h
  obtain ⟨st', _, rfl⟩ := h
  exact ⟨rfl, rfl, rfl, rfl⟩

theorem sameCounters.trans {a b c : Conn} (h1 : sameCounters a b) (h2 : sameCounters b c) : sameCounters a c := by
  obtain ⟨a1, a2, a3, a4⟩ := h1
  obtain ⟨b1, b2, b3, b4⟩ := h2
  exact ⟨b1.trans a1, b2.trans a2, b3.trans a3, b4.trans a4⟩

theorem deliver_counters (T : Tables) (c : Config) (s : Conn) (a : Apdu) : sameCounters s (deliver T c s a).2 := by
  unfold deliver
  split
  · exact ⟨rfl, rfl, rfl, rfl⟩
  · split
    · exact ⟨rfl, rfl, rfl, rfl⟩
    · rename_i s2 htr
      have h2 := transition_frame htr
      cases a with
      | aare result mech title challenge ui =>
        cases ui
        all_goals dsimp only
        all_goals repeat' split
        all_goals first
          | exact h2
          | exact h2.trans ⟨rfl, rfl, rfl, rfl⟩
          | (rename_i heq; have h5 := transition_frame heq; exact h2.trans (sameCounters.trans ⟨rfl, rfl, rfl, rfl⟩ h5))
      | _ =>
        dsimp only
        repeat' split
        all_goals first
          | exact h2
          | exact h2.trans ⟨rfl, rfl, rfl, rfl⟩
          | (rename_i heq; have h5 := transition_frame heq; exact h2.trans (sameCounters.trans ⟨rfl, rfl, rfl, rfl⟩ h5))

/-! ### one operation of a history -/

theorem encrypt_ok {c : Config} {s s2 : Conn} {p : Inner} {ct : Cipher} {ic : Nat}
    (h : encrypt c s p = .ok (ct, ic, s2)) :
    ∃ args : SealArgs, args.ic = s.clientIC ∧ args.title = c.clientTitle ∧ ct = .sealed args p ∧ ic = s.clientIC ∧
      s2 = { s with clientIC := s.clientIC + 1, log := s.log ++ [.seal args] } := by
  unfold encrypt at h
  repeat' split at h
  all_goals first
    | (simp at h; done)
    | skip
  simp only [Except.ok.injEq, Prod.mk.injEq] at h
  obtain ⟨rfl, rfl, rfl⟩ := h
  exact ⟨_, rfl, rfl, rfl, rfl, rfl⟩

/-- effect of one operation on the client counter and the log of generating operations. -/
def ClientPart (c : Config) (s s' : Conn) : Prop :=
  (s'.clientIC = s.clientIC ∧ s'.log = s.log) ∨
  ∃ u : Use, u.args.ic = s.clientIC ∧ u.args.title = c.clientTitle ∧ s'.clientIC = s.clientIC + 1 ∧ s'.log = s.log ++ [u]

/-- effect of one operation on the meter counter and the list of accepted counters. -/
def MeterPart (s s' : Conn) : Prop :=
  (s'.meterIC = s.meterIC ∧ s'.accepted = s.accepted) ∨
  ∃ ic, s.meterIC < ic ∧ s'.meterIC = ic ∧ s'.accepted = s.accepted ++ [ic]

theorem send_step (T : Tables) (c : Config) (s : Conn) (k : Kind) (ui : Bool) :
    ClientPart c s (send T c s k ui).2 ∧ MeterPart s (send T c s k ui).2 := by
  unfold send
  dsimp only
  repeat' split
  all_goals first
    | exact ⟨.inl ⟨rfl, rfl⟩, .inl ⟨rfl, rfl⟩⟩
    | skip
  all_goals
    rename_i heq
    obtain ⟨args, h1, h2, _, _, rfl⟩ := encrypt_ok heq
    exact ⟨.inr ⟨.seal args, h1, h2, rfl, rfl⟩, .inl ⟨rfl, rfl⟩⟩

theorem hlsReply_step (c : Config) (s : Conn) :
    ClientPart c s (hlsReply c s).2 ∧ MeterPart s (hlsReply c s).2 := by
  unfold hlsReply
  repeat' split
  all_goals first
    | exact ⟨.inl ⟨rfl, rfl⟩, .inl ⟨rfl, rfl⟩⟩
    | exact ⟨.inr ⟨.mac _, rfl, rfl, rfl, rfl⟩, .inl ⟨rfl, rfl⟩⟩

theorem recv_step (T : Tables) (c : Config) (s : Conn) (x : Input) :
    ClientPart c s (recv T c s x).2 ∧ MeterPart s (recv T c s x).2 := by
  unfold recv
  split
  · exact ⟨.inl ⟨rfl, rfl⟩, .inl ⟨rfl, rfl⟩⟩
  · split
    · exact ⟨.inl ⟨rfl, rfl⟩, .inl ⟨rfl, rfl⟩⟩
    · rename_i a a1 s1 hu
      obtain ⟨h1, h2, h3, h4⟩ := deliver_counters T c s1 a1
      rcases (unprotect_ok_gen hu).2 with rfl | ⟨ic, hic, rfl⟩
      · exact ⟨.inl ⟨h1, h3⟩, .inl ⟨h2, h4⟩⟩
      · exact ⟨.inl ⟨h1, h3⟩, .inr ⟨ic, hic, h2, h4⟩⟩

theorem step_parts (T : Tables) (c : Config) (s : Conn) (op : Op) :
    ClientPart c s (step T c s op) ∧ MeterPart s (step T c s op) := by
  cases op with
  | send k ui => exact send_step T c s k ui
  | recv x => exact recv_step T c s x
  | hlsReply => exact hlsReply_step c s

/-! ### invariant of histories -/

/-- invariant of every history started from `fresh state cic mic mt`. -/
structure HistInv (c : Config) (cic mic : Nat) (s : Conn) : Prop where
  len : cic + s.log.length = s.clientIC
  idx : ∀ k u, s.log[k]? = some u → u.args.ic = cic + k ∧ u.args.title = c.clientTitle
  pw : s.accepted.Pairwise (· < ·)
  bnd : ∀ x ∈ s.accepted, mic < x ∧ x ≤ s.meterIC
  lo : mic ≤ s.meterIC

theorem HistInv_fresh (c : Config) (state : String) (cic mic : Nat) (mt : Option Bytes) :
    HistInv c cic mic (fresh state cic mic mt) := by
  refine ⟨rfl, ?_, ?_, ?_, Nat.le_refl _⟩ <;> simp [fresh]

theorem HistInv_step {c : Config} {cic mic : Nat} {s s' : Conn} (h : HistInv c cic mic s)
    (hc : ClientPart c s s') (hm : MeterPart s s') : HistInv c cic mic s' := by
  obtain ⟨len, idx, pw, bnd, lo⟩ := h
  have hcl : cic + s'.log.length = s'.clientIC ∧
      ∀ k u, s'.log[k]? = some u → u.args.ic = cic + k ∧ u.args.title = c.clientTitle := by
    rcases hc with ⟨h1, h2⟩ | ⟨u, h1, h2, h3, h4⟩
    · rw [h1, h2]; exact ⟨len, idx⟩
    · rw [h3, h4]
      refine ⟨by simp; omega, ?_⟩
      intro k u' hk
      rw [List.getElem?_append] at hk
      split at hk
      · exact idx k u' hk
      · rename_i hlt
        have : k - s.log.length = 0 := by
          cases hz : k - s.log.length with
          | zero => rfl
          | succ n => rw [hz] at hk; simp at hk
        rw [this] at hk
        simp at hk
        subst hk
        exact ⟨by omega, h2⟩
  have hmt : s'.accepted.Pairwise (· < ·) ∧ (∀ x ∈ s'.accepted, mic < x ∧ x ≤ s'.meterIC) ∧ mic ≤ s'.meterIC := by
    rcases hm with ⟨h1, h2⟩ | ⟨ic, h1, h2, h3⟩
    · rw [h1, h2]; exact ⟨pw, bnd, lo⟩
    · rw [h2, h3]
      refine ⟨?_, ?_, by omega⟩
      · rw [List.pairwise_append]
        refine ⟨pw, List.pairwise_singleton _ _, ?_⟩
        intro a ha b hb
        simp at hb; subst hb
        have := (bnd a ha).2
        omega
      · intro x hx
        simp at hx
        rcases hx with hx | rfl
        · have := bnd x hx; omega
        · omega
  exact ⟨hcl.1, hcl.2, hmt.1, hmt.2.1, hmt.2.2⟩

theorem HistInv_run {c : Config} {cic mic : Nat} (ops : List Op) {s : Conn} (h : HistInv c cic mic s) :
    HistInv c cic mic (run T c ops s) := by
  induction ops generalizing s with
  | nil => exact h
  | cons op ops ih =>
    simp only [run, List.foldl_cons]
    exact ih (HistInv_step h (step_parts T c s op).1 (step_parts T c s op).2)

theorem HistInv_history (c : Config) (ops : List Op) (state : String) (cic mic : Nat) (mt : Option Bytes) :
    HistInv c cic mic (run T c ops (fresh state cic mic mt)) :=
  HistInv_run ops (HistInv_fresh c state cic mic mt)

end Lemmas.ConnRecv
