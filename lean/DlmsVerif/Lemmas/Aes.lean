/-
  Lemmas about Spec.Aes: the inverse cipher undoes the cipher on 16-byte blocks, for every
  list of at least two 16-byte round keys, and the key schedule of a 16- or 32-byte key
  produces such a list.  Core Lean only.
-/
import DlmsVerif.Spec.Aes

namespace Lemmas.Aes
open Spec.Aes

/-! ### bytes -/

theorem byte_ind (P : UInt8 → Prop) (h : ∀ n, n < 256 → P (UInt8.ofNat n)) (b : UInt8) : P b := by
  have := h b.toNat (UInt8.toNat_lt b)
  simpa using this

theorem invSbox_sbox (b : UInt8) : invSbox (sbox b) = b := by
  apply byte_ind (fun b => invSbox (sbox b) = b)
  decide +kernel

theorem xor_self_left (a b : UInt8) : a ^^^ (a ^^^ b) = b := by
  rw [← UInt8.xor_assoc, UInt8.xor_self, UInt8.zero_xor]

theorem xor_and_right (a b c : UInt8) : (a ^^^ b) &&& c = (a &&& c) ^^^ (b &&& c) := by
  rw [← UInt8.toBitVec_inj]
  simp only [UInt8.toBitVec_and, UInt8.toBitVec_xor]
  apply BitVec.eq_of_getLsbD_eq
  intro i hi
  simp [Bool.and_xor_distrib_right]

theorem and80 (a : UInt8) : a &&& 0x80 = 0 ∨ a &&& 0x80 = 0x80 := by
  apply byte_ind (fun a => a &&& 0x80 = 0 ∨ a &&& 0x80 = 0x80)
  decide +kernel

/-- multiplication by x is additive. -/
theorem xtime_xor (a b : UInt8) : xtime (a ^^^ b) = xtime a ^^^ xtime b := by
  unfold xtime
  rw [xor_and_right, UInt8.shiftLeft_xor]
  rcases and80 a with ha | ha <;> rcases and80 b with hb | hb <;> rw [ha, hb] <;> simp <;> ac_nf <;>
    simp only [xor_self_left]

theorem gmul9 (a : UInt8) : gmul a 9 = a ^^^ xtime (xtime (xtime a)) := by simp +decide [gmul]
theorem gmul11 (a : UInt8) : gmul a 11 = a ^^^ xtime a ^^^ xtime (xtime (xtime a)) := by simp +decide [gmul]
theorem gmul13 (a : UInt8) : gmul a 13 = a ^^^ xtime (xtime a) ^^^ xtime (xtime (xtime a)) := by simp +decide [gmul]
theorem gmul14 (a : UInt8) : gmul a 14 = xtime a ^^^ xtime (xtime a) ^^^ xtime (xtime (xtime a)) := by simp +decide [gmul]

/-- the matrix identity InvMixColumns * MixColumns = 1 holds already over GF(2)[x]: after
    pushing `xtime` through XOR every term other than `a_i` occurs an even number of times. -/
theorem invMixColumn_mixColumn (a0 a1 a2 a3 : UInt8) :
    invMixColumn (mixColumn [a0, a1, a2, a3]) = [a0, a1, a2, a3] := by
  simp only [mixColumn, invMixColumn, gmul9, gmul11, gmul13, gmul14, xtime_xor]
  generalize xtime (xtime (xtime (xtime a0))) = e0
  generalize xtime (xtime (xtime (xtime a1))) = e1
  generalize xtime (xtime (xtime (xtime a2))) = e2
  generalize xtime (xtime (xtime (xtime a3))) = e3
  generalize xtime (xtime (xtime a0)) = d0
  generalize xtime (xtime (xtime a1)) = d1
  generalize xtime (xtime (xtime a2)) = d2
  generalize xtime (xtime (xtime a3)) = d3
  generalize xtime (xtime a0) = c0
  generalize xtime (xtime a1) = c1
  generalize xtime (xtime a2) = c2
  generalize xtime (xtime a3) = c3
  generalize xtime a0 = b0
  generalize xtime a1 = b1
  generalize xtime a2 = b2
  generalize xtime a3 = b3
  simp only [List.cons.injEq, and_true]
  refine ⟨?_, ?_, ?_, ?_⟩ <;> ac_nf <;> simp only [xor_self_left, UInt8.xor_self, UInt8.xor_zero]

/-! ### 16-byte states -/

theorem length_succ {α} {n : Nat} (s : List α) (h : s.length = n + 1) : ∃ a t, s = a :: t ∧ t.length = n := by
  cases s with
  | nil => simp at h
  | cons a t => exact ⟨a, t, rfl, by simpa using h⟩

theorem length4 {α} (s : List α) (h : s.length = 4) : ∃ a0 a1 a2 a3, s = [a0, a1, a2, a3] := by
  obtain ⟨a0, s1, rfl, h1⟩ := length_succ (n := 3) s h
  obtain ⟨a1, s2, rfl, h2⟩ := length_succ (n := 2) s1 h1
  obtain ⟨a2, s3, rfl, h3⟩ := length_succ (n := 1) s2 h2
  obtain ⟨a3, s4, rfl, h4⟩ := length_succ (n := 0) s3 h3
  cases s4 with
  | nil => exact ⟨a0, a1, a2, a3, rfl⟩
  | cons _ _ => simp at h4

theorem length16 {α} (s : List α) (h : s.length = 16) :
    ∃ a0 a1 a2 a3 a4 a5 a6 a7 a8 a9 a10 a11 a12 a13 a14 a15,
      s = [a0, a1, a2, a3, a4, a5, a6, a7, a8, a9, a10, a11, a12, a13, a14, a15] := by
  obtain ⟨a0, s1, rfl, h1⟩ := length_succ (n := 15) s h
  obtain ⟨a1, s2, rfl, h2⟩ := length_succ (n := 14) s1 h1
  obtain ⟨a2, s3, rfl, h3⟩ := length_succ (n := 13) s2 h2
  obtain ⟨a3, s4, rfl, h4⟩ := length_succ (n := 12) s3 h3
  obtain ⟨a4, s5, rfl, h5⟩ := length_succ (n := 11) s4 h4
  obtain ⟨a5, s6, rfl, h6⟩ := length_succ (n := 10) s5 h5
  obtain ⟨a6, s7, rfl, h7⟩ := length_succ (n := 9) s6 h6
  obtain ⟨a7, s8, rfl, h8⟩ := length_succ (n := 8) s7 h7
  obtain ⟨a8, s9, rfl, h9⟩ := length_succ (n := 7) s8 h8
  obtain ⟨a9, s10, rfl, h10⟩ := length_succ (n := 6) s9 h9
  obtain ⟨a10, s11, rfl, h11⟩ := length_succ (n := 5) s10 h10
  obtain ⟨a11, s12, rfl, h12⟩ := length_succ (n := 4) s11 h11
  obtain ⟨a12, s13, rfl, h13⟩ := length_succ (n := 3) s12 h12
  obtain ⟨a13, s14, rfl, h14⟩ := length_succ (n := 2) s13 h13
  obtain ⟨a14, s15, rfl, h15⟩ := length_succ (n := 1) s14 h14
  obtain ⟨a15, s16, rfl, h16⟩ := length_succ (n := 0) s15 h15
  cases s16 with
  | nil => exact ⟨a0, a1, a2, a3, a4, a5, a6, a7, a8, a9, a10, a11, a12, a13, a14, a15, rfl⟩
  | cons _ _ => simp at h16

theorem subBytes_length (s : Bytes) : (subBytes s).length = s.length := by simp [subBytes]

theorem invSubBytes_subBytes : ∀ (s : Bytes), invSubBytes (subBytes s) = s
  | [] => rfl
  | b :: s => by
    have ih := invSubBytes_subBytes s
    simp only [invSubBytes, subBytes, List.map_cons] at ih ⊢
    rw [ih, invSbox_sbox]

theorem shiftRows_length (s : Bytes) : (shiftRows s).length = 16 := by simp [shiftRows]

theorem invShiftRows_shiftRows (s : Bytes) (h : s.length = 16) : invShiftRows (shiftRows s) = s := by
  obtain ⟨a0, a1, a2, a3, a4, a5, a6, a7, a8, a9, a10, a11, a12, a13, a14, a15, rfl⟩ := length16 s h
  rfl

theorem mixColumns_length (s : Bytes) (h : s.length = 16) : (mixColumns s).length = 16 := by
  obtain ⟨a0, a1, a2, a3, a4, a5, a6, a7, a8, a9, a10, a11, a12, a13, a14, a15, rfl⟩ := length16 s h
  rfl

theorem invMixColumns_mixColumns (s : Bytes) (h : s.length = 16) : invMixColumns (mixColumns s) = s := by
  obtain ⟨a0, a1, a2, a3, a4, a5, a6, a7, a8, a9, a10, a11, a12, a13, a14, a15, rfl⟩ := length16 s h
  show invMixColumn (mixColumn [a0, a1, a2, a3]) ++ (invMixColumn (mixColumn [a4, a5, a6, a7]) ++
    (invMixColumn (mixColumn [a8, a9, a10, a11]) ++ (invMixColumn (mixColumn [a12, a13, a14, a15]) ++ []))) = _
  rw [invMixColumn_mixColumn, invMixColumn_mixColumn, invMixColumn_mixColumn, invMixColumn_mixColumn]
  rfl

theorem xorBytes_length (a b : Bytes) : (xorBytes a b).length = min a.length b.length := by
  simp [xorBytes]

theorem xorBytes_cancel : ∀ (s k : Bytes), s.length = k.length → xorBytes (xorBytes s k) k = s
  | [], _, _ => by simp [xorBytes]
  | a :: s, [], h => by simp at h
  | a :: s, b :: k, h => by
    have ih := xorBytes_cancel s k (by simpa using h)
    simp only [xorBytes] at ih ⊢
    simp only [List.zipWith_cons_cons, ih, List.cons.injEq, and_true]
    rw [UInt8.xor_assoc, UInt8.xor_self, UInt8.xor_zero]

/-! ### rounds -/

/-- one full round (the body of `rounds`) and its inverse (the body of `invRounds`). -/
theorem round_length (s rk : Bytes) (hs : s.length = 16) (hrk : rk.length = 16) :
    (xorBytes (mixColumns (shiftRows (subBytes s))) rk).length = 16 := by
  have _ := hs
  rw [xorBytes_length, mixColumns_length _ (shiftRows_length _), hrk]; rfl

theorem round_inverse (s rk : Bytes) (hs : s.length = 16) (hrk : rk.length = 16) :
    invSubBytes (invShiftRows (invMixColumns (xorBytes (xorBytes (mixColumns (shiftRows (subBytes s))) rk) rk))) = s := by
  rw [xorBytes_cancel _ _ (by rw [mixColumns_length _ (shiftRows_length _), hrk]),
    invMixColumns_mixColumns _ (shiftRows_length _),
    invShiftRows_shiftRows _ (by rw [subBytes_length, hs]), invSubBytes_subBytes]

theorem rounds_length : ∀ (l : List Bytes) (s : Bytes), (∀ rk ∈ l, rk.length = 16) → s.length = 16 →
    (rounds l s).length = 16
  | [], s, _, hs => hs
  | rk :: l, s, hl, hs => by
    show (rounds l (xorBytes (mixColumns (shiftRows (subBytes s))) rk)).length = 16
    exact rounds_length l _ (fun x hx => hl x (List.mem_cons_of_mem _ hx))
      (round_length s rk hs (hl rk List.mem_cons_self))

theorem invRounds_rounds : ∀ (l : List Bytes) (s : Bytes), (∀ rk ∈ l, rk.length = 16) → s.length = 16 →
    invRounds l (rounds l s) = s
  | [], _, _, _ => rfl
  | rk :: l, s, hl, hs => by
    show invSubBytes (invShiftRows (invMixColumns (xorBytes
      (invRounds l (rounds l (xorBytes (mixColumns (shiftRows (subBytes s))) rk))) rk))) = s
    rw [invRounds_rounds l _ (fun x hx => hl x (List.mem_cons_of_mem _ hx))
      (round_length s rk hs (hl rk List.mem_cons_self))]
    exact round_inverse s rk hs (hl rk List.mem_cons_self)

theorem getLastD_mem {α} (l : List α) (d : α) (h : l ≠ []) : l.getLastD d ∈ l := by
  cases l with
  | nil => exact absurd rfl h
  | cons b t => rw [List.getLastD_cons]; exact List.getLastD_mem_cons

theorem cipher_length (rks : List Bytes) (h2 : 2 ≤ rks.length) (hall : ∀ rk ∈ rks, rk.length = 16)
    (b : Bytes) : (cipher rks b).length = 16 := by
  match rks, h2, hall with
  | rk0 :: rest, h2, hall =>
    have hne : rest ≠ [] := by intro h; subst h; simp at h2
    have hlast : (rest.getLastD []).length = 16 := hall _ (List.mem_cons_of_mem _ (getLastD_mem rest [] hne))
    show (xorBytes (shiftRows (subBytes _)) (rest.getLastD [])).length = 16
    rw [xorBytes_length, shiftRows_length, hlast]; rfl

theorem invCipher_cipher (rks : List Bytes) (h2 : 2 ≤ rks.length) (hall : ∀ rk ∈ rks, rk.length = 16)
    (b : Bytes) (hb : b.length = 16) : invCipher rks (cipher rks b) = b := by
  match rks, h2, hall with
  | rk0 :: rest, h2, hall =>
    have hne : rest ≠ [] := by intro h; subst h; simp at h2
    have hlast : (rest.getLastD []).length = 16 := hall _ (List.mem_cons_of_mem _ (getLastD_mem rest [] hne))
    have h0 : rk0.length = 16 := hall _ List.mem_cons_self
    have hmid : ∀ rk ∈ rest.dropLast, rk.length = 16 :=
      fun x hx => hall x (List.mem_cons_of_mem _ (List.dropLast_subset rest hx))
    have hs0 : (xorBytes b rk0).length = 16 := by rw [xorBytes_length, hb, h0]; rfl
    have hs := rounds_length rest.dropLast _ hmid hs0
    show xorBytes (invRounds rest.dropLast (invSubBytes (invShiftRows (xorBytes
      (xorBytes (shiftRows (subBytes (rounds rest.dropLast (xorBytes b rk0)))) (rest.getLastD []))
      (rest.getLastD []))))) rk0 = b
    rw [xorBytes_cancel _ _ (by rw [shiftRows_length, hlast]),
      invShiftRows_shiftRows _ (by rw [subBytes_length, hs]), invSubBytes_subBytes,
      invRounds_rounds _ _ hmid hs0, xorBytes_cancel _ _ (by rw [hb, h0])]

/-! ### key schedule: only the lengths matter -/

theorem nextWord_length (nk : Nat) (hnk : 0 < nk) (ws : List Bytes) (hne : ws ≠ [])
    (hall : ∀ w ∈ ws, w.length = 4) : (nextWord nk ws).length = 4 := by
  have hprev : (ws.getLastD []).length = 4 := hall _ (getLastD_mem ws [] hne)
  have hlen : 0 < ws.length := List.length_pos_iff.mpr hne
  have hold : (ws.getD (ws.length - nk) []).length = 4 := by
    have hi : ws.length - nk < ws.length := by omega
    rw [List.getD_eq_getElem?_getD, List.getElem?_eq_getElem hi]
    exact hall _ (List.getElem_mem hi)
  have hrot : (rotWord (ws.getLastD [])).length = 4 := by
    obtain ⟨a0, a1, a2, a3, h⟩ := length4 _ hprev
    rw [h]; rfl
  have ht : ∀ t : Bytes, t.length = 4 → (xorBytes (ws.getD (ws.length - nk) []) t).length = 4 := by
    intro t ht; rw [xorBytes_length, hold, ht]; rfl
  unfold nextWord
  apply ht
  split
  · rw [xorBytes_length, subWord, List.length_map, hrot]; rfl
  · split
    · rw [subWord, List.length_map, hprev]
    · exact hprev

theorem expandWords_spec (nk : Nat) (hnk : 0 < nk) : ∀ (n : Nat) (ws : List Bytes), ws ≠ [] →
    (∀ w ∈ ws, w.length = 4) →
    (expandWords nk n ws).length = ws.length + n ∧ ∀ w ∈ expandWords nk n ws, w.length = 4
  | 0, ws, _, hall => ⟨rfl, hall⟩
  | n + 1, ws, hne, hall => by
    have hall' : ∀ w ∈ ws ++ [nextWord nk ws], w.length = 4 := by
      intro w hw
      rcases List.mem_append.mp hw with h | h
      · exact hall w h
      · rw [List.mem_singleton.mp h]; exact nextWord_length nk hnk ws hne hall
    have ih := expandWords_spec nk hnk n (ws ++ [nextWord nk ws]) (by simp) hall'
    show (expandWords nk n (ws ++ [nextWord nk ws])).length = _ ∧ ∀ w ∈ expandWords nk n (ws ++ [nextWord nk ws]), _
    refine ⟨?_, ih.2⟩
    rw [ih.1, List.length_append]; simp; omega

theorem flatten_length4 : ∀ (l : List Bytes), (∀ w ∈ l, w.length = 4) → l.flatten.length = 4 * l.length
  | [], _ => rfl
  | w :: l, h => by
    rw [List.flatten_cons, List.length_append, h w List.mem_cons_self,
      flatten_length4 l (fun x hx => h x (List.mem_cons_of_mem _ hx)), List.length_cons]
    omega

/-- a key of 4·nk bytes (nk > 0) gives nk + 7 round keys of 16 bytes each. -/
theorem roundKeys_spec (key : Bytes) (nk : Nat) (hnk : 0 < nk) (hk : key.length = 4 * nk) :
    (roundKeys key).length = nk + 7 ∧ ∀ rk ∈ roundKeys key, rk.length = 16 := by
  have hdiv : key.length / 4 = nk := by omega
  unfold roundKeys
  simp only [hdiv]
  have hw0ne : ((List.range nk).map fun i => (key.drop (4 * i)).take 4) ≠ [] := by
    intro h
    have := congrArg List.length h
    simp at this; omega
  have hw0 : ∀ w ∈ (List.range nk).map fun i => (key.drop (4 * i)).take 4, w.length = 4 := by
    intro w hw
    obtain ⟨i, hi, rfl⟩ := List.mem_map.mp hw
    have := List.mem_range.mp hi
    simp only [List.length_take, List.length_drop]; omega
  obtain ⟨hlen, hall⟩ := expandWords_spec nk hnk (4 * (nk + 6 + 1) - nk) _ hw0ne hw0
  refine ⟨by simp, ?_⟩
  intro rk hrk
  obtain ⟨r, hr, rfl⟩ := List.mem_map.mp hrk
  have hr' := List.mem_range.mp hr
  rw [flatten_length4 _ (fun w hw => hall w (List.mem_of_mem_drop (List.mem_of_mem_take hw)))]
  simp only [List.length_take, List.length_drop, hlen, List.length_map, List.length_range]
  omega

theorem roundKeys_ok (key : Bytes) (hk : key.length = 16 ∨ key.length = 32) :
    2 ≤ (roundKeys key).length ∧ ∀ rk ∈ roundKeys key, rk.length = 16 := by
  rcases hk with hk | hk
  · have := roundKeys_spec key 4 (by decide) hk
    exact ⟨by omega, this.2⟩
  · have := roundKeys_spec key 8 (by decide) hk
    exact ⟨by omega, this.2⟩

theorem encryptBlock_length (key block : Bytes) (hk : key.length = 16 ∨ key.length = 32) :
    (encryptBlock key block).length = 16 :=
  cipher_length _ (roundKeys_ok key hk).1 (roundKeys_ok key hk).2 block

theorem decryptBlock_encryptBlock (key block : Bytes) (hk : key.length = 16 ∨ key.length = 32)
    (hb : block.length = 16) : decryptBlock key (encryptBlock key block) = block :=
  invCipher_cipher _ (roundKeys_ok key hk).1 (roundKeys_ok key hk).2 block hb

end Lemmas.Aes
