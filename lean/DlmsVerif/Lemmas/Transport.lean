/-
  Helper lemmas for C18: closed facts about the link model over the concrete tables, the
  reactions of the meter, and the two phases of `Model.Transport.send` (drain / collect).
-/
import DlmsVerif.Lemmas.TransportDefs

namespace Lemmas.Transport
open Dlms Model.Transport Spec.Meter Lemmas.TransportDefs
open Model.Link (bump)

/-! ### the link layer over the concrete tables -/

theorem bump_lt (n : Nat) (h : n < 8) : bump n = (n + 1) % 8 := by
  unfold bump; split <;> omega

theorem ss_idle : T.sendStates.contains "IDLE" = true := by decide
theorem ss_nc : T.sendStates.contains "NOT_CONNECTED" = true := by decide
theorem lk_idle_info : Model.Link.lookup T.transitions "IDLE" "InformationFrame" = some "AWAITING_RESPONSE" := by decide
theorem lk_idle_rr : Model.Link.lookup T.transitions "IDLE" "ReceiveReadyFrame" = some "AWAITING_RESPONSE" := by decide
theorem lk_idle_disc : Model.Link.lookup T.transitions "IDLE" "DisconnectFrame" = some "AWAITING_DISCONNECT" := by decide
theorem lk_nc_snrm :
    Model.Link.lookup T.transitions "NOT_CONNECTED" "SetNormalResponseModeFrame" = some "AWAITING_CONNECTION" := by decide
theorem lk_ar_info : Model.Link.lookup T.transitions "AWAITING_RESPONSE" "InformationFrame" = some "IDLE" := by decide
theorem lk_ar_rr : Model.Link.lookup T.transitions "AWAITING_RESPONSE" "ReceiveReadyFrame" = some "IDLE" := by decide
theorem lk_ac_ua :
    Model.Link.lookup T.transitions "AWAITING_CONNECTION" "UnNumberedAcknowledgmentFrame" = some "IDLE" := by decide
theorem lk_ad_ua :
    Model.Link.lookup T.transitions "AWAITING_DISCONNECT" "UnNumberedAcknowledgmentFrame" = some "NOT_CONNECTED" := by decide
theorem pm_ar : (T.parseMethods.find? fun r => r.1 == "AWAITING_RESPONSE").map (·.2) = some "read_response_frame" := by
  decide
theorem pm_ac : (T.parseMethods.find? fun r => r.1 == "AWAITING_CONNECTION").map (·.2) = some "read_ua_frame" := by
  decide
theorem pm_ad : (T.parseMethods.find? fun r => r.1 == "AWAITING_DISCONNECT").map (·.2) = some "read_ua_frame" := by
  decide

theorem send_info_idle (l : Model.Link.St) (h : l.state = "IDLE") :
    Model.Link.send T l "InformationFrame" l.serverSsn l.serverRsn =
      ({ l with state := "AWAITING_RESPONSE", serverSsn := bump l.serverSsn, clientRsn := bump l.clientRsn },
        .accepted) := by
  unfold Model.Link.send
  rw [h, ss_idle, lk_idle_info]
  simp [Model.Link.iName]

theorem send_rr_idle (l : Model.Link.St) (h : l.state = "IDLE") (s r : Nat) :
    Model.Link.send T l "ReceiveReadyFrame" s r = ({ l with state := "AWAITING_RESPONSE" }, .accepted) := by
  unfold Model.Link.send
  rw [h, ss_idle, lk_idle_rr]
  simp [Model.Link.iName]

theorem send_disc_idle (l : Model.Link.St) (h : l.state = "IDLE") (s r : Nat) :
    Model.Link.send T l "DisconnectFrame" s r = ({ l with state := "AWAITING_DISCONNECT" }, .accepted) := by
  unfold Model.Link.send
  rw [h, ss_idle, lk_idle_disc]
  simp [Model.Link.iName]

theorem send_snrm_nc (l : Model.Link.St) (h : l.state = "NOT_CONNECTED") (s r : Nat) :
    Model.Link.send T l "SetNormalResponseModeFrame" s r = ({ l with state := "AWAITING_CONNECTION" }, .accepted) := by
  unfold Model.Link.send
  rw [h, ss_nc, lk_nc_snrm]
  simp [Model.Link.iName]

theorem recv_info_ar (l : Model.Link.St) (h : l.state = "AWAITING_RESPONSE") :
    Model.Link.recv T l "InformationFrame" l.clientSsn l.clientRsn =
      ({ l with state := "IDLE", serverRsn := bump l.serverRsn, clientSsn := bump l.clientSsn }, .accepted) := by
  unfold Model.Link.recv
  rw [h, pm_ar, lk_ar_info]
  simp [Model.Link.iName]

theorem recv_rr_ar (l : Model.Link.St) (h : l.state = "AWAITING_RESPONSE") (s r : Nat) :
    Model.Link.recv T l "ReceiveReadyFrame" s r = ({ l with state := "IDLE" }, .accepted) := by
  unfold Model.Link.recv
  rw [h, pm_ar, lk_ar_rr]
  simp [Model.Link.iName, Model.Link.rrName]

theorem recv_ua_ac (l : Model.Link.St) (h : l.state = "AWAITING_CONNECTION") (s r : Nat) :
    Model.Link.recv T l "UnNumberedAcknowledgmentFrame" s r = ({ l with state := "IDLE" }, .accepted) := by
  unfold Model.Link.recv
  rw [h, pm_ac, lk_ac_ua]
  simp [Model.Link.uaName]

theorem recv_ua_ad (l : Model.Link.St) (h : l.state = "AWAITING_DISCONNECT") (s r : Nat) :
    Model.Link.recv T l "UnNumberedAcknowledgmentFrame" s r = ({ l with state := "NOT_CONNECTED" }, .accepted) := by
  unfold Model.Link.recv
  rw [h, pm_ad, lk_ad_ua]
  simp [Model.Link.uaName]

/-! ### the meter -/

theorem react_info_seg (m : Meter) (data : Bytes) (hp : m.pending = []) (hd : data ≠ [])
    (hl : data.length ≤ m.maxInfo) :
    react m (.info m.vr m.vs true true data) =
      ({ m with vr := (m.vr + 1) % 8, reqBuf := m.reqBuf ++ data }, [.rr ((m.vr + 1) % 8)]) := by
  have : ¬ (m.maxInfo < data.length) := by omega
  simp [react, hp, hd, this]

theorem react_info_last (m : Meter) (data p : Bytes) (ps : List Bytes) (rest : List (List Bytes))
    (hp : m.pending = []) (hd : data ≠ []) (hl : data.length ≤ m.maxInfo) (hs : m.script = (p :: ps) :: rest) :
    react m (.info m.vr m.vs false true data) =
      ({ m with vr := (m.vr + 1) % 8, reqBuf := [], requests := m.requests ++ [m.reqBuf ++ data],
                pending := ps, script := rest, vs := (m.vs + 1) % 8 },
        [.info m.vs ((m.vr + 1) % 8) (!ps.isEmpty) true p]) := by
  have : ¬ (m.maxInfo < data.length) := by omega
  simp [react, hp, hd, this, hs, sendSegment]

theorem react_rr (m : Meter) (q : Bytes) (qs : List Bytes) (hp : m.pending = q :: qs) :
    react m (.rr m.vs) =
      ({ m with pending := qs, vs := (m.vs + 1) % 8 }, [.info m.vs m.vr (!qs.isEmpty) true q]) := by
  simp [react, hp, sendSegment]

/-! ### phase 1: the request goes out -/

theorem take_ne_nil (maxData : Nat) (hm : 0 < maxData) (out : Bytes) (hout : out ≠ []) : out.take maxData ≠ [] := by
  cases out with
  | nil => exact absurd rfl hout
  | cons a t =>
    cases maxData with
    | zero => omega
    | succ n => simp

theorem take_len_le (maxData : Nat) (out : Bytes) : (out.take maxData).length ≤ maxData := by
  rw [List.length_take]; omega

theorem drain_seg (maxData fuel : Nat) (w : W Meter) (out : Bytes) (hm : 0 < maxData)
    (hst : w.link.state = "IDLE") (hl : w.line = []) (hp : w.meter.pending = [])
    (h1 : w.link.serverSsn = w.meter.vr) (h2 : w.link.serverRsn = w.meter.vs)
    (hmi : maxData ≤ w.meter.maxInfo) (hout : out ≠ []) (hseg : out.drop maxData ≠ []) :
    drain T react maxData (fuel + 1) w out =
      drain T react maxData fuel
        { link := { w.link with serverSsn := bump w.link.serverSsn, clientRsn := bump w.link.clientRsn },
          meter := { w.meter with vr := (w.meter.vr + 1) % 8, reqBuf := w.meter.reqBuf ++ out.take maxData },
          line := [],
          written := w.written ++ [.info w.meter.vr w.meter.vs true true (out.take maxData)] }
        (out.drop maxData) := by
  obtain ⟨⟨st, cs, cr, ss, sr⟩, m, line, written⟩ := w
  simp only at hst hl hp h1 h2 hmi
  subst hst hl h1 h2
  have hd := take_ne_nil maxData hm out hout
  have hle : (out.take maxData).length ≤ m.maxInfo := Nat.le_trans (take_len_le maxData out) hmi
  have hs := send_info_idle { state := "IDLE", clientSsn := cs, clientRsn := cr, serverSsn := m.vr, serverRsn := m.vs } rfl
  simp only at hs
  have hb : (!(out.drop maxData).isEmpty) = true := by simp [hseg]
  have hoe : out.isEmpty = false := by simp [hout]
  rw [drain]
  simp only [hs, write, hb, hoe, react_info_seg m _ hp hd hle, nextEvent, List.nil_append, LFrame.cls, LFrame.ssn,
    LFrame.rsn]
  rw [recv_rr_ar _ rfl]
  simp

theorem drain_last (maxData fuel : Nat) (w : W Meter) (out p : Bytes) (ps : List Bytes) (rest : List (List Bytes))
    (hm : 0 < maxData)
    (hst : w.link.state = "IDLE") (hl : w.line = []) (hp : w.meter.pending = [])
    (h1 : w.link.serverSsn = w.meter.vr) (h2 : w.link.serverRsn = w.meter.vs)
    (hmi : maxData ≤ w.meter.maxInfo) (hs : w.meter.script = (p :: ps) :: rest)
    (hout : out ≠ []) (hseg : out.drop maxData = []) :
    drain T react maxData (fuel + 1) w out =
      (.ok (),
        { link := { w.link with state := "AWAITING_RESPONSE", serverSsn := bump w.link.serverSsn,
                                clientRsn := bump w.link.clientRsn },
          meter := { w.meter with vr := (w.meter.vr + 1) % 8, reqBuf := [],
                                  requests := w.meter.requests ++ [w.meter.reqBuf ++ out],
                                  pending := ps, script := rest, vs := (w.meter.vs + 1) % 8 },
          line := [.info w.meter.vs ((w.meter.vr + 1) % 8) (!ps.isEmpty) true p],
          written := w.written ++ [.info w.meter.vr w.meter.vs false true out] }) := by
  obtain ⟨⟨st, cs, cr, ss, sr⟩, m, line, written⟩ := w
  simp only at hst hl hp h1 h2 hmi hs
  subst hst hl h1 h2
  have hd := take_ne_nil maxData hm out hout
  have hle : (out.take maxData).length ≤ m.maxInfo := Nat.le_trans (take_len_le maxData out) hmi
  have hsd := send_info_idle { state := "IDLE", clientSsn := cs, clientRsn := cr, serverSsn := m.vr, serverRsn := m.vs } rfl
  simp only at hsd
  have ht : out.take maxData = out := by
    have := List.take_append_drop maxData out
    rw [hseg, List.append_nil] at this
    exact this
  have hoe : out.isEmpty = false := by simp [hout]
  rw [ht] at hd hle
  rw [drain]
  simp only [hsd, write, hseg, ht, hoe, List.isEmpty_nil, Bool.not_true, react_info_last m out p ps rest hp hd hle hs]
  simp

theorem drop_len_lt (maxData : Nat) (hm : 0 < maxData) (out : Bytes) (hout : out ≠ []) :
    (out.drop maxData).length < out.length := by
  have : 0 < out.length := List.length_pos_iff.mpr hout
  rw [List.length_drop]; omega

/-- phase 1: the whole request goes out as the prescribed frames, the meter reassembles it
    and puts the first frame of its answer on the line. -/
theorem drain_ok (maxData : Nat) (hm : 0 < maxData) (p : Bytes) (ps : List Bytes) (rest : List (List Bytes)) :
    ∀ (fuel : Nat) (w : W Meter) (out : Bytes),
      w.link.state = "IDLE" → w.line = [] → w.meter.pending = [] → w.meter.vr < 8 →
      w.link.serverSsn = w.meter.vr → w.link.clientRsn = w.meter.vr → w.link.serverRsn = w.meter.vs →
      maxData ≤ w.meter.maxInfo → w.meter.script = (p :: ps) :: rest → out ≠ [] → out.length ≤ fuel →
      drain T react maxData fuel w out =
        (.ok (),
          { link := { w.link with
                        state := "AWAITING_RESPONSE",
                        serverSsn := (w.meter.vr + (requestFrames maxData fuel w.meter.vr w.meter.vs out).length) % 8,
                        clientRsn := (w.meter.vr + (requestFrames maxData fuel w.meter.vr w.meter.vs out).length) % 8 },
            meter := { w.meter with
                        vr := (w.meter.vr + (requestFrames maxData fuel w.meter.vr w.meter.vs out).length) % 8,
                        reqBuf := [],
                        requests := w.meter.requests ++ [w.meter.reqBuf ++ out],
                        pending := ps, script := rest, vs := (w.meter.vs + 1) % 8 },
            line := [.info w.meter.vs
                      ((w.meter.vr + (requestFrames maxData fuel w.meter.vr w.meter.vs out).length) % 8)
                      (!ps.isEmpty) true p],
            written := w.written ++ requestFrames maxData fuel w.meter.vr w.meter.vs out }) := by
  intro fuel
  induction fuel with
  | zero =>
    intro w out _ _ _ _ _ _ _ _ _ hout hf
    have : 0 < out.length := List.length_pos_iff.mpr hout
    omega
  | succ fuel ih =>
    intro w out hst hl hp hvr h1 h1' h2 hmi hs hout hf
    have hoe : out.isEmpty = false := by simp [hout]
    by_cases hseg : out.drop maxData = []
    · rw [drain_last maxData fuel w out p ps rest hm hst hl hp h1 h2 hmi hs hout hseg]
      have ht : out.take maxData = out := by
        have := List.take_append_drop maxData out
        rw [hseg, List.append_nil] at this
        exact this
      have hrf : requestFrames maxData (fuel + 1) w.meter.vr w.meter.vs out
          = [.info w.meter.vr w.meter.vs false true out] := by
        rw [requestFrames]
        simp only [hoe, hseg, ht]
        cases fuel <;> simp [requestFrames]
      rw [hrf, h1, h1', bump_lt _ hvr]
      simp
    · have hlt := drop_len_lt maxData hm out hout
      rw [drain_seg maxData fuel w out hm hst hl hp h1 h2 hmi hout hseg]
      rw [ih
        { link := { w.link with serverSsn := bump w.link.serverSsn, clientRsn := bump w.link.clientRsn },
          meter := { w.meter with vr := (w.meter.vr + 1) % 8, reqBuf := w.meter.reqBuf ++ out.take maxData },
          line := [],
          written := w.written ++ [.info w.meter.vr w.meter.vs true true (out.take maxData)] }
        (out.drop maxData) hst rfl hp (Nat.mod_lt _ (by omega))
        (by show bump w.link.serverSsn = _; rw [h1, bump_lt _ hvr])
        (by show bump w.link.clientRsn = _; rw [h1', bump_lt _ hvr]) h2 hmi hs hseg (by omega)]
      have hb : (!(out.drop maxData).isEmpty) = true := by simp [hseg]
      have hrf : requestFrames maxData (fuel + 1) w.meter.vr w.meter.vs out
          = .info w.meter.vr w.meter.vs true true (out.take maxData) ::
              requestFrames maxData fuel ((w.meter.vr + 1) % 8) w.meter.vs (out.drop maxData) := by
        rw [requestFrames]
        simp only [hoe, hb]
        simp
      rw [hrf]
      simp only [List.length_cons, List.append_assoc, List.take_append_drop, List.cons_append, List.nil_append]
      have e : ∀ k, ((w.meter.vr + 1) % 8 + k) % 8 = (w.meter.vr + (k + 1)) % 8 := by intro k; omega
      simp only [e]

/-! ### phase 2: the answer comes in -/

theorem collect_more (fuel : Nat) (w : W Meter) (acc p q : Bytes) (qs : List Bytes) (a b : Nat) (ha : a < 8)
    (hst : w.link.state = "AWAITING_RESPONSE") (h1 : w.link.clientSsn = a) (h2 : w.link.clientRsn = b)
    (h3 : w.link.serverRsn = a) (h4 : w.meter.vs = (a + 1) % 8) (h5 : w.meter.vr = b)
    (hp : w.meter.pending = q :: qs) (hl : w.line = [.info a b true true p]) :
    collect T react (fuel + 1) w acc =
      collect T react fuel
        { link := { w.link with serverRsn := (a + 1) % 8, clientSsn := (a + 1) % 8 },
          meter := { w.meter with pending := qs, vs := ((a + 1) % 8 + 1) % 8 },
          line := [.info ((a + 1) % 8) b (!qs.isEmpty) true q],
          written := w.written ++ [.rr ((a + 1) % 8)] }
        (acc ++ p) := by
  obtain ⟨⟨st, cs, cr, ss, sr⟩, m, line, written⟩ := w
  simp only at hst hl hp h1 h2 h3 h4 h5
  subst hst hl
  subst a b sr cr
  have hr := recv_info_ar { state := "AWAITING_RESPONSE", clientSsn := cs, clientRsn := m.vr, serverSsn := ss, serverRsn := cs } rfl
  simp only [bump_lt _ ha] at hr
  have hrr := react_rr m q qs hp
  rw [h4] at hrr
  rw [collect]
  simp only [nextEvent, LFrame.cls, LFrame.ssn, LFrame.rsn, hr, LFrame.segmented, LFrame.final, Bool.and_self,
    if_true, LFrame.payload]
  rw [send_rr_idle _ rfl]
  simp only [write, hrr, List.nil_append]

theorem collect_last (fuel : Nat) (w : W Meter) (acc p : Bytes) (a b : Nat) (ha : a < 8)
    (hst : w.link.state = "AWAITING_RESPONSE") (h1 : w.link.clientSsn = a) (h2 : w.link.clientRsn = b)
    (h3 : w.link.serverRsn = a) (hl : w.line = [.info a b false true p])
    (hacc : (acc ++ p).take 3 = llcResp) :
    collect T react (fuel + 1) w acc =
      (.ok ((acc ++ p).drop 3),
        { w with link := { w.link with state := "IDLE", serverRsn := (a + 1) % 8, clientSsn := (a + 1) % 8 },
                 line := [] }) := by
  obtain ⟨⟨st, cs, cr, ss, sr⟩, m, line, written⟩ := w
  simp only at hst hl h1 h2 h3
  subst hst hl
  subst a b sr
  have hr := recv_info_ar { state := "AWAITING_RESPONSE", clientSsn := cs, clientRsn := cr, serverSsn := ss, serverRsn := cs } rfl
  simp only [bump_lt _ ha] at hr
  rw [collect]
  simp only [nextEvent, LFrame.cls, LFrame.ssn, LFrame.rsn, hr, LFrame.segmented, LFrame.final, LFrame.payload, hacc]
  simp

/-- phase 2: every frame of the answer but the last is acknowledged with the right number and
    the information fields are put together. -/
theorem collect_ok : ∀ (ps : List Bytes) (p : Bytes) (fuel : Nat) (w : W Meter) (acc : Bytes) (a b : Nat),
    ps.length < fuel → a < 8 → w.link.state = "AWAITING_RESPONSE" → w.link.clientSsn = a → w.link.clientRsn = b →
    w.link.serverRsn = a → w.meter.vs = (a + 1) % 8 → w.meter.vr = b → w.meter.pending = ps →
    w.line = [.info a b (!ps.isEmpty) true p] → (acc ++ (p :: ps).flatten).take 3 = llcResp →
    collect T react fuel w acc =
      (.ok ((acc ++ (p :: ps).flatten).drop 3),
        { link := { w.link with state := "IDLE", serverRsn := (a + (ps.length + 1)) % 8,
                                clientSsn := (a + (ps.length + 1)) % 8 },
          meter := { w.meter with pending := [], vs := (a + (ps.length + 1)) % 8 },
          line := [],
          written := w.written ++ ackFrames ps.length a }) := by
  intro ps
  induction ps with
  | nil =>
    intro p fuel w acc a b hf ha hst h1 h2 h3 h4 h5 hp hl hacc
    obtain ⟨fuel, rfl⟩ : ∃ n, fuel = n + 1 := ⟨fuel - 1, by simp at hf; omega⟩
    simp only [List.flatten_cons, List.flatten_nil, List.append_nil] at hacc ⊢
    rw [collect_last fuel w acc p a b ha hst h1 h2 h3 (by simpa using hl) hacc]
    obtain ⟨l, ⟨vs, vr, rb, rq, pd, sc, mi, vi⟩, line, written⟩ := w
    simp only at h4 hp
    subst vs pd
    simp [ackFrames]
  | cons q qs ih =>
    intro p fuel w acc a b hf ha hst h1 h2 h3 h4 h5 hp hl hacc
    obtain ⟨fuel, rfl⟩ : ∃ n, fuel = n + 1 := ⟨fuel - 1, by simp at hf; omega⟩
    rw [collect_more fuel w acc p q qs a b ha hst h1 h2 h3 h4 h5 hp (by simpa using hl)]
    rw [ih q fuel
      { link := { w.link with serverRsn := (a + 1) % 8, clientSsn := (a + 1) % 8 },
        meter := { w.meter with pending := qs, vs := ((a + 1) % 8 + 1) % 8 },
        line := [.info ((a + 1) % 8) b (!qs.isEmpty) true q],
        written := w.written ++ [.rr ((a + 1) % 8)] }
      (acc ++ p) ((a + 1) % 8) b (by simp at hf; omega) (Nat.mod_lt _ (by omega)) hst rfl h2 rfl rfl h5 rfl rfl
      (by simpa [List.append_assoc] using hacc)]
    have e : ∀ k, ((a + 1) % 8 + (k + 1)) % 8 = (a + (k + 1 + 1)) % 8 := by intro k; omega
    simp [ackFrames, e, List.append_assoc]

/-! ### one `send()` -/

theorem send_ok (maxData fuel : Nat) (hm : 0 < maxData) (w : W Meter) (apdu p : Bytes) (ps : List Bytes)
    (rest : List (List Bytes))
    (hst : w.link.state = "IDLE") (hl : w.line = []) (hp : w.meter.pending = [])
    (hvs : w.meter.vs < 8) (hvr : w.meter.vr < 8)
    (h1 : w.link.serverSsn = w.meter.vr) (h1' : w.link.clientRsn = w.meter.vr)
    (h2 : w.link.serverRsn = w.meter.vs) (h2' : w.link.clientSsn = w.meter.vs)
    (hmi : maxData ≤ w.meter.maxInfo) (hs : w.meter.script = (p :: ps) :: rest)
    (hf1 : (llcCmd ++ apdu).length ≤ fuel) (hf2 : ps.length < fuel)
    (hacc : ((p :: ps).flatten).take 3 = llcResp) :
    send T react maxData fuel w apdu =
      (.ok (((p :: ps).flatten).drop 3),
        { link := { state := "IDLE",
                    serverSsn := (w.meter.vr + (requestFrames maxData fuel w.meter.vr w.meter.vs (llcCmd ++ apdu)).length) % 8,
                    clientRsn := (w.meter.vr + (requestFrames maxData fuel w.meter.vr w.meter.vs (llcCmd ++ apdu)).length) % 8,
                    serverRsn := (w.meter.vs + (ps.length + 1)) % 8,
                    clientSsn := (w.meter.vs + (ps.length + 1)) % 8 },
          meter := { w.meter with
                      vr := (w.meter.vr + (requestFrames maxData fuel w.meter.vr w.meter.vs (llcCmd ++ apdu)).length) % 8,
                      reqBuf := [],
                      requests := w.meter.requests ++ [w.meter.reqBuf ++ (llcCmd ++ apdu)],
                      pending := [], script := rest, vs := (w.meter.vs + (ps.length + 1)) % 8 },
          line := [],
          written := w.written ++ requestFrames maxData fuel w.meter.vr w.meter.vs (llcCmd ++ apdu) ++
            ackFrames ps.length w.meter.vs }) := by
  have hd := drain_ok maxData hm p ps rest fuel w (llcCmd ++ apdu) hst hl hp hvr h1 h1' h2 hmi hs
    (by simp [llcCmd]) hf1
  rw [Model.Transport.send, hd]
  simp only
  refine (collect_ok ps p fuel _ [] w.meter.vs ?b hf2 hvs ?_ ?_ ?_ ?_ ?_ ?_ ?_ ?_ ?_).trans ?_
  case b => exact (w.meter.vr + (requestFrames maxData fuel w.meter.vr w.meter.vs (llcCmd ++ apdu)).length) % 8
  · rfl
  · exact h2'
  · rfl
  · exact h2
  · rfl
  · rfl
  · rfl
  · rfl
  · simpa using hacc
  · simp [List.append_assoc]

end Lemmas.Transport
