/-
  xDLMS APDUs in A-XDR, written from the Green Book ASN.1 (9.5) and the A-XDR rules:
  one tag byte per APDU, CHOICE numbers as one byte, Invoke-Id-And-Priority as one byte,
  Cosem-Attribute/Method-Descriptor as class-id(2) ‖ instance-id(6) ‖ index(1),
  OPTIONAL = presence byte, DEFAULT = "explicit value follows" byte, Unsigned32 block
  numbers / invocation counters big-endian, OCTET STRING with a variable-length prefix,
  the conformance block in BER (5F 1F 04 00 b b b) inside the initiate APDUs.
  One constructor per APDU kind the library represents.
-/
import DlmsVerif.Spec.Fields
import DlmsVerif.Spec.Axdr
import DlmsVerif.Spec.DateTime

namespace Spec.Xdlms
open Dlms Spec.Axdr

structure Invoke where
  id : Nat := 0
  confirmed : Bool := true
  high : Bool := true
  deriving DecidableEq, Repr

/-- class id, OBIS (six numbers) and attribute / method index. -/
structure Descriptor where
  classId : Nat
  obis : List Nat
  index : Nat
  deriving DecidableEq, Repr

structure LongInvoke where
  id : Nat
  prioritized : Bool := false
  confirmed : Bool := false
  breakOnError : Bool := false
  selfDescriptive : Bool := false
  deriving DecidableEq, Repr

inductive Apdu where
  | getRequestNormal (inv : Invoke) (d : Descriptor) (sel : Option Bytes)
  | getRequestNext (inv : Invoke) (block : Nat)
  | getResponseNormal (inv : Invoke) (data : Bytes)
  | getResponseNormalWithError (inv : Invoke) (err : Nat)
  | getResponseWithBlock (inv : Invoke) (block : Nat) (data : Bytes)
  | getResponseLastBlock (inv : Invoke) (block : Nat) (data : Bytes)
  | getResponseLastBlockWithError (inv : Invoke) (block : Nat) (err : Nat)
  | setRequestNormal (inv : Invoke) (d : Descriptor) (data : Bytes)
  | setResponseNormal (inv : Invoke) (result : Nat)
  | actionRequestNormal (inv : Invoke) (d : Descriptor) (data : Bytes)      -- "no data" = empty
  | actionResponseNormal (inv : Invoke) (status : Nat)
  | actionResponseNormalWithData (inv : Invoke) (status : Nat) (data : Bytes)
  | actionResponseNormalWithError (inv : Invoke) (status : Nat) (err : Nat)
  | dataNotification (inv : LongInvoke) (dt : Option Spec.DateTime.DT) (body : Bytes)
  | exceptionResponse (state : Nat) (service : Nat) (counter : Nat)          -- counter only with service = 6
  | confirmedServiceError (errType : Nat) (errVal : Nat)
  | initiateRequest (dedicatedKey : Bytes) (responseAllowed : Bool) (qos : Nat) (version : Nat)
      (conformance : List Bool) (maxPdu : Nat)                                -- empty key = absent, qos 0 = absent
  | initiateResponse (qos : Nat) (version : Nat) (conformance : List Bool) (maxPdu : Nat)
  | gloInitiateRequest (sc : Nat) (ic : Nat) (ct : Bytes)
  | gloInitiateResponse (sc : Nat) (ic : Nat) (ct : Bytes)
  | generalGlo (title : Bytes) (sc : Nat) (ic : Nat) (ct : Bytes)
  deriving Repr, DecidableEq

def invokeByte (i : Invoke) : UInt8 := UInt8.ofNat (Spec.Fields.invokeByte i.id i.confirmed i.high)

def descBytes (d : Descriptor) : Bytes := beBytes 2 d.classId ++ d.obis.map UInt8.ofNat ++ [UInt8.ofNat d.index]

def conformanceBlock (flags : List Bool) : Bytes :=
  [0x5F, 0x1F, 0x04, 0x00] ++ beBytes 3 (Spec.Fields.confEncode Spec.Fields.conformancePositions flags)

def longInvokeBytes (l : LongInvoke) : Bytes :=
  beBytes 4 (Spec.Fields.longInvokeWord l.id l.prioritized l.confirmed l.breakOnError l.selfDescriptive)

/-- octet string with its variable-length prefix. -/
def octets (bs : Bytes) : Bytes := lenPrefix bs.length ++ bs

def encode : Apdu → Bytes
  | .getRequestNormal inv d sel =>
      [192, 1, invokeByte inv] ++ descBytes d ++ (match sel with | none => [0] | some s => 1 :: s)
  | .getRequestNext inv block => [192, 2, invokeByte inv] ++ beBytes 4 block
  | .getResponseNormal inv data => [196, 1, invokeByte inv, 0] ++ data
  | .getResponseNormalWithError inv err => [196, 1, invokeByte inv, 1, UInt8.ofNat err]
  | .getResponseWithBlock inv block data => [196, 2, invokeByte inv, 0] ++ beBytes 4 block ++ [0] ++ octets data
  | .getResponseLastBlock inv block data => [196, 2, invokeByte inv, 1] ++ beBytes 4 block ++ [0] ++ octets data
  | .getResponseLastBlockWithError inv block err =>
      [196, 2, invokeByte inv, 1] ++ beBytes 4 block ++ [1, UInt8.ofNat err]
  | .setRequestNormal inv d data => [193, 1, invokeByte inv] ++ descBytes d ++ [0] ++ data
  | .setResponseNormal inv result => [197, 1, invokeByte inv, UInt8.ofNat result]
  | .actionRequestNormal inv d data =>
      [195, 1, invokeByte inv] ++ descBytes d ++ (if data.isEmpty then [0] else 1 :: data)
  | .actionResponseNormal inv status => [199, 1, invokeByte inv, UInt8.ofNat status, 0]
  | .actionResponseNormalWithData inv status data => [199, 1, invokeByte inv, UInt8.ofNat status, 1, 0] ++ data
  | .actionResponseNormalWithError inv status err =>
      [199, 1, invokeByte inv, UInt8.ofNat status, 1, 1, UInt8.ofNat err]
  | .dataNotification inv dt body =>
      [15] ++ longInvokeBytes inv ++
        (match dt with | none => [0] | some d => 12 :: Spec.DateTime.encode d 0) ++ body
  | .exceptionResponse state service counter =>
      [216, UInt8.ofNat state, UInt8.ofNat service] ++ (if service = 6 then beBytes 4 counter else [])
  | .confirmedServiceError errType errVal => [14, 1, UInt8.ofNat errType, UInt8.ofNat errVal]
  | .initiateRequest key ra qos version conf maxPdu =>
      [1] ++ (if key.isEmpty then [0] else 1 :: octets key) ++
        (if ra then [0] else [1, 0]) ++ (if qos = 0 then [0] else [1, UInt8.ofNat qos]) ++
        [UInt8.ofNat version] ++ conformanceBlock conf ++ beBytes 2 maxPdu
  | .initiateResponse qos version conf maxPdu =>
      [8] ++ (if qos = 0 then [0] else [1, UInt8.ofNat qos]) ++ [UInt8.ofNat version] ++
        conformanceBlock conf ++ beBytes 2 maxPdu ++ [0x00, 0x07]
  | .gloInitiateRequest sc ic ct => [33] ++ octets ([UInt8.ofNat sc] ++ beBytes 4 ic ++ ct)
  | .gloInitiateResponse sc ic ct => [40] ++ octets ([UInt8.ofNat sc] ++ beBytes 4 ic ++ ct)
  | .generalGlo title sc ic ct => [219] ++ octets title ++ octets ([UInt8.ofNat sc] ++ beBytes 4 ic ++ ct)

/-- enumerations of the standard that occur in APDU fields. -/
def dataAccessResults : List Nat := [0, 1, 2, 3, 4, 9, 11, 12, 13, 14, 15, 16, 17, 18, 19, 250]
def actionResults : List Nat := [0, 1, 2, 3, 4, 9, 11, 12, 13, 14, 15, 16, 250]
def stateErrors : List Nat := [1, 2]
def serviceErrors : List Nat := [1, 2, 3, 4, 5, 6]
/-- members of the ServiceError CHOICE alternatives (confirmed-service-error), by alternative. -/
def serviceErrorMembers : List (Nat × List Nat) :=
  [(0, [0, 1, 2, 3, 4, 5, 6]), (1, [0, 1, 2, 3, 4]), (2, [0, 1, 2, 3, 4]), (3, [0, 1, 2]), (4, [0, 1, 2, 3]),
   (5, [0, 1, 2, 3, 4]), (6, [0, 1, 2, 3, 4]), (7, [0, 1, 2, 3, 4, 5, 6, 7]), (8, [0]), (9, [0, 1, 2, 3, 4]), (10, [0])]

def Invoke.wf (i : Invoke) : Bool := i.id < 16
def Descriptor.wf (classIds : List Nat) (d : Descriptor) : Bool :=
  classIds.contains d.classId && d.obis.length == 6 && d.obis.all (· < 256) && d.index < 256
def LongInvoke.wf (l : LongInvoke) : Bool := l.id < 2 ^ 24

def validScByte (sc : Nat) : Bool := sc < 256 && sc % 16 ≤ 2

/-- every field is in the range the quantifier names (`classIds` = the interface classes the
    library knows). -/
def wf (classIds : List Nat) : Apdu → Bool
  | .getRequestNormal inv d sel => inv.wf && d.wf classIds && (match sel with | none => true | some s => !s.isEmpty)
  | .getRequestNext inv block => inv.wf && block < 2 ^ 32
  | .getResponseNormal inv _ => inv.wf
  | .getResponseNormalWithError inv err => inv.wf && dataAccessResults.contains err
  | .getResponseWithBlock inv block data => inv.wf && block < 2 ^ 32 && byteLen data.length ≤ 127
  | .getResponseLastBlock inv block data => inv.wf && block < 2 ^ 32 && byteLen data.length ≤ 127
  | .getResponseLastBlockWithError inv block err => inv.wf && block < 2 ^ 32 && dataAccessResults.contains err
  | .setRequestNormal inv d _ => inv.wf && d.wf classIds
  | .setResponseNormal inv result => inv.wf && dataAccessResults.contains result
  | .actionRequestNormal inv d _ => inv.wf && d.wf classIds
  | .actionResponseNormal inv status => inv.wf && actionResults.contains status
  | .actionResponseNormalWithData inv status _ => inv.wf && actionResults.contains status
  | .actionResponseNormalWithError inv status err =>
      inv.wf && actionResults.contains status && dataAccessResults.contains err
  | .dataNotification inv dt _ =>
      inv.wf && (match dt with
        | none => true
        | some d => Spec.DateTime.valid d && d.micro % 10000 == 0)
  | .exceptionResponse state service counter =>
      stateErrors.contains state && serviceErrors.contains service &&
        (if service = 6 then counter < 2 ^ 32 else counter == 0)
  | .confirmedServiceError errType errVal =>
      (serviceErrorMembers.find? (·.1 == errType)).any (·.2.contains errVal)
  | .initiateRequest key _ qos version conf maxPdu =>
      byteLen key.length ≤ 127 && qos < 256 && version < 256 && conf.length == 17 && maxPdu < 65536
  | .initiateResponse qos version conf maxPdu => qos < 256 && version < 256 && conf.length == 17 && maxPdu < 65536
  | .gloInitiateRequest sc ic ct => validScByte sc && ic < 2 ^ 32 && byteLen (5 + ct.length) ≤ 127
  | .gloInitiateResponse sc ic ct => validScByte sc && ic < 2 ^ 32 && byteLen (5 + ct.length) ≤ 127
  | .generalGlo title sc ic ct =>
      byteLen title.length ≤ 127 && validScByte sc && ic < 2 ^ 32 && byteLen (5 + ct.length) ≤ 127

end Spec.Xdlms
