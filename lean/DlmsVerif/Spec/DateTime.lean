/-
  COSEM date-time (Blue Book 4.1.6.1): 12 bytes
    year(2) month day weekday hour minute second hundredths deviation(2, signed) status
  deviation = minutes from local time to UTC = minus the UTC offset; 0x8000 = not specified;
  0xFF in weekday/hour/minute/second/hundredths = not specified.
-/
import DlmsVerif.Basic

namespace Spec.DateTime
open Dlms

/-- a calendar date-time with an optional UTC offset in minutes (what a Python
    `datetime.datetime` with a whole-minute `tzinfo` denotes). -/
structure DT where
  year : Nat
  month : Nat
  day : Nat
  hour : Nat
  minute : Nat
  second : Nat
  micro : Nat
  offset : Option Int := none
  deriving DecidableEq, Repr

def isLeap (y : Nat) : Bool := y % 4 == 0 && (y % 100 != 0 || y % 400 == 0)

def daysIn (y m : Nat) : Nat :=
  if m == 2 then (if isLeap y then 29 else 28)
  else if m == 4 || m == 6 || m == 9 || m == 11 then 30 else 31

/-- a value a `datetime` object can hold, with an offset the DLMS field can carry. -/
def valid (d : DT) : Bool :=
  1 ≤ d.year && d.year ≤ 9999 && 1 ≤ d.month && d.month ≤ 12 && 1 ≤ d.day && d.day ≤ daysIn d.year d.month &&
  d.hour ≤ 23 && d.minute ≤ 59 && d.second ≤ 59 && d.micro ≤ 999999 &&
  (match d.offset with
   | none => true
   | some o => -840 ≤ o && o ≤ 840)

/-- 16-bit two's complement. -/
def twos16 (v : Int) : Nat := (v % 65536).toNat

def deviationBytes : Option Int → Bytes
  | none => [0x80, 0x00]
  | some o => beBytes 2 (twos16 (-o))

/-- the 12-byte layout (weekday not specified). -/
def encode (d : DT) (status : Nat) : Bytes :=
  beBytes 2 d.year ++ [UInt8.ofNat d.month, UInt8.ofNat d.day, 0xFF, UInt8.ofNat d.hour, UInt8.ofNat d.minute,
    UInt8.ofNat d.second, UInt8.ofNat (d.micro / 10000)] ++ deviationBytes d.offset ++ [UInt8.ofNat status]

/-- truncation to hundredths of a second. -/
def trunc (d : DT) : DT := { d with micro := d.micro / 10000 * 10000 }

end Spec.DateTime
