/-
  HDLC extended addressing (IEC 62056-46 §6.4.2): every address byte carries 7 address
  bits in bits 7..1; bit 0 is 1 on the last byte of the address and 0 elsewhere.
  Client: one byte.  Server: upper (logical) address alone in one byte, or upper and
  lower (physical) address in one byte each, or in two bytes each.
-/
import DlmsVerif.Basic

namespace Spec.Addr

inductive Address where
  | client (a : Nat)
  | server (logical : Nat) (physical : Option Nat)
  deriving DecidableEq, Repr

/-- the addresses that have a standard form. -/
def valid : Address → Bool
  | .client a => a < 128
  | .server l none => l < 128
  | .server l (some p) => l < 16384 && p < 16384

def encode : Address → List Nat
  | .client a => [2 * a + 1]
  | .server l none => [2 * l + 1]
  | .server l (some p) =>
    if l < 128 ∧ p < 128 then [2 * l, 2 * p + 1]
    else [2 * (l / 128), 2 * (l % 128), 2 * (p / 128), 2 * (p % 128) + 1]

/-- length 1, 2 or 4; every byte below 256; low bit set on the last byte only. -/
def formOk (bs : List Nat) : Bool :=
  (bs.length == 1 || bs.length == 2 || bs.length == 4) &&
  bs.all (· < 256) &&
  (bs.dropLast.all (· % 2 == 0)) && (bs.getLast?.map (· % 2 == 1)).getD false

end Spec.Addr
