/-
  CRC-16/X-25 (ISO/IEC 13239 frame check sequence), written from the standard:
  reflected algorithm, polynomial x^16+x^12+x^5+1 (0x1021, reflected 0x8408),
  initial value 0xFFFF, final complement, transmitted low byte first.
  Bit-serial on purpose: this is the definition, not an implementation.
-/
import DlmsVerif.Basic

namespace Spec.Crc

/-- one bit of the reflected (LSB-first) shift register with zero input. -/
def lsbStep (r : BitVec 16) : BitVec 16 :=
  if r.getLsbD 0 then (r >>> 1) ^^^ 0x8408#16 else r >>> 1

def iter {α : Type} (f : α → α) : Nat → α → α
  | 0, a => a
  | n+1, a => iter f n (f a)

/-- feed one byte: XOR into the low byte, then eight register steps. -/
def x25Byte (r : BitVec 16) (b : UInt8) : BitVec 16 :=
  iter lsbStep 8 (r ^^^ b.toBitVec.setWidth 16)

/-- register after the message, before the final complement. -/
def x25reg (m : Bytes) : BitVec 16 := m.foldl x25Byte 0xFFFF#16

/-- CRC-16/X-25 of a message. -/
def x25 (m : Bytes) : BitVec 16 := ~~~ (x25reg m)

def lo (c : BitVec 16) : UInt8 := ⟨c.setWidth 8⟩
def hi (c : BitVec 16) : UInt8 := ⟨(c >>> 8).setWidth 8⟩

/-- the two FCS bytes in transmission order (low byte first). -/
def fcs (m : Bytes) : Bytes := [lo (x25 m), hi (x25 m)]

/-- the residue left in the register after a message followed by its FCS. -/
def residue : BitVec 16 := 0xF0B8#16

end Spec.Crc
