/-
  ACSE APDUs of DLMS/COSEM (Green Book 9.4.2 / ISO 8650-1) in BER:
    AARQ [APPLICATION 0], AARE [APPLICATION 1], RLRQ [APPLICATION 2], RLRE [APPLICATION 3]
  with definite lengths (short form below 128, long form 0x80+k above) at every level.
  Only the components the library gives a meaning to are part of the value; the xDLMS APDU
  inside user-information is an opaque byte string here (C01).
-/
import DlmsVerif.Spec.Axdr

namespace Spec.Acse
open Dlms

/-- BER definite length (same shape as the A-XDR variable-length integer). -/
def berLen (n : Nat) : Bytes := Spec.Axdr.lenPrefix n

def tlv (tag : UInt8) (content : Bytes) : Bytes := tag :: (berLen content.length ++ content)

/-- joint-iso-ccitt(2) country(16) country-name(756) identified-organization(5) DLMS-UA(8) -/
def oidPrefix : Bytes := [0x60, 0x85, 0x74, 0x05, 0x08]

/-- application context name: …(1) context-id; 1 = LN no ciphering, 3 = LN with ciphering. -/
def contextName (ciphered : Bool) : Bytes := tlv 0x06 (oidPrefix ++ [1, if ciphered then 3 else 1])

/-- mechanism name: …(2) mechanism-id (IMPLICIT OBJECT IDENTIFIER: contents only). -/
def mechanismOid (m : Nat) : Bytes := oidPrefix ++ [2, UInt8.ofNat m]

def isAuth : Option Nat → Bool
  | some m => m != 0
  | none => false

def opt {α} (o : Option α) (f : α → Bytes) : Bytes :=
  match o with
  | some x => f x
  | none => []

structure Aarq where
  ciphered : Bool := false
  title : Option Bytes := none
  cert : Option Bytes := none
  mechanism : Option Nat := none
  authValue : Option Bytes := none
  userInfo : Bytes
  deriving DecidableEq, Repr

structure Aare where
  ciphered : Bool := false
  result : Nat
  diagUser : Bool := true          -- acse-service-user [1] / acse-service-provider [2]
  diag : Nat
  title : Option Bytes := none
  cert : Option Bytes := none
  mechanism : Option Nat := none
  authValue : Option Bytes := none
  userInfo : Option Bytes := none
  deriving DecidableEq, Repr

structure Release where          -- RLRQ and RLRE have the same shape
  reason : Option Nat := none
  userInfo : Option Bytes := none
  deriving DecidableEq, Repr

/-- the authentication functional unit: ACSE requirements, mechanism name and (if given)
    the authentication value; `reqTag`/`mechTag`/`valTag` differ between AARQ and AARE. -/
def authPart (reqTag mechTag valTag : UInt8) (mechanism : Option Nat) (authValue : Option Bytes) : Bytes :=
  match mechanism with
  | some m =>
    if m != 0 then
      tlv reqTag [0x07, 0x80] ++ tlv mechTag (mechanismOid m) ++ opt authValue (fun v => tlv valTag (tlv 0x80 v))
    else []
  | none => []

def encodeAarq (a : Aarq) : Bytes :=
  tlv 0x60 (tlv 0xA1 (contextName a.ciphered) ++
    opt a.title (fun t => tlv 0xA6 (tlv 0x04 t)) ++ opt a.cert (fun c => tlv 0xA7 (tlv 0x04 c)) ++
    authPart 0x8A 0x8B 0xAC a.mechanism a.authValue ++
    tlv 0xBE (tlv 0x04 a.userInfo))

def encodeAare (a : Aare) : Bytes :=
  tlv 0x61 (tlv 0xA1 (contextName a.ciphered) ++
    tlv 0xA2 (tlv 0x02 [UInt8.ofNat a.result]) ++
    tlv 0xA3 (tlv (if a.diagUser then 0xA1 else 0xA2) (tlv 0x02 [UInt8.ofNat a.diag])) ++
    opt a.title (fun t => tlv 0xA4 (tlv 0x04 t)) ++ opt a.cert (fun c => tlv 0xA5 (tlv 0x04 c)) ++
    authPart 0x88 0x89 0xAA a.mechanism a.authValue ++
    opt a.userInfo (fun u => tlv 0xBE (tlv 0x04 u)))

def encodeRelease (apduTag : UInt8) (r : Release) : Bytes :=
  tlv apduTag (opt r.reason (fun x => tlv 0x80 [UInt8.ofNat x]) ++ opt r.userInfo (fun u => tlv 0xBE (tlv 0x04 u)))

def encodeRlrq (r : Release) : Bytes := encodeRelease 0x62 r
def encodeRlre (r : Release) : Bytes := encodeRelease 0x63 r

/-! ### well-formedness of the nesting -/

/-- split one TLV off the front (definite lengths only): (tag, content, rest). -/
def splitTlv (inp : Bytes) : Option (UInt8 × Bytes × Bytes) :=
  match inp with
  | [] => none
  | tag :: r =>
    match r with
    | [] => none
    | l :: r' =>
      if l.toNat < 128 then
        if l.toNat ≤ r'.length then some (tag, r'.take l.toNat, r'.drop l.toNat) else none
      else
        let k := l.toNat - 128
        if k = 0 ∨ k > r'.length then none
        else
          let n := beNat (r'.take k)
          let r'' := r'.drop k
          if n ≤ r''.length then some (tag, r''.take n, r''.drop n) else none

/-- every length equals the length of what it frames, at every level: the input is a
    sequence of TLVs, and the content of every constructed one (tag bit 0x20) is again such a
    sequence.  `fuel` bounds the number of TLVs visited along any path (the input length is
    always enough). -/
def berWF : Nat → Bytes → Bool
  | 0, inp => inp.isEmpty
  | fuel + 1, inp =>
    if inp.isEmpty then true
    else match splitTlv inp with
      | none => false
      | some (tag, content, rest) =>
        (if tag.toNat &&& 0x20 != 0 then berWF fuel content else true) && berWF fuel rest

end Spec.Acse
