/-
  Bit layouts of the fixed-format protocol fields, written from the standards
  (Green Book 9.4.6.1 conformance; 9.2.7.2.4.? security control; 9.5 invoke-id;
  Blue Book 4.1.6.1 clock status; IEC 62056-46 / ISO 13239 control and format fields).
-/
import DlmsVerif.Basic

namespace Spec.Fields

/-- The 17 services the library supports with their Green-Book bit number, counted as the
    standard does, from the most significant bit (bit 0) of the 24-bit string. -/
def greenBookBits : List (String × Nat) := [
  ("general_protection", 1), ("general_block_transfer", 2), ("delta_value_encoding", 6),
  ("attribute_0_supported_with_set", 8), ("priority_management_supported", 9),
  ("attribute_0_supported_with_get", 10), ("block_transfer_with_get_or_read", 11),
  ("block_transfer_with_set_or_write", 12), ("block_transfer_with_action", 13),
  ("multiple_references", 14), ("data_notification", 16), ("access", 17), ("get", 19),
  ("set", 20), ("selective_access", 21), ("event_notification", 22), ("action", 23)]

/-- the same table with positions counted from the least significant bit. -/
def conformanceBits : List (String × Nat) := greenBookBits.map fun (n, b) => (n, 23 - b)

def conformancePositions : List Nat := conformanceBits.map (·.2)

/-- value of the 24-bit word for a flag list given in table order. -/
def confEncode : List Nat → List Bool → Nat
  | p :: ps, f :: fs => (if f then 2 ^ p else 0) + confEncode ps fs
  | _, _ => 0

def confDecode (ps : List Nat) (w : Nat) : List Bool := ps.map (Nat.testBit w)

/-- security control byte: suite in bits 0-3, authentication 4, encryption 5, key-set 6,
    compression 7; only suites 0..2 exist. -/
def scfByte (suite : Nat) (a e b c : Bool) : Option Nat :=
  if suite ≤ 2 then some (suite + 16 * a.toNat + 32 * e.toNat + 64 * b.toNat + 128 * c.toNat) else none

def scfFields (v : Nat) : Option (Nat × Bool × Bool × Bool × Bool) :=
  if v % 16 ≤ 2 then some (v % 16, v.testBit 4, v.testBit 5, v.testBit 6, v.testBit 7) else none

/-- invoke-id-and-priority: id bits 0-3, service class (confirmed) bit 6, priority bit 7. -/
def invokeByte (id : Nat) (confirmed high : Bool) : Nat := id + 64 * confirmed.toNat + 128 * high.toNat
def invokeFields (v : Nat) : Nat × Bool × Bool := (v % 16, v.testBit 6, v.testBit 7)

/-- clock status: invalid 0, doubtful 1, different base 2, invalid status 3, DST 7. -/
def clockByte (inv doubt diff invst dst : Bool) : Nat :=
  inv.toNat + 2 * doubt.toNat + 4 * diff.toNat + 8 * invst.toNat + 128 * dst.toNat
def clockFields (v : Nat) : Bool × Bool × Bool × Bool × Bool :=
  (v.testBit 0, v.testBit 1, v.testBit 2, v.testBit 3, v.testBit 7)

/-- HDLC control bytes (P/F = bit 4). -/
def snrmControl : Nat := 0x93
def uaControl : Nat := 0x73
def discControl : Nat := 0x53
def rrControl (rsn : Nat) : Option Nat := if rsn ≤ 7 then some (32 * rsn + 0x11) else none
def iControl (ssn rsn : Nat) (final : Bool) : Option Nat :=
  if ssn ≤ 7 ∧ rsn ≤ 7 then some (32 * rsn + 16 * final.toNat + 2 * ssn) else none
def uiControl (final : Bool) : Nat := 0x03 + 16 * final.toNat

/-- information control byte → (ssn, rsn, final); only bytes with bit 0 clear. -/
def iFields (v : Nat) : Option (Nat × Nat × Bool) :=
  if v % 2 = 0 then some (v / 2 % 8, v / 32, v.testBit 4) else none

/-- frame format field: type 3 (0xA) in the top nibble, segmentation bit 11, length 0..2047. -/
def formatWord (len : Nat) (seg : Bool) : Option Nat :=
  if len ≤ 2047 then some (0xA000 + 2048 * seg.toNat + len) else none
def formatFields (w : Nat) : Option (Nat × Bool) :=
  if w / 4096 = 0xA then some (w % 2048, w.testBit 11) else none

/-- long-invoke-id-and-priority (32 bits): id 0-23, self-descriptive 28, processing option 29,
    service class 30, priority 31. -/
def longInvokeWord (id : Nat) (prio conf brk selfd : Bool) : Nat :=
  id + 2 ^ 28 * selfd.toNat + 2 ^ 29 * brk.toNat + 2 ^ 30 * conf.toNat + 2 ^ 31 * prio.toNat

end Spec.Fields
