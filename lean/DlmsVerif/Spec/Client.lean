/-
  What C19 demands of the client operations, as a function of the answers the meter gives
  (independent of the state machine and of the collection loop).
-/
import DlmsVerif.Model.Client

namespace Spec.Client
open Model.Client

inductive Demand where
  | data (d : Bytes)        -- the operation returns exactly these bytes
  | nothing                 -- the operation returns without data (ACTION without return data)
  | result (r : Nat)        -- SET: the meter's result
  | accepted                -- associate returns the AARE
  | raise                   -- the operation raises instead of returning
  | silent                  -- C19 does not say
  deriving DecidableEq, Repr

/-- after at least one non-final block. -/
def blockDemand (acc : Bytes) : List Ev → Demand
  | [.getLast _ _ d] => .data (acc ++ d)
  | [.getLastErr ..] => .raise
  | [.getErr ..] => .raise
  | .getBlock _ _ d :: rest => blockDemand (acc ++ d) rest
  | _ => .silent

/-- a GET: one normal answer, or two or more blocks of which the last is marked last;
    an error result immediately or on the last block. -/
def getDemand : List Ev → Demand
  | [.getNormal _ d] => .data d
  | [.getErr ..] => .raise
  | .getBlock _ _ d :: rest => blockDemand d rest
  | _ => .silent

def setDemand : List Ev → Demand
  | [.setResp _ r] => .result r
  | _ => .silent

def actionDemand : List Ev → Demand
  | [.actResp _ status] => if status == 0 then .nothing else .raise
  | [.actRespData _ status d _] => if status == 0 then .data d else .raise
  | [.actRespErr ..] => .raise
  | _ => .silent

def associateDemand : List Ev → Demand
  | [.aare result hls] => if result == 0 then (if hls then .silent else .accepted) else if result == 1 || result == 2 then .raise else .silent
  | [.exception ..] => .raise
  | _ => .silent

/-- a complete, well-formed exchange on an established association. -/
inductive Exchange where
  | getNormal (inv : Nat) (data : Bytes)
  | getBlocks (inv : Nat) (first : Nat × Nat × Bytes) (more : List (Nat × Nat × Bytes)) (lastInv lastNo : Nat) (lastData : Bytes)
  | getError (inv : Nat) (err : Nat)
  | getBlocksError (inv : Nat) (first : Nat × Nat × Bytes) (more : List (Nat × Nat × Bytes)) (lastInv lastNo err : Nat)
  | set (inv : Nat) (result : Nat)
  | action (inv : Nat)
  | actionData (inv : Nat) (data : Bytes)
  | actionFailed (inv : Nat) (status : Nat) (err : Nat)
  deriving DecidableEq, Repr

def blockEv (b : Nat × Nat × Bytes) : Ev := .getBlock b.1 b.2.1 b.2.2
def blockAck (b : Nat × Nat × Bytes) : Req := .next b.1 b.2.1
def blocksData (bs : List (Nat × Nat × Bytes)) : Bytes := bs.flatMap (·.2.2)

/-- the answers the meter gives in the exchange. -/
def Exchange.answers : Exchange → List Ev
  | .getNormal inv d => [.getNormal inv d]
  | .getBlocks _ f more li ln ld => blockEv f :: more.map blockEv ++ [.getLast li ln ld]
  | .getError inv e => [.getErr inv e]
  | .getBlocksError _ f more li ln e => blockEv f :: more.map blockEv ++ [.getLastErr li ln e]
  | .set inv r => [.setResp inv r]
  | .action inv => [.actResp inv 0]
  | .actionData inv d => [.actRespData inv 0 d .invalid]
  | .actionFailed inv st e => [.actRespErr inv st e]

/-- what the client has to hand to the transport in the exchange. -/
def Exchange.requests : Exchange → List Req
  | .getNormal inv _ => [.get inv]
  | .getBlocks inv f more _ _ _ => .get inv :: blockAck f :: more.map blockAck
  | .getError inv _ => [.get inv]
  | .getBlocksError inv f more _ _ _ => .get inv :: blockAck f :: more.map blockAck
  | .set inv _ => [.set inv]
  | .action inv => [.act inv]
  | .actionData inv _ => [.act inv]
  | .actionFailed inv _ _ => [.act inv]

/-- what the operation has to give back. -/
def Exchange.demand : Exchange → Demand
  | .getNormal _ d => .data d
  | .getBlocks _ f more _ _ ld => .data (f.2.2 ++ blocksData more ++ ld)
  | .getError .. => .raise
  | .getBlocksError .. => .raise
  | .set _ r => .result r
  | .action _ => .nothing
  | .actionData _ d => .data d
  | .actionFailed .. => .raise

end Spec.Client
