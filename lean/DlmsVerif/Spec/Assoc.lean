/-
  The DLMS/COSEM client association procedure (Green Book 9.3/9.4, client side, one
  outstanding confirmed service, GET with block transfer, HLS as a four-pass exchange),
  as far as C03 states it: which request may be sent and which APDU may be accepted in
  which phase, and the phase that follows.
-/
import DlmsVerif.Basic

namespace Spec.Assoc

inductive Phase where
  | noAssociation | awaitingAssociationResponse | ready | awaitingReleaseResponse
  | awaitingActionResponse | awaitingGetResponse | awaitingGetBlockResponse | shouldAckLastGetBlock
  | awaitingSetResponse | shouldSendHlsServerChallengeResult | awaitingHlsClientChallengeResult
  deriving DecidableEq, Repr, Inhabited

/-- the event alphabet of C03: six request kinds the client sends, the response kinds the
    decoder can produce; an association response is accepted or rejected and may select
    HLS-GMAC; the meter's HLS answer is valid or not. -/
inductive Ev where
  | sendAarq | sendRlrq | sendGet | sendGetNext | sendSet | sendAction
  | recvAare (accepted : Bool) (hlsGmac : Bool)
  | recvRlre
  | recvGetNormal | recvGetError | recvGetBlock | recvGetLastBlock | recvGetLastBlockError
  | recvSet
  | recvAction | recvActionData (proofValid : Bool) | recvActionError
  | recvException | recvDataNotification | recvConfirmedServiceError | recvInitiateResponse
  deriving DecidableEq, Repr

def Ev.isAcse : Ev → Bool
  | .sendAarq | .sendRlrq | .recvAare .. | .recvRlre => true
  | _ => false

/-- the phase after an allowed event; `none` = the event must be refused. -/
def next (preEstablished : Bool) (p : Phase) (e : Ev) : Option Phase :=
  if preEstablished && e.isAcse then none else
  match p, e with
  | .noAssociation, .sendAarq => some .awaitingAssociationResponse
  | .awaitingAssociationResponse, .recvAare true false => some .ready
  | .awaitingAssociationResponse, .recvAare true true => some .shouldSendHlsServerChallengeResult
  | .awaitingAssociationResponse, .recvAare false _ => some .noAssociation
  | .awaitingAssociationResponse, .recvException => some .noAssociation
  | .ready, .sendRlrq => some .awaitingReleaseResponse
  | .ready, .sendGet => some .awaitingGetResponse
  | .ready, .sendSet => some .awaitingSetResponse
  | .ready, .sendAction => some .awaitingActionResponse
  | .ready, .recvDataNotification => some .ready
  | .awaitingReleaseResponse, .recvRlre => some .noAssociation
  | .awaitingReleaseResponse, .recvException => some .ready
  | .awaitingGetResponse, .recvGetNormal => some .ready
  | .awaitingGetResponse, .recvGetError => some .ready
  | .awaitingGetResponse, .recvGetBlock => some .shouldAckLastGetBlock
  | .awaitingGetResponse, .recvException => some .ready
  | .shouldAckLastGetBlock, .sendGetNext => some .awaitingGetBlockResponse
  | .awaitingGetBlockResponse, .recvGetBlock => some .shouldAckLastGetBlock
  | .awaitingGetBlockResponse, .recvGetLastBlock => some .ready
  | .awaitingGetBlockResponse, .recvGetLastBlockError => some .ready
  | .awaitingGetBlockResponse, .recvGetError => some .ready
  | .awaitingGetBlockResponse, .recvException => some .ready
  | .awaitingSetResponse, .recvSet => some .ready
  | .awaitingActionResponse, .recvAction => some .ready
  | .awaitingActionResponse, .recvActionData _ => some .ready
  | .awaitingActionResponse, .recvActionError => some .ready
  | .shouldSendHlsServerChallengeResult, .sendAction => some .awaitingHlsClientChallengeResult
  | .awaitingHlsClientChallengeResult, .recvActionData true => some .ready
  | .awaitingHlsClientChallengeResult, .recvActionData false => some .noAssociation
  | .awaitingHlsClientChallengeResult, .recvAction => some .noAssociation
  | .awaitingHlsClientChallengeResult, .recvActionError => some .noAssociation
  | _, _ => none

/-- a refused event leaves the phase as it is. -/
def step (pre : Bool) (p : Phase) (e : Ev) : Phase := (next pre p e).getD p

def run (pre : Bool) (es : List Ev) (p : Phase) : Phase := es.foldl (step pre) p

/-- a service request (GET, GET-next, SET, ACTION, release). -/
def Ev.isServiceRequest : Ev → Bool
  | .sendGet | .sendGetNext | .sendSet | .sendAction | .sendRlrq => true
  | _ => false

/-- phases in which an application association is established. -/
def Phase.associated : Phase → Bool
  | .noAssociation | .awaitingAssociationResponse => false
  | _ => true

end Spec.Assoc
