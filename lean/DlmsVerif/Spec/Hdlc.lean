/-
  HDLC frame format type 3 (IEC 62056-46 §6.4): 
     7E | format(2) | destination | source | control | [HCS(2)] | information | FCS(2) | 7E
  format = 0xA000 | segmentation<<11 | length, length = number of bytes between the flags;
  HCS = X-25 check over format..control, FCS = X-25 check over everything between the opening
  flag and the FCS.  The six frame kinds of the DLMS profile.
-/
import DlmsVerif.Spec.Addr
import DlmsVerif.Spec.Fields
import DlmsVerif.Spec.Crc

namespace Spec.Hdlc
open Dlms

inductive Kind where
  | snrm | ua | disc | rr | i | ui
  deriving DecidableEq, Repr, Inhabited

structure Frame where
  kind : Kind
  dst : Spec.Addr.Address
  src : Spec.Addr.Address
  ssn : Nat := 0
  rsn : Nat := 0
  final : Bool := true
  segmented : Bool := false
  payload : Bytes := []
  deriving DecidableEq, Repr

/-- the kinds that carry an information field (and therefore a header check sequence). -/
def Kind.hasInfo : Kind → Bool
  | .ua | .i | .ui => true
  | _ => false

/-- control byte of the frame (none = sequence number out of range). -/
def control (f : Frame) : Option Nat :=
  match f.kind with
  | .snrm => some Spec.Fields.snrmControl
  | .ua => some Spec.Fields.uaControl
  | .disc => some Spec.Fields.discControl
  | .rr => Spec.Fields.rrControl f.rsn
  | .i => Spec.Fields.iControl f.ssn f.rsn f.final
  | .ui => some (Spec.Fields.uiControl f.final)

def info (f : Frame) : Bytes := if f.kind.hasInfo then f.payload else []

def addrBytes (a : Spec.Addr.Address) : Bytes := (Spec.Addr.encode a).map UInt8.ofNat

/-- number of bytes between the two flags. -/
def frameLength (f : Frame) : Nat :=
  2 + (addrBytes f.dst).length + (addrBytes f.src).length + 1 +
    (if f.kind.hasInfo then 2 else 0) + (info f).length + 2

/-- the fields a frame of this kind does not carry are at their neutral value, the others
    are in range, and the frame fits the 11-bit length. -/
def WF (f : Frame) : Bool :=
  Spec.Addr.valid f.dst && Spec.Addr.valid f.src && frameLength f ≤ 2047 &&
  (match f.kind with
   | .i => f.ssn ≤ 7 && f.rsn ≤ 7
   | .rr => f.ssn == 0 && f.rsn ≤ 7 && f.final && f.payload.isEmpty
   | .ui => f.ssn == 0 && f.rsn == 0
   | .ua => f.ssn == 0 && f.rsn == 0 && f.final
   | _ => f.ssn == 0 && f.rsn == 0 && f.final && f.payload.isEmpty)

/-- parameterised by the check-sequence function so that theorems about framing do not
    depend on CRC arithmetic; `serialize` instantiates it with X-25. -/
def serializeWith (crc : Bytes → Bytes) (f : Frame) : Option Bytes := do
  let ctl ← control f
  let fmt ← Spec.Fields.formatWord (frameLength f) f.segmented
  let header := beBytes 2 fmt ++ addrBytes f.dst ++ addrBytes f.src ++ [UInt8.ofNat ctl]
  let body := if f.kind.hasInfo then header ++ crc header ++ info f else header
  some (0x7E :: body ++ crc body ++ [0x7E])

def serialize (f : Frame) : Option Bytes := serializeWith Spec.Crc.fcs f

end Spec.Hdlc
