/-
  The HDLC normal-response-mode *client* procedure with window size 1 and modulo-8
  numbering (IEC 62056-46 / ISO 13239), as far as C11 states it.  Abstract state:
  the link phase and the *numbers of information frames sent and received so far*.
-/
import DlmsVerif.Basic

namespace Spec.Nrm

inductive Link where
  | notConnected | awaitingConnection | idle | awaitingResponse | awaitingDisconnect
  deriving DecidableEq, Repr, Inhabited

inductive Kind where
  | snrm | ua | disc | rr | i | ui
  deriving DecidableEq, Repr, Inhabited

inductive Dir where
  | send | recv
  deriving DecidableEq, Repr, Inhabited

structure State where
  link : Link := .notConnected
  nSent : Nat := 0      -- information frames sent so far
  nRecv : Nat := 0      -- information frames accepted so far
  deriving DecidableEq, Repr

/-- what the client procedure allows, and the phase it leads to. -/
def next : Dir → Link → Kind → Option Link
  | .send, .notConnected, .snrm => some .awaitingConnection
  | .send, .idle, .i => some .awaitingResponse
  | .send, .idle, .rr => some .awaitingResponse
  | .send, .idle, .disc => some .awaitingDisconnect
  | .recv, .awaitingConnection, .ua => some .idle
  | .recv, .awaitingDisconnect, .ua => some .notConnected
  | .recv, .awaitingResponse, .i => some .idle
  | .recv, .awaitingResponse, .rr => some .idle
  | _, _, _ => none

/-- the numbers an information frame must carry to be accepted. -/
def numbersOk (s : State) (d : Dir) (ssn rsn : Nat) : Bool :=
  match d with
  | .send => ssn == s.nSent % 8 && rsn == s.nRecv % 8
  | .recv => ssn == s.nRecv % 8 && rsn == s.nSent % 8

/-- one operation: accepted (state advanced) or refused (nothing changes). -/
def step (s : State) (d : Dir) (k : Kind) (ssn rsn : Nat) : State × Bool :=
  match next d s.link k with
  | none => (s, false)
  | some l' =>
    if k = .i then
      if numbersOk s d ssn rsn then
        match d with
        | .send => ({ link := l', nSent := s.nSent + 1, nRecv := s.nRecv }, true)
        | .recv => ({ link := l', nSent := s.nSent, nRecv := s.nRecv + 1 }, true)
      else (s, false)
    else ({ s with link := l' }, true)

/-- the counters the client has to put into its next frame. -/
def nextNumbers (s : State) : Nat × Nat := (s.nSent % 8, s.nRecv % 8)

structure Op where
  dir : Dir
  kind : Kind
  ssn : Nat := 0
  rsn : Nat := 0
  deriving Repr

def run (ops : List Op) (s : State := {}) : State :=
  ops.foldl (fun s o => (step s o.dir o.kind o.ssn o.rsn).1) s

end Spec.Nrm
