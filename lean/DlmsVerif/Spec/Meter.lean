/-
  The peer C18 quantifies over: a meter that follows the HDLC normal-response-mode procedure
  with window size 1 - it reassembles a segmented request acknowledging every segment with a
  receive-ready frame, and gives its answer as information frames split in whatever way the
  script says, sending the next one only when the previous one has been acknowledged by a
  receive-ready frame carrying the right sequence number.  A frame that is not what the
  procedure prescribes at that point is counted and ignored.
-/
import DlmsVerif.Model.Transport

namespace Spec.Meter
open Model.Transport

structure Meter where
  vs : Nat := 0                        -- V(S): number of the next information frame the meter sends
  vr : Nat := 0                        -- V(R): number of the next information frame it expects
  reqBuf : Bytes := []                 -- information received so far for the current request
  requests : List Bytes := []          -- ghost: the requests as reassembled, oldest first
  pending : List Bytes := []           -- information fields of the current answer not yet sent
  script : List (List Bytes) := []     -- for each coming request: how the answer is split
  maxInfo : Nat := 128                 -- longest information field the meter takes
  violations : Nat := 0                -- ghost: frames from the client that broke the procedure
  deriving DecidableEq, Repr

def sendSegment (m : Meter) : Meter × List LFrame :=
  match m.pending with
  | [] => (m, [])
  | p :: rest => ({ m with pending := rest, vs := (m.vs + 1) % 8 }, [.info m.vs m.vr (!rest.isEmpty) true p])

def bad (m : Meter) : Meter × List LFrame := ({ m with violations := m.violations + 1 }, [])

def react (m : Meter) : LFrame → Meter × List LFrame
  | .snrm => (m, [.ua])
  | .disc => (m, [.ua])
  | .info ssn rsn seg fin payload =>
    if ssn != m.vr || rsn != m.vs || !fin || payload.length > m.maxInfo || payload.isEmpty || !m.pending.isEmpty then bad m
    else
      let m1 := { m with vr := (m.vr + 1) % 8, reqBuf := m.reqBuf ++ payload }
      if seg then (m1, [.rr m1.vr])
      else
        let m2 := { m1 with requests := m1.requests ++ [m1.reqBuf], reqBuf := [] }
        match m2.script with
        | [] => (m2, [])
        | segs :: rest => sendSegment { m2 with pending := segs, script := rest }
  | .rr rsn => if rsn == m.vs && !m.pending.isEmpty then sendSegment m else bad m
  | _ => bad m

end Spec.Meter
