/-
  DLMS `Data` in A-XDR (IEC 61334-6 as profiled by the Green Book §9.5 / Blue Book 4.1.5):
  one tag byte, then the value; fixed-size types carry no length, octet-string is preceded
  by its length and array/structure by their element count, both as A-XDR variable-length
  integers (one byte below 128, otherwise 0x80+k followed by k big-endian bytes).
-/
import DlmsVerif.Basic

namespace Spec.Axdr
open Dlms

inductive Data where
  | null
  | bool (b : Bool)
  | i8 (v : Int) | i16 (v : Int) | i32 (v : Int) | i64 (v : Int)
  | u8 (v : Nat) | u16 (v : Nat) | u32 (v : Nat) | u64 (v : Nat)
  | enum (v : Nat)
  | octets (bs : Bytes)
  | dateTime (bs : Bytes) | date (bs : Bytes) | time (bs : Bytes)
  | array (xs : List Data)
  | structure (xs : List Data)
  deriving Repr

/-- number of bytes needed for `n` (at least one). -/
def byteLen (n : Nat) : Nat := if n < 256 then 1 else 1 + byteLen (n / 256)
decreasing_by omega

/-- A-XDR variable-length integer. -/
def lenPrefix (n : Nat) : Bytes :=
  if n < 128 then [UInt8.ofNat n] else UInt8.ofNat (0x80 + byteLen n) :: beBytes (byteLen n) n

/-- two's complement on `k` bytes. -/
def twos (k : Nat) (v : Int) : Bytes := beBytes k (v % (256 ^ k : Nat)).toNat

mutual
def encode : Data → Bytes
  | .null => [0]
  | .bool b => [3, if b then 1 else 0]
  | .i8 v => 15 :: twos 1 v
  | .i16 v => 16 :: twos 2 v
  | .i32 v => 5 :: twos 4 v
  | .i64 v => 20 :: twos 8 v
  | .u8 v => 17 :: beBytes 1 v
  | .u16 v => 18 :: beBytes 2 v
  | .u32 v => 6 :: beBytes 4 v
  | .u64 v => 21 :: beBytes 8 v
  | .enum v => 22 :: beBytes 1 v
  | .octets bs => 9 :: (lenPrefix bs.length ++ bs)
  | .dateTime bs => 25 :: bs
  | .date bs => 26 :: bs
  | .time bs => 27 :: bs
  | .array xs => 1 :: (lenPrefix xs.length ++ encodeList xs)
  | .structure xs => 2 :: (lenPrefix xs.length ++ encodeList xs)
def encodeList : List Data → Bytes
  | [] => []
  | x :: xs => encode x ++ encodeList xs
end

/- values in the range of their type; date/time strings of their fixed size; counts and
   lengths that a variable-length integer of at most 127 length bytes can carry. -/
mutual
def wf : Data → Bool
  | .null => true
  | .bool _ => true
  | .i8 v => -128 ≤ v && v ≤ 127
  | .i16 v => -32768 ≤ v && v ≤ 32767
  | .i32 v => -2147483648 ≤ v && v ≤ 2147483647
  | .i64 v => -9223372036854775808 ≤ v && v ≤ 9223372036854775807
  | .u8 v => v < 256
  | .u16 v => v < 65536
  | .u32 v => v < 4294967296
  | .u64 v => v < 18446744073709551616
  | .enum v => v < 256
  | .octets bs => byteLen bs.length ≤ 127
  | .dateTime bs => bs.length == 12
  | .date bs => bs.length == 5
  | .time bs => bs.length == 4
  | .array xs => byteLen xs.length ≤ 127 && wfList xs
  | .structure xs => byteLen xs.length ≤ 127 && wfList xs
def wfList : List Data → Bool
  | [] => true
  | x :: xs => wf x && wfList xs
end

end Spec.Axdr
