/-
  Galois/Counter Mode (NIST SP 800-38D) with a 96-bit IV and RFC 3394 key wrap, generic in
  the block function `E : 16 bytes → 16 bytes` (and its inverse `D` for unwrapping).
-/
import DlmsVerif.Basic

namespace Spec.Gcm
open Dlms

def xorBytes (a b : Bytes) : Bytes := List.zipWith (· ^^^ ·) a b

/-- the reduction constant R = 11100001 ‖ 0^120. -/
def rConst : Nat := 0xE1 * 2 ^ 120

/-- multiplication in GF(2^128) as SP 800-38D defines it (blocks are 128-bit big-endian
    numbers; bit 0 of the standard is the most significant). -/
def gfMulAux : Nat → Nat → Nat → Nat → Nat
  | 0, _, _, z => z
  | n + 1, x, v, z =>
    let z' := if x / 2 ^ n % 2 == 1 then z ^^^ v else z
    let v' := if v % 2 == 1 then (v / 2) ^^^ rConst else v / 2
    gfMulAux n x v' z'

def gfMul (x y : Nat) : Nat := gfMulAux 128 x y 0

def pad16 (bs : Bytes) : Bytes := bs ++ List.replicate ((16 - bs.length % 16) % 16) 0

def blocks : Nat → Bytes → List Bytes
  | 0, _ => []
  | n + 1, bs => if bs.isEmpty then [] else bs.take 16 :: blocks n (bs.drop 16)

/-- GHASH_H over a byte string whose length is a multiple of 16. -/
def ghash (h : Nat) (bs : Bytes) : Nat :=
  (blocks (bs.length + 1) bs).foldl (fun y b => gfMul (y ^^^ beNat b) h) 0

/-- counter block number `i` for the 96-bit IV. -/
def counterBlock (iv : Bytes) (i : Nat) : Bytes := iv ++ beBytes 4 (i % 2 ^ 32)

/-- GCTR: the keystream is E(counter i), E(counter i+1), …; the last block may be partial. -/
def gctr (E : Bytes → Bytes) (iv : Bytes) : Nat → Nat → Bytes → Bytes
  | 0, _, _ => []
  | n + 1, i, bs =>
    if bs.isEmpty then [] else xorBytes (bs.take 16) (E (counterBlock iv i)) ++ gctr E iv n (i + 1) (bs.drop 16)

/-- the full 16-byte tag for additional data `ad` and ciphertext `ct`. -/
def tag (E : Bytes → Bytes) (iv ad ct : Bytes) : Bytes :=
  let h := beNat (E (List.replicate 16 0))
  let s := ghash h (pad16 ad ++ pad16 ct ++ beBytes 8 (8 * ad.length) ++ beBytes 8 (8 * ct.length))
  xorBytes (beBytes 16 s) (E (counterBlock iv 1))

/-- GCM-AE: ciphertext and full tag. -/
def encrypt (E : Bytes → Bytes) (iv ad pt : Bytes) : Bytes × Bytes :=
  let ct := gctr E iv (pt.length + 1) 2 pt
  (ct, tag E iv ad ct)

/-- GCM-AD with a tag truncated to `t.length` bytes: the plaintext, or nothing if the tag does not verify. -/
def decrypt (E : Bytes → Bytes) (iv ad ct t : Bytes) : Option Bytes :=
  if (tag E iv ad ct).take t.length == t then some (gctr E iv (ct.length + 1) 2 ct) else none

/-! RFC 3394 key wrap, written with the registers as a queue: step `t` takes the register at
    the head, and puts its new value at the back, so that after every `n` steps the queue is
    in order again (this is the index `i = 1..n` of the RFC running cyclically). -/

def kwIv : Bytes := List.replicate 8 0xA6

structure KwState where
  a : Bytes
  rs : List Bytes
  deriving DecidableEq, Repr

def wrapStep (E : Bytes → Bytes) (s : KwState) (t : Nat) : KwState :=
  match s.rs with
  | [] => s
  | r :: rest =>
    let b := E (s.a ++ r)
    { a := xorBytes (b.take 8) (beBytes 8 t), rs := rest ++ [b.drop 8] }

def unwrapStep (D : Bytes → Bytes) (t : Nat) (s : KwState) : KwState :=
  match s.rs.getLast? with
  | none => s
  | some r =>
    let b := D (xorBytes s.a (beBytes 8 t) ++ r)
    { a := b.take 8, rs := b.drop 8 :: s.rs.dropLast }

def split8 : Nat → Bytes → List Bytes
  | 0, _ => []
  | n + 1, bs => if bs.isEmpty then [] else bs.take 8 :: split8 n (bs.drop 8)

/-- steps 1 … 6n. -/
def steps (n : Nat) : List Nat := (List.range (6 * n)).map (· + 1)

def wrap (E : Bytes → Bytes) (key : Bytes) : Bytes :=
  let rs := split8 key.length key
  let s := (steps rs.length).foldl (wrapStep E) { a := kwIv, rs := rs }
  s.a ++ s.rs.flatten

/-- the unwrapped key, or nothing if the integrity check value is wrong. -/
def unwrap (D : Bytes → Bytes) (wrapped : Bytes) : Option Bytes :=
  let rs := split8 wrapped.length (wrapped.drop 8)
  let s := (steps rs.length).foldr (unwrapStep D) { a := wrapped.take 8, rs := rs }
  if s.a == kwIv then some s.rs.flatten else none

end Spec.Gcm
