/-
  Model of dlms_cosem/clients/hdlc_transport.py: SerialHdlcTransport.connect / disconnect /
  send / next_event / drain_out_buffer / generate_information_frame, at the level of frames,
  on top of the model of HdlcConnection (Model.Link, run with the tables regenerated from
  the code).  The peer is a parameter: `react` tells which frames it puts on the line when
  the client writes one.  Bytes <-> frames (serialisation, check sequences, the receive
  buffer and every read granularity) are C09/C10/C12; `Props.C18` states the composition.
  Not modelled: calling send() on a link that is not IDLE with more than max_data_size
  bytes (the remainder stays in out_buffer).
-/
import DlmsVerif.Basic
import DlmsVerif.Model.Link

namespace Model.Transport
open Dlms

inductive LFrame where
  | snrm | ua | disc
  | rr (rsn : Nat)
  | info (ssn rsn : Nat) (segmented final : Bool) (payload : Bytes)
  | raw (bytes : Bytes)               -- bytes written outside any frame
  deriving DecidableEq, Repr

def LFrame.cls : LFrame → String
  | .snrm => "SetNormalResponseModeFrame" | .ua => "UnNumberedAcknowledgmentFrame"
  | .disc => "DisconnectFrame" | .rr _ => "ReceiveReadyFrame" | .info .. => "InformationFrame"
  | .raw _ => "?"

def LFrame.ssn : LFrame → Nat
  | .info ssn .. => ssn | _ => 0
def LFrame.rsn : LFrame → Nat
  | .info _ rsn .. => rsn | .rr rsn => rsn | _ => 0
def LFrame.payload : LFrame → Bytes
  | .info _ _ _ _ p => p | _ => []
def LFrame.segmented : LFrame → Bool
  | .info _ _ s _ _ => s | _ => false
def LFrame.final : LFrame → Bool
  | .info _ _ _ f _ => f | _ => true

inductive TErr where
  | link (e : Err)       -- an exception of the link layer / ValueError / ClientError
  | starved              -- nothing more to read: the real transport would wait for ever
  | stuck                -- unparsable bytes in the receive buffer / the loop bound of the model
  deriving DecidableEq, Repr

def llcCmd : Bytes := [0xE6, 0xE6, 0x00]
def llcResp : Bytes := [0xE6, 0xE7, 0x00]

structure W (M : Type) where
  link : Model.Link.St
  meter : M
  line : List LFrame := []          -- frames the peer has put on the line and the client has not read yet
  written : List LFrame := []       -- ghost: everything written to the serial port, oldest first
  deriving Repr

variable {M : Type}

def write (react : M → LFrame → M × List LFrame) (w : W M) (f : LFrame) : W M :=
  let r := react w.meter f
  { w with meter := r.1, line := w.line ++ r.2, written := w.written ++ [f] }

/-- `SerialHdlcTransport.next_event()`: read until the link layer delivers a frame. -/
def nextEvent (T : Model.Link.Tables) (w : W M) : Except TErr LFrame × W M :=
  match w.line with
  | [] => (.error .starved, w)
  | f :: rest =>
    let w1 := { w with line := rest }
    match Model.Link.recv T w.link f.cls f.ssn f.rsn with
    | (l', .accepted) => (.ok f, { w1 with link := l' })
    | (l', .needData) => (.error .stuck, { w1 with link := l' })
    | (l', .err e) => (.error (.link e), { w1 with link := l' })

/-- `connect()`. -/
def connect (T : Model.Link.Tables) (react : M → LFrame → M × List LFrame) (w : W M) : Except TErr LFrame × W M :=
  if w.link.state != "NOT_CONNECTED" then (.error (.link .client), w)          -- ClientError
  else match Model.Link.send T w.link LFrame.snrm.cls 0 0 with
    | (l', .accepted) => nextEvent T (write react { w with link := l' } .snrm)
    | (_, .err e) => (.error (.link e), w)
    | (_, .needData) => (.error .stuck, w)

/-- `disconnect()`. -/
def disconnect (T : Model.Link.Tables) (react : M → LFrame → M × List LFrame) (w : W M) : Except TErr LFrame × W M :=
  match Model.Link.send T w.link LFrame.disc.cls 0 0 with
  | (l', .accepted) => nextEvent T (write react { w with link := l' } .disc)
  | (_, .err e) => (.error (.link e), w)
  | (_, .needData) => (.error .stuck, w)

/-- `drain_out_buffer()` with `out` in the out-buffer: information frames of at most
    `maxData` bytes, all but the last marked segmented; after a segmented one the peer's
    receive-ready is awaited before the next is sent. -/
def drain (T : Model.Link.Tables) (react : M → LFrame → M × List LFrame) (maxData : Nat) :
    Nat → W M → Bytes → Except TErr Unit × W M
  | 0, w, _ => (.error .stuck, w)
  | fuel + 1, w, out =>
    if out.isEmpty then (.ok (), w)
    else
      let data := out.take maxData
      let rest := out.drop maxData
      let segmented := !rest.isEmpty
      if w.link.state != "IDLE" then (.ok (), write react w (.raw data))
      else
        match Model.Link.send T w.link "InformationFrame" w.link.serverSsn w.link.serverRsn with
        | (_, .err e) => (.error (.link e), w)
        | (_, .needData) => (.error .stuck, w)
        | (l', .accepted) =>
          let w1 := write react { w with link := l' } (.info w.link.serverSsn w.link.serverRsn segmented true data)
          if segmented then
            match nextEvent T w1 with
            | (.error e, w2) => (.error e, w2)
            | (.ok (.rr _), w2) => drain T react maxData fuel w2 rest
            | (.ok _, w2) => (.ok (), w2)
          else (.ok (), w1)

/-- the response loop of `send()`: collect the information fields; a frame marked segmented
    and final is acknowledged with a receive-ready carrying the current receive number; the
    frame that is final and not segmented ends the answer. -/
def collect (T : Model.Link.Tables) (react : M → LFrame → M × List LFrame) :
    Nat → W M → Bytes → Except TErr Bytes × W M
  | 0, w, _ => (.error .stuck, w)
  | fuel + 1, w, acc =>
    match nextEvent T w with
    | (.error e, w1) => (.error e, w1)
    | (.ok f, w1) =>
      let acc' := acc ++ f.payload
      if f.segmented && f.final then
        match Model.Link.send T w1.link "ReceiveReadyFrame" 0 w1.link.serverRsn with
        | (_, .err e) => (.error (.link e), w1)
        | (_, .needData) => (.error .stuck, w1)
        | (l', .accepted) =>
          collect T react fuel (write react { w1 with link := l' } (.rr w1.link.serverRsn)) acc'
      else if !f.segmented && f.final then
        if acc'.take 3 == llcResp then (.ok (acc'.drop 3), w1) else (.error (.link .decode), w1)
      else collect T react fuel w1 acc'

/-- `send(telegram)`. -/
def send (T : Model.Link.Tables) (react : M → LFrame → M × List LFrame) (maxData fuel : Nat) (w : W M)
    (apdu : Bytes) : Except TErr Bytes × W M :=
  match drain T react maxData fuel w (llcCmd ++ apdu) with
  | (.error e, w1) => (.error e, w1)
  | (.ok (), w1) => collect T react fuel w1 []

end Model.Transport
