/-
  Model of dlms_cosem/connection.py: DlmsConnection.send / next_event / use_protection /
  protect / encrypt / unprotect / decrypt / get_hls_reply / hls_response_valid /
  update_meter_info / update_negotiated_parameters and of state.py (transition table taken
  from Gen.Tables), with *symbolic* cryptography: a sealed text / a MAC is a term naming the
  key, system title, invocation counter, security-control byte, authentication key and
  content it was made from; opening or verifying succeeds exactly when every parameter is
  the same (ideal AEAD, DESIGN.md §5b).  The byte-level codecs are C01/C02: here an APDU is
  its kind and the fields the connection looks at; undecodable input is the input `garbage`
  (the real decoder's verdict is a parameter of the theorems).
-/
import DlmsVerif.Basic

namespace Model.Conn
open Dlms

/-- a symbolic key: identity and length in bytes. -/
structure Key where
  id : Nat
  len : Nat
  deriving DecidableEq, Repr

/-- everything that goes into one protected text / one MAC. -/
structure SealArgs where
  key : Key
  title : Bytes
  ic : Nat
  sc : Nat                -- security-control byte
  ak : Key
  deriving DecidableEq, Repr

inductive Kind where
  | aarq | rlrq | getReq | getNext | setReq | actReq
  | aare | rlre
  | getRespNormal | getRespErr | getRespBlock | getRespLastBlock | getRespLastBlockErr
  | setResp | actResp | actRespData | actRespErr
  | exceptionResp | dataNotif | confirmedServiceErr | initiateReq | initiateResp
  | gloInitReq | gloInitResp | generalGlo
  | unknown          -- the decoder returned no APDU object (`None`): e.g. an unknown CHOICE inside a known tag
  deriving DecidableEq, Repr, Inhabited

/-- class name under which the transition table knows the kind. -/
def Kind.cls : Kind → String
  | .aarq => "ApplicationAssociationRequest" | .rlrq => "ReleaseRequest"
  | .getReq => "GetRequestNormal" | .getNext => "GetRequestNext" | .setReq => "SetRequestNormal"
  | .actReq => "ActionRequestNormal" | .aare => "ApplicationAssociationResponse" | .rlre => "ReleaseResponse"
  | .getRespNormal => "GetResponseNormal" | .getRespErr => "GetResponseNormalWithError"
  | .getRespBlock => "GetResponseWithBlock" | .getRespLastBlock => "GetResponseLastBlock"
  | .getRespLastBlockErr => "GetResponseLastBlockWithError" | .setResp => "SetResponseNormal"
  | .actResp => "ActionResponseNormal" | .actRespData => "ActionResponseNormalWithData"
  | .actRespErr => "ActionResponseNormalWithError" | .exceptionResp => "ExceptionResponse"
  | .dataNotif => "DataNotification" | .confirmedServiceErr => "ConfirmedServiceError"
  | .initiateReq => "InitiateRequest" | .initiateResp => "InitiateResponse"
  | .gloInitReq => "GlobalCipherInitiateRequest" | .gloInitResp => "GlobalCipherInitiateResponse"
  | .generalGlo => "GeneralGlobalCipher"
  | .unknown => "NoneType"

/-- kinds that are ACSE APDUs / xDLMS APDU classes (`AbstractXDlmsApdu`) / neither. -/
def Kind.isAcseRequest (k : Kind) : Bool := k == .aarq || k == .rlrq
def Kind.isAcseResponse (k : Kind) : Bool := k == .aare || k == .rlre
def Kind.isXdlmsClass (k : Kind) : Bool :=
  !(k.isAcseRequest || k.isAcseResponse || k == .exceptionResp)

/-- a MAC as sent by the peer: the term it was computed from, or bytes that are no MAC. -/
inductive Mac where
  | mac (args : SealArgs) (challenge : Bytes)
  | junk (id : Nat)
  deriving DecidableEq, Repr

/-- the data of an ACTION response as the HLS check sees it. -/
inductive HlsData where
  | proof (sc : Nat) (ic : Nat) (m : Mac)     -- octet string: sc ‖ ic ‖ … ‖ 12 MAC bytes
  | malformed                                    -- anything else (not an octet string, too short, …)
  deriving DecidableEq, Repr

/-- what a decrypted text decodes to. -/
inductive Inner where
  | simple (k : Kind)                            -- an APDU whose fields the connection ignores
  | actRespData (status : Nat) (data : HlsData)
  | initResp (conformance : Nat) (maxPdu : Nat)
  | undecodable
  deriving DecidableEq, Repr

/-- ciphertext ‖ tag as received. -/
inductive Cipher where
  | sealed (args : SealArgs) (plain : Inner)
  | junk (id : Nat)                              -- at least 12 bytes that authenticate under nothing
  | tooShort                                     -- fewer than 12 bytes: no room for a tag
  deriving DecidableEq, Repr

inductive UserInfo where
  | absent
  | initResp (conformance : Nat) (maxPdu : Nat)
  | gloInitResp (sc : Nat) (ic : Nat) (ct : Cipher)
  | other                                        -- e.g. a confirmed-service-error
  deriving DecidableEq, Repr

/-- a decoded incoming APDU. -/
inductive Apdu where
  | aare (result : Nat) (mech : Option Nat) (title : Option Bytes) (challenge : Option Bytes) (ui : UserInfo)
  | rlre (ui : UserInfo)
  | ggc (title : Bytes) (sc : Nat) (ic : Nat) (ct : Cipher)
  | actRespData (status : Nat) (data : HlsData)
  | simple (k : Kind)
  deriving DecidableEq, Repr

inductive Input where
  | garbage                                      -- the decoder raises
  | apdu (a : Apdu)
  deriving DecidableEq, Repr

def Apdu.kind : Apdu → Kind
  | .aare .. => .aare | .rlre .. => .rlre | .ggc .. => .generalGlo | .actRespData .. => .actRespData
  | .simple k => k

structure Config where
  clientTitle : Bytes
  ek : Option Key := none
  ak : Option Key := none
  suite : Nat := 0
  preEstablished : Bool := false
  clientChallenge : Bytes := []
  deriving DecidableEq, Repr

structure Tables where
  transitions : List (String × String × String)

/-- one use of the global key (ghost state for C06). -/
inductive Use where
  | seal (args : SealArgs)
  | mac (args : SealArgs)
  deriving DecidableEq, Repr

def Use.args : Use → SealArgs
  | .seal a => a | .mac a => a

structure Conn where
  state : String
  clientIC : Nat := 0
  meterIC : Nat := 0
  meterTitle : Option Bytes := none
  authMethod : Option Nat := none
  meterChallenge : Option Bytes := none
  conformance : Nat := 0
  maxPdu : Nat := 65535
  log : List Use := []          -- ghost: every generating operation under the global key, oldest first
  accepted : List Nat := []     -- ghost: invocation counters of the protected APDUs accepted so far
  deriving DecidableEq, Repr

/-- the observable part (C07). -/
structure Obs where
  state : String
  clientIC : Nat
  meterIC : Nat
  meterTitle : Option Bytes
  authMethod : Option Nat
  meterChallenge : Option Bytes
  conformance : Nat
  maxPdu : Nat
  deriving DecidableEq, Repr

def Conn.obs (s : Conn) : Obs :=
  { state := s.state, clientIC := s.clientIC, meterIC := s.meterIC, meterTitle := s.meterTitle,
    authMethod := s.authMethod, meterChallenge := s.meterChallenge, conformance := s.conformance, maxPdu := s.maxPdu }

def lookup (T : Tables) (st cls : String) : Option String :=
  (T.transitions.find? fun r => r.1 == st && r.2.1 == cls).map (·.2.2)

/-- `use_protection`. -/
def Config.useProtection (c : Config) : Bool := c.ek.isSome || c.ak.isSome

/-- `security_control.to_bytes()`: suite, authenticated iff an authentication key is set,
    encrypted iff an encryption key is set. -/
def Config.scByte (c : Config) : Nat :=
  c.suite + (if c.ak.isSome then 16 else 0) + (if c.ek.isSome then 32 else 0)

def keyLenOk (suite : Nat) (k : Key) : Bool :=
  (suite == 0 && k.len == 16) || (suite == 1 && k.len == 16) || (suite == 2 && k.len == 32)

/-- `DlmsConnection.encrypt`: the sealed text, the counter used, the new state. -/
def encrypt (c : Config) (s : Conn) (plain : Inner) : Except Err (Cipher × Nat × Conn) :=
  match c.ek, c.ak with
  | some ek, some ak =>
    if c.clientTitle.length ≠ 8 then .error .decode                     -- ValueError in security.encrypt
    else if s.clientIC ≥ 2 ^ 32 then .error .decode                     -- OverflowError in to_bytes(4)
    else if !(c.suite ≤ 2 && keyLenOk c.suite ek && keyLenOk c.suite ak) then .error .decode
    else
      let args : SealArgs := { key := ek, title := c.clientTitle, ic := s.clientIC, sc := c.scByte, ak := ak }
      .ok (.sealed args plain, s.clientIC, { s with clientIC := s.clientIC + 1, log := s.log ++ [.seal args] })
  | _, _ => .error .protection

/-- what `send` hands to the transport. -/
inductive Sent where
  | plain (k : Kind)                                        -- `event.to_bytes()` unprotected
  | acseGlo (k : Kind) (sc : Nat) (ic : Nat) (ct : Cipher)  -- AARQ / RLRQ with ciphered initiate request
  | ggc (title : Bytes) (sc : Nat) (ic : Nat) (ct : Cipher)
  deriving DecidableEq, Repr

/-- `DlmsConnection.send(event)`; `hasUserInfo`: the ACSE request carries user-information. -/
def send (T : Tables) (c : Config) (s : Conn) (k : Kind) (hasUserInfo : Bool := true) : Except Err Sent × Conn :=
  if c.preEstablished && k.isAcseRequest then (.error .preEstablished, s)
  else match lookup T s.state k.cls with
    | none => (.error .protocol, s)
    | some st' =>
      let s1 := { s with state := st' }
      if !c.useProtection then (.ok (.plain k), s1)
      else if k.isAcseRequest then
        if hasUserInfo then
          match encrypt c s1 (.simple .initiateReq) with
          | .ok (ct, ic, s2) => (.ok (.acseGlo k c.scByte ic ct), s2)
          | .error e => (.error e, s1)
        else (.ok (.plain k), s1)
      else if k.isXdlmsClass then
        match encrypt c s1 (.simple k) with
        | .ok (ct, ic, s2) => (.ok (.ggc c.clientTitle c.scByte ic ct), s2)
        | .error e => (.error e, s1)
      else (.error .protection, s1)                                      -- RuntimeError in protect

/-- `DlmsConnection.decrypt` + `security.decrypt` on a symbolic text. -/
def decrypt (c : Config) (title : Option Bytes) (ic : Nat) (ct : Cipher) : Except Err Inner :=
  match c.ek, c.ak with
  | some ek, some ak =>
    match title with
    | none => .error .protection
    | some t =>
      if t.isEmpty then .error .protection                              -- `if not system_title`
      else if t.length ≠ 8 then .error .decode
      else if ic ≥ 2 ^ 32 then .error .decode
      else if !(c.suite ≤ 2 && keyLenOk c.suite ek && keyLenOk c.suite ak) then .error .decode
      else match ct with
        | .tooShort => .error .decode                                   -- the GCM mode refuses a short tag
        | .junk _ => .error .auth
        | .sealed args plain =>
          if args = { key := ek, title := t, ic := ic, sc := c.scByte, ak := ak } then .ok plain
          else .error .auth
  | _, _ => .error .protection

/-- `hls_response_valid` after `parse_as_dlms_data`, wrapped by `hls_proof_is_valid`. -/
def hlsValid (c : Config) (s : Conn) (d : HlsData) : Bool :=
  match d, c.ek, c.ak, s.meterTitle with
  | .proof sc ic m, some ek, some ak, some t =>
    -- SecurityControlField.from_bytes: suite ≤ 2; gmac refuses an `encrypted` security control,
    -- a title that is not 8 bytes, keys whose length does not match the suite of `sc`
    sc < 256 && sc % 16 ≤ 2 && !(sc / 32 % 2 == 1) && t.length == 8 &&
    keyLenOk (sc % 16) ek && keyLenOk (sc % 16) ak && !c.clientChallenge.isEmpty &&
    m == .mac { key := ek, title := t, ic := ic, sc := sc, ak := ak } c.clientChallenge
  | _, _, _, _ => false

def transition (T : Tables) (s : Conn) (cls : String) : Option Conn :=
  (lookup T s.state cls).map fun st' => { s with state := st' }

/-- `unprotect(apdu)` (the identity when no key is configured): the APDU the rest of
    `next_event` works on and the connection with the counter of an authentic text consumed. -/
def unprotect (c : Config) (s : Conn) (a : Apdu) : Except Err (Apdu × Conn) :=
  if !c.useProtection then .ok (a, s)
  else match a with
    | .aare result mech title challenge (.gloInitResp _ ic ct) =>
      if ic ≤ s.meterIC then .error .replay
      else match decrypt c (match title with | some t => if t.isEmpty then s.meterTitle else some t | none => s.meterTitle) ic ct with
        | .error e => .error e
        | .ok (.initResp conf mp) =>
          .ok (.aare result mech title challenge (.initResp conf mp), { s with meterIC := ic, accepted := s.accepted ++ [ic] })
        | .ok _ => .error .decode                                    -- InitiateResponse.from_bytes raises
    | .rlre (.gloInitResp _ ic ct) =>
      if ic ≤ s.meterIC then .error .replay
      else match decrypt c s.meterTitle ic ct with
        | .error e => .error e
        | .ok (.initResp conf mp) => .ok (.rlre (.initResp conf mp), { s with meterIC := ic, accepted := s.accepted ++ [ic] })
        | .ok _ => .error .decode
    | .aare .. => .ok (a, s)
    | .rlre .. => .ok (a, s)
    | .ggc _ _ ic ct =>
      if ic ≤ s.meterIC then .error .replay
      else match decrypt c s.meterTitle ic ct with
        | .error e => .error e
        | .ok .undecodable => .error .decode
        | .ok (.simple k) => .ok (.simple k, { s with meterIC := ic, accepted := s.accepted ++ [ic] })
        | .ok (.actRespData st d) => .ok (.actRespData st d, { s with meterIC := ic, accepted := s.accepted ++ [ic] })
        | .ok (.initResp ..) => .ok (.simple .initiateResp, { s with meterIC := ic, accepted := s.accepted ++ [ic] })
    | _ => .error .protection                                         -- RuntimeError in unprotect

/-- the rest of `next_event` once the APDU is in the clear: pre-established guard, state
    transition, meter identity and negotiated parameters, follow-up events, HLS verification. -/
def deliver (T : Tables) (c : Config) (s1 : Conn) (a1 : Apdu) : Except Err Apdu × Conn :=
  if c.preEstablished && a1.kind.isAcseResponse then (.error .preEstablished, s1)
  else
    match transition T s1 a1.kind.cls with
    | none => (.error .protocol, s1)
    | some s2 =>
      match a1 with
      | .aare result mech title challenge ui =>
        let s3 := { s2 with meterTitle := title, authMethod := mech, meterChallenge := challenge }
        let s4 := match ui with
          | .initResp conf mp => { s3 with conformance := conf, maxPdu := mp }
          | _ => s3
        if result == 1 || result == 2 then
          match transition T s4 "RejectAssociation" with
          | some s5 => (.ok a1, s5)
          | none => (.error .protocol, s4)
        else if mech == some 5 then
          match transition T s4 "HlsStart" with
          | some s5 => (.ok a1, s5)
          | none => (.error .protocol, s4)
        else (.ok a1, s4)
      | _ =>
        if s2.state == "HLS_DONE" then
          match a1 with
          | .actRespData status data =>
            let ev := if status == 0 && hlsValid c s2 data then "HlsSuccess" else "HlsFailed"
            match transition T s2 ev with
            | some s3 => (.ok a1, s3)
            | none => (.error .protocol, s2)
          | _ => (.error .decode, s2)                                 -- AttributeError on `.status`
        else (.ok a1, s2)

/-- `DlmsConnection.next_event()` on one complete input (the receive buffer is emptied in
    every case). A counter that is not larger than the last accepted one is reported as the
    protocol error the code raises. -/
def recv (T : Tables) (c : Config) (s : Conn) (x : Input) : Except Err Apdu × Conn :=
  match x with
  | .garbage => (.error .decode, s)
  | .apdu a =>
    match unprotect c s a with
    | .error e => (.error (if e == .replay then .protocol else e), s)
    | .ok (a1, s1) => deliver T c s1 a1

/-- `get_hls_reply()`: `sc' ‖ counter ‖ MAC`, and the counter is consumed. -/
def hlsReply (c : Config) (s : Conn) : Except Err (Nat × Nat × Mac) × Conn :=
  match s.meterChallenge with
  | none => (.error .protocol, s)
  | some ch =>
    if ch.isEmpty then (.error .protocol, s)
    else match c.ek, c.ak with
      | some ek, some ak =>
        if s.authMethod != some 5 then (.error .decode, s)                -- NotImplementedError
        else if c.suite > 2 then (.error .decode, s)
        else if c.clientTitle.length ≠ 8 then (.error .decode, s)
        else if s.clientIC ≥ 2 ^ 32 then (.error .decode, s)
        else if !(keyLenOk c.suite ek && keyLenOk c.suite ak) then (.error .decode, s)
        else
          let sc' := c.suite + 16
          let args : SealArgs := { key := ek, title := c.clientTitle, ic := s.clientIC, sc := sc', ak := ak }
          (.ok (sc', s.clientIC, .mac args ch), { s with clientIC := s.clientIC + 1, log := s.log ++ [.mac args] })
      | _, _ => (.error .protection, s)

/-- operations of a history. -/
inductive Op where
  | send (k : Kind) (hasUserInfo : Bool)
  | recv (x : Input)
  | hlsReply
  deriving DecidableEq, Repr

def step (T : Tables) (c : Config) (s : Conn) : Op → Conn
  | .send k ui => (send T c s k ui).2
  | .recv x => (recv T c s x).2
  | .hlsReply => (hlsReply c s).2

def run (T : Tables) (c : Config) (ops : List Op) (s : Conn) : Conn := ops.foldl (step T c) s

end Model.Conn
