/-
  Model of dlms_cosem/a_xdr.py (AXdrDecoder.decode_sequence / decode_sequence_of /
  decode_array / decode_structure / decode_data / get_bytes / get_axdr_length,
  encode_variable_integer / decode_variable_integer), of utils.parse_as_dlms_data, and of
  the value encoders of dlms_data.py, parameterised by the tag table extracted from the code.
  The cursor over a buffer is modelled as the remaining input.
-/
import DlmsVerif.Model.Time
import DlmsVerif.Spec.Axdr

namespace Model.Axdr
open Dlms

/-- what `to_python()` yields. -/
inductive PyVal where
  | none
  | bool (b : Bool)
  | int (v : Int)
  | bytes (bs : Bytes)
  | dateTime (d : Spec.DateTime.DT) (status : Nat)
  | date (y m d : Nat)
  | time (h m s us : Nat)
  | list (xs : List PyVal)
  deriving Repr

abbrev Table := List (Nat × String × Int × Bool × Bool × Nat)

def lookup (T : Table) (tag : Nat) : Option (String × Int × Bool) :=
  (T.find? fun r => r.1 == tag).map fun r => (r.2.1, r.2.2.1, r.2.2.2.1)

/-- `get_bytes(n)` with the bounds check. -/
def getBytes (n : Nat) (inp : Bytes) : Except Err (Bytes × Bytes) :=
  if n ≤ inp.length then .ok (inp.take n, inp.drop n) else .error .decode

/-- `get_axdr_length`. -/
def axdrLen (inp : Bytes) : Except Err (Nat × Bytes) :=
  match inp with
  | [] => .error .decode
  | b :: rest =>
    if b.toNat < 128 then .ok (b.toNat, rest)
    else match getBytes (b.toNat - 128) rest with
      | .error e => .error e
      | .ok (lb, rest') => .ok (beNat lb, rest')

def signed (k : Nat) (bs : Bytes) : Int :=
  let v := beNat bs
  if v ≥ 256 ^ k / 2 then (v : Int) - (256 ^ k : Nat) else v

/-- `<class>.from_bytes(data).to_python()` for the classes that implement it. -/
def fromBytes (cls : String) (data : Bytes) : Except Err PyVal :=
  if cls == "NullData" then .ok .none
  else if cls == "BooleanData" then .ok (.bool (beNat data != 0))
  else if cls == "DoubleLongData" then .ok (.int (signed 4 data))
  else if cls == "DoubleLongUnsignedData" then .ok (.int (beNat data))
  else if cls == "OctetStringData" then .ok (.bytes data)
  else if cls == "IntegerData" then .ok (.int (signed 1 data))
  else if cls == "LongData" then .ok (.int (signed 2 data))
  else if cls == "UnsignedIntegerData" then .ok (.int (beNat data))
  else if cls == "UnsignedLongData" then .ok (.int (beNat data))
  else if cls == "Long64Data" then .ok (.int (signed 8 data))
  else if cls == "UnsignedLong64Data" then .ok (.int (beNat data))
  else if cls == "EnumData" then .ok (.int (beNat data))
  else if cls == "DateTimeData" then
    match Model.Time.decode data with
    | .ok (d, st) => .ok (.dateTime d st)
    | .error e => .error e
  else if cls == "DateData" then
    match Model.Time.decodeDate data with
    | .ok (y, m, d) => .ok (.date y m d)
    | .error e => .error e
  else if cls == "TimeData" then
    match Model.Time.decodeTime data with
    | .ok (h, m, s, us) => .ok (.time h m s us)
    | .error e => .error e
  else .error .decode

mutual
/-- `decode_sequence_of` / one iteration of `decode_sequence`: one tagged value. -/
def decodeItem (T : Table) : Nat → Bytes → Except Err (PyVal × Bytes)
  | 0, _ => .error .decode
  | fuel + 1, inp =>
    match inp with
    | [] => .error .decode
    | tag :: rest =>
      match lookup T tag.toNat with
      | none => .error .decode                         -- KeyError
      | some (cls, len, hasFrom) =>
        if cls == "DataArray" || cls == "DataStructure" then
          match axdrLen rest with
          | .error e => .error e
          | .ok (n, rest') =>
            match decodeN T fuel n rest' with
            | .error e => .error e
            | .ok (vs, r) => .ok (.list vs, r)
        else if len == -1 then
          match axdrLen rest with
          | .error e => .error e
          | .ok (n, rest') =>
            match getBytes n rest' with
            | .error e => .error e
            | .ok (data, r) =>
              if !hasFrom then .error .decode          -- NotImplementedError
              else match fromBytes cls data with
                | .error e => .error e
                | .ok v => .ok (v, r)
        else
          match getBytes len.toNat rest with
          | .error e => .error e
          | .ok (data, r) =>
            if !hasFrom then .error .decode
            else match fromBytes cls data with
              | .error e => .error e
              | .ok v => .ok (v, r)
/-- the `for _ in range(item_count)` loops of `decode_array` / `decode_structure`. -/
def decodeN (T : Table) : Nat → Nat → Bytes → Except Err (List PyVal × Bytes)
  | _, 0, inp => .ok ([], inp)
  | fuel, n + 1, inp =>
    match decodeItem T fuel inp with
    | .error e => .error e
    | .ok (v, r) =>
      match decodeN T fuel n r with
      | .error e => .error e
      | .ok (vs, r') => .ok (v :: vs, r')
end

/-- the `while not self.buffer_empty` loop of `decode_sequence`. -/
def decodeAll (T : Table) : Nat → Bytes → Except Err (List PyVal)
  | 0, inp => if inp.isEmpty then .ok [] else .error .decode
  | fuel + 1, inp =>
    if inp.isEmpty then .ok []
    else match decodeItem T (inp.length + 1) inp with
      | .error e => .error e
      | .ok (v, r) =>
        match decodeAll T fuel r with
        | .error e => .error e
        | .ok vs => .ok (v :: vs)

/-- `utils.parse_as_dlms_data`: a single value is returned as such, several as a list. -/
def parseAsDlmsData (T : Table) (inp : Bytes) : Except Err PyVal :=
  match decodeAll T (inp.length + 1) inp with
  | .error e => .error e
  | .ok [v] => .ok v
  | .ok vs => .ok (.list vs)

/-- `encode_variable_integer`. -/
def encodeVarInt (n : Nat) : Bytes := Spec.Axdr.lenPrefix n

/-- `<Data>.to_bytes()` for the classes with a `value_to_bytes` (others raise). -/
def toBytes (T : Table) (v : Spec.Axdr.Data) : Except Err Bytes :=
  let supported (tag : Nat) : Bool := (T.find? fun r => r.1 == tag).any fun r => r.2.2.2.2.1
  match v with
  | .u32 x => if supported 6 then (if x < 2 ^ 32 then .ok (6 :: beBytes 4 x) else .error .range) else .error .decode
  | .u16 x => if supported 18 then (if x < 2 ^ 16 then .ok (18 :: beBytes 2 x) else .error .range) else .error .decode
  | .i8 x => if supported 15 then (if -128 ≤ x ∧ x ≤ 127 then .ok (15 :: Spec.Axdr.twos 1 x) else .error .range) else .error .decode
  | .octets bs => if supported 9 then .ok (9 :: (encodeVarInt bs.length ++ bs)) else .error .decode
  | _ => .error .decode

end Model.Axdr
