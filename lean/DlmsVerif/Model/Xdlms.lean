/-
  Model of the tag-dispatching xDLMS decoder (connection.py: XDlmsApduFactory.apdu_from_bytes,
  the request/response factories of get.py / set.py / action.py and the from_bytes of the
  APDU classes) on inputs of the standard shape.  It returns the APDU *value* (Spec.Xdlms.Apdu);
  `none` = the input is refused.  Behaviour on malformed input beyond refusal is not part of
  C01 and is not modelled here (C07 takes the real decoder's verdict as a parameter).
-/
import DlmsVerif.Spec.Xdlms
import DlmsVerif.Model.Axdr
import DlmsVerif.Model.Time

namespace Model.Xdlms
open Dlms Spec.Xdlms

def invokeOf (b : UInt8) : Invoke :=
  let (i, c, h) := Spec.Fields.invokeFields b.toNat
  { id := i, confirmed := c, high := h }

def descOf (bs : Bytes) : Option Descriptor :=
  if bs.length = 9 then
    some { classId := beNat (bs.take 2), obis := ((bs.drop 2).take 6).map (·.toNat), index := (bs.drop 8).headD 0 |>.toNat }
  else none

/-- octet string: variable-length prefix then exactly that many bytes; returns (content, rest). -/
def takeOctets (inp : Bytes) : Option (Bytes × Bytes) :=
  match Model.Axdr.axdrLen inp with
  | .ok (n, rest) => if n ≤ rest.length then some (rest.take n, rest.drop n) else none
  | .error _ => none

def confOf (bs : Bytes) : Option (List Bool × Bytes) :=
  match bs with
  | 0x5F :: 0x1F :: 0x04 :: _unused :: c2 :: c1 :: c0 :: rest =>
    some (Spec.Fields.confDecode Spec.Fields.conformancePositions (beNat [c2, c1, c0]), rest)
  | _ => none

def gloOf (inp : Bytes) : Option (Nat × Nat × Bytes) :=
  match takeOctets inp with
  | some (sc :: i3 :: i2 :: i1 :: i0 :: ct, []) => some (sc.toNat, beNat [i3, i2, i1, i0], ct)
  | _ => none

def decode (inp : Bytes) : Option Apdu :=
  match inp with
  | 192 :: 1 :: inv :: rest =>
    (match descOf (rest.take 9), rest.drop 9 with
     | some d, [0] => some (.getRequestNormal (invokeOf inv) d none)
     | some d, 1 :: s => if s.isEmpty then none else some (.getRequestNormal (invokeOf inv) d (some s))
     | _, _ => none)
  | [192, 2, inv, b3, b2, b1, b0] => some (.getRequestNext (invokeOf inv) (beNat [b3, b2, b1, b0]))
  | 196 :: 1 :: inv :: 0 :: data => some (.getResponseNormal (invokeOf inv) data)
  | [196, 1, inv, 1, err] => some (.getResponseNormalWithError (invokeOf inv) err.toNat)
  | 196 :: 2 :: inv :: last :: b3 :: b2 :: b1 :: b0 :: 0 :: rest =>
    (match takeOctets rest with
     | some (data, []) =>
       if last.toNat = 0 then some (.getResponseWithBlock (invokeOf inv) (beNat [b3, b2, b1, b0]) data)
       else some (.getResponseLastBlock (invokeOf inv) (beNat [b3, b2, b1, b0]) data)
     | _ => none)
  | [196, 2, inv, last, b3, b2, b1, b0, 1, err] =>
    if last.toNat = 0 then none
    else some (.getResponseLastBlockWithError (invokeOf inv) (beNat [b3, b2, b1, b0]) err.toNat)
  | 193 :: 1 :: inv :: rest =>
    (match descOf (rest.take 9), rest.drop 9 with
     | some d, 0 :: data => some (.setRequestNormal (invokeOf inv) d data)
     | _, _ => none)
  | [197, 1, inv, result] => some (.setResponseNormal (invokeOf inv) result.toNat)
  | 195 :: 1 :: inv :: rest =>
    (match descOf (rest.take 9), rest.drop 9 with
     | some d, [0] => some (.actionRequestNormal (invokeOf inv) d [])
     | some d, 1 :: data => if data.isEmpty then none else some (.actionRequestNormal (invokeOf inv) d data)
     | _, _ => none)
  | [199, 1, inv, status, 0] => some (.actionResponseNormal (invokeOf inv) status.toNat)
  | 199 :: 1 :: inv :: status :: 1 :: 0 :: data => some (.actionResponseNormalWithData (invokeOf inv) status.toNat data)
  | [199, 1, inv, status, 1, 1, err] => some (.actionResponseNormalWithError (invokeOf inv) status.toNat err.toNat)
  | 15 :: s :: i2 :: i1 :: i0 :: rest =>
    let li : LongInvoke :=
      { id := beNat [i2, i1, i0], prioritized := s.toNat.testBit 7, confirmed := s.toNat.testBit 6,
        breakOnError := s.toNat.testBit 5, selfDescriptive := s.toNat.testBit 4 }
    (match rest with
     | 0 :: body => some (.dataNotification li none body)
     | 12 :: more =>
       if more.length < 12 then none
       else match Model.Time.decode (more.take 12) with
         | .ok (d, _) => some (.dataNotification li (some d) (more.drop 12))
         | .error _ => none
     | _ => none)
  | [216, state, service] => if service.toNat = 6 then none else some (.exceptionResponse state.toNat service.toNat 0)
  | [216, state, service, c3, c2, c1, c0] =>
    if service.toNat = 6 then some (.exceptionResponse state.toNat 6 (beNat [c3, c2, c1, c0])) else none
  | [14, choice, errType, errVal] =>
    if choice.toNat = 1 ∨ choice.toNat = 5 ∨ choice.toNat = 6 then
      some (.confirmedServiceError errType.toNat errVal.toNat)
    else none
  | 1 :: rest =>
    -- dedicated key
    let keyPart : Option (Bytes × Bytes) := match rest with
      | 0 :: r => some ([], r)
      | 1 :: r => takeOctets r
      | _ => none
    (match keyPart with
     | none => none
     | some (key, r1) =>
       let raPart : Option (Bool × Bytes) := match r1 with
         | 0 :: r => some (true, r)
         | 1 :: v :: r => some (v.toNat != 0, r)
         | _ => none
       match raPart with
       | none => none
       | some (ra, r2) =>
         let qosPart : Option (Nat × Bytes) := match r2 with
           | 0 :: r => some (0, r)
           | 1 :: q :: r => some (q.toNat, r)
           | _ => none
         match qosPart with
         | some (qos, version :: r3) =>
           (match confOf r3 with
            | some (conf, [m1, m0]) => some (.initiateRequest key ra qos version.toNat conf (beNat [m1, m0]))
            | _ => none)
         | _ => none)
  | 8 :: rest =>
    let qosPart : Option (Nat × Bytes) := match rest with
      | 0 :: r => some (0, r)
      | 1 :: q :: r => some (q.toNat, r)
      | _ => none
    (match qosPart with
     | some (qos, version :: r3) =>
       (match confOf r3 with
        | some (conf, [m1, m0, 0x00, 0x07]) => some (.initiateResponse qos version.toNat conf (beNat [m1, m0]))
        | _ => none)
     | _ => none)
  | 33 :: rest => (gloOf rest).map fun (sc, ic, ct) => .gloInitiateRequest sc ic ct
  | 40 :: rest => (gloOf rest).map fun (sc, ic, ct) => .gloInitiateResponse sc ic ct
  | 219 :: rest =>
    (match takeOctets rest with
     | some (title, r) => (gloOf r).map fun (sc, ic, ct) => .generalGlo title sc ic ct
     | none => none)
  | _ => none

end Model.Xdlms
