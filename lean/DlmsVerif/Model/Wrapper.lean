/-
  Model of dlms_cosem/protocol/wrappers.py (WrapperHeader, WrapperProtocolDataUnit) and of
  dlms_cosem/clients/blocking_tcp_transport.py (wrap / send / recv / _recv_exactly) over a
  scripted socket: a byte stream plus a *schedule* that says how many bytes each `recv`
  call may return at most (the operating system is free to return fewer bytes than asked).
-/
import DlmsVerif.Basic

namespace Model.Wrapper
open Dlms

structure Header where
  version : Nat := 1
  src : Nat
  dst : Nat
  length : Nat
  deriving DecidableEq, Repr

/-- `WrapperHeader.to_bytes` (each `int.to_bytes(2, "big")` raises OverflowError above 65535). -/
def Header.toBytes (h : Header) : Except Err Bytes :=
  if h.version < 65536 ∧ h.src < 65536 ∧ h.dst < 65536 ∧ h.length < 65536 then
    .ok (beBytes 2 h.version ++ beBytes 2 h.src ++ beBytes 2 h.dst ++ beBytes 2 h.length)
  else .error .range

/-- `WrapperHeader.from_bytes`. -/
def Header.fromBytes (bs : Bytes) : Except Err Header :=
  if bs.length ≠ 8 then .error .decode
  else .ok { version := beNat (bs.take 2), src := beNat ((bs.drop 2).take 2),
             dst := beNat ((bs.drop 4).take 2), length := beNat ((bs.drop 6).take 2) }

/-- `WrapperProtocolDataUnit.to_bytes`. -/
def pduToBytes (h : Header) (data : Bytes) : Except Err Bytes :=
  match h.toBytes with
  | .ok hb => .ok (hb ++ data)
  | .error e => .error e

/-- `WrapperProtocolDataUnit.from_bytes`: the length field must equal the payload length. -/
def pduFromBytes (bs : Bytes) : Except Err (Header × Bytes) :=
  match Header.fromBytes (bs.take 8) with
  | .error e => .error e
  | .ok h => if h.length = (bs.drop 8).length then .ok (h, bs.drop 8) else .error .decode

/-- `BlockingTcpTransport.wrap`: version 1, source = client, destination = server, exact length. -/
def wrap (client server : Nat) (apdu : Bytes) : Except Err Bytes :=
  pduToBytes { version := 1, src := client, dst := server, length := apdu.length } apdu

/-! ### the scripted socket -/

structure Sock where
  stream : Bytes            -- bytes the peer has sent and the transport has not read yet
  sched : List Nat          -- upper bounds for the successive reads (0 counts as 1)
  deriving Repr

/-- one `socket.recv(n)`: at least one byte (unless the stream is at its end), at most `n`,
    at most what the schedule allows for this call. -/
def Sock.recv (s : Sock) (n : Nat) : Bytes × Sock :=
  let cap := match s.sched with
    | [] => n
    | c :: _ => min n (max c 1)
  (s.stream.take cap, { stream := s.stream.drop cap, sched := s.sched.drop 1 })

/-- `_recv_exactly(length)`: keep reading until `length` bytes are there; an empty read
    (peer closed) is an error. `fuel` bounds the loop (every read returns at least a byte). -/
def recvExactly : Nat → Sock → Nat → Bytes → Except Err (Bytes × Sock)
  | 0, s, need, acc => if need = 0 then .ok (acc, s) else .error .client
  | fuel + 1, s, need, acc =>
    if need = 0 then .ok (acc, s)
    else
      let (chunk, s') := s.recv need
      if chunk.isEmpty then .error .client            -- CommunicationError
      else recvExactly fuel s' (need - chunk.length) (acc ++ chunk)

/-- `BlockingTcpTransport.recv`: header, then exactly the announced number of bytes. -/
def transportRecv (s : Sock) : Except Err (Bytes × Sock) :=
  match recvExactly 8 s 8 [] with
  | .error e => .error e
  | .ok (hb, s1) =>
    match Header.fromBytes hb with
    | .error e => .error e
    | .ok h => recvExactly h.length s1 h.length []

end Model.Wrapper
