/-
  Model of the ACSE decoders (aarq.py / aare.py / rlrq.py / rlre.py from_bytes with their
  PARSE_TAGS loop, acse/base.py AppContextName / MechanismName / AuthenticationValue /
  AuthFunctionalUnit, user_information.py, ber.py BER.decode) on inputs of the standard
  shape: the value (Spec.Acse structures) or a refusal.
-/
import DlmsVerif.Spec.Acse

namespace Model.Acse
open Dlms Spec.Acse

/-- the `while` loop over the components: (tag, content) pairs in order of appearance. -/
def components : Nat → Bytes → Option (List (UInt8 × Bytes))
  | 0, inp => if inp.isEmpty then some [] else none
  | fuel + 1, inp =>
    if inp.isEmpty then some []
    else match splitTlv inp with
      | none => none
      | some (tag, content, rest) => (components fuel rest).map fun cs => (tag, content) :: cs

/-- the dictionary the loop fills: the last occurrence of a tag wins. -/
def lookup (cs : List (UInt8 × Bytes)) (tag : UInt8) : Option Bytes :=
  (cs.reverse.find? fun c => c.1 == tag).map (·.2)

/-- exactly one TLV with the given tag spanning the whole input: its content. -/
def single (tag : UInt8) (inp : Bytes) : Option Bytes :=
  match splitTlv inp with
  | some (t, content, []) => if t == tag then some content else none
  | _ => none

/-- `AppContextName.from_bytes`: ciphered? (short-name referencing is refused). -/
def contextOf (inp : Bytes) : Option Bool :=
  match single 0x06 inp with
  | some oid =>
    if oid = oidPrefix ++ [1, 1] then some false
    else if oid = oidPrefix ++ [1, 3] then some true
    else none
  | none => none

/-- `MechanismName.from_bytes` (members 0..7 of AuthenticationMechanism). -/
def mechanismOf (inp : Bytes) : Option Nat :=
  match inp.reverse with
  | m :: revPrefix => if revPrefix.reverse = oidPrefix ++ [2] ∧ m.toNat ≤ 7 then some m.toNat else none
  | [] => none

/-- the authentication components: (mechanism, value). The mechanism counts only if the
    ACSE requirements are present as well. -/
def authOf (cs : List (UInt8 × Bytes)) (reqTag mechTag valTag : UInt8) : Option (Option Nat × Option Bytes) :=
  let req := lookup cs reqTag
  let mech : Option (Option Nat) := match lookup cs mechTag with
    | none => some none
    | some c => (mechanismOf c).map some
  let val : Option (Option Bytes) := match lookup cs valTag with
    | none => some none
    | some c => match splitTlv c with
      | some (t, pw, []) => if t == 0x80 ∨ t == 0x81 then some (some pw) else none
      | _ => none
  match mech, val with
  | some m, some v => some (if req.isSome then m else none, v)
  | _, _ => none

/-- AP-title / AE-qualifier: an OCTET STRING; the code strips the two header bytes. -/
def octetOf (c : Option Bytes) : Option Bytes := c.map (·.drop 2)

/-- user-information: OCTET STRING holding an xDLMS APDU the code knows (tags 1, 8, 14, 33, 40). -/
def userInfoOf (c : Bytes) : Option Bytes :=
  match single 0x04 c with
  | some u => match u.head? with
    | some t => if [1, 8, 14, 33, 40].contains t.toNat then some u else none
    | none => none
  | none => none

def allowed (cs : List (UInt8 × Bytes)) (tags : List Nat) : Bool := cs.all fun c => tags.contains c.1.toNat

def decodeAarq (tags : List Nat) (inp : Bytes) : Option Aarq :=
  match single 0x60 inp with
  | none => none
  | some body =>
    match components body.length body with
    | none => none
    | some cs =>
      if !allowed cs tags then none else
      match (lookup cs 0xA1).bind contextOf, authOf cs 0x8A 0x8B 0xAC, (lookup cs 0xBE).bind userInfoOf with
      | some ciph, some (mech, val), some ui =>
        some { ciphered := ciph, title := octetOf (lookup cs 0xA6), cert := octetOf (lookup cs 0xA7),
               mechanism := mech, authValue := val, userInfo := ui }
      | _, _, _ => none

def intOf (c : Bytes) : Option Nat :=
  match single 0x02 c with
  | some [v] => some v.toNat
  | _ => none

def decodeAare (tags : List Nat) (inp : Bytes) : Option Aare :=
  match single 0x61 inp with
  | none => none
  | some body =>
    match components body.length body with
    | none => none
    | some cs =>
      if !allowed cs tags then none else
      let diag : Option (Bool × Nat) := match lookup cs 0xA3 with
        | none => none
        | some c => match splitTlv c with
          | some (t, inner, []) =>
            if t == 0xA1 then (intOf inner).map fun v => (true, v)
            else if t == 0xA2 then (intOf inner).map fun v => (false, v)
            else none
          | _ => none
      let ui : Option (Option Bytes) := match lookup cs 0xBE with
        | none => some none
        | some c => (userInfoOf c).map some
      match (lookup cs 0xA1).bind contextOf, (lookup cs 0xA2).bind intOf, diag, authOf cs 0x88 0x89 0xAA, ui with
      | some ciph, some res, some (du, dv), some (mech, val), some u =>
        some { ciphered := ciph, result := res, diagUser := du, diag := dv, title := octetOf (lookup cs 0xA4),
               cert := octetOf (lookup cs 0xA5), mechanism := mech, authValue := val, userInfo := u }
      | _, _, _, _, _ => none

def decodeRelease (apduTag : UInt8) (tags : List Nat) (inp : Bytes) : Option Release :=
  match single apduTag inp with
  | none => none
  | some body =>
    match components body.length body with
    | none => none
    | some cs =>
      if !allowed cs tags then none else
      let reason : Option (Option Nat) := match lookup cs 0x80 with
        | none => some none
        | some [r] => some (some r.toNat)
        | some _ => none
      let ui : Option (Option Bytes) := match lookup cs 0xBE with
        | none => some none
        | some c => (userInfoOf c).map some
      match reason, ui with
      | some r, some u => some { reason := r, userInfo := u }
      | _, _ => none

end Model.Acse
