/-
  Bridge between the connection model and the abstract association procedure (Spec.Assoc):
  which abstract event a send / a decoded APDU is, and the names of the phases.
-/
import DlmsVerif.Model.Conn
import DlmsVerif.Spec.Assoc

namespace Model.ConnSpec
open Model.Conn Spec.Assoc

def phaseName : Phase → String
  | .noAssociation => "NO_ASSOCIATION"
  | .awaitingAssociationResponse => "AWAITING_ASSOCIATION_RESPONSE"
  | .ready => "READY"
  | .awaitingReleaseResponse => "AWAITING_RELEASE_RESPONSE"
  | .awaitingActionResponse => "AWAITING_ACTION_RESPONSE"
  | .awaitingGetResponse => "AWAITING_GET_RESPONSE"
  | .awaitingGetBlockResponse => "AWAITING_GET_BLOCK_RESPONSE"
  | .shouldAckLastGetBlock => "SHOULD_ACK_LAST_GET_BLOCK"
  | .awaitingSetResponse => "AWAITING_SET_RESPONSE"
  | .shouldSendHlsServerChallengeResult => "SHOULD_SEND_HLS_SEVER_CHALLENGE_RESULT"
  | .awaitingHlsClientChallengeResult => "AWAITING_HLS_CLIENT_CHALLENGE_RESULT"

def allPhases : List Phase :=
  [.noAssociation, .awaitingAssociationResponse, .ready, .awaitingReleaseResponse, .awaitingActionResponse,
   .awaitingGetResponse, .awaitingGetBlockResponse, .shouldAckLastGetBlock, .awaitingSetResponse,
   .shouldSendHlsServerChallengeResult, .awaitingHlsClientChallengeResult]

def phaseOfName (s : String) : Option Phase := allPhases.find? fun p => phaseName p == s

/-- the six request kinds of the alphabet. -/
def evOfSend : Kind → Option Ev
  | .aarq => some .sendAarq | .rlrq => some .sendRlrq | .getReq => some .sendGet
  | .getNext => some .sendGetNext | .setReq => some .sendSet | .actReq => some .sendAction
  | _ => none

/-- the response kinds of the alphabet; whether the meter's HLS proof is valid is decided by
    the connection's own check on its current state. -/
def evOfApdu (c : Config) (s : Conn) : Apdu → Option Ev
  | .aare result mech _ _ _ => some (.recvAare (!(result == 1 || result == 2)) (mech == some 5))
  | .rlre _ => some .recvRlre
  | .actRespData status d => some (.recvActionData (status == 0 && hlsValid c s d))
  | .ggc .. => none
  | .simple k =>
    match k with
    | .getRespNormal => some .recvGetNormal | .getRespErr => some .recvGetError
    | .getRespBlock => some .recvGetBlock | .getRespLastBlock => some .recvGetLastBlock
    | .getRespLastBlockErr => some .recvGetLastBlockError | .setResp => some .recvSet
    | .actResp => some .recvAction | .actRespErr => some .recvActionError
    | .exceptionResp => some .recvException | .dataNotif => some .recvDataNotification
    | .confirmedServiceErr => some .recvConfirmedServiceError | .initiateResp => some .recvInitiateResponse
    | _ => none

end Model.ConnSpec
