/-
  Model of dlms_cosem/parsers.py:
  ProfileGenericBufferParser.parse_entries (row/column walk with the running timestamp) and
  AssociationObjectListParser.parse_entries / parse_access_right (the latter as the graph
  extracted from the code).  Cells are abstract: what matters is whether a cell is null and,
  for a cell in a clock column, the timestamp its bytes decode to (C16).
-/
import DlmsVerif.Basic

namespace Model.Parsers
open Dlms

/-- a timestamp: microseconds on the local time line and an opaque zone tag that
    `datetime + timedelta` leaves unchanged. -/
structure Stamp where
  us : Int
  zone : Nat := 0
  deriving DecidableEq, Repr

/-- a transmitted cell: null, or a value with identity `id`; `ts` is the timestamp its bytes
    denote if they are a date-time (none = `datetime_from_bytes` would raise). -/
inductive Cell where
  | null
  | item (id : Nat) (ts : Option Stamp)
  deriving DecidableEq, Repr

inductive OutVal where
  | null
  | val (id : Nat)
  | time (t : Stamp)
  deriving DecidableEq, Repr

/-- a parsed cell: `None`, or `ColumnValue(attribute = capture_objects[col], value)`. -/
inductive Out where
  | nothing
  | bound (col : Nat) (v : OutVal)
  deriving DecidableEq, Repr

def addMinutes (t : Stamp) (period : Int) : Stamp := { t with us := t.us + period * 60000000 }

/-- the inner `for index, column in enumerate(entry)` loop; `idx` is the column index,
    `clocks` the remaining "is this column a clock attribute" flags. -/
def parseRow (period : Int) : Nat → List Bool → List Cell → Option Stamp → Except Err (List Out × Option Stamp)
  | _, _, [], last => .ok ([], last)
  | _, [], _ :: _, _ => .error .decode                 -- capture_objects[index] out of range (guarded by the width test)
  | idx, isClock :: clocks, cell :: cells, last =>
    let step : Except Err (Out × Option Stamp) :=
      match cell with
      | .item id ts =>
        if isClock then
          match ts with
          | none => .error .decode                     -- datetime_from_bytes raises
          | some t => .ok (.bound idx (.time t), some t)
        else .ok (.bound idx (.val id), last)
      | .null =>
        if isClock then
          match last with
          | some t => .ok (.bound idx (.time (addMinutes t period)), some (addMinutes t period))
          | none => .ok (.nothing, last)
        else .ok (.bound idx .null, last)
    match step with
    | .error e => .error e
    | .ok (o, last') =>
      match parseRow period (idx + 1) clocks cells last' with
      | .error e => .error e
      | .ok (os, last'') => .ok (o :: os, last'')

/-- `parse_entries`: rows in order, the running timestamp carried from row to row;
    a row whose width differs from the capture-object list is refused. -/
def parseEntriesFrom (period : Int) (clocks : List Bool) : List (List Cell) → Option Stamp → Except Err (List (List Out))
  | [], _ => .ok []
  | row :: rows, last =>
    if row.length ≠ clocks.length then .error .decode
    else match parseRow period 0 clocks row last with
      | .error e => .error e
      | .ok (out, last') =>
        match parseEntriesFrom period clocks rows last' with
        | .error e => .error e
        | .ok outs => .ok (out :: outs)

def parseEntries (period : Int) (clocks : List Bool) (rows : List (List Cell)) : Except Err (List (List Out)) :=
  parseEntriesFrom period clocks rows none

/-! ### association object list -/

structure AttrRight where
  attrId : Int
  mode : Nat
  selectors : Option (List Int) := none
  deriving DecidableEq, Repr

structure MethodRight where
  methodId : Int
  mode : Nat
  deriving DecidableEq, Repr

structure ObjIn where
  classId : Nat
  version : Nat
  logicalName : Bytes
  attrs : List AttrRight
  methods : List MethodRight
  deriving DecidableEq, Repr

structure ObjOut where
  classId : Nat
  version : Nat
  logicalName : List Nat
  attrs : List (Int × List Nat × List Int)     -- attribute ↦ (rights, selectors); dict insertion order
  methods : List (Int × List Nat)
  deriving DecidableEq, Repr

/-- Python dict built by `{k: v for …}`: a later entry with the same key replaces the value,
    the key keeps its first position. -/
def dictInsert {α} (d : List (Int × α)) (k : Int) (v : α) : List (Int × α) :=
  if d.any (·.1 == k) then d.map (fun e => if e.1 == k then (k, v) else e) else d ++ [(k, v)]

def parseObject (rights : List (List Nat)) (interfaces : List Nat) (o : ObjIn) : Except Err ObjOut :=
  if !interfaces.contains o.classId then .error .decode          -- CosemInterface(obj[0]) raises ValueError
  else if o.logicalName.length ≠ 6 then .error .decode           -- Obis.from_bytes
  else
    .ok { classId := o.classId, version := o.version, logicalName := o.logicalName.map (·.toNat),
          attrs := o.attrs.foldl (fun d a => dictInsert d a.attrId (rights.getD (a.mode % 256) [], a.selectors.getD [])) [],
          methods := o.methods.foldl (fun d m => dictInsert d m.methodId (rights.getD (m.mode % 256) [])) [] }

def parseObjects (rights : List (List Nat)) (interfaces : List Nat) : List ObjIn → Except Err (List ObjOut)
  | [] => .ok []
  | o :: os =>
    match parseObject rights interfaces o with
    | .error e => .error e
    | .ok x =>
      match parseObjects rights interfaces os with
      | .error e => .error e
      | .ok xs => .ok (x :: xs)

end Model.Parsers
