/-
  Model of dlms_cosem/crc.py (CRCCCITT.calculate_for / _calculate / init_crc_table,
  reverse_byte, reverse_byte_message), parameterised by the table and by the
  bit-reversal graph that extract.py reads out of the running code (Gen.Crc).
-/
import DlmsVerif.Basic

namespace Model.Crc

/-- `init_crc_table` for one index `i`, with polynomial constant `poly`
    (the c_ushort truncations are the BitVec 16 width). -/
def tableEntryLoop (poly : BitVec 16) : Nat → BitVec 16 → BitVec 16 → BitVec 16
  | 0, crc, _ => crc
  | n+1, crc, c =>
    let crc' := if ((crc ^^^ c) &&& 0x8000#16) != 0#16 then (crc <<< 1) ^^^ poly else crc <<< 1
    tableEntryLoop poly n crc' (c <<< 1)

def tableEntry (poly : BitVec 16) (i : Nat) : BitVec 16 :=
  tableEntryLoop poly 8 0#16 (BitVec.ofNat 16 (i * 256))

/-- the whole table as `init_crc_table` would build it. -/
def initTable (poly : BitVec 16) : List Nat :=
  (List.range 256).map fun i => (tableEntry poly i).toNat

/-- `reverse_byte` as arithmetic: sum of bit i moved to position 7-i. -/
def reverseByte (b : Nat) : Nat :=
  (List.range 8).foldl (fun acc i => acc + ((b &&& (2 ^ i)) >>> i) * 2 ^ (7 - i)) 0

/-- one iteration of the loop in `_calculate`.  `crc_value` stays below 2^16 (it is
    masked with 0xFF00 and XORed with a 16-bit table entry) and `c` is a byte, so both are
    modelled as 16-bit vectors; the table index is `tmp`. -/
def calcStep (table : List Nat) (crc : BitVec 16) (c : BitVec 16) : BitVec 16 :=
  let tmp := ((crc >>> 8) &&& 0xFF#16) ^^^ c
  let shifted := (crc <<< 8) &&& 0xFF00#16
  shifted ^^^ BitVec.ofNat 16 (table.getD tmp.toNat 0)

def calculate (table : List Nat) (start : Nat) (data : List (BitVec 16)) : BitVec 16 :=
  data.foldl (calcStep table) (BitVec.ofNat 16 start)

/-- `calculate_for(input, lsb_first)`. -/
def calculateFor (table rev : List Nat) (start : Nat) (m : Bytes) (lsbFirst : Bool := false) : Bytes :=
  let reversed := m.map fun b => BitVec.ofNat 16 (rev.getD b.toNat 0)
  let crc := calculate table start reversed
  let lsbRev := (crc &&& 0x00FF#16).toNat
  let lsb := rev.getD lsbRev 0 ^^^ 0xFF
  let msbRev := ((crc &&& 0xFF00#16) >>> 8).toNat
  let msb := rev.getD msbRev 0 ^^^ 0xFF
  if lsbFirst then [UInt8.ofNat lsb, UInt8.ofNat msb] else [UInt8.ofNat msb, UInt8.ofNat lsb]

end Model.Crc
