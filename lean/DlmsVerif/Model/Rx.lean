/-
  Model of the receive path of dlms_cosem/hdlc/connection.py:
  HdlcConnection.receive_data / next_event / _find_frame / _tidy_buffer
  (buffer + buffer_search_position).  The frame parser — in the code chosen by the link
  state through PARSE_METHODS, returning None on HdlcParsingError — is a parameter.
-/
import DlmsVerif.Basic

namespace Model.Rx

structure Rx where
  buf : Bytes := []
  pos : Nat := 1
  deriving DecidableEq, Repr

/-- `bytearray.index(b"\x7e", start)`: position of the first flag at or after `start`. -/
def indexFrom : Bytes → Nat → Option Nat
  | [], _ => none
  | b :: bs, 0 => if b == 0x7E then some 0 else (indexFrom bs 0).map (· + 1)
  | _ :: bs, n + 1 => (indexFrom bs n).map (· + 1)

/-- `receive_data`. -/
def receive (s : Rx) (chunk : Bytes) : Rx := { s with buf := s.buf ++ chunk }

/-- `_find_frame`: candidate bytes (with the prepend-flag rule) and the advanced search position. -/
def findFrame (s : Rx) : Option (Bytes × Rx) :=
  match indexFrom s.buf s.pos with
  | none => none
  | some i =>
    let frameEnd := i + 1
    let fb := s.buf.take frameEnd
    let fb := if fb.head? == some 0x7E then fb else 0x7E :: fb
    some (fb, { s with pos := frameEnd })

/-- one `next_event()`: `none` = NEED_DATA. -/
def poll {F : Type} (parse : Bytes → Option F) (s : Rx) : Rx × Option F :=
  match findFrame s with
  | none => (s, none)
  | some (fb, s') =>
    match parse fb with
    | none => (s', none)
    | some f => ({ buf := s'.buf.drop s'.pos, pos := 1 }, some f)      -- `_tidy_buffer`

/-- is a further poll worthwhile: is there a flag at or after the search position? -/
def pending (s : Rx) : Bool := (indexFrom s.buf s.pos).isSome

/-- poll until nothing is pending, collecting the delivered frames (fuel bounds the loop:
    every poll either advances the search position or consumes the candidate). -/
def drainAux {F : Type} (parse : Bytes → Option F) : Nat → Rx → List F → Rx × List F
  | 0, s, acc => (s, acc)
  | fuel + 1, s, acc =>
    if pending s then
      match poll parse s with
      | (s', none) => drainAux parse fuel s' acc
      | (s', some f) => drainAux parse fuel s' (acc ++ [f])
    else (s, acc)

def drain {F : Type} (parse : Bytes → Option F) (s : Rx) : Rx × List F :=
  drainAux parse (s.buf.length + 1) s []

/-- hand over the chunks one by one, draining after each. -/
def feed {F : Type} (parse : Bytes → Option F) (chunks : List Bytes) (s : Rx := {}) : Rx × List F :=
  chunks.foldl (fun (acc : Rx × List F) c =>
    let r := drain parse (receive acc.1 c)
    (r.1, acc.2 ++ r.2)) (s, [])

end Model.Rx
