/-
  Models of the field codecs whose domain is too large for a complete graph:
  Conformance.to_bytes/from_bytes (parameterised by the extracted table),
  DlmsHdlcFrameFormatField, LongInvokeIdAndPriority, Obis.
-/
import DlmsVerif.Basic

namespace Model.Fields
open Dlms

/-- `Conformance.to_bytes`: sum of `1 << position` over the set flags, prefixed by the
    unused-bits byte.  `flags` is aligned with the table order. -/
def confSum : List Nat → List Bool → Nat
  | p :: ps, f :: fs => (if f then 2 ^ p else 0) + confSum ps fs
  | _, _ => 0

def confToBytes (positions : List Nat) (flags : List Bool) : Except Err Bytes :=
  let v := confSum positions flags
  if v < 2 ^ 24 then .ok (0 :: beBytes 3 v) else .error .range

/-- `Conformance.from_bytes`: the first byte (unused-bits count) is skipped. -/
def confFromBytes (positions : List Nat) (bs : Bytes) : List Bool :=
  let w := beNat (bs.drop 1)
  positions.map fun p => w &&& (2 ^ p) != 0

/-- `DlmsHdlcFrameFormatField.to_bytes` (validator: 0 ≤ length ≤ 0x7FF). -/
def fmtToBytes (len : Nat) (seg : Bool) : Except Err Bytes :=
  if len > 0x7FF then .error .range
  else
    let total := 0xA000 ||| len
    let total := if seg then total ||| 0x0800 else total
    .ok (beBytes 2 total)

/-- `DlmsHdlcFrameFormatField.from_bytes`. -/
def fmtFromBytes (bs : Bytes) : Except Err (Nat × Bool) :=
  match bs with
  | [b0, b1] =>
    if b0.toNat &&& 0xF0 != 0xA0 then .error .parse     -- HdlcParsingError
    else
      let seg := b0.toNat &&& 0x08 != 0
      let len := beNat [b0, b1] &&& 0x07FF
      .ok (len, seg)
  | _ => .error .parse

/-- `LongInvokeIdAndPriority.to_bytes`: status byte then 3-byte id (`to_bytes(3)` raises above 2^24-1). -/
def longInvokeStatus (prio conf brk selfd : Bool) : Nat :=
  (if prio then 0x80 else 0) ||| (if conf then 0x40 else 0) |||
    (if brk then 0x20 else 0) ||| (if selfd then 0x10 else 0)

def longInvokeToBytes (id : Nat) (prio conf brk selfd : Bool) : Except Err Bytes :=
  if id < 2 ^ 24 then .ok (UInt8.ofNat (longInvokeStatus prio conf brk selfd) :: beBytes 3 id)
  else .error .range

def longInvokeFromBytes (bs : Bytes) : Except Err (Nat × Bool × Bool × Bool × Bool) :=
  match bs with
  | [s, a, b, c] =>
    .ok (beNat [a, b, c], s.toNat &&& 0x80 != 0, s.toNat &&& 0x40 != 0, s.toNat &&& 0x20 != 0,
         s.toNat &&& 0x10 != 0)
  | _ => .error .decode

/-- `Obis.to_bytes` / `from_bytes`: six numbers ↔ six bytes (`bytearray([...])` raises above 255). -/
def obisToBytes (o : List Nat) : Except Err Bytes :=
  if o.length = 6 ∧ o.all (· < 256) then .ok (o.map UInt8.ofNat) else .error .range

def obisFromBytes (bs : Bytes) : Except Err (List Nat) :=
  if bs.length = 6 then .ok (bs.map (·.toNat)) else .error .decode

/-- `Obis.dotted_repr`. -/
def obisDotted (o : List Nat) : String := ".".intercalate (o.map toString)

/-- `Obis.from_dotted` on well-formed input (six decimal numbers). -/
def obisFromDotted (s : String) : Except Err (List Nat) :=
  let parts := s.splitOn "."
  if parts.length ≠ 6 then .error .decode
  else match parts.mapM (fun p => p.trimAscii.toString.toNat?) with
    | some ns => .ok ns
    | none => .error .decode

end Model.Fields
