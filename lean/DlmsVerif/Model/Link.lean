/-
  Model of dlms_cosem/hdlc/connection.py: HdlcConnection.send / next_event (at the level
  of already-framed frame kinds) / handle_sequence_numbers, and of
  hdlc/state.py: HdlcConnectionState._transition_state, parameterised by the tables
  extract.py reads out of the code (Gen.Tables).
-/
import DlmsVerif.Basic

namespace Model.Link
open Dlms

structure Tables where
  transitions : List (String × String × String)
  sendStates : List String
  parseMethods : List (String × String)

structure St where
  state : String
  clientSsn : Nat := 0
  clientRsn : Nat := 0
  serverSsn : Nat := 0
  serverRsn : Nat := 0
  deriving DecidableEq, Repr

inductive Res where
  | accepted
  | needData
  | err (e : Err)
  deriving DecidableEq, Repr

def lookup (tbl : List (String × String × String)) (st k : String) : Option String :=
  (tbl.find? fun r => r.1 == st && r.2.1 == k).map (·.2.2)

/-- `+= 1` followed by `if > 7: = 0`. -/
def bump (n : Nat) : Nat := if n + 1 > 7 then 0 else n + 1

def iName : String := "InformationFrame"
def uaName : String := "UnNumberedAcknowledgmentFrame"
def rrName : String := "ReceiveReadyFrame"

/-- `HdlcConnection.send(frame)`. -/
def send (T : Tables) (s : St) (k : String) (ssn rsn : Nat) : St × Res :=
  if !T.sendStates.contains s.state then (s, .err .protocol)
  else if k == iName && (ssn != s.serverSsn || rsn != s.serverRsn) then (s, .err .protocol)
  else match lookup T.transitions s.state k with
    | none => (s, .err .protocol)
    | some st' =>
      if k == iName then
        ({ s with state := st', serverSsn := bump s.serverSsn, clientRsn := bump s.clientRsn }, .accepted)
      else ({ s with state := st' }, .accepted)

/-- `HdlcConnection.next_event()` when the buffer holds exactly one well-formed frame of
    kind `k` addressed to the client. -/
def recv (T : Tables) (s : St) (k : String) (ssn rsn : Nat) : St × Res :=
  match (T.parseMethods.find? fun r => r.1 == s.state).map (·.2) with
  | none => (s, .err .decode)                      -- PARSE_METHODS[state] raises KeyError
  | some pm =>
    if pm == "read_ua_frame" then
      if k == uaName then
        match lookup T.transitions s.state k with
        | none => (s, .err .protocol)
        | some st' => ({ s with state := st' }, .accepted)
      else (s, .needData)                          -- HCS/FCS of the re-encoding differ
    else
      if k == iName then
        if ssn != s.clientSsn || rsn != s.clientRsn then (s, .err .protocol)
        else match lookup T.transitions s.state k with
          | none => (s, .err .protocol)
          | some st' =>
            ({ s with state := st', serverRsn := bump s.serverRsn, clientSsn := bump s.clientSsn }, .accepted)
      else if pm == "read_response_frame" && k == rrName then
        -- not an information control byte: tried as receive-ready (acknowledges a segment; no counter moves)
        match lookup T.transitions s.state k with
        | none => (s, .err .protocol)
        | some st' => ({ s with state := st' }, .accepted)
      else (s, .err .decode)                       -- control byte is not an I (/ RR) control byte

end Model.Link
