/-
  Model of dlms_cosem/security.py: SecurityControlField, validate_key, encrypt, decrypt,
  gmac, wrap_key, unwrap_key.  The block cipher is a parameter (`E key block`, `D key block`);
  the driver runs it with Spec.Aes.  The key-length table and the tag length are parameters
  too (Gen.Misc, regenerated from the code).
-/
import DlmsVerif.Basic
import DlmsVerif.Spec.Gcm

namespace Model.Security
open Dlms

structure SC where
  suite : Nat
  authenticated : Bool := false
  encrypted : Bool := false
  broadcast : Bool := false
  compressed : Bool := false
  deriving DecidableEq, Repr

/-- `SecurityControlField.to_bytes()`. -/
def SC.toByte (s : SC) : UInt8 :=
  UInt8.ofNat (s.suite + (if s.authenticated then 16 else 0) + (if s.encrypted then 32 else 0) +
    (if s.broadcast then 64 else 0) + (if s.compressed then 128 else 0))

/-- `SecurityControlField.from_bytes()` (the attrs validator refuses suites above 2). -/
def SC.ofByte (v : Nat) : Except Err SC :=
  if v % 16 > 2 then .error .decode
  else .ok { suite := v % 16, authenticated := v / 16 % 2 == 1, encrypted := v / 32 % 2 == 1,
             broadcast := v / 64 % 2 == 1, compressed := v / 128 % 2 == 1 }

structure Params where
  keyLengths : List (Nat × Nat)
  tagLength : Nat

/-- `validate_key(suite, key)`: KeyError for an unknown suite, ValueError for a wrong length. -/
def validateKey (P : Params) (suite : Nat) (key : Bytes) : Bool :=
  match P.keyLengths.find? (·.1 == suite) with
  | some (_, n) => key.length == n
  | none => false

/-- the checks `encrypt`, `decrypt` and `gmac` make before touching the cipher. -/
def argsOk (P : Params) (sc : SC) (title : Bytes) (ic : Nat) (key ak : Bytes) : Bool :=
  title.length == 8 && ic < 2 ^ 32 && validateKey P sc.suite key && validateKey P sc.suite ak

def iv (title : Bytes) (ic : Nat) : Bytes := title ++ beBytes 4 ic
def aad (sc : SC) (ak : Bytes) : Bytes := sc.toByte :: ak

/-- `security.encrypt`. -/
def encrypt (P : Params) (E : Bytes → Bytes → Bytes) (sc : SC) (title : Bytes) (ic : Nat) (key pt ak : Bytes) : Except Err Bytes :=
  if !sc.encrypted && !sc.authenticated then .error .decode                -- NotImplementedError
  else if !argsOk P sc title ic key ak then .error .decode
  else
    let r := Spec.Gcm.encrypt (E key) (iv title ic) (aad sc ak) pt
    .ok (r.1 ++ r.2.take P.tagLength)

/-- `security.decrypt`. -/
def decrypt (P : Params) (E : Bytes → Bytes → Bytes) (sc : SC) (title : Bytes) (ic : Nat) (key ct ak : Bytes) : Except Err Bytes :=
  if !sc.encrypted && !sc.authenticated then .error .decode
  else if !argsOk P sc title ic key ak then .error .decode
  else if ct.length < 12 then .error .decode                                -- the GCM mode refuses a tag shorter than 12 bytes
  else
    match Spec.Gcm.decrypt (E key) (iv title ic) (aad sc ak) (ct.take (ct.length - 12)) (ct.drop (ct.length - 12)) with
    | some pt => .ok pt
    | none => .error .auth                                                  -- InvalidTag -> DecryptionError

/-- `security.gmac`. -/
def gmac (P : Params) (E : Bytes → Bytes → Bytes) (sc : SC) (title : Bytes) (ic : Nat) (key ak challenge : Bytes) : Except Err Bytes :=
  if sc.encrypted then .error .protection                                   -- CipheringError
  else if !argsOk P sc title ic key ak then .error .decode
  else .ok ((Spec.Gcm.encrypt (E key) (iv title ic) (aad sc ak ++ challenge) []).2.take P.tagLength)

/-- `security.wrap_key`. -/
def wrapKey (P : Params) (E : Bytes → Bytes → Bytes) (sc : SC) (kek key : Bytes) : Except Err Bytes :=
  if !validateKey P sc.suite kek || !validateKey P sc.suite key then .error .decode
  else .ok (Spec.Gcm.wrap (E kek) key)

/-- `security.unwrap_key`: the wrapping key is validated, the text unwrapped (at least 24
    bytes, a multiple of 8, integrity check), and the result must be a key of the suite. -/
def unwrapKey (P : Params) (D : Bytes → Bytes → Bytes) (sc : SC) (kek wrapped : Bytes) : Except Err Bytes :=
  if !validateKey P sc.suite kek then .error .decode
  else if wrapped.length < 24 || wrapped.length % 8 != 0 then .error .auth     -- InvalidUnwrap
  else match Spec.Gcm.unwrap (D kek) wrapped with
    | none => .error .auth
    | some k => if validateKey P sc.suite k then .ok k else .error .decode

/-! The ideal primitive (DESIGN.md §5b): a sealed text is the term of its four inputs. -/

structure Sealed where
  key : Bytes
  iv : Bytes
  aad : Bytes
  pt : Bytes
  deriving DecidableEq, Repr

/-- what an attacker can present: a genuine sealed text, or anything else (altered,
    truncated, made up) - which authenticates under nothing. -/
inductive Text where
  | genuine (s : Sealed)
  | other (id : Nat)
  deriving DecidableEq, Repr

def encryptIdeal (P : Params) (sc : SC) (title : Bytes) (ic : Nat) (key pt ak : Bytes) : Except Err Text :=
  if !sc.encrypted && !sc.authenticated then .error .decode
  else if !argsOk P sc title ic key ak then .error .decode
  else .ok (.genuine { key := key, iv := iv title ic, aad := aad sc ak, pt := pt })

def decryptIdeal (P : Params) (sc : SC) (title : Bytes) (ic : Nat) (key : Bytes) (ct : Text) (ak : Bytes) : Except Err Bytes :=
  if !sc.encrypted && !sc.authenticated then .error .decode
  else if !argsOk P sc title ic key ak then .error .decode
  else match ct with
    | .genuine s => if s.key = key ∧ s.iv = iv title ic ∧ s.aad = aad sc ak then .ok s.pt else .error .auth
    | .other _ => .error .auth

end Model.Security
