/-
  Model of dlms_cosem/hdlc/frames.py: `to_bytes` of the six frame classes and `from_bytes`
  of the five that have a parser (UA, RR, I, DISC, UI), including
  `frame_is_enclosed_by_hdlc_flags`, `frame_has_correct_length` and
  `BaseHdlcFrame.validate_check_sequences`.  The check-sequence function is a parameter.
-/
import DlmsVerif.Model.Addr
import DlmsVerif.Model.Fields
import DlmsVerif.Spec.Hdlc

namespace Model.Hdlc
open Dlms Spec.Hdlc

/-- Python slice `l[a:b]` with possibly negative bounds. -/
def pyIdx (n : Nat) (i : Int) : Nat :=
  if i < 0 then (Int.toNat (n + i)) else min i.toNat n

def pySlice {α} (l : List α) (a b : Int) : List α :=
  let a' := pyIdx l.length a
  let b' := pyIdx l.length b
  (l.drop a').take (b' - a')

/-- what a parsed frame object holds. -/
structure Parsed where
  dstL : Nat
  dstP : Option Nat
  srcL : Nat
  srcP : Option Nat
  ssn : Nat := 0
  rsn : Nat := 0
  final : Bool := true
  segmented : Bool := false
  payload : Bytes := []
  deriving DecidableEq, Repr

/-- the frame classes that have a `from_bytes`. -/
inductive PKind where
  | ua | rr | i | disc | ui
  deriving DecidableEq, Repr

def PKind.toKind : PKind → Kind
  | .ua => .ua | .rr => .rr | .i => .i | .disc => .disc | .ui => .ui

/-- `frame_is_enclosed_by_hdlc_flags` (IndexError on an empty string). -/
def enclosed (fb : Bytes) : Except Err Bool :=
  match fb.head?, fb.getLast? with
  | some f, some l => .ok (f == l && f == 0x7E)
  | _, _ => .error .decode

/-- `validate_check_sequences(frame_bytes, hcs_position)`. -/
def checkSequences (crc : Bytes → Bytes) (fb : Bytes) (hcsPos : Option Nat) : Bool :=
  (match hcsPos with
   | some p => pySlice fb p (p + 2) == crc (pySlice fb 1 p)
   | none => true) &&
  pySlice fb (-3) (-1) == crc (pySlice fb 1 (-3))

def mkAddr (l : Nat) (p : Option Nat) (client : Bool) : Model.Addr.Addr :=
  { logical := l, physical := p, isClient := client }

def parse (crc : Bytes → Bytes) (k : PKind) (fb : Bytes) : Except Err Parsed :=
  match enclosed fb with
  | .error e => .error e
  | .ok false => .error .parse
  | .ok true =>
  match Model.Fields.fmtFromBytes (pySlice fb 1 3) with
  | .error _ => .error .parse
  | .ok (len, seg) =>
  if len + 2 ≠ fb.length then .error .parse else
  match Model.Addr.find fb with
  | .error e => .error e
  | .ok ((dl, dp, dn), (sl, sp, sn)) =>
  let dstClient := k != .disc
  if !Model.Addr.accepted (mkAddr dl dp dstClient) then .error .decode else
  if !Model.Addr.accepted (mkAddr sl sp (!dstClient)) then .error .decode else
  -- the code locates the control byte with the lengths of the *re-encoded* addresses
  -- (`HdlcAddress.length` = `len(self.to_bytes())`), not with the lengths found in the frame
  let _ := dn
  let _ := sn
  let ctlPos := 3 + (Model.Addr.encodeNat (mkAddr dl dp dstClient)).length +
    (Model.Addr.encodeNat (mkAddr sl sp (!dstClient))).length
  let hcsPos := ctlPos + 1
  let base : Parsed := { dstL := dl, dstP := dp, srcL := sl, srcP := sp, segmented := seg }
  match k with
  | .ua =>
    if pySlice fb ctlPos (ctlPos + 1) != [UInt8.ofNat Spec.Fields.uaControl] then .error .parse
    else if !checkSequences crc fb (some hcsPos) then .error .parse
    else .ok { base with payload := pySlice fb (hcsPos + 2) (-3) }
  | .disc =>
    if pySlice fb ctlPos (ctlPos + 1) != [UInt8.ofNat Spec.Fields.discControl] then .error .parse
    else if !checkSequences crc fb none then .error .parse
    else .ok base
  | .rr =>
    match pySlice fb ctlPos (ctlPos + 1) with
    | [c] =>
      if c.toNat % 16 != 1 then .error .decode
      else if !checkSequences crc fb none then .error .parse
      else .ok { base with rsn := c.toNat / 32 }
    | _ => .error .decode
  | .i =>
    match pySlice fb ctlPos (ctlPos + 1) with
    | [c] =>
      match Spec.Fields.iFields c.toNat with
      | none => .error .decode
      | some (ssn, rsn, fin) =>
        if !checkSequences crc fb (some hcsPos) then .error .parse
        else .ok { base with ssn := ssn, rsn := rsn, final := fin, payload := pySlice fb (hcsPos + 2) (-3) }
    | _ => .error .decode
  | .ui =>
    match pySlice fb ctlPos (ctlPos + 1) with
    | [c] =>
      if c.toNat % 16 != 3 || c.toNat / 32 != 0 then .error .decode
      else if !checkSequences crc fb (some hcsPos) then .error .parse
      else .ok { base with final := c.toNat.testBit 4, payload := pySlice fb (hcsPos + 2) (-3) }
    | _ => .error .decode

/-- `to_bytes` of the frame classes (attributes given as a `Spec.Hdlc.Frame`). -/
def serialize (crc : Bytes → Bytes) (f : Frame) : Except Err Bytes :=
  let toAddr : Spec.Addr.Address → Model.Addr.Addr
    | .client a => mkAddr a none true
    | .server l p => mkAddr l p false
  match Model.Addr.encode (toAddr f.dst), Model.Addr.encode (toAddr f.src) with
  | .ok d, .ok s =>
    match control f with
    | none => .error .range
    | some ctl =>
      let inf := info f
      let fixed := if f.kind.hasInfo then 7 else 5
      match Model.Fields.fmtToBytes (fixed + d.length + s.length + inf.length) f.segmented with
      | .error e => .error e
      | .ok fmt =>
        let header := fmt ++ d ++ s ++ [UInt8.ofNat ctl]
        let content := if f.kind.hasInfo then header ++ crc header ++ inf else header
        .ok (0x7E :: content ++ crc content ++ [0x7E])
  | _, _ => .error .range

/-- the parsed object seen as a frame value of kind `k` (address types are fixed by the parser). -/
def Parsed.toFrame (k : PKind) (p : Parsed) : Frame :=
  let client (l : Nat) (_ : Option Nat) : Spec.Addr.Address := .client l
  let server (l : Nat) (q : Option Nat) : Spec.Addr.Address := .server l q
  { kind := k.toKind,
    dst := if k == .disc then server p.dstL p.dstP else client p.dstL p.dstP,
    src := if k == .disc then client p.srcL p.srcP else server p.srcL p.srcP,
    ssn := p.ssn, rsn := p.rsn, final := p.final, segmented := p.segmented, payload := p.payload }

end Model.Hdlc
