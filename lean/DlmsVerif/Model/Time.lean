/-
  Model of dlms_cosem/time.py: datetime_to_bytes / date_to_bytes / time_to_bytes and
  datetime_from_bytes / date_from_bytes / time_from_bytes with get_optional_value, the
  validate_* functions, utc_offset_minutes, and the checks Python's date/time/datetime
  constructors perform (assumed as restated in Spec.DateTime: proleptic Gregorian calendar,
  year 1..9999).  The clock status byte is passed through (its bit layout is C20).
-/
import DlmsVerif.Spec.DateTime

namespace Model.Time
open Dlms Spec.DateTime

/-- `datetime_to_bytes(dt, clock_status)` for a datetime with a whole-minute offset. -/
def encode (d : DT) (status : Nat) : Bytes :=
  let dateB := beBytes 2 d.year ++ [UInt8.ofNat d.month, UInt8.ofNat d.day, 0xFF]
  let timeB : Bytes := [UInt8.ofNat d.hour, UInt8.ofNat d.minute, UInt8.ofNat d.second, UInt8.ofNat (d.micro / 10000)]
  let tz : Bytes := match d.offset with
    | none => [0x80, 0x00]
    | some o => beBytes 2 (twos16 (-o))       -- int(-(offset)).to_bytes(2, "big", signed=True)
  dateB ++ timeB ++ tz ++ [UInt8.ofNat status]

/-- `get_optional_value(v, b"\xff", replace_with)` on one byte. -/
def optByte (v : Nat) (replace : Option Nat) : Option Nat := if v == 0xFF then replace else some v

def inRange (lo hi : Nat) : Option Nat → Bool
  | none => true
  | some v => lo ≤ v && v ≤ hi

/-- `datetime_from_bytes`: the decoded value and the status byte, or a refusal
    (ValueError / TypeError from the validators or the constructors). -/
def decode (bs : Bytes) : Except Err (DT × Nat) :=
  match bs.map (·.toNat) with
  | [y1, y0, mo, da, wd, ho, mi, se, hu, d1, d0, st] =>
    let year := if y1 * 256 + y0 == 0xFFFF then none else some (y1 * 256 + y0)
    let month := optByte mo none
    let day := optByte da none
    let weekday := optByte wd none
    if !(inRange 1 12 month && inRange 1 31 day && inRange 1 7 weekday) then .error .decode else
    match year, month, day with
    | some y, some m, some d =>
      if !(1 ≤ y && y ≤ 9999 && d ≤ daysIn y m) then .error .decode else      -- date(year, month, day)
      let hour := optByte ho (some 0)
      let minute := optByte mi (some 0)
      let second := optByte se (some 0)
      let hundredths := optByte hu (some 0)
      if !(inRange 0 23 hour && inRange 0 59 minute && inRange 0 59 second && inRange 0 99 hundredths) then .error .decode else
      let raw := d1 * 256 + d0
      let signed : Int := if raw ≥ 32768 then (raw : Int) - 65536 else raw
      let deviation : Option Int := if signed == -32768 then none else some signed
      if !(match deviation with | none => true | some v => -840 ≤ v && v ≤ 840) then .error .decode else
      .ok ({ year := y, month := m, day := d, hour := hour.getD 0, minute := minute.getD 0,
             second := second.getD 0, micro := hundredths.getD 0 * 10000,
             offset := deviation.map (fun v => -v) }, st)
    | _, _, _ => .error .decode               -- date(None, …) raises TypeError
  | _ => .error .decode

end Model.Time

namespace Model.Time
open Dlms Spec.DateTime

/-- `date_from_bytes` on 5 bytes: (year, month, day). -/
def decodeDate (bs : Bytes) : Except Err (Nat × Nat × Nat) :=
  match bs.map (·.toNat) with
  | [y1, y0, mo, da, wd] =>
    let year := if y1 * 256 + y0 == 0xFFFF then none else some (y1 * 256 + y0)
    let month := optByte mo none
    let day := optByte da none
    let weekday := optByte wd none
    if !(inRange 1 12 month && inRange 1 31 day && inRange 1 7 weekday) then .error .decode else
    match year, month, day with
    | some y, some m, some d =>
      if !(1 ≤ y && y ≤ 9999 && d ≤ daysIn y m) then .error .decode else .ok (y, m, d)
    | _, _, _ => .error .decode
  | _ => .error .decode

/-- `time_from_bytes` on 4 bytes: (hour, minute, second, microsecond). -/
def decodeTime (bs : Bytes) : Except Err (Nat × Nat × Nat × Nat) :=
  match bs.map (·.toNat) with
  | [ho, mi, se, hu] =>
    let hour := optByte ho (some 0)
    let minute := optByte mi (some 0)
    let second := optByte se (some 0)
    let hundredths := optByte hu (some 0)
    if !(inRange 0 23 hour && inRange 0 59 minute && inRange 0 59 second && inRange 0 99 hundredths) then .error .decode
    else .ok (hour.getD 0, minute.getD 0, second.getD 0, hundredths.getD 0 * 10000)
  | _ => .error .decode

end Model.Time
