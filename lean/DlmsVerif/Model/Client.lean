/-
  Model of dlms_cosem/clients/dlms_client.py: DlmsClient.send / next_event / get / set /
  action / associate (incl. the HLS reply step) / release_association over a scripted
  transport (`io_interface.send` answers with the next APDU of a script), on top of the
  association state machine (the transition table is Gen.Tables.dlmsTransitions, passed in).
  Protection is transparent here (C04/C06/C07 are about it; the correspondence check also
  runs the real client with ciphering on): an answer is the event `next_event` returns.
-/
import DlmsVerif.Basic

namespace Model.Client
open Dlms

/-- how the proof in an HLS answer verifies (the harness builds answers of each quality). -/
inductive ProofQ where
  | valid | invalid | unparsable     -- unparsable: not an octet string at all (the client's own parse raises)
  deriving DecidableEq, Repr

/-- what the meter answers: the APDU `next_event` decodes (after removing protection). -/
inductive Ev where
  | getNormal (inv : Nat) (data : Bytes)
  | getErr (inv : Nat) (err : Nat)
  | getBlock (inv : Nat) (no : Nat) (data : Bytes)
  | getLast (inv : Nat) (no : Nat) (data : Bytes)
  | getLastErr (inv : Nat) (no : Nat) (err : Nat)
  | setResp (inv : Nat) (result : Nat)
  | actResp (inv : Nat) (status : Nat)
  | actRespData (inv : Nat) (status : Nat) (data : Bytes) (q : ProofQ)
  | actRespErr (inv : Nat) (status : Nat) (err : Nat)
  | exception (stateErr : Nat) (serviceErr : Nat)
  | aare (result : Nat) (hls : Bool)
  | rlre
  | dataNotif
  | undecodable                     -- bytes the decoder refuses
  deriving DecidableEq, Repr

def Ev.cls : Ev → String
  | .getNormal .. => "GetResponseNormal" | .getErr .. => "GetResponseNormalWithError"
  | .getBlock .. => "GetResponseWithBlock" | .getLast .. => "GetResponseLastBlock"
  | .getLastErr .. => "GetResponseLastBlockWithError" | .setResp .. => "SetResponseNormal"
  | .actResp .. => "ActionResponseNormal" | .actRespData .. => "ActionResponseNormalWithData"
  | .actRespErr .. => "ActionResponseNormalWithError" | .exception .. => "ExceptionResponse"
  | .aare .. => "ApplicationAssociationResponse" | .rlre => "ReleaseResponse"
  | .dataNotif => "DataNotification" | .undecodable => "?"

/-- what the client hands to the transport. -/
inductive Req where
  | aarq | rlrq
  | get (inv : Nat)
  | next (inv : Nat) (no : Nat)
  | set (inv : Nat)
  | act (inv : Nat)
  deriving DecidableEq, Repr

def Req.cls : Req → String
  | .aarq => "ApplicationAssociationRequest" | .rlrq => "ReleaseRequest" | .get _ => "GetRequestNormal"
  | .next .. => "GetRequestNext" | .set _ => "SetRequestNormal" | .act _ => "ActionRequestNormal"

abbrev Table := List (String × String × String)

def lookup (T : Table) (st cls : String) : Option String :=
  (T.find? fun r => r.1 == st && r.2.1 == cls).map (·.2.2)

structure St where
  state : String
  buf : Option Ev := none        -- the connection's receive buffer: the answer to the last request, not yet looked at
  script : List Ev := []         -- the answers the meter is going to give, in order
  sent : List Req := []          -- what was handed to the transport, oldest first
  deriving DecidableEq, Repr

/-- `DlmsClient.send(event)`: `connection.send` (state machine), then the transport exchange;
    the answer lands in the receive buffer. With nothing scripted the transport returns no bytes. -/
def send (T : Table) (s : St) (r : Req) : Except Err Unit × St :=
  match lookup T s.state r.cls with
  | none => (.error .protocol, s)
  | some st' =>
    match s.script with
    | [] => (.ok (), { s with state := st', sent := s.sent ++ [r], buf := none })
    | e :: rest => (.ok (), { state := st', sent := s.sent ++ [r], buf := some e, script := rest })

/-- `DlmsClient.next_event()`: decode what is in the buffer (which is emptied in every case),
    run the state machine and the follow-up events of an AARE and of the HLS answer. -/
def nextEvent (T : Table) (s : St) : Except Err Ev × St :=
  let s0 := { s with buf := none }
  match s.buf with
  | none => (.error .decode, s0)                               -- IndexError on an empty buffer
  | some .undecodable => (.error .decode, s0)
  | some ev =>
    match lookup T s.state ev.cls with
    | none => (.error .protocol, s0)
    | some st1 =>
      let s1 := { s0 with state := st1 }
      match ev with
      | .aare result hls =>
        if result == 1 || result == 2 then
          match lookup T st1 "RejectAssociation" with
          | some st2 => (.ok ev, { s1 with state := st2 })
          | none => (.error .protocol, s1)
        else if hls then
          match lookup T st1 "HlsStart" with
          | some st2 => (.ok ev, { s1 with state := st2 })
          | none => (.error .protocol, s1)
        else (.ok ev, s1)
      | .actRespData _ status _ q =>
        if st1 == "HLS_DONE" then
          match lookup T st1 (if status == 0 && q == .valid then "HlsSuccess" else "HlsFailed") with
          | some st2 => (.ok ev, { s1 with state := st2 })
          | none => (.error .protocol, s1)
        else (.ok ev, s1)
      | _ => if st1 == "HLS_DONE" then (.error .decode, s1) else (.ok ev, s1)

/-- the collection loop of `DlmsClient.get`, entered after the request has been sent. Every
    pass looks at one answer; a block is acknowledged with a next-block request carrying the
    answer's invoke id and block number, which fetches the following answer. An answer of
    another kind that the state machine lets through makes the loop look at the (now empty)
    buffer again, which raises. -/
def getLoop (T : Table) : (script : List Ev) → (state : String) → (buf : Option Ev) → (sent : List Req) →
    (acc : Bytes) → Except Err Bytes × St
  | script, state, buf, sent, acc =>
    match nextEvent T { state := state, buf := buf, script := script, sent := sent } with
    | (.error e, s1) => (.error e, s1)
    | (.ok ev, s1) =>
      match ev with
      | .getNormal _ d => (.ok (acc ++ d), s1)
      | .getLast _ _ d => (.ok (acc ++ d), s1)
      | .getLastErr .. => (.error .client, s1)
      | .getErr .. => (.error .client, s1)
      | .getBlock inv no d =>
        match lookup T s1.state "GetRequestNext" with
        | none => (.error .protocol, s1)
        | some st2 =>
          match script with
          | [] => (.error .decode, { state := st2, buf := none, script := [], sent := sent ++ [.next inv no] })
          | e :: rest => getLoop T rest st2 (some e) (sent ++ [.next inv no]) (acc ++ d)
      | _ => (.error .decode, s1)

/-- `DlmsClient.get(attribute)` with the invoke id `inv` in the request. -/
def get (T : Table) (s : St) (inv : Nat) : Except Err Bytes × St :=
  match send T s (.get inv) with
  | (.error e, s1) => (.error e, s1)
  | (.ok (), s1) => getLoop T s1.script s1.state s1.buf s1.sent []

/-- `DlmsClient.set`: the answer event itself is returned. -/
def set (T : Table) (s : St) (inv : Nat) : Except Err Ev × St :=
  match send T s (.set inv) with
  | (.error e, s1) => (.error e, s1)
  | (.ok (), s1) => nextEvent T s1

/-- `DlmsClient.action`: the data of the answer (`none` for an answer without data). -/
def action (T : Table) (s : St) (inv : Nat) : Except Err (Option Bytes) × St :=
  match send T s (.act inv) with
  | (.error e, s1) => (.error e, s1)
  | (.ok (), s1) =>
    match nextEvent T s1 with
    | (.error e, s2) => (.error e, s2)
    | (.ok ev, s2) =>
      match ev with
      | .actRespErr .. => (.error .client, s2)
      | .actRespData _ status d _ => if status != 0 then (.error .client, s2) else (.ok (some d), s2)
      | .actResp _ status => if status != 0 then (.error .client, s2) else (.ok none, s2)
      | _ => (.error .decode, s2)                              -- AttributeError on `.status`

/-- `DlmsClient.associate()` including the reply to the meter's HLS challenge. -/
def associate (T : Table) (s : St) (inv : Nat) : Except Err Ev × St :=
  match send T s .aarq with
  | (.error e, s1) => (.error e, s1)
  | (.ok (), s1) =>
    match nextEvent T s1 with
    | (.error e, s2) => (.error e, s2)
    | (.ok ev, s2) =>
      match ev with
      | .exception .. => (.error .client, s2)
      | .aare result _ =>
        if result != 0 then (.error .client, s2)
        else if s2.state == "SHOULD_SEND_HLS_SEVER_CHALLENGE_RESULT" then
          match send T s2 (.act inv) with
          | (.error e, s3) => (.error e, s3)
          | (.ok (), s3) =>
            match nextEvent T s3 with
            | (.error e, s4) => (.error e, s4)
            | (.ok hev, s4) =>
              match hev with
              | .actRespErr .. => (.error .client, s4)                 -- ActionError becomes HLSError: both `client`
              | .actResp _ status => if status != 0 then (.error .client, s4) else (.error .decode, s4)   -- parse_as_dlms_data(None)
              | .actRespData _ status _ q =>
                if status != 0 then (.error .client, s4)
                else match q with
                  | .valid => (.ok ev, s4)
                  | .invalid => (.error .client, s4)                   -- the client verifies the proof once more: HLSError
                  | .unparsable => (.error .decode, s4)                -- the client's own parse of the proof raises
              | _ => (.error .decode, s4)
        else (.ok ev, s2)
      | _ => (.error .protocol, s2)

/-- `DlmsClient.release_association()`. -/
def release (T : Table) (s : St) : Except Err Ev × St :=
  match send T s .rlrq with
  | (.error e, s1) => (.error e, s1)
  | (.ok (), s1) => nextEvent T s1

end Model.Client
