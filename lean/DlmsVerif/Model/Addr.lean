/-
  Model of dlms_cosem/hdlc/address.py (HdlcAddress.to_bytes/_split_address/
  find_address_in_frame_bytes/parse_two_byte_address) and of the address validators in
  hdlc/validators.py.
-/
import DlmsVerif.Basic

namespace Model.Addr
open Dlms

structure Addr where
  logical : Nat
  physical : Option Nat := none
  isClient : Bool := true
  deriving DecidableEq, Repr

/-- `validate_hdlc_address` on both attributes (what the constructor accepts). -/
def accepted (a : Addr) : Bool :=
  if a.isClient then a.logical ≤ 0x7F && a.physical.isNone
  else
    a.logical ≤ 0x3FFF &&
    match a.physical with
    | none => a.logical ≤ 0x7F
    | some p => p ≤ 0x3FFF

/-- `_split_address`: (higher, lower), each already shifted left by one. -/
def split (a : Nat) : Option Nat × Nat :=
  if a > 0x7F then (some ((a &&& 0x3F80) >>> 6), (a &&& 0x7F) <<< 1) else (none, a <<< 1)

/-- `to_bytes` (numbers; all are below 256 for accepted addresses). -/
def encodeNat (a : Addr) : List Nat :=
  if a.isClient then [(a.logical <<< 1) ||| 1]
  else
    let (lh, ll) := split a.logical
    match a.physical with
    | some p =>
      let (ph, pl) := split p
      let pl := pl ||| 1
      if lh.isNone && ph.isNone then [ll, pl] else [lh.getD 0, ll, ph.getD 0, pl]
    | none => [ll ||| 1]

def encode (a : Addr) : Except Err Bytes :=
  if accepted a then .ok ((encodeNat a).map UInt8.ofNat) else .error .range

def parseTwo (b0 b1 : Nat) : Nat := (b1 >>> 1) + ((b0 >>> 1) <<< 7)

/-- one address starting at offset `off`: (logical, physical, length).
    A missing byte is the code's IndexError. -/
def findOne (f : List Nat) (off : Nat) : Except Err (Nat × Option Nat × Nat) :=
  match f[off]? with
  | none => .error .decode
  | some b0 =>
    if b0 % 2 = 1 then .ok (b0 >>> 1, none, 1) else
    match f[off + 1]? with
    | none => .error .decode
    | some b1 =>
      if b1 % 2 = 1 then .ok (b0 >>> 1, some (b1 >>> 1), 2) else
      match f[off + 3]? with
      | none => .error .decode
      | some b3 =>
        if b3 % 2 = 1 then
          match f[off + 2]? with
          | none => .error .decode
          | some b2 => .ok (parseTwo b0 b1, some (parseTwo b2 b3), 4)
        else .ok (b0 >>> 1, none, 1)   -- no end marker: the code falls back to one byte

/-- `find_address_in_frame_bytes` (frame starts with the flag and two format bytes). -/
def findNat (f : List Nat) : Except Err ((Nat × Option Nat × Nat) × (Nat × Option Nat × Nat)) :=
  match findOne f 3 with
  | .error e => .error e
  | .ok d =>
    match findOne f (3 + d.2.2) with
    | .error e => .error e
    | .ok s => .ok (d, s)

def find (frame : Bytes) : Except Err ((Nat × Option Nat × Nat) × (Nat × Option Nat × Nat)) :=
  findNat (frame.map (·.toNat))

end Model.Addr
