/-
  C15 — Profile buffers and association object lists are interpreted column-by-column.

  `Model.Parsers.parseEntries` models ProfileGenericBufferParser.parse_entries;
  `parseObjects` models AssociationObjectListParser.parse_entries with the access-right
  decoding taken as the complete graph extracted from the code (Gen.Parsers.accessRights).
-/
import DlmsVerif.Gen.Parsers
import DlmsVerif.Model.Parsers
import DlmsVerif.Lemmas.Parsers

namespace Props.C15
open Dlms Model.Parsers Lemmas.Parsers

/-! ### profile-generic buffers -/

private theorem from_nil {period : Int} {clocks : List Bool} {last : Option Stamp} {out : List (List Out)}
    (h : parseEntriesFrom period clocks [] last = .ok out) : out = [] := by
  simp only [parseEntriesFrom, Except.ok.injEq] at h
  exact h.symm

private theorem shape_from {period : Int} {clocks : List Bool} : ∀ (rows : List (List Cell))
    (last : Option Stamp) (out : List (List Out)),
    parseEntriesFrom period clocks rows last = .ok out →
    out.length = rows.length ∧ (∀ r ∈ out, r.length = clocks.length) ∧
      ∀ r ∈ rows, r.length = clocks.length
  | [], last, out, h => by
    rw [from_nil h]; simp
  | row :: rows, last, out, h => by
    obtain ⟨hlen, o, l1, outs, hr, hq, rfl⟩ := parseEntriesFrom_cons_ok h
    obtain ⟨h1, h2, h3⟩ := shape_from rows l1 outs hq
    have := (parseRow_length hr).1
    refine ⟨by simp [h1], ?_, ?_⟩
    · intro r hr'
      simp only [List.mem_cons] at hr'
      rcases hr' with rfl | hr'
      · omega
      · exact h2 r hr'
    · intro r hr'
      simp only [List.mem_cons] at hr'
      rcases hr' with rfl | hr'
      · exact hlen
      · exact h3 r hr'

/-- every parsed row is the result of `parseRow` on the transmitted row (for some running timestamp). -/
private theorem rows_from {period : Int} {clocks : List Bool} : ∀ (rows : List (List Cell))
    (last : Option Stamp) (out : List (List Out)),
    parseEntriesFrom period clocks rows last = .ok out →
    ∀ (i : Nat) (row : List Cell), rows[i]? = some row →
      ∃ orow l0 l1, out[i]? = some orow ∧ parseRow period 0 clocks row l0 = .ok (orow, l1)
  | [], last, out, h => by
    intro i row hi; simp at hi
  | row0 :: rows, last, out, h => by
    obtain ⟨hlen, o, l1, outs, hr, hq, rfl⟩ := parseEntriesFrom_cons_ok h
    intro i row hi
    cases i with
    | zero =>
      simp only [List.getElem?_cons_zero, Option.some.injEq] at hi
      subst hi
      exact ⟨o, last, l1, by simp, hr⟩
    | succ i =>
      simp only [List.getElem?_cons_succ] at hi
      obtain ⟨orow, l0, l1', ho, hp⟩ := rows_from rows l1 outs hq i row hi
      exact ⟨orow, l0, l1', by simpa using ho, hp⟩

/-- **shape**: one parsed row per transmitted row and one cell per capture object. -/
theorem C15_shape (period : Int) (clocks : List Bool) (rows : List (List Cell)) (out : List (List Out))
    (h : parseEntries period clocks rows = .ok out) :
    out.length = rows.length ∧ ∀ r ∈ out, r.length = clocks.length := by
  have := shape_from rows none out h
  exact ⟨this.1, this.2.1⟩

/-- **width**: a row whose width differs from the capture-object list is refused, wherever it is. -/
theorem C15_width_refused (period : Int) (clocks : List Bool) (rows : List (List Cell))
    (h : ∃ r ∈ rows, r.length ≠ clocks.length) :
    ∃ e, parseEntries period clocks rows = .error e := by
  cases hp : parseEntries period clocks rows with
  | error e => exact ⟨e, rfl⟩
  | ok out =>
    obtain ⟨r, hr, hne⟩ := h
    exact absurd ((shape_from rows none out hp).2.2 r hr) hne

/-- **binding and value**: the cell in column `j` of row `i` is bound to capture object `j`;
    a transmitted (non-null) value is carried unchanged — decoded as a timestamp in a clock
    column —, and a null outside a clock column stays a null bound to its column. -/
theorem C15_cells (period : Int) (clocks : List Bool) (rows : List (List Cell)) (out : List (List Out))
    (h : parseEntries period clocks rows = .ok out) (i j : Nat) (row : List Cell) (cell : Cell) (isClock : Bool)
    (hi : rows[i]? = some row) (hj : row[j]? = some cell) (hc : clocks[j]? = some isClock) :
    ∃ orow o, out[i]? = some orow ∧ orow[j]? = some o ∧
      (match cell, isClock with
       | .item id _, false => o = .bound j (.val id)
       | .item _ ts, true => ∃ t, ts = some t ∧ o = .bound j (.time t)
       | .null, false => o = .bound j .null
       | .null, true => o = .nothing ∨ ∃ t, o = .bound j (.time t)) := by
  obtain ⟨orow, l0, l1, ho, hp⟩ := rows_from rows none out h i row hi
  obtain ⟨o, hoj, hspec⟩ := parseRow_cell hp j cell isClock hj hc
  refine ⟨orow, o, ho, hoj, ?_⟩
  rw [Nat.zero_add] at hspec
  cases cell <;> cases isClock <;> simpa [CellSpec] using hspec

/-- the simple specification of the timestamp column: a transmitted timestamp is itself,
    a null is the previous (transmitted or filled) timestamp plus the capture period, or
    nothing if none has been seen yet. -/
def fillSpec (period : Int) : Option Stamp → List (Option Stamp) → List (Option Stamp)
  | _, [] => []
  | _, some t :: rest => some t :: fillSpec period (some t) rest
  | some l, none :: rest => some (addMinutes l period) :: fillSpec period (some (addMinutes l period)) rest
  | none, none :: rest => none :: fillSpec period none rest

/-- what a parsed cell shows as timestamp. -/
def outStamp : Out → Option Stamp
  | .bound _ (.time t) => some t
  | _ => none

private theorem fillSpec_cons (period : Int) (last x : Option Stamp) (rest : List (Option Stamp)) :
    fillSpec period last (x :: rest) =
      fillOne period last x :: fillSpec period (fillOne period last x) rest := by
  cases x <;> cases last <;> simp [fillSpec, fillOne]

private theorem outStamp_stampOut (idx : Nat) (s : Option Stamp) : outStamp (stampOut idx s) = s := by
  cases s <;> rfl

private theorem fill_from {period : Int} {clocks : List Bool} {c : Nat}
    (hc : clocks[c]? = some true) (hone : ∀ j, j ≠ c → clocks[j]? ≠ some true) :
    ∀ (rows : List (List Cell)) (last : Option Stamp) (out : List (List Out)),
    parseEntriesFrom period clocks rows last = .ok out →
    out.map (fun r => (r[c]?).bind outStamp) =
      fillSpec period last (rows.map fun r => match r[c]? with
        | some (Cell.item _ ts) => ts
        | _ => none)
  | [], last, out, h => by
    rw [from_nil h]; simp [fillSpec]
  | row :: rows, last, out, h => by
    obtain ⟨hlen, o, l1, outs, hr, hq, rfl⟩ := parseEntriesFrom_cons_ok h
    have hclt : c < clocks.length := by
      rcases List.getElem?_eq_some_iff.mp hc with ⟨hlt, _⟩
      exact hlt
    have hcell : row[c]? = some (row[c]'(by omega)) := List.getElem?_eq_getElem (by omega)
    obtain ⟨h1, h2⟩ := parseRow_oneclock c _ hr hc hone hcell
    have ih := fill_from hc hone rows l1 outs hq
    simp only [List.map_cons, fillSpec_cons]
    rw [ih, h2, hcell]
    have e : (match some (row[c]'(by omega)) with
        | some (Cell.item _ ts) => ts
        | _ => none) = cellTs (row[c]'(by omega)) := by
      cases row[c]'(by omega) <;> rfl
    rw [e, ← h1]
    simp [outStamp_stampOut]

/-- **fill recurrence**: with the clock in column `c` (and no other clock column), the
    timestamps of the parsed rows are exactly `fillSpec` of the transmitted ones: each null
    becomes the previous row's (transmitted or filled) timestamp plus the capture period,
    and stays empty while no timestamp has been seen. Rows: any number, any null pattern. -/
theorem C15_fill (period : Int) (clocks : List Bool) (c : Nat) (rows : List (List Cell)) (out : List (List Out))
    (hc : clocks[c]? = some true) (hone : ∀ j, j ≠ c → clocks[j]? ≠ some true)
    (h : parseEntries period clocks rows = .ok out) :
    out.map (fun r => (r[c]?).bind outStamp) =
      fillSpec period none (rows.map fun r => match r[c]? with
        | some (Cell.item _ ts) => ts
        | _ => none) := by
  exact fill_from hc hone rows none out h

/-! ### association object lists -/

def bitsOf (mode : Nat) : List Nat := (List.range 8).filter fun b => mode.testBit b

/-- **access rights**: for every access-mode byte the code returns exactly the rights whose
    bits are set (AccessRight member k = bit k), in increasing order. -/
theorem C15_rights :
    Gen.Parsers.accessRights = (List.range 256).map bitsOf ∧
    Gen.Parsers.accessRightMembers.map (·.2) = List.range 8 := by
  decide +kernel

private theorem rights_getD (m : Nat) :
    Gen.Parsers.accessRights.getD (m % 256) [] = bitsOf (m % 256) := by
  have hlt : m % 256 < 256 := Nat.mod_lt _ (by omega)
  rw [C15_rights.1, List.getD_eq_getElem?_getD, List.getElem?_map, List.getElem?_range hlt]
  rfl

private theorem parseObject_ok {o : ObjIn} {x : ObjOut}
    (h : parseObject Gen.Parsers.accessRights Gen.Parsers.cosemInterfaces o = .ok x) :
    x.classId = o.classId ∧ x.version = o.version ∧
      x.logicalName = o.logicalName.map (·.toNat) ∧
      ((o.attrs.map (·.attrId)).Nodup →
        x.attrs = o.attrs.map fun a => (a.attrId, bitsOf (a.mode % 256), a.selectors.getD [])) ∧
      ((o.methods.map (·.methodId)).Nodup →
        x.methods = o.methods.map fun m => (m.methodId, bitsOf (m.mode % 256))) := by
  unfold parseObject at h
  split at h
  · cases h
  · split at h
    · cases h
    · simp only [Except.ok.injEq] at h
      subst h
      refine ⟨rfl, rfl, rfl, ?_, ?_⟩
      · intro hnd
        have := foldl_dictInsert (fun a : AttrRight => a.attrId)
          (fun a : AttrRight => (Gen.Parsers.accessRights.getD (a.mode % 256) [], a.selectors.getD []))
          o.attrs [] hnd (by simp)
        simp only [List.nil_append, rights_getD] at this ⊢
        exact this
      · intro hnd
        have := foldl_dictInsert (fun m : MethodRight => m.methodId)
          (fun m : MethodRight => Gen.Parsers.accessRights.getD (m.mode % 256) [])
          o.methods [] hnd (by simp)
        simp only [List.nil_append, rights_getD] at this ⊢
        exact this

private theorem parseObjects_cons_ok {rights : List (List Nat)} {ifs : List Nat} {o : ObjIn}
    {os : List ObjIn} {outs : List ObjOut}
    (h : parseObjects rights ifs (o :: os) = .ok outs) :
    ∃ x xs, parseObject rights ifs o = .ok x ∧ parseObjects rights ifs os = .ok xs ∧ outs = x :: xs := by
  simp only [parseObjects] at h
  cases hx : parseObject rights ifs o with
  | error e => rw [hx] at h; cases h
  | ok x =>
    rw [hx] at h
    dsimp only at h
    cases hxs : parseObjects rights ifs os with
    | error e => rw [hxs] at h; cases h
    | ok xs =>
      rw [hxs] at h
      simp only [Except.ok.injEq] at h
      exact ⟨x, xs, rfl, rfl, h.symm⟩

/-- **objects are carried over**: class, version and logical name of every object, and per
    attribute and per method (distinct ids) exactly the rights of its access mode, in order. -/
theorem C15_objects (objs : List ObjIn) (outs : List ObjOut)
    (h : parseObjects Gen.Parsers.accessRights Gen.Parsers.cosemInterfaces objs = .ok outs) :
    outs.length = objs.length ∧
    ∀ (i : Nat) (o : ObjIn), objs[i]? = some o →
      ∃ x : ObjOut, outs[i]? = some x ∧ x.classId = o.classId ∧ x.version = o.version ∧
        x.logicalName = o.logicalName.map (·.toNat) ∧
        ((o.attrs.map (·.attrId)).Nodup →
          x.attrs = o.attrs.map fun a => (a.attrId, bitsOf (a.mode % 256), a.selectors.getD [])) ∧
        ((o.methods.map (·.methodId)).Nodup →
          x.methods = o.methods.map fun m => (m.methodId, bitsOf (m.mode % 256))) := by
  induction objs generalizing outs with
  | nil =>
    simp only [parseObjects, Except.ok.injEq] at h
    subst h
    simp
  | cons o0 os ih =>
    obtain ⟨x, xs, hx, hxs, rfl⟩ := parseObjects_cons_ok h
    obtain ⟨hl, hall⟩ := ih xs hxs
    refine ⟨by simp [hl], ?_⟩
    intro i o hi
    cases i with
    | zero =>
      simp only [List.getElem?_cons_zero, Option.some.injEq] at hi
      subst hi
      exact ⟨x, by simp, parseObject_ok hx⟩
    | succ i =>
      simp only [List.getElem?_cons_succ] at hi
      obtain ⟨x', hx', hrest⟩ := hall i o hi
      exact ⟨x', by simpa using hx', hrest⟩

/-- non-vacuity: a three-row buffer with a compressed (null) timestamp and a null value. -/
example : parseEntries 15 [true, false]
    [[.item 1 (some ⟨1000, 0⟩), .item 2 none], [.null, .null], [.null, .item 3 none]] =
    .ok [[.bound 0 (.time ⟨1000, 0⟩), .bound 1 (.val 2)],
         [.bound 0 (.time ⟨900001000, 0⟩), .bound 1 .null],
         [.bound 0 (.time ⟨1800001000, 0⟩), .bound 1 (.val 3)]] := by
  decide

end Props.C15
