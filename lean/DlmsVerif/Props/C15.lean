/-
  C15 — Profile buffers and association object lists are interpreted column-by-column.

  `Model.Parsers.parseEntries` models ProfileGenericBufferParser.parse_entries;
  `parseObjects` models AssociationObjectListParser.parse_entries with the access-right
  decoding taken as the complete graph extracted from the code (Gen.Parsers.accessRights).
-/
import DlmsVerif.Gen.Parsers
import DlmsVerif.Model.Parsers

namespace Props.C15
open Dlms Model.Parsers

/-! ### profile-generic buffers -/

/-- **shape**: one parsed row per transmitted row and one cell per capture object. -/
theorem C15_shape (period : Int) (clocks : List Bool) (rows : List (List Cell)) (out : List (List Out))
    (h : parseEntries period clocks rows = .ok out) :
    out.length = rows.length ∧ ∀ r ∈ out, r.length = clocks.length := by
  sorry

/-- **width**: a row whose width differs from the capture-object list is refused, wherever it is. -/
theorem C15_width_refused (period : Int) (clocks : List Bool) (rows : List (List Cell))
    (h : ∃ r ∈ rows, r.length ≠ clocks.length) :
    ∃ e, parseEntries period clocks rows = .error e := by
  sorry

/-- **binding and value**: the cell in column `j` of row `i` is bound to capture object `j`;
    a transmitted (non-null) value is carried unchanged — decoded as a timestamp in a clock
    column —, and a null outside a clock column stays a null bound to its column. -/
theorem C15_cells (period : Int) (clocks : List Bool) (rows : List (List Cell)) (out : List (List Out))
    (h : parseEntries period clocks rows = .ok out) (i j : Nat) (row : List Cell) (cell : Cell) (isClock : Bool)
    (hi : rows[i]? = some row) (hj : row[j]? = some cell) (hc : clocks[j]? = some isClock) :
    ∃ orow o, out[i]? = some orow ∧ orow[j]? = some o ∧
      (match cell, isClock with
       | .item id _, false => o = .bound j (.val id)
       | .item _ ts, true => ∃ t, ts = some t ∧ o = .bound j (.time t)
       | .null, false => o = .bound j .null
       | .null, true => o = .nothing ∨ ∃ t, o = .bound j (.time t)) := by
  sorry

/-- the simple specification of the timestamp column: a transmitted timestamp is itself,
    a null is the previous (transmitted or filled) timestamp plus the capture period, or
    nothing if none has been seen yet. -/
def fillSpec (period : Int) : Option Stamp → List (Option Stamp) → List (Option Stamp)
  | _, [] => []
  | _, some t :: rest => some t :: fillSpec period (some t) rest
  | some l, none :: rest => some (addMinutes l period) :: fillSpec period (some (addMinutes l period)) rest
  | none, none :: rest => none :: fillSpec period none rest

/-- what a parsed cell shows as timestamp. -/
def outStamp : Out → Option Stamp
  | .bound _ (.time t) => some t
  | _ => none

/-- **fill recurrence**: with the clock in column `c` (and no other clock column), the
    timestamps of the parsed rows are exactly `fillSpec` of the transmitted ones: each null
    becomes the previous row's (transmitted or filled) timestamp plus the capture period,
    and stays empty while no timestamp has been seen. Rows: any number, any null pattern. -/
theorem C15_fill (period : Int) (clocks : List Bool) (c : Nat) (rows : List (List Cell)) (out : List (List Out))
    (hc : clocks[c]? = some true) (hone : ∀ j, j ≠ c → clocks[j]? ≠ some true)
    (h : parseEntries period clocks rows = .ok out) :
    out.map (fun r => (r[c]?).bind outStamp) =
      fillSpec period none (rows.map fun r => match r[c]? with
        | some (Cell.item _ ts) => ts
        | _ => none) := by
  sorry

/-! ### association object lists -/

def bitsOf (mode : Nat) : List Nat := (List.range 8).filter fun b => mode.testBit b

/-- **access rights**: for every access-mode byte the code returns exactly the rights whose
    bits are set (AccessRight member k = bit k), in increasing order. -/
theorem C15_rights :
    Gen.Parsers.accessRights = (List.range 256).map bitsOf ∧
    Gen.Parsers.accessRightMembers.map (·.2) = List.range 8 := by
  sorry

/-- **objects are carried over**: class, version and logical name of every object, and per
    attribute and per method (distinct ids) exactly the rights of its access mode, in order. -/
theorem C15_objects (objs : List ObjIn) (outs : List ObjOut)
    (h : parseObjects Gen.Parsers.accessRights Gen.Parsers.cosemInterfaces objs = .ok outs) :
    outs.length = objs.length ∧
    ∀ (i : Nat) (o : ObjIn), objs[i]? = some o →
      ∃ x : ObjOut, outs[i]? = some x ∧ x.classId = o.classId ∧ x.version = o.version ∧
        x.logicalName = o.logicalName.map (·.toNat) ∧
        ((o.attrs.map (·.attrId)).Nodup →
          x.attrs = o.attrs.map fun a => (a.attrId, bitsOf (a.mode % 256), a.selectors.getD [])) ∧
        ((o.methods.map (·.methodId)).Nodup →
          x.methods = o.methods.map fun m => (m.methodId, bitsOf (m.mode % 256))) := by
  sorry

/-- non-vacuity: a three-row buffer with a compressed (null) timestamp and a null value. -/
example : parseEntries 15 [true, false]
    [[.item 1 (some ⟨1000, 0⟩), .item 2 none], [.null, .null], [.null, .item 3 none]] =
    .ok [[.bound 0 (.time ⟨1000, 0⟩), .bound 1 (.val 2)],
         [.bound 0 (.time ⟨900001000, 0⟩), .bound 1 .null],
         [.bound 0 (.time ⟨1800001000, 0⟩), .bound 1 (.val 3)]] := by
  sorry

end Props.C15
