/-
  C16 — Date-time codec round-trips and keeps the DLMS sign convention for UTC deviation.
-/
import DlmsVerif.Model.Time
import DlmsVerif.Lemmas.Basic

namespace Props.C16
open Dlms Spec.DateTime Model.Time

/-- **layout**: the model of `datetime_to_bytes` writes the 12-byte DLMS layout: year,
    month, day, unspecified weekday, hour, minute, second, hundredths, deviation = minus
    the UTC offset (0x8000 for a naive value), clock status. -/
theorem C16_layout (d : DT) (st : Nat) : Model.Time.encode d st = Spec.DateTime.encode d st := by
  sorry

theorem C16_length (d : DT) (st : Nat) : (Spec.DateTime.encode d st).length = 12 := by
  sorry

/-- **round trip**: decoding returns the same instant with the same UTC offset (naive stays
    naive, aware stays aware — including offset zero), truncated to hundredths, and the
    same status byte. -/
theorem C16_decode_encode (d : DT) (st : Nat) (h : valid d = true) (hs : st < 256) :
    Model.Time.decode (Spec.DateTime.encode d st) = .ok (trunc d, st) := by
  sorry

/-- the deviation field is minus the offset, for every offset in range. -/
theorem C16_sign_convention (o : Int) (h : -840 ≤ o ∧ o ≤ 840) :
    deviationBytes (some o) = beBytes 2 (twos16 (-o)) ∧
    (deviationBytes (some o) ≠ deviationBytes none) := by
  sorry

/-- **out-of-range fields are refused**: month outside 1..12, day outside 1..days-in-month,
    weekday outside 1..7 (unless 0xFF), hour above 23, minute or second above 59, hundredths
    above 99 (each unless 0xFF), deviation beyond ±840 (unless 0x8000), year 0 or above 9999. -/
theorem C16_out_of_range_refused (y1 y0 mo da wd ho mi se hu d1 d0 st : UInt8)
    (h : let y := y1.toNat * 256 + y0.toNat
         let dev : Int := if d1.toNat * 256 + d0.toNat ≥ 32768 then ((d1.toNat * 256 + d0.toNat : Nat) : Int) - 65536
                          else ((d1.toNat * 256 + d0.toNat : Nat) : Int)
         y = 0 ∨ y > 9999 ∨ mo.toNat = 0 ∨ mo.toNat > 12 ∨ da.toNat = 0 ∨
         (mo.toNat ≥ 1 ∧ mo.toNat ≤ 12 ∧ da.toNat > daysIn y mo.toNat) ∨
         (wd.toNat ≠ 0xFF ∧ (wd.toNat = 0 ∨ wd.toNat > 7)) ∨
         (ho.toNat ≠ 0xFF ∧ ho.toNat > 23) ∨ (mi.toNat ≠ 0xFF ∧ mi.toNat > 59) ∨
         (se.toNat ≠ 0xFF ∧ se.toNat > 59) ∨ (hu.toNat ≠ 0xFF ∧ hu.toNat > 99) ∨
         (dev ≠ -32768 ∧ (dev < -840 ∨ dev > 840))) :
    Model.Time.decode [y1, y0, mo, da, wd, ho, mi, se, hu, d1, d0, st] = .error .decode := by
  sorry

theorem C16_wrong_length_refused (bs : Bytes) (h : bs.length ≠ 12) :
    Model.Time.decode bs = .error .decode := by
  sorry

/-- non-vacuity: a leap-day value with offset zero. -/
example : valid { year := 2024, month := 2, day := 29, hour := 23, minute := 59, second := 59,
                  micro := 999999, offset := some 0 } = true := by decide

end Props.C16
