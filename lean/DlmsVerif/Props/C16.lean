/-
  C16 — Date-time codec round-trips and keeps the DLMS sign convention for UTC deviation.
-/
import DlmsVerif.Model.Time
import DlmsVerif.Lemmas.Basic
import DlmsVerif.Lemmas.Time

namespace Props.C16
open Dlms Spec.DateTime Model.Time Lemmas.Time

/-- **layout**: the model of `datetime_to_bytes` writes the 12-byte DLMS layout: year,
    month, day, unspecified weekday, hour, minute, second, hundredths, deviation = minus
    the UTC offset (0x8000 for a naive value), clock status. -/
theorem C16_layout (d : DT) (st : Nat) : Model.Time.encode d st = Spec.DateTime.encode d st := by
  unfold Model.Time.encode Spec.DateTime.encode
  cases d.offset <;> simp [deviationBytes]

theorem C16_length (d : DT) (st : Nat) : (Spec.DateTime.encode d st).length = 12 := by
  unfold Spec.DateTime.encode
  cases d.offset <;> simp [deviationBytes, beBytes_length]

/-- **round trip**: decoding returns the same instant with the same UTC offset (naive stays
    naive, aware stays aware — including offset zero), truncated to hundredths, and the
    same status byte. -/
theorem C16_decode_encode (d : DT) (st : Nat) (h : valid d = true) (hs : st < 256) :
    Model.Time.decode (Spec.DateTime.encode d st) = .ok (trunc d, st) := by
  unfold Model.Time.decode
  rw [encode_map]
  obtain ⟨year, month, day, hour, minute, second, micro, offset⟩ := d
  simp only [valid, Bool.and_eq_true, decide_eq_true_eq] at h
  obtain ⟨⟨⟨⟨⟨⟨⟨⟨⟨⟨hy1, hy2⟩, hm1⟩, hm2⟩, hd1⟩, hd2⟩, hh⟩, hmi⟩, hse⟩, hmc⟩, hoff⟩ := h
  have hdl := daysIn_le year month
  have e1 : year / 256 % 256 * 256 + year % 256 = year := by omega
  have e2 : month % 256 = month := by omega
  have e3 : day % 256 = day := by omega
  have e4 : hour % 256 = hour := by omega
  have e5 : minute % 256 = minute := by omega
  have e6 : second % 256 = second := by omega
  have e7 : micro / 10000 % 256 = micro / 10000 := by omega
  have e8 : st % 256 = st := by omega
  have o1 := optByte_of_ne month none (by omega)
  have o2 := optByte_of_ne day none (by omega)
  have o3 := fun r => optByte_of_ne hour r (by omega)
  have o4 := fun r => optByte_of_ne minute r (by omega)
  have o5 := fun r => optByte_of_ne second r (by omega)
  have o6 := fun r => optByte_of_ne (micro / 10000) r (by omega)
  have y1 : (year == 65535) = false := by simp; omega
  have c1 : (decide (1 ≤ month) && decide (month ≤ 12)) = true := by simp; omega
  have c2 : (decide (1 ≤ day) && decide (day ≤ 31)) = true := by simp; omega
  have c3 : (decide (1 ≤ year) && decide (year ≤ 9999) && decide (day ≤ daysIn year month)) = true := by
    simp; omega
  have c4 : (decide (0 ≤ hour) && decide (hour ≤ 23)) = true := by simp; omega
  have c5 : (decide (0 ≤ minute) && decide (minute ≤ 59)) = true := by simp; omega
  have c6 : (decide (0 ≤ second) && decide (second ≤ 59)) = true := by simp; omega
  have c7 : (decide (0 ≤ micro / 10000) && decide (micro / 10000 ≤ 99)) = true := by simp; omega
  simp only [e1, e2, e3, e4, e5, e6, e7, e8, o1, o2, o3, o4, o5, o6, optByte_255, inRange, y1, c1, c2, c3,
    c4, c5, c6, c7, Bool.and_self, Bool.not_true, Bool.false_eq_true, if_false, Option.getD_some, trunc]
  cases offset with
  | none => simp
  | some o =>
    simp only [Bool.and_eq_true, decide_eq_true_eq] at hoff
    have hs := twos16_signed (-o) (by omega)
    simp only [twos16_split, hs]
    have c8 : (-o == -32768) = false := by simp; omega
    have c9 : (decide (-840 ≤ -o) && decide (-o ≤ 840)) = true := by simp; omega
    simp only [c8, c9, Bool.false_eq_true, if_false, Bool.not_true, Option.map_some, Int.neg_neg]

/-- the deviation field is minus the offset, for every offset in range. -/
theorem C16_sign_convention (o : Int) (h : -840 ≤ o ∧ o ≤ 840) :
    deviationBytes (some o) = beBytes 2 (twos16 (-o)) ∧
    (deviationBytes (some o) ≠ deviationBytes none) := by
  refine ⟨rfl, ?_⟩
  intro he
  have hn : twos16 (-o) < 1024 ∨ twos16 (-o) ≥ 64696 ∧ twos16 (-o) < 65536 := by
    unfold twos16; omega
  simp only [deviationBytes, beBytes] at he
  have h1 := congrArg (fun l => (l.map (·.toNat))) he
  simp at h1
  omega

/-- **out-of-range fields are refused**: month outside 1..12, day outside 1..days-in-month,
    weekday outside 1..7 (unless 0xFF), hour above 23, minute or second above 59, hundredths
    above 99 (each unless 0xFF), deviation beyond ±840 (unless 0x8000), year 0 or above 9999. -/
theorem C16_out_of_range_refused (y1 y0 mo da wd ho mi se hu d1 d0 st : UInt8)
    (h : let y := y1.toNat * 256 + y0.toNat
         let dev : Int := if d1.toNat * 256 + d0.toNat ≥ 32768 then ((d1.toNat * 256 + d0.toNat : Nat) : Int) - 65536
                          else ((d1.toNat * 256 + d0.toNat : Nat) : Int)
         y = 0 ∨ y > 9999 ∨ mo.toNat = 0 ∨ mo.toNat > 12 ∨ da.toNat = 0 ∨
         (mo.toNat ≥ 1 ∧ mo.toNat ≤ 12 ∧ da.toNat > daysIn y mo.toNat) ∨
         (wd.toNat ≠ 0xFF ∧ (wd.toNat = 0 ∨ wd.toNat > 7)) ∨
         (ho.toNat ≠ 0xFF ∧ ho.toNat > 23) ∨ (mi.toNat ≠ 0xFF ∧ mi.toNat > 59) ∨
         (se.toNat ≠ 0xFF ∧ se.toNat > 59) ∨ (hu.toNat ≠ 0xFF ∧ hu.toNat > 99) ∨
         (dev ≠ -32768 ∧ (dev < -840 ∨ dev > 840))) :
    Model.Time.decode [y1, y0, mo, da, wd, ho, mi, se, hu, d1, d0, st] = .error .decode := by
  unfold Model.Time.decode
  simp only [List.map]
  simp only [] at h
  generalize y1.toNat = Y1 at *
  generalize y0.toNat = Y0 at *
  generalize d1.toNat = D1 at *
  generalize d0.toNat = D0 at *
  generalize mo.toNat = MO at *
  generalize da.toNat = DA at *
  generalize wd.toNat = WD at *
  generalize ho.toNat = HO at *
  generalize mi.toNat = MI at *
  generalize se.toNat = SE at *
  generalize hu.toNat = HU at *
  generalize hdev : (if D1 * 256 + D0 ≥ 32768 then ((D1 * 256 + D0 : Nat) : Int) - 65536 else ((D1 * 256 + D0 : Nat) : Int)) = dev at h ⊢
  split
  · rfl
  · rename_i hc1
    split
    · rename_i y m d hy hm hd
      split
      · rfl
      · rename_i hc2
        split
        · rfl
        · rename_i hc3
          obtain ⟨hm1, rfl⟩ := optByte_none_some hm
          obtain ⟨hd1, rfl⟩ := optByte_none_some hd
          simp only [Bool.not_eq_true', Bool.not_eq_false, Bool.and_eq_true, decide_eq_true_eq] at hc1 hc2 hc3
          obtain ⟨⟨r1, r2⟩, r3⟩ := hc1
          obtain ⟨⟨⟨r4, r5⟩, r6⟩, r7⟩ := hc3
          have r1 := inRange_optByte_none r1
          have r2 := inRange_optByte_none r2
          have r3 := inRange_optByte_none r3
          have r4 := inRange_optByte_some0 r4
          have r5 := inRange_optByte_some0 r5
          have r6 := inRange_optByte_some0 r6
          have r7 := inRange_optByte_some0 r7
          have hyy : y = Y1 * 256 + Y0 := by
            split at hy
            · cases hy
            · cases hy; rfl
          subst hyy
          have hdev' : dev ≠ -32768 ∧ (dev < -840 ∨ dev > 840) := by omega
          have hne : (dev == -32768) = false := by simpa using hdev'.1
          apply if_pos
          simp only [hne, Bool.false_eq_true, if_false]
          simp only [Bool.not_eq_true', Bool.and_eq_false_iff, decide_eq_false_iff_not]
          omega
    · rfl

theorem C16_wrong_length_refused (bs : Bytes) (h : bs.length ≠ 12) :
    Model.Time.decode bs = .error .decode := by
  unfold Model.Time.decode
  split
  · rename_i h'
    have := congrArg List.length h'
    simp at this
    exact absurd this h
  · rfl

/-- non-vacuity: a leap-day value with offset zero. -/
example : valid { year := 2024, month := 2, day := 29, hour := 23, minute := 59, second := 59,
                  micro := 999999, offset := some 0 } = true := by decide

end Props.C16
