/-
  C09 — HDLC frames follow the frame format and round-trip; corruption never alters content.

  `Model.Hdlc.serialize` / `Model.Hdlc.parse` model `to_bytes` / `from_bytes` of the frame
  classes.  Framing theorems are stated for an arbitrary check-sequence function `crc`
  that returns two bytes (the library's is proved to be CRC-16/X-25 in C12); the fault
  theorem uses the algebra of X-25 (Lemmas.CrcAlgebra).
-/
import DlmsVerif.Model.Hdlc
import DlmsVerif.Lemmas.Fields
import DlmsVerif.Props.C13
import DlmsVerif.Props.C20
import DlmsVerif.Lemmas.Hdlc
import DlmsVerif.Lemmas.CrcFaultDefs
import DlmsVerif.Lemmas.CrcAlgebra
import DlmsVerif.Lemmas.HdlcFault
import DlmsVerif.Spec.Crc

set_option linter.unusedSimpArgs false

namespace Props.C09
open Dlms Spec.Hdlc Model.Hdlc Lemmas.Hdlc

/-- address types the parser of kind `k` assigns: everything but DISC travels meter → client. -/
def addrTypesOk (k : PKind) (f : Frame) : Bool :=
  match k, f.dst, f.src with
  | .disc, .server _ _, .client _ => true
  | .disc, _, _ => false
  | _, .client _, .server _ _ => true
  | _, _, _ => false

/-! ### helpers for the round trip -/

private theorem addr_facts (k : PKind) (f : Frame) (ht : addrTypesOk k f = true)
    (hd : Spec.Addr.valid f.dst = true) (hs : Spec.Addr.valid f.src = true) :
    Model.Addr.accepted (mkAddr (C13.fields f.dst).1 (C13.fields f.dst).2.1 (k != .disc)) = true ∧
    Model.Addr.accepted (mkAddr (C13.fields f.src).1 (C13.fields f.src).2.1 (!(k != .disc))) = true ∧
    (if k == .disc then Spec.Addr.Address.server (C13.fields f.dst).1 (C13.fields f.dst).2.1
      else .client (C13.fields f.dst).1) = f.dst ∧
    (if k == .disc then Spec.Addr.Address.client (C13.fields f.src).1
      else .server (C13.fields f.src).1 (C13.fields f.src).2.1) = f.src ∧
    C13.toSpec (mkAddr (C13.fields f.dst).1 (C13.fields f.dst).2.1 (k != .disc)) = f.dst ∧
    C13.toSpec (mkAddr (C13.fields f.src).1 (C13.fields f.src).2.1 (!(k != .disc))) = f.src := by
  obtain ⟨kind, dst, src, ssn, rsn, final, seg, payload⟩ := f
  simp only at hd hs ⊢
  have hc : ∀ a, Spec.Addr.valid (.client a) = true →
      Model.Addr.accepted (mkAddr (C13.fields (.client a)).1 (C13.fields (.client a)).2.1 true) = true := by
    intro a ha; exact (accepted_toAddr (.client a)).trans ha
  have hsrv : ∀ l q, Spec.Addr.valid (.server l q) = true →
      Model.Addr.accepted (mkAddr (C13.fields (.server l q)).1 (C13.fields (.server l q)).2.1 false) = true := by
    intro l q ha
    have e : mkAddr (C13.fields (.server l q)).1 (C13.fields (.server l q)).2.1 false = toAddr (.server l q) := by
      cases q <;> rfl
    rw [e]; exact (accepted_toAddr _).trans ha
  have hsrv2 : ∀ l q, Spec.Addr.Address.server (C13.fields (.server l q)).1 (C13.fields (.server l q)).2.1
      = .server l q := by
    intro l q; cases q <;> rfl
  cases k <;> cases dst <;> cases src <;> simp only [addrTypesOk] at ht <;>
    first
    | contradiction
    | exact ⟨hc _ hd, hsrv _ _ hs, rfl, hsrv2 _ _, rfl, hsrv2 _ _⟩
    | exact ⟨hsrv _ _ hd, hc _ hs, hsrv2 _ _, rfl, hsrv2 _ _, rfl⟩

private theorem frame_eq (f g : Frame) (h1 : f.kind = g.kind) (h2 : f.dst = g.dst) (h3 : f.src = g.src)
    (h4 : f.ssn = g.ssn) (h5 : f.rsn = g.rsn) (h6 : f.final = g.final) (h7 : f.segmented = g.segmented)
    (h8 : f.payload = g.payload) : f = g := by
  cases f; cases g; simp_all


private theorem iFields_iControl (ssn rsn : Nat) (fin : Bool) (h1 : ssn ≤ 7) (h2 : rsn ≤ 7) :
    Spec.Fields.iFields (32 * rsn + 16 * fin.toNat + 2 * ssn) = some (ssn, rsn, fin) := by
  have hall := Props.C20.C20_i.2.2
  rw [List.all_eq_true] at hall
  have := hall (ssn + 8 * rsn + 64 * fin.toNat) (by cases fin <;> simp <;> omega)
  have e1 : (ssn + 8 * rsn + 64 * fin.toNat) % 8 = ssn := by omega
  have e2 : (ssn + 8 * rsn + 64 * fin.toNat) / 8 % 8 = rsn := by omega
  have e3 : decide ((ssn + 8 * rsn + 64 * fin.toNat) / 64 = 1) = fin := by cases fin <;> simp <;> omega
  rw [e1, e2, e3] at this
  simpa [Spec.Fields.iControl, h1, h2] using this

private theorem ui_bit (fin : Bool) : (0x03 + 16 * fin.toNat).testBit 4 = fin := by cases fin <;> decide

/-- **layout**: `to_bytes` of every frame the library can build is
    flag | format | destination | source | control | [HCS] | information | FCS | flag
    with the lengths and both check sequences over the spans the standard names. -/
theorem C09_layout (crc : Bytes → Bytes) (f : Frame) (h : WF f = true) :
    (match Model.Hdlc.serialize crc f with
      | .ok bs => some bs
      | .error _ => none) = Spec.Hdlc.serializeWith crc f := by
  exact Lemmas.Hdlc.layout crc f h

/-- a frame longer than the 11-bit length field allows is refused by the serialiser. -/
theorem C09_too_long_refused (crc : Bytes → Bytes) (f : Frame)
    (hv : Spec.Addr.valid f.dst = true ∧ Spec.Addr.valid f.src = true)
    (hc : (control f).isSome = true) (h : frameLength f > 2047) :
    Model.Hdlc.serialize crc f = .error .range := by
  exact Lemmas.Hdlc.too_long crc f hv hc h

/-- **round trip**: parsing the bytes of a well-formed frame with the parser of its kind
    returns the same addresses, sequence numbers, poll/final and segmentation bits and
    payload — for every payload (any bytes, including 0x7E) and every length up to 2047. -/
theorem C09_parse_serialize (crc : Bytes → Bytes) (hcrc : ∀ x, (crc x).length = 2)
    (k : PKind) (f : Frame) (hk : f.kind = k.toKind) (ht : addrTypesOk k f = true)
    (h : WF f = true) (bs : Bytes) (hs : Spec.Hdlc.serializeWith crc f = some bs) :
    ∃ p, Model.Hdlc.parse crc k bs = .ok p ∧ p.toFrame k = f := by
  obtain ⟨ctl, hc, hbs⟩ := shape' crc f h bs hs
  obtain ⟨hd, hsv, hlen, hkind⟩ := WF_parts f h
  obtain ⟨h5, h6, hdst, hsrc, h7, h8⟩ := addr_facts k f ht hd hsv
  have hpos := preOf_pos f
  rw [parse_common crc hcrc k f h bs hs h5 h6 h7 h8]
  unfold Spec.Hdlc.control at hc
  cases k <;> simp only [PKind.toKind] at hk <;> simp only [hk] at hkind hc <;>
    simp only [hk, Kind.hasInfo, if_true, Bool.false_eq_true, if_false] at hbs
  · -- ua
    simp only [Option.some.injEq] at hc
    subst hc
    obtain ⟨s1, s2, s3⟩ := frameInfo_slices crc hcrc (preOf f) (UInt8.ofNat Spec.Fields.uaControl) (info f) _ hpos
    rw [← hbs] at s1 s2 s3
    refine ⟨_, by simp only [parseTail, s1, s2, s3]; rfl, ?_⟩
    apply frame_eq
    all_goals simp only [Parsed.toFrame, PKind.toKind, hk, hdst, hsrc, hkind]
    simp [info, hk, Kind.hasInfo]
  · -- rr
    obtain ⟨h0, hr, hfin, hpay⟩ := hkind
    simp only [Spec.Fields.rrControl, hr, if_true, Option.some.injEq] at hc
    subst hc
    obtain ⟨s1, s2⟩ := frameNoInfo_slices crc hcrc (preOf f) (UInt8.ofNat (32 * f.rsn + 0x11)) _ hpos
    rw [← hbs] at s1 s2
    have hlt : 32 * f.rsn + 0x11 < 256 := by omega
    have hn : (UInt8.ofNat (32 * f.rsn + 0x11)).toNat = 32 * f.rsn + 0x11 := by
      simp [Nat.mod_eq_of_lt hlt]
    have e1 : ((32 * f.rsn + 0x11) % 16 != 1) = false := by simp; omega
    refine ⟨_, by simp only [parseTail, s1, s2, hn, e1]; rfl, ?_⟩
    apply frame_eq
    all_goals simp only [Parsed.toFrame, PKind.toKind, hk, hdst, hsrc, h0, hfin, hpay]
    omega
  · -- i
    simp only [Spec.Fields.iControl, hkind, and_self, if_true, Option.some.injEq] at hc
    subst hc
    obtain ⟨s1, s2, s3⟩ := frameInfo_slices crc hcrc (preOf f)
      (UInt8.ofNat (32 * f.rsn + 16 * f.final.toNat + 2 * f.ssn)) (info f) _ hpos
    rw [← hbs] at s1 s2 s3
    have hlt : 32 * f.rsn + 16 * f.final.toNat + 2 * f.ssn < 256 := by
      cases f.final <;> simp <;> omega
    have hn : (UInt8.ofNat (32 * f.rsn + 16 * f.final.toNat + 2 * f.ssn)).toNat
        = 32 * f.rsn + 16 * f.final.toNat + 2 * f.ssn := by
      simp [Nat.mod_eq_of_lt hlt]
    have e1 := iFields_iControl f.ssn f.rsn f.final hkind.1 hkind.2
    refine ⟨_, by simp only [parseTail, s1, s2, s3, hn, e1]; rfl, ?_⟩
    apply frame_eq
    all_goals simp only [Parsed.toFrame, PKind.toKind, hk, hdst, hsrc]
    simp [info, hk, Kind.hasInfo]
  · -- disc
    obtain ⟨h0, hr, hfin, hpay⟩ := hkind
    simp only [Option.some.injEq] at hc
    subst hc
    obtain ⟨s1, s2⟩ := frameNoInfo_slices crc hcrc (preOf f) (UInt8.ofNat Spec.Fields.discControl) _ hpos
    rw [← hbs] at s1 s2
    refine ⟨_, by simp only [parseTail, s1, s2]; rfl, ?_⟩
    apply frame_eq
    all_goals simp only [Parsed.toFrame, PKind.toKind, hk, hdst, hsrc, h0, hr, hfin, hpay]
  · -- ui
    simp only [Spec.Fields.uiControl, Option.some.injEq] at hc
    subst hc
    obtain ⟨s1, s2, s3⟩ := frameInfo_slices crc hcrc (preOf f)
      (UInt8.ofNat (0x03 + 16 * f.final.toNat)) (info f) _ hpos
    rw [← hbs] at s1 s2 s3
    have hlt : 0x03 + 16 * f.final.toNat < 256 := by cases f.final <;> simp
    have hn : (UInt8.ofNat (0x03 + 16 * f.final.toNat)).toNat = 0x03 + 16 * f.final.toNat := by
      simp [Nat.mod_eq_of_lt hlt]
    have e1 : ((0x03 + 16 * f.final.toNat) % 16 != 3 || (0x03 + 16 * f.final.toNat) / 32 != 0) = false := by
      cases f.final <;> simp
    refine ⟨_, by simp only [parseTail, s1, s2, s3, hn, e1]; rfl, ?_⟩
    apply frame_eq
    all_goals simp only [Parsed.toFrame, PKind.toKind, hk, hdst, hsrc, hkind, ui_bit]
    simp [info, hk, Kind.hasInfo]

/-- whatever is accepted passed both check sequences computed over the received bytes:
    the bytes between the flags are `body ++ crc body` (and the header is `hdr ++ crc hdr`
    for the kinds with an information field). -/
theorem C09_accepted_is_checked (crc : Bytes → Bytes) (k : PKind) (X : Bytes) (p : Parsed)
    (h : Model.Hdlc.parse crc k X = .ok p) :
    pySlice X (-3) (-1) = crc (pySlice X 1 (-3)) ∧
    X.head? = some 0x7E ∧ X.getLast? = some 0x7E ∧
    ∃ len seg, Model.Fields.fmtFromBytes (pySlice X 1 3) = .ok (len, seg) ∧ len + 2 = X.length := by
  exact Lemmas.Hdlc.accepted_is_checked crc k X p h

/-- **truncation**: every proper prefix of a valid frame is refused (by every parser). -/
theorem C09_truncated_refused (crc : Bytes → Bytes) (hcrc : ∀ x, (crc x).length = 2)
    (k : PKind) (f : Frame) (h : WF f = true) (bs : Bytes)
    (hs : Spec.Hdlc.serializeWith crc f = some bs) (n : Nat) (hn : n < bs.length) :
    ∃ e, Model.Hdlc.parse crc k (bs.take n) = .error e := by
  exact Lemmas.Hdlc.truncated crc hcrc k f h bs hs n hn

/-- **extension**: a valid frame followed by any non-empty byte string is refused. -/
theorem C09_appended_refused (crc : Bytes → Bytes) (hcrc : ∀ x, (crc x).length = 2)
    (k : PKind) (f : Frame) (h : WF f = true) (bs : Bytes)
    (hs : Spec.Hdlc.serializeWith crc f = some bs) (extra : Bytes) (he : extra ≠ []) :
    ∃ e, Model.Hdlc.parse crc k (bs ++ extra) = .error e := by
  exact Lemmas.Hdlc.appended crc hcrc k f h bs hs extra he

open Lemmas.CrcFaultDefs in
/-- **the check sequence detects every small error**: for a message of up to 4093 bytes
    followed by its X-25 check value, any error pattern over message and check value with one
    to three altered bits, or confined to a burst of 16 bit positions, yields a string whose
    last two bytes are not the check value of the rest. -/
theorem C09_crc_detects_small_errors (m e : Bytes) (hl : e.length = m.length + 2)
    (hlen : 8 * (m.length + 2) ≤ 32767) (hs : SmallError e) :
    Spec.Crc.fcs ((xorBytes (m ++ Spec.Crc.fcs m) e).take m.length) ≠ (xorBytes (m ++ Spec.Crc.fcs m) e).drop m.length := by
  exact Lemmas.CrcAlgebra.detects_small_errors m e hl hlen hs

open Lemmas.CrcFaultDefs in
/-- **corruption never alters content**: a received string of the same length as a valid
    frame that differs from it by a small error (one to three bits anywhere, or a burst of
    at most 16 bits) is either refused or - when the error is empty - parsed to the same
    frame; it is never accepted with different content. -/
theorem C09_corruption_detected (k : PKind) (f : Frame) (hk : f.kind = k.toKind)
    (ht : addrTypesOk k f = true) (h : WF f = true) (S : Bytes)
    (hs : Spec.Hdlc.serializeWith Spec.Crc.fcs f = some S) (X : Bytes) (hl : X.length = S.length)
    (he : xorBytes X S = List.replicate S.length 0 ∨ SmallError (xorBytes X S)) :
    (∃ err, Model.Hdlc.parse Spec.Crc.fcs k X = .error err) ∨
    (∃ p, Model.Hdlc.parse Spec.Crc.fcs k X = .ok p ∧ p.toFrame k = f) := by
  rcases he with hz | hsmall
  · have hX : X = S := Lemmas.CrcAlgebra.xorBytes_eq_zero X S hl hz
    subst hX
    exact Or.inr (C09_parse_serialize Spec.Crc.fcs (fun _ => rfl) k f hk ht h X hs)
  · exact Or.inl (Lemmas.HdlcFault.corrupted_refused k f h S hs X hl hsmall)

end Props.C09
