/-
  C12 — Frame check sequences equal CRC-16/X-25 for every message.

  `Model.Crc.calculateFor` is the model of `CRCCCITT.calculate_for`, instantiated with
  the table, the bit-reversal graph and the starting value that extract.py reads out of
  the running code (Gen.Crc).  `Spec.Crc.x25` is the bit-serial definition from the
  standard.  The theorems hold for every byte string of every length.
-/
import DlmsVerif.Lemmas.Crc
import DlmsVerif.Lemmas.CrcAlgebra

namespace Props.C12
open Spec.Crc Model.Crc Lemmas.Crc

/-- the code's model with the code's own tables. -/
def implFcs (m : Bytes) (lsbFirst : Bool := false) : Bytes :=
  calculateFor Gen.Crc.crcTable Gen.Crc.rev8 Gen.Crc.startingValue m lsbFirst

theorem xor_ff : ∀ n, n < 256 → n ^^^ 255 = 255 - n := by decide +kernel

theorem byte_not (x : BitVec 8) : UInt8.ofNat (x.toNat ^^^ 0xFF) = ⟨~~~x⟩ := by
  apply UInt8.toBitVec_inj.mp
  apply BitVec.eq_of_toNat_eq
  simp [UInt8.toBitVec_ofNat]
  exact xor_ff _ x.isLt

theorem not_lo (s : BitVec 16) : (~~~s).setWidth 8 = ~~~(s.setWidth 8) := by
  apply BitVec.eq_of_getLsbD_eq; intro i hi
  simp [hi]

theorem not_hi (s : BitVec 16) : ((~~~s) >>> 8).setWidth 8 = ~~~((s >>> 8).setWidth 8) := by
  apply BitVec.eq_of_getLsbD_eq; intro i hi
  simp [BitVec.getLsbD_ushiftRight, hi]
  intro; omega

/-- **C12 (main).** For every message the library's check value is the CRC-16/X-25,
    low byte first (the default byte order used for HCS and FCS). -/
theorem C12_calculate_for_eq_x25 (m : Bytes) : implFcs m = fcs m := by
  unfold implFcs calculateFor fcs
  have hc := calculate_eq m
  unfold revc at hc
  simp only [hc, Bool.false_eq_true, if_false]
  rw [hi_byte_reverse, lo_byte_reverse]
  simp only [BitVec.toNat_setWidth]
  have b1 := ((BitVec.setWidth 8 (x25reg m)).reverse).isLt
  have b2 := ((BitVec.setWidth 8 (x25reg m >>> 8)).reverse).isLt
  rw [Nat.mod_eq_of_lt (by omega), Nat.mod_eq_of_lt (by omega)]
  rw [getD_rev8, getD_rev8, reverse_reverse, reverse_reverse, byte_not, byte_not]
  simp only [x25, lo, hi, not_lo, not_hi]

/-- the other byte order offered by the function (`lsb_first=True`). -/
theorem C12_calculate_for_lsb_first (m : Bytes) :
    implFcs m true = [hi (x25 m), lo (x25 m)] := by
  unfold implFcs calculateFor
  have hc := calculate_eq m
  unfold revc at hc
  simp only [hc, if_true]
  rw [hi_byte_reverse, lo_byte_reverse]
  simp only [BitVec.toNat_setWidth]
  have b1 := ((BitVec.setWidth 8 (x25reg m)).reverse).isLt
  have b2 := ((BitVec.setWidth 8 (x25reg m >>> 8)).reverse).isLt
  rw [Nat.mod_eq_of_lt (by omega), Nat.mod_eq_of_lt (by omega)]
  rw [getD_rev8, getD_rev8, reverse_reverse, reverse_reverse, byte_not, byte_not]
  simp only [x25, lo, hi, not_lo, not_hi]

/-- the finite facts the quantifier text names, over the code's own tables. -/
theorem C12_tables :
    Gen.Crc.crcTable = initTable 0x1021#16 ∧
    Gen.Crc.rev8 = (List.range 256).map (fun i => (BitVec.ofNat 8 i).reverse.toNat) ∧
    Gen.Crc.rev8 = (List.range 256).map reverseByte ∧
    Gen.Crc.startingValue = 0xFFFF ∧ Gen.Crc.polyConstant = 0x1021 ∧
    Gen.Crc.crcTable.length = 256 := by
  refine ⟨?_, rev8_ok, ?_, ?_, ?_, ?_⟩ <;> decide +kernel

/-- **residue**: a message followed by its check value always leaves the fixed X-25 residue
    in the register (so a receiver can verify a frame by running the register over body and
    check value and comparing with one constant). -/
theorem C12_residue (m : Bytes) : x25reg (m ++ fcs m) = residue :=
  Lemmas.CrcAlgebra.x25reg_append_fcs m

/-- non-vacuity / known answer: the standard check string. -/
example : implFcs "123456789".toUTF8.toList = [0x6E, 0x90] := by decide +kernel

end Props.C12
