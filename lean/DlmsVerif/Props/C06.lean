/-
  C06 — Invocation counters: a fresh nonce per protected send, replays refused.

  The model keeps a ghost log of every generating operation under the global key (sealing an
  APDU, computing the HLS proof) and of the counters of the protected APDUs it accepted.
-/
import DlmsVerif.Lemmas.ConnDefs
import DlmsVerif.Lemmas.ConnRecv

namespace Props.C06
open Dlms Model.Conn Lemmas.ConnDefs Lemmas.ConnRecv

def nonce (u : Use) : Bytes × Nat := (u.args.title, u.args.ic)

/-- **no nonce is ever used twice**, over the whole life of a connection and for every
    history of sends, receives and HLS replies (accepted or refused), from any starting counter. -/
theorem C06_nonces_nodup (c : Config) (ops : List Op) (state : String) (cic mic : Nat) (mt : Option Bytes) :
    ((run T c ops (fresh state cic mic mt)).log.map nonce).Nodup := by
  have hinv := HistInv_history c ops state cic mic mt
  generalize run T c ops (fresh state cic mic mt) = s at hinv
  unfold List.Nodup
  rw [List.pairwise_iff_getElem]
  intro i j hi hj hij heq
  simp only [List.length_map] at hi hj
  simp only [List.getElem_map, nonce, Prod.mk.injEq] at heq
  have h1 := (hinv.idx i s.log[i] (List.getElem?_eq_getElem hi)).1
  have h2 := (hinv.idx j s.log[j] (List.getElem?_eq_getElem hj)).1
  omega

/-- **the k-th operation under the global key carries the starting counter plus k** (and the
    client's own title): the counter in each protected APDU is the configured starting value
    plus the number of protected items produced earlier. -/
theorem C06_kth_counter (c : Config) (ops : List Op) (state : String) (cic mic : Nat) (mt : Option Bytes) (k : Nat) (u : Use)
    (hu : (run T c ops (fresh state cic mic mt)).log[k]? = some u) :
    u.args.ic = cic + k ∧ u.args.title = c.clientTitle :=
  (HistInv_history c ops state cic mic mt).idx k u hu

/-- the counter field of an emitted APDU is the counter that was used to seal it, and the
    connection's counter moves past it. -/
theorem C06_counter_in_apdu (c : Config) (s s' : Conn) (k : Kind) (ui : Bool) (out : Sent)
    (h : send T c s k ui = (.ok out, s')) :
    match out with
    | .plain _ => s'.clientIC = s.clientIC ∧ s'.log = s.log
    | .acseGlo _ _ ic ct => ic = s.clientIC ∧ s'.clientIC = s.clientIC + 1 ∧
        ∃ a p, ct = .sealed a p ∧ a.ic = ic ∧ s'.log = s.log ++ [.seal a]
    | .ggc _ _ ic ct => ic = s.clientIC ∧ s'.clientIC = s.clientIC + 1 ∧
        ∃ a p, ct = .sealed a p ∧ a.ic = ic ∧ s'.log = s.log ++ [.seal a] := by
  unfold send at h
  dsimp only at h
  repeat' split at h
  all_goals first
    | (simp at h; done)
    | (simp only [Prod.mk.injEq, Except.ok.injEq] at h
       obtain ⟨rfl, rfl⟩ := h
       exact ⟨rfl, rfl⟩)
    | (rename_i heq
       obtain ⟨args, h1, _, rfl, rfl, rfl⟩ := encrypt_ok heq
       simp only [Prod.mk.injEq, Except.ok.injEq] at h
       obtain ⟨rfl, rfl⟩ := h
       exact ⟨rfl, rfl, args, _, rfl, h1, rfl⟩)

/-- **accepted counters strictly increase** over every history: each accepted protected APDU
    has a counter greater than that of every one accepted before, and the connection
    remembers the largest. -/
theorem C06_recv_strict (c : Config) (ops : List Op) (state : String) (cic mic : Nat) (mt : Option Bytes) :
    let s := run T c ops (fresh state cic mic mt)
    s.accepted.Pairwise (· < ·) ∧ (∀ x ∈ s.accepted, mic < x ∧ x ≤ s.meterIC) :=
  ⟨(HistInv_history c ops state cic mic mt).pw, (HistInv_history c ops state cic mic mt).bnd⟩

/-- hence **a recorded APDU replayed later, or delivered twice, is refused**: once a counter
    has been accepted, every later protected APDU carrying it (whatever its content) is
    refused and nothing changes. -/
theorem C06_replay_refused (c : Config) (hp : c.useProtection = true) (ops : List Op) (state : String) (cic mic : Nat) (mt : Option Bytes)
    (ic : Nat) (hin : ic ∈ (run T c ops (fresh state cic mic mt)).accepted) (t : Bytes) (sc : Nat) (ct : Cipher) :
    recv T c (run T c ops (fresh state cic mic mt)) (.apdu (.ggc t sc ic ct)) =
      (.error .protocol, run T c ops (fresh state cic mic mt)) := by
  have hic := ((C06_recv_strict c ops state cic mic mt).2 ic hin).2
  simp [recv, unprotect, hp, hic]

end Props.C06
