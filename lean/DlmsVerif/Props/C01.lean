/-
  C01 — xDLMS APDUs encode to the standard A-XDR bytes and decoding inverts encoding.

  `Spec.Xdlms.encode` is the standard layout of every APDU kind the library represents
  (the correspondence check compares each `<Apdu>.to_bytes()` with it byte for byte);
  `Model.Xdlms.decode` models the tag-dispatching decoder.  Payloads are arbitrary byte
  strings of any length, so all length-prefix forms are inside the quantifiers.
-/
import DlmsVerif.Gen.Enums
import DlmsVerif.Model.Xdlms
import DlmsVerif.Props.C14
import DlmsVerif.Props.C16
import DlmsVerif.Props.C20

namespace Props.C01
open Dlms Spec.Xdlms Model.Xdlms

def classIds : List Nat := Gen.Enums.cosemInterface

/-- the enumerations and dispatch tables of the code are those of the standard. -/
theorem C01_tables :
    Gen.Enums.dataAccessResult = dataAccessResults ∧
    Gen.Enums.actionResultStatus = actionResults ∧
    Gen.Enums.stateException = stateErrors ∧
    Gen.Enums.serviceException = serviceErrors ∧
    Gen.Enums.getRequestType = [1, 2, 3] ∧ Gen.Enums.getResponseType = [1, 2, 3] ∧
    Gen.Enums.setRequestType = [1, 2, 3, 4, 5] ∧ Gen.Enums.setResponseType = [1, 2, 3, 4, 5] ∧
    Gen.Enums.actionType = [1, 2, 3, 4, 5, 6] ∧
    Gen.Enums.errorTypeMap =
      [(0, "ApplicationReferenceError"), (1, "HardwareResourceError"), (2, "VdeStateError"), (3, "ServiceError"),
       (4, "DefinitionError"), (5, "AccessError"), (6, "InitiateError"), (7, "LoadDataError"),
       (8, "DataScopeError"), (9, "TaskError"), (10, "OtherError")] ∧
    [Gen.Enums.applicationReferenceError, Gen.Enums.hardwareResourceError, Gen.Enums.vdeStateError,
     Gen.Enums.serviceError, Gen.Enums.definitionError, Gen.Enums.accessError, Gen.Enums.initiateError,
     Gen.Enums.loadDataError, Gen.Enums.dataScopeError, Gen.Enums.taskError, Gen.Enums.otherError]
      = serviceErrorMembers.map (·.2) := by
  sorry

/-- the APDU tag of every kind, as the decoder's dispatch table has it. -/
def tagOf : Apdu → Nat × String
  | .getRequestNormal .. | .getRequestNext .. => (192, "GetRequestFactory")
  | .getResponseNormal .. | .getResponseNormalWithError .. | .getResponseWithBlock ..
  | .getResponseLastBlock .. | .getResponseLastBlockWithError .. => (196, "GetResponseFactory")
  | .setRequestNormal .. => (193, "SetRequestFactory")
  | .setResponseNormal .. => (197, "SetResponseFactory")
  | .actionRequestNormal .. => (195, "ActionRequestFactory")
  | .actionResponseNormal .. | .actionResponseNormalWithData .. | .actionResponseNormalWithError .. =>
      (199, "ActionResponseFactory")
  | .dataNotification .. => (15, "DataNotification")
  | .exceptionResponse .. => (216, "ExceptionResponse")
  | .confirmedServiceError .. => (14, "ConfirmedServiceError")
  | .initiateRequest .. => (1, "InitiateRequest")
  | .initiateResponse .. => (8, "InitiateResponse")
  | .gloInitiateRequest .. => (33, "GlobalCipherInitiateRequest")
  | .gloInitiateResponse .. => (40, "GlobalCipherInitiateResponse")
  | .generalGlo .. => (219, "GeneralGlobalCipher")

/-- **dispatch**: the first byte of every encoding is the tag under which the code's table
    holds the decoder of that APDU kind. -/
theorem C01_dispatch (a : Apdu) :
    (encode a).head? = some (UInt8.ofNat (tagOf a).1) ∧ tagOf a ∈ Gen.Enums.apduMap := by
  sorry

/-- **decoding inverts encoding** for every well-formed APDU value of every kind: every
    invoke-id and flag, every enumeration member, every OBIS code, ids, block numbers,
    counters, and payloads / ciphertexts of every length. -/
theorem C01_decode_encode (a : Apdu) (h : wf classIds a = true) : decode (encode a) = some a := by
  sorry

/-- so **no two different values share an encoding**. -/
theorem C01_encode_injective (a b : Apdu) (ha : wf classIds a = true) (hb : wf classIds b = true)
    (h : encode a = encode b) : a = b := by
  sorry

/-- the A-XDR length prefix of octet strings is read back for every length. -/
theorem C01_octets_roundtrip (bs rest : Bytes) (h : Spec.Axdr.byteLen bs.length ≤ 127) :
    takeOctets (octets bs ++ rest) = some (bs, rest) := by
  sorry

/-- non-vacuity: a general-glo-ciphering APDU with 300 bytes of ciphertext is well-formed. -/
example : wf classIds (.generalGlo [1, 2, 3, 4, 5, 6, 7, 8] 0x30 77 (List.replicate 300 1)) = true := by
  sorry

end Props.C01
