/-
  C01 — xDLMS APDUs encode to the standard A-XDR bytes and decoding inverts encoding.

  `Spec.Xdlms.encode` is the standard layout of every APDU kind the library represents
  (the correspondence check compares each `<Apdu>.to_bytes()` with it byte for byte);
  `Model.Xdlms.decode` models the tag-dispatching decoder.  Payloads are arbitrary byte
  strings of any length, so all length-prefix forms are inside the quantifiers.
-/
import DlmsVerif.Gen.Enums
import DlmsVerif.Model.Xdlms
import DlmsVerif.Props.C14
import DlmsVerif.Props.C16
import DlmsVerif.Props.C20
import DlmsVerif.Lemmas.Xdlms

namespace Props.C01
open Dlms Spec.Xdlms Model.Xdlms Lemmas.Xdlms

def classIds : List Nat := Gen.Enums.cosemInterface

/-- the enumerations and dispatch tables of the code are those of the standard. -/
theorem C01_tables :
    Gen.Enums.dataAccessResult = dataAccessResults ∧
    Gen.Enums.actionResultStatus = actionResults ∧
    Gen.Enums.stateException = stateErrors ∧
    Gen.Enums.serviceException = serviceErrors ∧
    Gen.Enums.getRequestType = [1, 2, 3] ∧ Gen.Enums.getResponseType = [1, 2, 3] ∧
    Gen.Enums.setRequestType = [1, 2, 3, 4, 5] ∧ Gen.Enums.setResponseType = [1, 2, 3, 4, 5] ∧
    Gen.Enums.actionType = [1, 2, 3, 4, 5, 6] ∧
    Gen.Enums.errorTypeMap =
      [(0, "ApplicationReferenceError"), (1, "HardwareResourceError"), (2, "VdeStateError"), (3, "ServiceError"),
       (4, "DefinitionError"), (5, "AccessError"), (6, "InitiateError"), (7, "LoadDataError"),
       (8, "DataScopeError"), (9, "TaskError"), (10, "OtherError")] ∧
    [Gen.Enums.applicationReferenceError, Gen.Enums.hardwareResourceError, Gen.Enums.vdeStateError,
     Gen.Enums.serviceError, Gen.Enums.definitionError, Gen.Enums.accessError, Gen.Enums.initiateError,
     Gen.Enums.loadDataError, Gen.Enums.dataScopeError, Gen.Enums.taskError, Gen.Enums.otherError]
      = serviceErrorMembers.map (·.2) := by
  refine ⟨?_, ?_, ?_, ?_, ?_, ?_, ?_, ?_, ?_, ?_, ?_⟩ <;> decide

/-- the APDU tag of every kind, as the decoder's dispatch table has it. -/
def tagOf : Apdu → Nat × String
  | .getRequestNormal .. | .getRequestNext .. => (192, "GetRequestFactory")
  | .getResponseNormal .. | .getResponseNormalWithError .. | .getResponseWithBlock ..
  | .getResponseLastBlock .. | .getResponseLastBlockWithError .. => (196, "GetResponseFactory")
  | .setRequestNormal .. => (193, "SetRequestFactory")
  | .setResponseNormal .. => (197, "SetResponseFactory")
  | .actionRequestNormal .. => (195, "ActionRequestFactory")
  | .actionResponseNormal .. | .actionResponseNormalWithData .. | .actionResponseNormalWithError .. =>
      (199, "ActionResponseFactory")
  | .dataNotification .. => (15, "DataNotification")
  | .exceptionResponse .. => (216, "ExceptionResponse")
  | .confirmedServiceError .. => (14, "ConfirmedServiceError")
  | .initiateRequest .. => (1, "InitiateRequest")
  | .initiateResponse .. => (8, "InitiateResponse")
  | .gloInitiateRequest .. => (33, "GlobalCipherInitiateRequest")
  | .gloInitiateResponse .. => (40, "GlobalCipherInitiateResponse")
  | .generalGlo .. => (219, "GeneralGlobalCipher")

/-- **dispatch**: the first byte of every encoding is the tag under which the code's table
    holds the decoder of that APDU kind. -/
theorem C01_dispatch (a : Apdu) :
    (encode a).head? = some (UInt8.ofNat (tagOf a).1) ∧ tagOf a ∈ Gen.Enums.apduMap := by
  cases a <;> exact ⟨rfl, by simp only [tagOf]; decide⟩

/-! one lemma per APDU kind -/

private theorem hcs : ∀ c ∈ classIds, c < 65536 := by decide

private theorem d1 (inv d sel) (h : wf classIds (.getRequestNormal inv d sel) = true) :
    decode (encode (.getRequestNormal inv d sel)) = some (.getRequestNormal inv d sel) := by
  simp only [wf, Bool.and_eq_true] at h
  obtain ⟨⟨hi, hd⟩, hs⟩ := h
  cases sel with
  | none =>
    obtain ⟨h1, h2⟩ := desc_take_drop classIds hcs d hd [0]
    simp only [encode, List.cons_append, List.nil_append]
    conv => lhs; whnf
    rw [h1, h2, invokeOf_invokeByte inv hi]
    rfl
  | some s =>
    obtain ⟨h1, h2⟩ := desc_take_drop classIds hcs d hd (1 :: s)
    simp only [encode, List.cons_append, List.nil_append]
    conv => lhs; whnf
    rw [h1, h2, invokeOf_invokeByte inv hi]
    simp only [Bool.not_eq_true'] at hs
    simp [hs]

private theorem d2 (inv block) (h : wf classIds (.getRequestNext inv block) = true) :
    decode (encode (.getRequestNext inv block)) = some (.getRequestNext inv block) := by
  simp only [wf, Bool.and_eq_true, decide_eq_true_eq] at h
  obtain ⟨hi, hb⟩ := h
  obtain ⟨b3, b2, b1, b0, hbe, hn⟩ := be4_split block
  simp only [encode, hbe, List.cons_append, List.nil_append]
  conv => lhs; whnf
  rw [hn hb, invokeOf_invokeByte inv hi]

private theorem d3 (inv data) (h : wf classIds (.getResponseNormal inv data) = true) :
    decode (encode (.getResponseNormal inv data)) = some (.getResponseNormal inv data) := by
  simp only [wf] at h
  simp only [encode, List.cons_append, List.nil_append]
  conv => lhs; whnf
  rw [invokeOf_invokeByte inv h]

private theorem d4 (inv err) (h : wf classIds (.getResponseNormalWithError inv err) = true) :
    decode (encode (.getResponseNormalWithError inv err)) = some (.getResponseNormalWithError inv err) := by
  simp only [wf, Bool.and_eq_true] at h
  obtain ⟨hi, he⟩ := h
  simp only [encode]
  conv => lhs; whnf
  rw [invokeOf_invokeByte inv hi, dar_toNat _ he]

private theorem d5 (inv block data) (h : wf classIds (.getResponseWithBlock inv block data) = true) :
    decode (encode (.getResponseWithBlock inv block data)) = some (.getResponseWithBlock inv block data) := by
  simp only [wf, Bool.and_eq_true, decide_eq_true_eq] at h
  obtain ⟨⟨hi, hb⟩, hl⟩ := h
  obtain ⟨b3, b2, b1, b0, hbe, hn⟩ := be4_split block
  have ht := takeOctets_octets data [] hl
  rw [List.append_nil] at ht
  simp only [encode, hbe, List.cons_append, List.nil_append]
  conv => lhs; whnf
  rw [ht, hn hb, invokeOf_invokeByte inv hi]
  rfl

private theorem d6 (inv block data) (h : wf classIds (.getResponseLastBlock inv block data) = true) :
    decode (encode (.getResponseLastBlock inv block data)) = some (.getResponseLastBlock inv block data) := by
  simp only [wf, Bool.and_eq_true, decide_eq_true_eq] at h
  obtain ⟨⟨hi, hb⟩, hl⟩ := h
  obtain ⟨b3, b2, b1, b0, hbe, hn⟩ := be4_split block
  have ht := takeOctets_octets data [] hl
  rw [List.append_nil] at ht
  simp only [encode, hbe, List.cons_append, List.nil_append]
  conv => lhs; whnf
  rw [ht, hn hb, invokeOf_invokeByte inv hi]
  rfl

private theorem d7 (inv block err) (h : wf classIds (.getResponseLastBlockWithError inv block err) = true) :
    decode (encode (.getResponseLastBlockWithError inv block err)) = some (.getResponseLastBlockWithError inv block err) := by
  simp only [wf, Bool.and_eq_true, decide_eq_true_eq] at h
  obtain ⟨⟨hi, hb⟩, he⟩ := h
  obtain ⟨b3, b2, b1, b0, hbe, hn⟩ := be4_split block
  simp only [encode, hbe, List.cons_append, List.nil_append]
  conv => lhs; whnf
  rw [hn hb, invokeOf_invokeByte inv hi, dar_toNat _ he]

private theorem d8 (inv d data) (h : wf classIds (.setRequestNormal inv d data) = true) :
    decode (encode (.setRequestNormal inv d data)) = some (.setRequestNormal inv d data) := by
  simp only [wf, Bool.and_eq_true] at h
  obtain ⟨hi, hd⟩ := h
  obtain ⟨h1, h2⟩ := desc_take_drop classIds hcs d hd (0 :: data)
  simp only [encode, List.cons_append, List.nil_append, List.append_assoc]
  conv => lhs; whnf
  rw [h1, h2, invokeOf_invokeByte inv hi]
  rfl

private theorem d9 (inv r) (h : wf classIds (.setResponseNormal inv r) = true) :
    decode (encode (.setResponseNormal inv r)) = some (.setResponseNormal inv r) := by
  simp only [wf, Bool.and_eq_true] at h
  obtain ⟨hi, he⟩ := h
  simp only [encode]
  conv => lhs; whnf
  rw [invokeOf_invokeByte inv hi, dar_toNat _ he]

private theorem d10 (inv d data) (h : wf classIds (.actionRequestNormal inv d data) = true) :
    decode (encode (.actionRequestNormal inv d data)) = some (.actionRequestNormal inv d data) := by
  simp only [wf, Bool.and_eq_true] at h
  obtain ⟨hi, hd⟩ := h
  cases data with
  | nil =>
    obtain ⟨h1, h2⟩ := desc_take_drop classIds hcs d hd [0]
    simp only [encode, List.isEmpty_nil, if_true, List.cons_append, List.nil_append]
    conv => lhs; whnf
    rw [h1, h2, invokeOf_invokeByte inv hi]
    rfl
  | cons x xs =>
    obtain ⟨h1, h2⟩ := desc_take_drop classIds hcs d hd (1 :: x :: xs)
    simp only [encode, List.isEmpty_cons, Bool.false_eq_true, if_false, List.cons_append, List.nil_append]
    conv => lhs; whnf
    rw [h1, h2, invokeOf_invokeByte inv hi]
    rfl

private theorem d11 (inv st) (h : wf classIds (.actionResponseNormal inv st) = true) :
    decode (encode (.actionResponseNormal inv st)) = some (.actionResponseNormal inv st) := by
  simp only [wf, Bool.and_eq_true] at h
  obtain ⟨hi, he⟩ := h
  simp only [encode]
  conv => lhs; whnf
  rw [invokeOf_invokeByte inv hi, ar_toNat _ he]

private theorem d12 (inv st data) (h : wf classIds (.actionResponseNormalWithData inv st data) = true) :
    decode (encode (.actionResponseNormalWithData inv st data)) = some (.actionResponseNormalWithData inv st data) := by
  simp only [wf, Bool.and_eq_true] at h
  obtain ⟨hi, he⟩ := h
  simp only [encode, List.cons_append, List.nil_append]
  conv => lhs; whnf
  rw [invokeOf_invokeByte inv hi, ar_toNat _ he]

private theorem d13 (inv st err) (h : wf classIds (.actionResponseNormalWithError inv st err) = true) :
    decode (encode (.actionResponseNormalWithError inv st err)) = some (.actionResponseNormalWithError inv st err) := by
  simp only [wf, Bool.and_eq_true] at h
  obtain ⟨⟨hi, hs⟩, he⟩ := h
  simp only [encode]
  conv => lhs; whnf
  rw [invokeOf_invokeByte inv hi, ar_toNat _ hs, dar_toNat _ he]
private theorem d14 (inv dt body) (h : wf classIds (.dataNotification inv dt body) = true) :
    decode (encode (.dataNotification inv dt body)) = some (.dataNotification inv dt body) := by
  simp only [wf, Bool.and_eq_true] at h
  obtain ⟨hi, hd⟩ := h
  obtain ⟨s,i2,i1,i0,hb,hid,h7,h6,h5,h4⟩ := longInvoke_split inv hi
  cases dt with
  | none =>
    simp only [encode, hb, List.cons_append, List.nil_append]
    conv => lhs; whnf
    rw [hid,h7,h6,h5,h4]
  | some d =>
    simp only [Bool.and_eq_true, beq_iff_eq] at hd
    obtain ⟨h1,h2,h3⟩ := dt_roundtrip d hd.1 hd.2 body
    simp only [encode, hb, List.cons_append, List.nil_append]
    rw [decode_dn_some _ _ _ _ _ d 0 h1 h2, h3, hid,h7,h6,h5,h4]

private theorem d15 (state service counter) (h : wf classIds (.exceptionResponse state service counter) = true) :
    decode (encode (.exceptionResponse state service counter)) = some (.exceptionResponse state service counter) := by
  simp only [wf, Bool.and_eq_true, List.contains_iff_mem] at h
  obtain ⟨⟨hst, hsv⟩, hc⟩ := h
  have hst' : (UInt8.ofNat state).toNat = state :=
    toNat_ofNat_lt _ ((by decide : ∀ x ∈ stateErrors, x < 256) state hst)
  simp only [serviceErrors, List.mem_cons, List.not_mem_nil, or_false] at hsv
  rcases hsv with rfl | rfl | rfl | rfl | rfl | rfl
  case' inr.inr.inr.inr.inr =>
    simp only [if_true, decide_eq_true_eq] at hc
    obtain ⟨b3, b2, b1, b0, hbe, hn⟩ := be4_split counter
    simp only [encode, if_true, hbe, List.cons_append, List.nil_append]
    conv => lhs; whnf
    rw [hst', hn hc]
  all_goals
    simp only [Nat.reduceEqDiff, if_false, beq_iff_eq] at hc
    subst hc
    simp only [encode, Nat.reduceEqDiff, if_false, List.append_nil]
    conv => lhs; whnf
    rw [hst']
    rfl

private theorem d16 (t v) (h : wf classIds (.confirmedServiceError t v) = true) :
    decode (encode (.confirmedServiceError t v)) = some (.confirmedServiceError t v) := by
  simp only [wf] at h
  obtain ⟨x, hx, h1, h2⟩ := find_any _ _ _ h
  have key : ∀ x ∈ serviceErrorMembers, x.1 < 256 ∧ ∀ v ∈ x.2, v < 256 := by decide
  simp only [beq_iff_eq, List.contains_iff_mem] at h1 h2
  obtain ⟨k1, k2⟩ := key x hx
  have ht : (UInt8.ofNat t).toNat = t := toNat_ofNat_lt _ (h1 ▸ k1)
  have hv : (UInt8.ofNat v).toNat = v := toNat_ofNat_lt _ (k2 v h2)
  simp only [encode]
  conv => lhs; whnf
  rw [ht, hv]

private theorem d17 (key ra qos ver conf maxPdu) (h : wf classIds (.initiateRequest key ra qos ver conf maxPdu) = true) :
    decode (encode (.initiateRequest key ra qos ver conf maxPdu)) = some (.initiateRequest key ra qos ver conf maxPdu) := by
  simp only [wf, Bool.and_eq_true, decide_eq_true_eq, beq_iff_eq] at h
  obtain ⟨⟨⟨⟨hk, hq⟩, hv⟩, hc⟩, hm⟩ := h
  obtain ⟨m1, m0, hbe, hn⟩ := be2_split maxPdu
  have hcf := confOf_block conf hc [m1, m0]
  have ht := fun R => takeOctets_octets key R hk
  have hq' := toNat_ofNat_lt _ hq
  have hv' := toNat_ofNat_lt _ hv
  have hn := hn hm
  simp only [encode, hbe, List.cons_append, List.nil_append, List.append_assoc]
  generalize conformanceBlock conf ++ [m1, m0] = X at hcf ⊢
  cases key <;> cases ra <;> by_cases hq0 : qos = 0 <;>
    simp only [List.isEmpty_cons, List.isEmpty_nil, hq0, Bool.false_eq_true, if_false, if_true,
      List.cons_append, List.nil_append] <;>
    (conv => lhs; whnf) <;>
    simp only [ht, hcf, hq', hv', hn] <;> rfl

private theorem d18 (qos ver conf maxPdu) (h : wf classIds (.initiateResponse qos ver conf maxPdu) = true) :
    decode (encode (.initiateResponse qos ver conf maxPdu)) = some (.initiateResponse qos ver conf maxPdu) := by
  simp only [wf, Bool.and_eq_true, decide_eq_true_eq, beq_iff_eq] at h
  obtain ⟨⟨⟨hq, hv⟩, hc⟩, hm⟩ := h
  obtain ⟨m1, m0, hbe, hn⟩ := be2_split maxPdu
  have hcf := confOf_block conf hc [m1, m0, 0, 7]
  have hq' := toNat_ofNat_lt _ hq
  have hv' := toNat_ofNat_lt _ hv
  have hn := hn hm
  simp only [encode, hbe, List.cons_append, List.nil_append, List.append_assoc]
  generalize conformanceBlock conf ++ [m1, m0, 0, 7] = X at hcf ⊢
  by_cases hq0 : qos = 0 <;>
    simp only [hq0, if_false, if_true, List.cons_append, List.nil_append] <;>
    (conv => lhs; whnf) <;>
    simp only [hcf, hq', hv', hn] <;> rfl

private theorem d19 (sc ic ct) (h : wf classIds (.gloInitiateRequest sc ic ct) = true) :
    decode (encode (.gloInitiateRequest sc ic ct)) = some (.gloInitiateRequest sc ic ct) := by
  simp only [wf, Bool.and_eq_true, decide_eq_true_eq] at h
  obtain ⟨⟨hs, hi⟩, hl⟩ := h
  have hg := gloOf_octets sc ic ct (scLt sc hs) hi hl
  simp only [encode, List.cons_append, List.nil_append] at hg ⊢
  conv => lhs; whnf
  rw [hg]

private theorem d20 (sc ic ct) (h : wf classIds (.gloInitiateResponse sc ic ct) = true) :
    decode (encode (.gloInitiateResponse sc ic ct)) = some (.gloInitiateResponse sc ic ct) := by
  simp only [wf, Bool.and_eq_true, decide_eq_true_eq] at h
  obtain ⟨⟨hs, hi⟩, hl⟩ := h
  have hg := gloOf_octets sc ic ct (scLt sc hs) hi hl
  simp only [encode, List.cons_append, List.nil_append] at hg ⊢
  conv => lhs; whnf
  rw [hg]

private theorem d21 (title sc ic ct) (h : wf classIds (.generalGlo title sc ic ct) = true) :
    decode (encode (.generalGlo title sc ic ct)) = some (.generalGlo title sc ic ct) := by
  simp only [wf, Bool.and_eq_true, decide_eq_true_eq] at h
  obtain ⟨⟨⟨ht, hs⟩, hi⟩, hl⟩ := h
  have hg := gloOf_octets sc ic ct (scLt sc hs) hi hl
  have hto := takeOctets_octets title (octets ([UInt8.ofNat sc] ++ beBytes 4 ic ++ ct)) ht
  simp only [encode, List.cons_append, List.nil_append] at hg hto ⊢
  conv => lhs; whnf
  rw [hto]
  simp only [hg]
  rfl

/-- **decoding inverts encoding** for every well-formed APDU value of every kind: every
    invoke-id and flag, every enumeration member, every OBIS code, ids, block numbers,
    counters, and payloads / ciphertexts of every length. -/
theorem C01_decode_encode (a : Apdu) (h : wf classIds a = true) : decode (encode a) = some a := by
  cases a with
  | getRequestNormal inv d sel => exact d1 inv d sel h
  | getRequestNext inv block => exact d2 inv block h
  | getResponseNormal inv data => exact d3 inv data h
  | getResponseNormalWithError inv err => exact d4 inv err h
  | getResponseWithBlock inv block data => exact d5 inv block data h
  | getResponseLastBlock inv block data => exact d6 inv block data h
  | getResponseLastBlockWithError inv block err => exact d7 inv block err h
  | setRequestNormal inv d data => exact d8 inv d data h
  | setResponseNormal inv result => exact d9 inv result h
  | actionRequestNormal inv d data => exact d10 inv d data h
  | actionResponseNormal inv status => exact d11 inv status h
  | actionResponseNormalWithData inv status data => exact d12 inv status data h
  | actionResponseNormalWithError inv status err => exact d13 inv status err h
  | dataNotification inv dt body => exact d14 inv dt body h
  | exceptionResponse state service counter => exact d15 state service counter h
  | confirmedServiceError errType errVal => exact d16 errType errVal h
  | initiateRequest key ra qos version conf maxPdu => exact d17 key ra qos version conf maxPdu h
  | initiateResponse qos version conf maxPdu => exact d18 qos version conf maxPdu h
  | gloInitiateRequest sc ic ct => exact d19 sc ic ct h
  | gloInitiateResponse sc ic ct => exact d20 sc ic ct h
  | generalGlo title sc ic ct => exact d21 title sc ic ct h

/-- so **no two different values share an encoding**. -/
theorem C01_encode_injective (a b : Apdu) (ha : wf classIds a = true) (hb : wf classIds b = true)
    (h : encode a = encode b) : a = b := by
  have h1 := C01_decode_encode a ha
  rw [h, C01_decode_encode b hb] at h1
  exact (Option.some.inj h1).symm

/-- the A-XDR length prefix of octet strings is read back for every length. -/
theorem C01_octets_roundtrip (bs rest : Bytes) (h : Spec.Axdr.byteLen bs.length ≤ 127) :
    takeOctets (octets bs ++ rest) = some (bs, rest) := by
  exact takeOctets_octets bs rest h

/-- non-vacuity: a general-glo-ciphering APDU with 300 bytes of ciphertext is well-formed. -/
example : wf classIds (.generalGlo [1, 2, 3, 4, 5, 6, 7, 8] 0x30 77 (List.replicate 300 1)) = true := by
  have h1 := byteLen_small 8 (by omega)
  have h2 := byteLen_small 305 (by omega)
  simp only [wf, validScByte, List.length_replicate, List.length_cons, List.length_nil, Nat.reduceAdd, h1, h2]
  decide

end Props.C01
