/-
  C20 — Bit-packed protocol fields use the standard bit positions and round-trip.

  Finite fields: the complete input/output graph of the code's function (Gen.Fields,
  regenerated from /repo on every run) is compared with the standard layout (Spec.Fields)
  on its whole domain by the kernel.  Large-domain fields (conformance, long invoke id,
  format word, OBIS) are proved structurally about the models of Model.Fields.
-/
import DlmsVerif.Gen.Fields
import DlmsVerif.Lemmas.Fields

namespace Props.C20
open Dlms Spec.Fields Model.Fields Lemmas.Fields

def genPositions : List Nat := Gen.Fields.conformanceBits.map (·.2)

/-- each of the 17 services sits on its Green-Book bit. -/
theorem C20_conformance_bits : Gen.Fields.conformanceBits = Spec.Fields.conformanceBits := by decide

/-- the table covers exactly the attributes of the class. -/
theorem C20_conformance_fields :
    (Gen.Fields.conformanceFields.all fun n => Gen.Fields.conformanceBits.any (·.1 == n)) = true ∧
    (Gen.Fields.conformanceBits.all fun e => Gen.Fields.conformanceFields.contains e.1) = true ∧
    Gen.Fields.conformanceFields.length = 17 := by decide

theorem positions_sorted : genPositions.Pairwise (· > ·) := by decide
theorem positions_lt : ∀ p ∈ genPositions, p < 24 := by decide

/-- encoding then decoding any of the 2^17 flag sets returns it; the encoding is
    `00` followed by the 24-bit word with exactly the flagged services' bits set. -/
theorem C20_conformance_roundtrip (fs : List Bool) (h : fs.length = 17) :
    confToBytes genPositions fs = .ok (0 :: beBytes 3 (confEncode conformancePositions fs)) ∧
    confFromBytes genPositions (0 :: beBytes 3 (confEncode conformancePositions fs)) = fs := by
  have hpos : genPositions = conformancePositions := by decide
  have hl : fs.length = genPositions.length := by rw [h]; decide
  have hlt := confEncode_lt genPositions fs 24 positions_sorted positions_lt
  constructor
  · unfold confToBytes
    rw [confSum_eq, ← hpos]
    simp [hlt]
  · unfold confFromBytes
    rw [← hpos]
    simp only [List.drop_succ_cons, List.drop_zero]
    rw [beNat_beBytes_of_lt 3 _ (by simpa using hlt)]
    have := confDecode_encode genPositions fs positions_sorted hl
    unfold confDecode at this
    rw [← this]
    apply List.map_congr_left
    intro p _
    rw [and_two_pow_ne, this]

/-- no two distinct flag sets share an encoding. -/
theorem C20_conformance_injective (f g : List Bool) (hf : f.length = 17) (hg : g.length = 17)
    (h : confToBytes genPositions f = confToBytes genPositions g) : f = g := by
  rw [(C20_conformance_roundtrip f hf).1, (C20_conformance_roundtrip g hg).1] at h
  have h2 := (C20_conformance_roundtrip f hf).2
  have h3 := (C20_conformance_roundtrip g hg).2
  injection h with h
  rw [← h2, ← h3, h]

/-! ### one-byte fields: complete graphs of the code against the standard layout -/

def bit (v i : Nat) : Bool := v.testBit i

theorem C20_scf_from : Gen.Fields.scfFrom = (List.range 256).map scfFields := by decide +kernel

/-- entry i is the code's `to_bytes` for the field tuple the standard assigns to byte i:
    it is byte i itself for suites 0..2 and a refusal for every other suite. -/
theorem C20_scf_to :
    Gen.Fields.scfTo = (List.range 256).map (fun i => if i % 16 ≤ 2 then some i else none) ∧
    Gen.Fields.scfTo = (List.range 256).map (fun i => scfByte (i % 16) (bit i 4) (bit i 5) (bit i 6) (bit i 7)) := by
  constructor <;> decide +kernel

theorem C20_invoke_from : Gen.Fields.invokeFrom = (List.range 256).map (fun v => some (invokeFields v)) := by
  decide +kernel

theorem C20_invoke_to :
    Gen.Fields.invokeTo = (List.range 64).map (fun j => some (invokeByte (j % 16) (bit j 4) (bit j 5))) ∧
    ((List.range 64).map (fun j => invokeByte (j % 16) (bit j 4) (bit j 5))).Nodup ∧
    ((List.range 64).all fun j => invokeFields (invokeByte (j % 16) (bit j 4) (bit j 5)) == (j % 16, bit j 4, bit j 5)) = true := by
  refine ⟨?_, ?_, ?_⟩ <;> decide +kernel

theorem C20_clock_from : Gen.Fields.clockFrom = (List.range 256).map (fun v => some (clockFields v)) := by
  decide +kernel

theorem C20_clock_to :
    Gen.Fields.clockTo = (List.range 32).map (fun j => some (clockByte (bit j 0) (bit j 1) (bit j 2) (bit j 3) (bit j 4))) ∧
    ((List.range 32).map (fun j => clockByte (bit j 0) (bit j 1) (bit j 2) (bit j 3) (bit j 4))).Nodup ∧
    ((List.range 32).all fun j => clockFields (clockByte (bit j 0) (bit j 1) (bit j 2) (bit j 3) (bit j 4))
        == (bit j 0, bit j 1, bit j 2, bit j 3, bit j 4)) = true := by
  refine ⟨?_, ?_, ?_⟩ <;> decide +kernel

/-- HDLC control bytes of the frame kinds without parameters. -/
theorem C20_control_constants :
    Gen.Fields.snrmControl = snrmControl ∧ Gen.Fields.uaControl = uaControl ∧
    Gen.Fields.discControl = discControl ∧ Gen.Fields.uiTo = [uiControl false, uiControl true] := by decide

/-- receive-ready: layout for rsn 0..7, refusal above, decode inverts encode. -/
theorem C20_rr :
    Gen.Fields.rrTo = (List.range 10).map rrControl ∧
    ((List.range 8).all fun r => Gen.Fields.rrFrom.getD (32 * r + 0x11) none == some r) = true := by
  constructor <;> decide +kernel

/-- information control byte: layout for all 8×8×2 values, 8 refused, decode = standard on
    every byte with bit 0 clear and refusal otherwise, hence injective. -/
theorem C20_i :
    Gen.Fields.iTo = (List.range 162).map (fun j => iControl (j % 9) (j / 9 % 9) (decide (j / 81 = 1))) ∧
    Gen.Fields.iFrom = (List.range 256).map iFields ∧
    ((List.range 128).all fun j =>
        (iControl (j % 8) (j / 8 % 8) (decide (j / 64 = 1))).bind iFields
          == some (j % 8, j / 8 % 8, decide (j / 64 = 1))) = true := by
  refine ⟨?_, ?_, ?_⟩ <;> decide +kernel

theorem C20_ui :
    ((List.range 2).all fun j => Gen.Fields.uiFrom.getD (uiControl (decide (j = 1))) none == some (decide (j = 1))) = true := by
  decide +kernel

/-! ### HDLC format field -/

/-- the code's `to_bytes` on lengths 0..2111 × segmentation: the standard word, refusal above 2047. -/
theorem C20_format_to :
    Gen.Fields.fmtToChunks = (List.range 33).map (fun c => (List.range 128).map (fun k =>
      formatWord ((128 * c + k) / 2) (decide ((128 * c + k) % 2 = 1)))) := by
  decide +kernel

def exceptToOption {α} : Except Err α → Option α
  | .ok a => some a
  | .error _ => none

/-- the model of `to_bytes` is the same function (so the correspondence run compares the right thing). -/
theorem C20_format_model :
    ((List.range 4102).all fun j =>
      exceptToOption ((fmtToBytes (j / 2) (decide (j % 2 = 1))).map beNat) == formatWord (j / 2) (decide (j % 2 = 1))) = true := by
  decide +kernel

/-- decoding inverts encoding on the whole domain (4096 values). -/
theorem C20_format_roundtrip :
    ((List.range 4096).all fun j =>
      match fmtToBytes (j / 2) (decide (j % 2 = 1)) with
      | .ok bs => exceptToOption (fmtFromBytes bs) == some (j / 2, decide (j % 2 = 1))
      | .error _ => false) = true := by
  decide +kernel

/-! ### long invoke id (32 bit) and OBIS (6 bytes) -/

theorem C20_long_invoke_roundtrip (id : Nat) (p c b s : Bool) (h : id < 2 ^ 24) :
    longInvokeToBytes id p c b s = .ok (UInt8.ofNat (longInvokeStatus p c b s) :: beBytes 3 id) ∧
    beNat (UInt8.ofNat (longInvokeStatus p c b s) :: beBytes 3 id) = longInvokeWord id p c b s ∧
    longInvokeFromBytes (UInt8.ofNat (longInvokeStatus p c b s) :: beBytes 3 id) = .ok (id, p, c, b, s) := by
  have hb : beNat (beBytes 3 id) = id := beNat_beBytes_of_lt 3 id (by simpa using h)
  refine ⟨by simp only [longInvokeToBytes, h, if_true], ?_, ?_⟩
  · rw [beNat_cons, beBytes_length, hb]
    have e : (256:Nat) ^ 3 = 16777216 := by decide
    rw [e]
    unfold longInvokeWord
    have hs : (UInt8.ofNat (longInvokeStatus p c b s)).toNat
        = 16 * s.toNat + 32 * b.toNat + 64 * c.toNat + 128 * p.toNat := by
      cases p <;> cases c <;> cases b <;> cases s <;> decide
    rw [hs]
    have e28 : (2:Nat)^28 = 268435456 := by decide
    have e29 : (2:Nat)^29 = 536870912 := by decide
    have e30 : (2:Nat)^30 = 1073741824 := by decide
    have e31 : (2:Nat)^31 = 2147483648 := by decide
    rw [e28, e29, e30, e31]
    omega
  · simp only [beBytes] at hb ⊢
    simp only [longInvokeFromBytes, hb]
    cases p <;> cases c <;> cases b <;> cases s <;> rfl

theorem C20_long_invoke_refused (id : Nat) (p c b s : Bool) (h : ¬ id < 2 ^ 24) :
    longInvokeToBytes id p c b s = .error .range := by
  simp [longInvokeToBytes, h]

theorem C20_obis_roundtrip (o : List Nat) (h6 : o.length = 6) (hr : ∀ x ∈ o, x < 256) :
    ∃ bs, obisToBytes o = .ok bs ∧ bs.length = 6 ∧ obisFromBytes bs = .ok o := by
  have hall : o.all (· < 256) = true := by simpa [List.all_eq_true] using hr
  refine ⟨o.map UInt8.ofNat, by simp [obisToBytes, h6, hall], by simp [h6], ?_⟩
  simp only [obisFromBytes, List.length_map, h6, if_true, List.map_map]
  congr 1
  conv => rhs; rw [← List.map_id o]
  apply List.map_congr_left
  intro x hx
  have := hr x hx
  simp [Nat.mod_eq_of_lt this]

theorem C20_obis_refused (o : List Nat) (h : ¬ (o.length = 6 ∧ ∀ x ∈ o, x < 256)) :
    obisToBytes o = .error .range := by
  unfold obisToBytes
  have : ¬ (o.length = 6 ∧ o.all (· < 256) = true) := by
    intro hc; apply h; refine ⟨hc.1, ?_⟩
    simpa [List.all_eq_true] using hc.2
  rw [if_neg this]

/-- non-vacuity: a concrete conformance value and a concrete long invoke id. -/
example : confToBytes genPositions
    [false, true, false, false, true, false, false, false, false, false, false, true, true, true, true, true, true]
      = .ok [0x00, 0x20, 0x40, 0x5F] := by decide +kernel

end Props.C20
