/-
  C19 - Client GET returns exact data for every block split; errors never pass as data.
  Theorems about Model.Client (model of clients/dlms_client.py) over the transition table
  regenerated from state.py (Gen.Tables.dlmsTransitions).
-/
import DlmsVerif.Lemmas.ClientDefs
import DlmsVerif.Lemmas.Client

namespace Props.C19
open Dlms Model.Client Spec.Client Lemmas.ClientDefs Lemmas.Client

/-- a normal answer: exactly its data, association ready again, the rest of the script untouched. -/
theorem C19_get_normal (sent : List Req) (inv i : Nat) (d : Bytes) (rest : List Ev) :
    get T { state := "READY", script := .getNormal i d :: rest, sent := sent } inv =
      (.ok d, { state := "READY", buf := none, script := rest, sent := sent ++ [.get inv] }) := by
  simp [get_cons, getLoop_first_normal]

/-- a block transfer of 2 or more blocks, whatever their number, sizes (incl. empty blocks),
    block numbers and invoke ids: the concatenation in order; every non-final block is
    acknowledged by a next-block request with that block's number (and the invoke id the
    block carries); the association is ready again. -/
theorem C19_get_blocks (sent : List Req) (inv : Nat) (f : Nat × Nat × Bytes) (more : List (Nat × Nat × Bytes))
    (li ln : Nat) (ld : Bytes) (rest : List Ev) :
    get T { state := "READY", script := (Exchange.getBlocks inv f more li ln ld).answers ++ rest, sent := sent } inv =
      (.ok (f.2.2 ++ blocksData more ++ ld),
       { state := "READY", buf := none, script := rest, sent := sent ++ (Exchange.getBlocks inv f more li ln ld).requests }) := by
  exact get_blocks sent inv f more li ln ld rest

/-- with a meter that echoes the invoke id of the request every acknowledgement carries the
    original invoke id. -/
theorem C19_acks_carry_original_invoke_id (inv : Nat) (f : Nat × Nat × Bytes) (more : List (Nat × Nat × Bytes))
    (li ln : Nat) (ld : Bytes) (h : ∀ b ∈ f :: more, b.1 = inv) :
    (Exchange.getBlocks inv f more li ln ld).requests = .get inv :: (f :: more).map fun b => .next inv b.2.1 := by
  have hf : f.1 = inv := h f (by simp)
  simp [Exchange.requests, blockAck, hf]
  intro i n d hb
  exact h (i, n, d) (by simp [hb])

/-- an error result, immediately or on the last block after any number of blocks: the client
    raises, nothing is returned, and the association is ready for the next request. -/
theorem C19_get_error (sent : List Req) (inv i e : Nat) (rest : List Ev) :
    get T { state := "READY", script := .getErr i e :: rest, sent := sent } inv =
      (.error .client, { state := "READY", buf := none, script := rest, sent := sent ++ [.get inv] }) := by
  simp [get_cons, getLoop_first_err]

theorem C19_get_blocks_error (sent : List Req) (inv : Nat) (f : Nat × Nat × Bytes) (more : List (Nat × Nat × Bytes))
    (li ln e : Nat) (rest : List Ev) :
    get T { state := "READY", script := (Exchange.getBlocksError inv f more li ln e).answers ++ rest, sent := sent } inv =
      (.error .client,
       { state := "READY", buf := none, script := rest, sent := sent ++ (Exchange.getBlocksError inv f more li ln e).requests }) := by
  exact get_blocks_error sent inv f more li ln e rest

/-- errors never pass as data, at full strength: from a ready association GET returns data
    only if the answers were a normal answer or blocks ending in a last block, and then it is
    exactly the data they carried - for every script whatsoever. -/
theorem C19_get_data_only_from_data (sent : List Req) (inv : Nat) (script : List Ev) (d : Bytes) (s' : St)
    (h : get T { state := "READY", script := script, sent := sent } inv = (.ok d, s')) :
    (∃ i rest, script = .getNormal i d :: rest) ∨
    (∃ f more li ln ld rest, script = (Exchange.getBlocks inv f more li ln ld).answers ++ rest ∧
        d = f.2.2 ++ blocksData more ++ ld) := by
  rcases get_ok_inv sent inv script d s' h with h | ⟨f, more, li, ln, ld, rest, h1, h2⟩
  · exact .inl h
  · exact .inr ⟨f, more, li, ln, ld, rest, by simp [Exchange.answers, h1], h2⟩

/-- the demand function of the specification agrees: whenever C19 demands data / raising for
    the answers given, the GET does exactly that. -/
theorem C19_get_meets_demand (sent : List Req) (inv : Nat) (answers : List Ev) :
    match getDemand answers, get T { state := "READY", script := answers, sent := sent } inv with
    | .data d, (r, s') => r = .ok d ∧ s'.state = "READY" ∧ s'.script = []
    | .raise, (r, _) => ∃ e, r = .error e
    | _, _ => True := by
  split
  · next d r s' hd hg =>
    obtain ⟨s'', h1, h2, h3⟩ := get_getDemand_data sent inv answers d hd
    rw [h1] at hg
    cases hg
    exact ⟨rfl, h2, h3⟩
  · next r s' hd hg =>
    obtain ⟨e, s'', h1⟩ := get_getDemand_raise sent inv answers hd
    rw [h1] at hg
    cases hg
    exact ⟨e, rfl⟩
  · trivial

/-- SET and ACTION give back the meter's result unchanged; an ACTION error raises. -/
theorem C19_set_result (sent : List Req) (inv i r : Nat) (rest : List Ev) :
    set T { state := "READY", script := .setResp i r :: rest, sent := sent } inv =
      (.ok (.setResp i r), { state := "READY", buf := none, script := rest, sent := sent ++ [.set inv] }) := by
  exact set_result sent inv i r rest

theorem C19_action_result (sent : List Req) (inv : Nat) (answers : List Ev) :
    match actionDemand answers, action T { state := "READY", script := answers, sent := sent } inv with
    | .data d, (r, s') => r = .ok (some d) ∧ s'.state = "READY"
    | .nothing, (r, s') => r = .ok none ∧ s'.state = "READY"
    | .raise, (r, s') => r = .error .client ∧ s'.state = "READY"
    | _, _ => True := by
  obtain ⟨hdata, hnothing, hraise⟩ := action_actionDemand sent inv answers
  split
  · next d r s' hd hg =>
    obtain ⟨s'', h1, h2⟩ := hdata d hd
    rw [h1] at hg; cases hg; exact ⟨rfl, h2⟩
  · next r s' hd hg =>
    obtain ⟨s'', h1, h2⟩ := hnothing hd
    rw [h1] at hg; cases hg; exact ⟨rfl, h2⟩
  · next r s' hd hg =>
    obtain ⟨s'', h1, h2⟩ := hraise hd
    rw [h1] at hg; cases hg; exact ⟨rfl, h2⟩
  · trivial

/-- a refused association (or an exception response) raises and leaves no association. -/
theorem C19_associate (sent : List Req) (inv : Nat) (answers : List Ev) :
    match associateDemand answers, associate T { state := "NO_ASSOCIATION", script := answers, sent := sent } inv with
    | .accepted, (r, s') => (∃ ev, r = .ok ev) ∧ s'.state = "READY"
    | .raise, (r, s') => r = .error .client ∧ s'.state = "NO_ASSOCIATION"
    | _, _ => True := by
  obtain ⟨haccepted, hraise⟩ := associate_associateDemand sent inv answers
  split
  · next r s' hd hg =>
    obtain ⟨ev, s'', h1, h2⟩ := haccepted hd
    rw [h1] at hg; cases hg; exact ⟨⟨ev, rfl⟩, h2⟩
  · next r s' hd hg =>
    obtain ⟨s'', h1, h2⟩ := hraise hd
    rw [h1] at hg; cases hg; exact ⟨rfl, h2⟩
  · trivial

/-- many operations on one association: every operation gives what C19 demands, the
    requests handed to the transport are exactly the prescribed ones, and the association
    is ready at the end - for sessions of any length. -/
theorem C19_session (sent : List Req) (xs : List Exchange) :
    session { state := "READY", script := xs.flatMap Exchange.answers, sent := sent } xs =
      (xs.map Exchange.demand,
       { state := "READY", buf := none, script := [], sent := sent ++ xs.flatMap Exchange.requests }) := by
  induction xs generalizing sent with
  | nil => simp [session]
  | cons x xs ih => simp [session, List.flatMap_cons, perform_exchange, ih, List.append_assoc]

/-- non-vacuity: a three-block transfer with an empty middle block. -/
example : get T { state := "READY", script := [.getBlock 193 1 [1, 2], .getBlock 193 2 [], .getLast 193 3 [3]] } 193 =
    (.ok [1, 2, 3], { state := "READY", buf := none, script := [], sent := [.get 193, .next 193 1, .next 193 2] }) := by
  have := C19_get_blocks [] 193 (193, 1, [1, 2]) [(193, 2, [])] 193 3 [3] []
  simpa [Exchange.answers, Exchange.requests, blockEv, blockAck, blocksData] using this

end Props.C19
