/-
  C08 — HLS-GMAC: the association becomes usable only after the meter proves key knowledge.
-/
import DlmsVerif.Lemmas.ConnDefs
import DlmsVerif.Lemmas.ConnSend

namespace Props.C08
open Dlms Model.Conn Lemmas.ConnDefs Lemmas.ConnSend

/-- **form of the client's reply**: security control 0x10 + suite, the client's current
    invocation counter, and the MAC under (encryption key, client title ‖ counter) over
    (security control ‖ authentication key ‖ meter challenge). -/
theorem C08_reply_form (c : Config) (s s' : Conn) (sc ic : Nat) (m : Mac)
    (h : hlsReply c s = (.ok (sc, ic, m), s')) :
    ∃ ek ak ch, c.ek = some ek ∧ c.ak = some ak ∧ s.meterChallenge = some ch ∧
      sc = c.suite + 16 ∧ ic = s.clientIC ∧
      m = .mac { key := ek, title := c.clientTitle, ic := s.clientIC, sc := c.suite + 16, ak := ak } ch := by
  unfold hlsReply at h
  split at h
  · simp at h
  · rename_i ch hch
    split at h
    · simp at h
    · split at h
      · rename_i ek ak hek hak
        repeat' (split at h; · simp at h)
        simp only [Prod.mk.injEq, Except.ok.injEq] at h
        obtain ⟨⟨h1, h2, h3⟩, _⟩ := h
        exact ⟨ek, ak, ch, hek, hak, hch, h1.symm, h2.symm, h3.symm⟩
      · simp at h

/-- **no service request before the exchange is complete**: in the two HLS sub-states the
    only send that is accepted is the single ACTION that carries the proof; while the
    meter's answer is awaited nothing can be sent. -/
theorem C08_no_service_before_proof (c : Config) (s s' : Conn) (k : Kind) (hreq : Kind.isRequest k = true) (ui : Bool) (out : Sent)
    (h : send T c s k ui = (.ok out, s')) :
    (s.state = "SHOULD_SEND_HLS_SEVER_CHALLENGE_RESULT" → k = .actReq ∧ s'.state = "AWAITING_HLS_CLIENT_CHALLENGE_RESULT") ∧
    (s.state ≠ "AWAITING_HLS_CLIENT_CHALLENGE_RESULT") ∧ (s.state ≠ "HLS_DONE") := by
  obtain ⟨_, hl⟩ := send_ok_inv h
  refine ⟨?_, ?_, ?_⟩
  · intro hs
    rw [hs, lk_should] at hl
    split at hl
    · rename_i hk; exact ⟨hk, by injection hl with hl; exact hl.symm⟩
    · cases hl
  · intro hs
    rw [hs, lk_await] at hl
    cases k <;> simp [Kind.isRequest] at hreq <;> simp at hl
  · intro hs
    rw [hs, lk_done] at hl
    cases hl

/-- what a holder of both keys would answer to the client's challenge under the meter's nonce. -/
def validAnswer (c : Config) (s : Conn) (a : Apdu) : Prop :=
  ∃ ek ak mt sc ic, c.ek = some ek ∧ c.ak = some ak ∧ s.meterTitle = some mt ∧ mt.length = 8 ∧
    sc < 256 ∧ sc % 16 ≤ 2 ∧ sc / 32 % 2 = 0 ∧ keyLenOk (sc % 16) ek = true ∧ keyLenOk (sc % 16) ak = true ∧
    c.clientChallenge ≠ [] ∧
    a = .actRespData 0 (.proof sc ic (.mac { key := ek, title := mt, ic := ic, sc := sc, ak := ak } c.clientChallenge))

/-- the Boolean check of the model is exactly the condition of `validAnswer`. -/
private theorem hlsValid_iff (c : Config) (s : Conn) (status : Nat) (d : HlsData) :
    (status == 0 && hlsValid c s d) = true ↔ validAnswer c s (.actRespData status d) := by
  unfold validAnswer hlsValid
  constructor
  · intro h
    rw [Bool.and_eq_true] at h
    obtain ⟨h0, h⟩ := h
    have h0 : status = 0 := by simpa using h0
    subst h0
    split at h
    · rename_i sc ic m ek ak t hek hak hmt
      simp only [Bool.and_eq_true, decide_eq_true_eq, beq_iff_eq, Bool.not_eq_true'] at h
      obtain ⟨⟨⟨⟨⟨⟨⟨h1, h2⟩, h3⟩, h4⟩, h5⟩, h6⟩, h7⟩, h8⟩ := h
      refine ⟨ek, ak, t, sc, ic, hek, hak, hmt, h4, h1, h2, ?_, h5, h6, ?_, ?_⟩
      · have : ¬ (sc / 32 % 2 = 1) := by simpa using h3
        omega
      · intro he; rw [he] at h7; simp at h7
      · rw [h8]
    · cases h
  · rintro ⟨ek, ak, mt, sc, ic, hek, hak, hmt, h4, h1, h2, h3, h5, h6, h7, h8⟩
    cases h8
    simp only [hek, hak, hmt]
    have h7' : c.clientChallenge.isEmpty = false := by
      cases hc : c.clientChallenge
      · exact absurd hc h7
      · rfl
    have h3' : (sc / 32 % 2 == 1) = false := by
      simp; omega
    simp [h1, h2, h3', h4, h5, h6, h7']

/-- **ready iff the meter proved key knowledge**: while the answer is awaited, the
    association becomes ready exactly when the answer is an ACTION response with data,
    status success, whose data is the MAC a holder of both keys computes over the client's
    challenge under the meter's nonce. -/
theorem C08_ready_iff (c : Config) (s : Conn) (hs : s.state = "AWAITING_HLS_CLIENT_CHALLENGE_RESULT") (a : Apdu)
    (ha : Apdu.wf a = true) :
    (deliver T c s a).2.state = "READY" ↔ validAnswer c s a := by
  rcases deliver_await c s hs a ha with ⟨status, d, rfl, hd⟩ | ⟨hne, hd⟩
  · rw [hd, ← hlsValid_iff]
    by_cases hb : (status == 0 && hlsValid c s d) = true
    · simp only [hb, if_true]
    · simp only [hb, Bool.false_eq_true, if_false]
      exact ⟨fun h => absurd h ne_ready2, fun h => absurd h (by simp)⟩
  · constructor
    · intro h
      rcases hd with hd | hd
      · rw [hd, hs] at h; exact absurd h ne_ready1
      · rw [hd] at h; exact absurd h ne_ready2
    · rintro ⟨_, _, _, sc, ic, _, _, _, _, _, _, _, _, _, _, h⟩
      exact absurd h (hne _ _)

/-- **any other answer** (altered proof, wrong challenge, wrong key or title, error status,
    missing or malformed data, another APDU) leaves the connection not associated or still
    waiting — never ready. -/
theorem C08_otherwise_dead (c : Config) (s : Conn) (hs : s.state = "AWAITING_HLS_CLIENT_CHALLENGE_RESULT") (a : Apdu)
    (ha : Apdu.wf a = true) (hn : ¬ validAnswer c s a) :
    (deliver T c s a).2.state = "NO_ASSOCIATION" ∨ (deliver T c s a).2 = s := by
  rcases deliver_await c s hs a ha with ⟨status, d, rfl, hd⟩ | ⟨_, hd⟩
  · rw [← hlsValid_iff] at hn
    left
    rw [hd]
    simp only [hn, Bool.false_eq_true, if_false]
  · rcases hd with hd | hd
    · exact Or.inr hd
    · exact Or.inl hd

/-- and from there **no service request is accepted** until a new association has been
    negotiated: in NO_ASSOCIATION only an association request can be sent, and while the
    answer is awaited nothing can. -/
theorem C08_dead_states_refuse_service (c : Config) (s : Conn)
    (hs : s.state = "NO_ASSOCIATION" ∨ s.state = "AWAITING_HLS_CLIENT_CHALLENGE_RESULT") (k : Kind)
    (hreq : Kind.isRequest k = true) (ui : Bool) (hk : k ≠ .aarq) : ∃ e, (send T c s k ui).1 = .error e ∧ (send T c s k ui).2 = s := by
  apply send_lookup_none
  rcases hs with hs | hs
  · rw [hs, lk_noassoc, if_neg hk]
  · rw [hs, lk_await]
    cases k <;> simp [Kind.isRequest] at hreq <;> simp

/-- non-vacuity: a valid answer exists and makes the association ready. -/
example :
    let c : Config := { clientTitle := [1,2,3,4,5,6,7,8], ek := some ⟨1, 16⟩, ak := some ⟨2, 16⟩, clientChallenge := [7,7,7,7,7,7,7,7] }
    let s : Conn := { state := "AWAITING_HLS_CLIENT_CHALLENGE_RESULT", meterTitle := some [9,9,9,9,9,9,9,9] }
    (deliver T c s (.actRespData 0 (.proof 16 5 (.mac { key := ⟨1, 16⟩, title := [9,9,9,9,9,9,9,9], ic := 5, sc := 16, ak := ⟨2, 16⟩ } [7,7,7,7,7,7,7,7])))).2.state
      = "READY" := by
  decide

end Props.C08
