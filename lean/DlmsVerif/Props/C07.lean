/-
  C07 — A refused incoming APDU leaves the connection exactly as it was.

  Statements over the model of `next_event` (Model.Conn.recv) with symbolic cryptography.
  The decoder is not modelled: `Input.garbage` stands for every byte string the real decoder
  refuses, `Input.apdu a` for its verdict otherwise, so the statements cover every input.
-/
import DlmsVerif.Lemmas.ConnDefs
import DlmsVerif.Lemmas.ConnRecv

namespace Props.C07
open Dlms Model.Conn Lemmas.ConnDefs Lemmas.ConnRecv

/-- **refused for decoding, authentication or replay ⇒ nothing changes**: protocol state, both
    invocation counters, meter title, authentication mechanism, challenge, negotiated
    conformance and PDU size (and the ghost logs) are exactly as before — in every state, for
    every configuration and every input. -/
theorem C07_refused_unchanged (c : Config) (s s' : Conn) (x : Input) (hx : Input.wf x = true) (e : Err)
    (h : recv T c s x = (.error e, s')) (he : e = .decode ∨ e = .auth) : s' = s := by
  cases x with
  | garbage => simp [recv] at h; exact h.2.symm
  | apdu a =>
    simp only [recv] at h
    cases hu : unprotect c s a with
    | error e' => rw [hu] at h; simp at h; exact h.2.symm
    | ok p =>
      obtain ⟨a1, s1⟩ := p
      rw [hu] at h; dsimp only at h
      obtain ⟨hw1, _⟩ := unprotect_ok hx hu
      obtain ⟨he', _⟩ := deliver_error c s1 s' a1 e hw1 h
      rcases he with rfl | rfl <;> simp at he'

/-- a protected APDU whose invocation counter is not larger than the last accepted one is
    refused with nothing changed, whatever else it contains (replays, duplicates, decreasing runs). -/
theorem C07_replay_unchanged (c : Config) (h : c.useProtection = true) (s : Conn) (t : Bytes) (sc ic : Nat) (ct : Cipher)
    (hic : ic ≤ s.meterIC) :
    recv T c s (.apdu (.ggc t sc ic ct)) = (.error .protocol, s) := by
  simp [recv, unprotect, h, hic]

/-- **refused because the kind is not allowed in this state** (or on a pre-established
    association, or because it is not protected): nothing changes, except that the counter of
    an authentic ciphered APDU may have been consumed. -/
theorem C07_wrong_kind (c : Config) (s s' : Conn) (a : Apdu) (ha : Apdu.wf a = true) (e : Err)
    (h : recv T c s (.apdu a) = (.error e, s')) (he : e = .protocol ∨ e = .preEstablished ∨ e = .protection) :
    s' = s ∨ (∃ a1 s1, unprotect c s a = .ok (a1, s1) ∧ s' = s1 ∧
              s1.obs = { s.obs with meterIC := s1.meterIC } ∧ s.meterIC < s1.meterIC) := by
  have _ := he
  simp only [recv] at h
  cases hu : unprotect c s a with
  | error e' => rw [hu] at h; simp at h; exact .inl h.2.symm
  | ok p =>
    obtain ⟨a1, s1⟩ := p
    rw [hu] at h; dsimp only at h
    obtain ⟨hw1, hs1⟩ := unprotect_ok ha hu
    obtain ⟨_, rfl⟩ := deliver_error c s1 s' a1 e hw1 h
    rcases hs1 with rfl | ⟨ic, hic, rfl⟩
    · exact .inl rfl
    · exact .inr ⟨a1, _, rfl, rfl, rfl, hic⟩

/-- hence **a forged or corrupted APDU cannot make the connection reject the meter's next
    genuine APDUs**: after an input refused for decoding/authentication the connection
    treats every continuation exactly as it would have without it. -/
theorem C07_forged_harmless (c : Config) (s s' : Conn) (x : Input) (hx : Input.wf x = true) (e : Err)
    (h : recv T c s x = (.error e, s')) (he : e = .decode ∨ e = .auth) (cont : List Op) :
    run T c cont s' = run T c cont s := by
  rw [C07_refused_unchanged c s s' x hx e h he]

/-- a text that is not sealed under exactly (encryption key, remembered meter title, the
    counter in the APDU, the connection's security-control byte, authentication key) is never
    delivered: tampered ciphertext or tag, wrong key, wrong title, wrong counter. -/
theorem C07_unauthentic_refused (c : Config) (ek ak : Key) (hk : keysOk c ek ak) (s : Conn) (mt : Bytes)
    (hmt : s.meterTitle = some mt) (hl : mt.length = 8) (t : Bytes) (sc ic : Nat) (ct : Cipher) (hic : s.meterIC < ic) (hic2 : ic < 2 ^ 32)
    (hna : ∀ p, ct ≠ .sealed { key := ek, title := mt, ic := ic, sc := c.scByte, ak := ak } p) (hs : ct ≠ .tooShort) :
    recv T c s (.apdu (.ggc t sc ic ct)) = (.error .auth, s) := by
  obtain ⟨hek, hak, hsu, hl1, hl2, hct⟩ := hk
  have hne : mt ≠ [] := by intro h0; subst h0; simp at hl
  cases ct with
  | tooShort => exact absurd rfl hs
  | junk n =>
    simp [recv, unprotect, decrypt, Config.useProtection, hek, hak, hmt, hne, hl, hsu, hl1, hl2, Nat.not_le.mpr hic, Nat.not_le.mpr hic2]
  | sealed args p =>
    have hargs : args ≠ { key := ek, title := mt, ic := ic, sc := c.scByte, ak := ak } := by
      intro h0; subst h0; exact hna p rfl
    simp [recv, unprotect, decrypt, Config.useProtection, hek, hak, hmt, hne, hl, hsu, hl1, hl2, Nat.not_le.mpr hic, Nat.not_le.mpr hic2, hargs]

/-- non-vacuity: a bad-tag APDU with a huge counter, then the genuine next one is accepted. -/
example :
    let c : Config := { clientTitle := [1,2,3,4,5,6,7,8], ek := some ⟨1, 16⟩, ak := some ⟨2, 16⟩ }
    let s : Conn := { state := "AWAITING_GET_RESPONSE", meterIC := 5, meterTitle := some [9,9,9,9,9,9,9,9] }
    let good : Cipher := .sealed { key := ⟨1, 16⟩, title := [9,9,9,9,9,9,9,9], ic := 7, sc := 48, ak := ⟨2, 16⟩ } (.simple .getRespNormal)
    (recv T c s (.apdu (.ggc [9,9,9,9,9,9,9,9] 48 1000 (.junk 0)))).2 = s ∧
    (recv T c s (.apdu (.ggc [9,9,9,9,9,9,9,9] 48 7 good))).2.state = "READY" := by
  decide

end Props.C07
