/-
  C13 — HDLC addresses use the 1/2/4-byte extended form and decode to the same address.
-/
import DlmsVerif.Lemmas.Addr

set_option linter.unusedSimpArgs false

namespace Props.C13
open Dlms Model.Addr Lemmas.Addr

def toSpec (a : Addr) : Spec.Addr.Address :=
  if a.isClient then .client a.logical else .server a.logical a.physical

/-- what the constructor accepts is exactly what has a standard form (a client address
    carries no physical part; a server logical address above 127 needs a physical one). -/
theorem C13_accepted_iff_valid (a : Addr) :
    accepted a = (Spec.Addr.valid (toSpec a) && (!a.isClient || a.physical.isNone)) := by
  cases a with
  | mk l p c =>
  cases c <;> cases p <;> simp [accepted, toSpec, Spec.Addr.valid]
  · rw [Bool.eq_iff_iff]; simp; omega
  · rw [Bool.eq_iff_iff]; simp; omega
  · omega

/-- the bytes written are the standard 1/2/4-byte form. -/
theorem C13_encode_eq_spec (a : Addr) (h : accepted a = true) :
    encodeNat a = Spec.Addr.encode (toSpec a) := by
  cases a with
  | mk l p c =>
  cases c
  · -- server
    cases p with
    | none =>
      simp [accepted] at h
      have hl : l < 16384 := by omega
      simp only [encodeNat, toSpec, Spec.Addr.encode, split_eq l hl]
      have : ¬ l > 127 := by omega
      have e : l % 128 = l := by omega
      simp [this, e, or_one l (by omega)]
    | some p =>
      simp [accepted] at h
      have hl : l < 16384 := by omega
      have hp : p < 16384 := by omega
      simp only [encodeNat, toSpec, Spec.Addr.encode, split_eq l hl, split_eq p hp]
      by_cases h1 : l > 127 <;> by_cases h2 : p > 127
      · have hc : ¬ (l < 128 ∧ p < 128) := by omega
        simp [h1, h2, hc, or_one (p % 128) (by omega)]
      · have hc : ¬ (l < 128 ∧ p < 128) := by omega
        have : p / 128 = 0 := by omega
        simp [h1, h2, hc, this, or_one (p % 128) (by omega)]
      · have hc : ¬ (l < 128 ∧ p < 128) := by omega
        have : l / 128 = 0 := by omega
        simp [h1, h2, hc, this, or_one (p % 128) (by omega)]
      · have hc : (l < 128 ∧ p < 128) := by omega
        have e1 : l % 128 = l := by omega
        have e2 : p % 128 = p := by omega
        simp [h1, h2, hc, e1, e2, or_one p (by omega)]
  · -- client
    simp [accepted] at h
    simp only [encodeNat, toSpec, Spec.Addr.encode, Nat.shiftLeft_eq]
    have := or_one l (by omega)
    simp [Nat.mul_comm] at this ⊢
    exact this

/-- length 1, 2 or 4, bytes below 256, end marker on the last byte only. -/
theorem C13_form (x : Spec.Addr.Address) (h : Spec.Addr.valid x = true) :
    Spec.Addr.formOk (Spec.Addr.encode x) = true := by
  cases x with
  | client a => simp [Spec.Addr.valid] at h; simp [Spec.Addr.encode, Spec.Addr.formOk]; omega
  | server l p =>
    cases p with
    | none => simp [Spec.Addr.valid] at h; simp [Spec.Addr.encode, Spec.Addr.formOk]; omega
    | some p =>
      simp [Spec.Addr.valid] at h
      simp only [Spec.Addr.encode]
      split <;> simp [Spec.Addr.formOk] <;> omega


/-! ### locating and decoding -/

theorem shr1 (k : Nat) : (2 * k + 1) >>> 1 = k := by
  rw [Nat.shiftRight_eq_div_pow]; omega

theorem shr1' (k : Nat) : (2 * k) >>> 1 = k := by
  rw [Nat.shiftRight_eq_div_pow]; omega

theorem parseTwo_eq (h l : Nat) (hl : l < 128) : parseTwo (2 * h) (2 * l + 1) = h * 128 + l := by
  unfold parseTwo
  rw [shr1, shr1', Nat.shiftLeft_eq]; omega

theorem parseTwo_eq' (h l : Nat) (hl : l < 128) : parseTwo (2 * h) (2 * l) = h * 128 + l := by
  unfold parseTwo
  rw [shr1', shr1', Nat.shiftLeft_eq]; omega

def fields : Spec.Addr.Address → Nat × Option Nat × Nat
  | .client a => (a, none, 1)
  | .server l none => (l, none, 1)
  | .server l (some p) => (l, some p, if l < 128 ∧ p < 128 then 2 else 4)

theorem fields_len (x : Spec.Addr.Address) : (fields x).2.2 = (Spec.Addr.encode x).length := by
  cases x with
  | client a => rfl
  | server l p =>
    cases p with
    | none => rfl
    | some p => simp only [fields, Spec.Addr.encode]; split <;> rfl

/-- one address is located and decoded wherever it starts and whatever follows it. -/
theorem findOne_encode (x : Spec.Addr.Address) (hv : Spec.Addr.valid x = true)
    (pre rest : List Nat) :
    findOne (pre ++ Spec.Addr.encode x ++ rest) pre.length =
      .ok (fields x) := by
  have idx : ∀ (xs : List Nat) (i : Nat), i < xs.length →
      (pre ++ xs ++ rest)[pre.length + i]? = xs[i]? := by
    intro xs i hi
    rw [List.append_assoc, List.getElem?_append_right (by omega)]
    simp [List.getElem?_append_left hi]
  cases x with
  | client a =>
    have h0 := idx [2 * a + 1] 0 (by simp)
    simp only [Nat.add_zero] at h0
    simp [findOne, Spec.Addr.encode, fields, h0, shr1]

  | server l p =>
    cases p with
    | none =>
      have h0 := idx [2 * l + 1] 0 (by simp)
      simp only [Nat.add_zero] at h0
      simp [findOne, Spec.Addr.encode, fields, h0, shr1]

    | some p =>
      simp [Spec.Addr.valid] at hv
      by_cases hc : l < 128 ∧ p < 128
      · have h0 := idx [2 * l, 2 * p + 1] 0 (by simp)
        have h1 := idx [2 * l, 2 * p + 1] 1 (by simp)
        simp only [Nat.add_zero] at h0
        simp [findOne, Spec.Addr.encode, fields, hc, h0, h1, shr1, shr1']
      · have h0 := idx [2 * (l / 128), 2 * (l % 128), 2 * (p / 128), 2 * (p % 128) + 1] 0 (by simp)
        have h1 := idx [2 * (l / 128), 2 * (l % 128), 2 * (p / 128), 2 * (p % 128) + 1] 1 (by simp)
        have h2 := idx [2 * (l / 128), 2 * (l % 128), 2 * (p / 128), 2 * (p % 128) + 1] 2 (by simp)
        have h3 := idx [2 * (l / 128), 2 * (l % 128), 2 * (p / 128), 2 * (p % 128) + 1] 3 (by simp)
        simp only [Nat.add_zero] at h0
        have e0 : 2 * (l / 128) % 2 = 0 := by omega
        have e1 : 2 * (l % 128) % 2 = 0 := by omega
        have e3 : (2 * (p % 128) + 1) % 2 = 1 := by omega
        simp [findOne, Spec.Addr.encode, fields, hc, h0, h1, h2, h3, e0, e1, e3,
          parseTwo_eq (p / 128) (p % 128) (by omega), parseTwo_eq' (l / 128) (l % 128) (by omega)]
        omega


/-- **locate ∘ encode = id**: in any frame built with two valid addresses (whatever the
    format bytes and whatever follows), destination and source are found and decode to the
    same logical and physical values. -/
theorem C13_locate_decode (d s : Spec.Addr.Address)
    (hd : Spec.Addr.valid d = true) (hs : Spec.Addr.valid s = true) (f0 f1 : Nat) (rest : List Nat) :
    findNat (0x7E :: f0 :: f1 :: (Spec.Addr.encode d ++ Spec.Addr.encode s ++ rest)) =
      .ok (fields d, fields s) := by
  have e1 : (0x7E :: f0 :: f1 :: (Spec.Addr.encode d ++ Spec.Addr.encode s ++ rest))
      = [0x7E, f0, f1] ++ Spec.Addr.encode d ++ (Spec.Addr.encode s ++ rest) := by simp
  have r1 : findOne ([0x7E, f0, f1] ++ Spec.Addr.encode d ++ (Spec.Addr.encode s ++ rest)) 3
      = .ok (fields d) := findOne_encode d hd [0x7E, f0, f1] (Spec.Addr.encode s ++ rest)
  have e2 : (0x7E :: f0 :: f1 :: (Spec.Addr.encode d ++ Spec.Addr.encode s ++ rest))
      = ([0x7E, f0, f1] ++ Spec.Addr.encode d) ++ Spec.Addr.encode s ++ rest := by simp
  have r2 := findOne_encode s hs ([0x7E, f0, f1] ++ Spec.Addr.encode d) rest
  have hlen : ([0x7E, f0, f1] ++ Spec.Addr.encode d).length = 3 + (fields d).2.2 := by
    rw [fields_len]; simp; omega
  unfold findNat
  rw [e1, r1]
  simp only
  rw [← e1, e2, ← hlen, r2]

/-- the same at byte level, for the model of `HdlcAddress.to_bytes`. -/
theorem C13_locate_decode_bytes (d s : Addr) (hd : accepted d = true) (hs : accepted s = true)
    (f0 f1 : UInt8) (rest : Bytes) :
    ∃ bd bs, encode d = .ok bd ∧ encode s = .ok bs ∧
      find (0x7E :: f0 :: f1 :: (bd ++ bs ++ rest)) =
        .ok ((d.logical, d.physical, bd.length), (s.logical, s.physical, bs.length)) := by
  refine ⟨(encodeNat d).map UInt8.ofNat, (encodeNat s).map UInt8.ofNat,
    by simp [encode, hd], by simp [encode, hs], ?_⟩
  have vd : Spec.Addr.valid (toSpec d) = true := by
    have := C13_accepted_iff_valid d; rw [hd] at this; simp at this; exact this.1
  have vs : Spec.Addr.valid (toSpec s) = true := by
    have := C13_accepted_iff_valid s; rw [hs] at this; simp at this; exact this.1
  have bound : ∀ x, Spec.Addr.valid x = true → ∀ b ∈ Spec.Addr.encode x, b < 256 := by
    intro x hx b hb
    have := C13_form x hx
    simp [Spec.Addr.formOk] at this
    exact this.1.1.2 b hb
  have back : ∀ (l : List Nat), (∀ b ∈ l, b < 256) → (l.map UInt8.ofNat).map (·.toNat) = l := by
    intro l hl
    rw [List.map_map]
    conv => rhs; rw [← List.map_id l]
    apply List.map_congr_left
    intro b hb
    simp [Nat.mod_eq_of_lt (hl b hb)]
  unfold find
  rw [C13_encode_eq_spec d hd, C13_encode_eq_spec s hs]
  simp only [List.map_cons, List.map_append, back _ (bound _ vd), back _ (bound _ vs), List.length_map]
  have := C13_locate_decode (toSpec d) (toSpec s) vd vs f0.toNat f1.toNat (rest.map (·.toNat))
  have h7e : (0x7E : UInt8).toNat = 0x7E := rfl
  rw [h7e, this, ← fields_len, ← fields_len]
  cases d with
  | mk dl dp dc =>
  cases s with
  | mk sl sp sc =>
  cases dc <;> cases sc <;> cases dp <;> cases sp <;> simp_all [toSpec, fields, accepted]

/-- out-of-range addresses are refused. -/
theorem C13_ranges_refused (a : Addr) (h : accepted a = false) : encode a = .error .range := by
  simp [encode, h]

/-- non-vacuity: a four-byte server address next to a client address. -/
example : find (0x7E :: 0xA0 :: 0x0A :: ([0x02, 0x90, 0x00, 0x0B] ++ [0x21] ++ [0x93, 0, 0, 0x7E]))
    = .ok ((200, some 5, 4), (16, none, 1)) := by decide

end Props.C13
