/-
  C17 — IP wrapper frames by length; TCP transport returns whole APDUs for any chunking.
-/
import DlmsVerif.Model.Wrapper
import DlmsVerif.Lemmas.Basic

namespace Props.C17
open Dlms Model.Wrapper

/-- **header layout and round trip**: four big-endian 16-bit fields (version, source,
    destination, length); unpacking what was packed returns the same four numbers. -/
theorem C17_header_roundtrip (v s d n : Nat) (hv : v < 65536) (hs : s < 65536) (hd : d < 65536) (hn : n < 65536) :
    ∃ bs, Header.toBytes { version := v, src := s, dst := d, length := n } = .ok bs ∧ bs.length = 8 ∧
      bs = beBytes 2 v ++ beBytes 2 s ++ beBytes 2 d ++ beBytes 2 n ∧
      Header.fromBytes bs = .ok { version := v, src := s, dst := d, length := n } := by
  sorry

/-- fields that do not fit 16 bits are refused. -/
theorem C17_header_range (h : Header) (hr : ¬ (h.version < 65536 ∧ h.src < 65536 ∧ h.dst < 65536 ∧ h.length < 65536)) :
    h.toBytes = .error .range := by
  sorry

/-- **wrap then unwrap** returns the same ports and payload. -/
theorem C17_pdu_roundtrip (client server : Nat) (apdu : Bytes)
    (hc : client < 65536) (hs : server < 65536) (hl : apdu.length < 65536) :
    ∃ bs, wrap client server apdu = .ok bs ∧
      pduFromBytes bs = .ok ({ version := 1, src := client, dst := server, length := apdu.length }, apdu) := by
  sorry

/-- **length mismatch is refused**: a datagram whose length field disagrees with its payload. -/
theorem C17_length_mismatch_refused (h : Header) (hb : Bytes) (data : Bytes)
    (hh : h.toBytes = .ok hb) (hne : h.length ≠ data.length) :
    pduFromBytes (hb ++ data) = .error .decode := by
  sorry

/-- **exact receive for every read schedule**: if the peer's stream starts with a header
    announcing `payload.length` bytes followed by that payload (and then anything, e.g. the
    next message), the transport returns exactly the payload and leaves exactly the rest
    unread — whatever upper bounds the schedule imposes on the individual reads (down to
    one byte per read, splits inside the 8-byte header included). -/
theorem C17_recv_exact (v s d : Nat) (payload rest : Bytes) (sched : List Nat)
    (hv : v < 65536) (hs : s < 65536) (hd : d < 65536) (hn : payload.length < 65536) :
    ∃ sched', transportRecv { stream := beBytes 2 v ++ beBytes 2 s ++ beBytes 2 d ++ beBytes 2 payload.length ++ payload ++ rest,
                              sched := sched }
      = .ok (payload, { stream := rest, sched := sched' }) := by
  sorry

/-- back-to-back messages: two receives return the two payloads in order. -/
theorem C17_back_to_back (s1 d1 s2 d2 : Nat) (p1 p2 rest : Bytes) (sched : List Nat)
    (h1 : s1 < 65536 ∧ d1 < 65536 ∧ p1.length < 65536) (h2 : s2 < 65536 ∧ d2 < 65536 ∧ p2.length < 65536) :
    ∃ sk1 sk2,
      transportRecv { stream := (beBytes 2 1 ++ beBytes 2 s1 ++ beBytes 2 d1 ++ beBytes 2 p1.length ++ p1) ++
                                (beBytes 2 1 ++ beBytes 2 s2 ++ beBytes 2 d2 ++ beBytes 2 p2.length ++ p2 ++ rest),
                      sched := sched } = .ok (p1, sk1) ∧
      transportRecv sk1 = .ok (p2, sk2) ∧ sk2.stream = rest := by
  sorry

/-- a stream that ends before the announced payload is complete is an error, never data. -/
theorem C17_short_stream_refused (v s d n : Nat) (part : Bytes) (sched : List Nat)
    (hv : v < 65536) (hs : s < 65536) (hd : d < 65536) (hn : n < 65536) (hshort : part.length < n) :
    ∃ e, transportRecv { stream := beBytes 2 v ++ beBytes 2 s ++ beBytes 2 d ++ beBytes 2 n ++ part, sched := sched }
      = .error e := by
  sorry

end Props.C17
