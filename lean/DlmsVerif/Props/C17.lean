/-
  C17 — IP wrapper frames by length; TCP transport returns whole APDUs for any chunking.
-/
import DlmsVerif.Model.Wrapper
import DlmsVerif.Lemmas.Basic
import DlmsVerif.Lemmas.Wrapper

namespace Props.C17
open Dlms Model.Wrapper

/-- **header layout and round trip**: four big-endian 16-bit fields (version, source,
    destination, length); unpacking what was packed returns the same four numbers. -/
theorem C17_header_roundtrip (v s d n : Nat) (hv : v < 65536) (hs : s < 65536) (hd : d < 65536) (hn : n < 65536) :
    ∃ bs, Header.toBytes { version := v, src := s, dst := d, length := n } = .ok bs ∧ bs.length = 8 ∧
      bs = beBytes 2 v ++ beBytes 2 s ++ beBytes 2 d ++ beBytes 2 n ∧
      Header.fromBytes bs = .ok { version := v, src := s, dst := d, length := n } := by
  refine ⟨_, ?_, header_length v s d n, rfl, fromBytes_header v s d n hv hs hd hn⟩
  simp [Header.toBytes, hv, hs, hd, hn]

/-- fields that do not fit 16 bits are refused. -/
theorem C17_header_range (h : Header) (hr : ¬ (h.version < 65536 ∧ h.src < 65536 ∧ h.dst < 65536 ∧ h.length < 65536)) :
    h.toBytes = .error .range := by
  unfold Header.toBytes
  rw [if_neg hr]

/-- **wrap then unwrap** returns the same ports and payload. -/
theorem C17_pdu_roundtrip (client server : Nat) (apdu : Bytes)
    (hc : client < 65536) (hs : server < 65536) (hl : apdu.length < 65536) :
    ∃ bs, wrap client server apdu = .ok bs ∧
      pduFromBytes bs = .ok ({ version := 1, src := client, dst := server, length := apdu.length }, apdu) := by
  refine ⟨beBytes 2 1 ++ beBytes 2 client ++ beBytes 2 server ++ beBytes 2 apdu.length ++ apdu, ?_, ?_⟩
  · simp [wrap, pduToBytes, Header.toBytes, hc, hs, hl]
  · have hl8 := header_length 1 client server apdu.length
    unfold pduFromBytes
    rw [List.take_left' hl8, List.drop_left' hl8,
      fromBytes_header 1 client server apdu.length (by decide) hc hs hl]
    simp

/-- **length mismatch is refused**: a datagram whose length field disagrees with its payload. -/
theorem C17_length_mismatch_refused (h : Header) (hb : Bytes) (data : Bytes)
    (hh : h.toBytes = .ok hb) (hne : h.length ≠ data.length) :
    pduFromBytes (hb ++ data) = .error .decode := by
  unfold Header.toBytes at hh
  split at hh
  · rename_i hr
    obtain ⟨hv, hs, hd, hn⟩ := hr
    injection hh with hh
    subst hh
    have hl8 := header_length h.version h.src h.dst h.length
    unfold pduFromBytes
    rw [List.take_left' hl8, List.drop_left' hl8,
      fromBytes_header _ _ _ _ hv hs hd hn]
    simp [hne]
  · cases hh

/-- **exact receive for every read schedule**: if the peer's stream starts with a header
    announcing `payload.length` bytes followed by that payload (and then anything, e.g. the
    next message), the transport returns exactly the payload and leaves exactly the rest
    unread — whatever upper bounds the schedule imposes on the individual reads (down to
    one byte per read, splits inside the 8-byte header included). -/
theorem C17_recv_exact (v s d : Nat) (payload rest : Bytes) (sched : List Nat)
    (hv : v < 65536) (hs : s < 65536) (hd : d < 65536) (hn : payload.length < 65536) :
    ∃ sched', transportRecv { stream := beBytes 2 v ++ beBytes 2 s ++ beBytes 2 d ++ beBytes 2 payload.length ++ payload ++ rest,
                              sched := sched }
      = .ok (payload, { stream := rest, sched := sched' }) := by
  have hl8 := header_length v s d payload.length
  obtain ⟨k1, h1⟩ := recvExactly_ok 8 8
    (beBytes 2 v ++ beBytes 2 s ++ beBytes 2 d ++ beBytes 2 payload.length) (payload ++ rest) []
    sched (Nat.le_refl _) hl8
  obtain ⟨k2, h2⟩ := recvExactly_ok payload.length payload.length payload rest [] k1
    (Nat.le_refl _) rfl
  refine ⟨k2, ?_⟩
  unfold transportRecv
  rw [List.append_assoc _ payload rest, h1]
  simp only [List.nil_append]
  rw [fromBytes_header v s d payload.length hv hs hd hn]
  simpa using h2

/-- back-to-back messages: two receives return the two payloads in order. -/
theorem C17_back_to_back (s1 d1 s2 d2 : Nat) (p1 p2 rest : Bytes) (sched : List Nat)
    (h1 : s1 < 65536 ∧ d1 < 65536 ∧ p1.length < 65536) (h2 : s2 < 65536 ∧ d2 < 65536 ∧ p2.length < 65536) :
    ∃ sk1 sk2,
      transportRecv { stream := (beBytes 2 1 ++ beBytes 2 s1 ++ beBytes 2 d1 ++ beBytes 2 p1.length ++ p1) ++
                                (beBytes 2 1 ++ beBytes 2 s2 ++ beBytes 2 d2 ++ beBytes 2 p2.length ++ p2 ++ rest),
                      sched := sched } = .ok (p1, sk1) ∧
      transportRecv sk1 = .ok (p2, sk2) ∧ sk2.stream = rest := by
  obtain ⟨hs1, hd1, hp1⟩ := h1
  obtain ⟨hs2, hd2, hp2⟩ := h2
  obtain ⟨k1, e1⟩ := C17_recv_exact 1 s1 d1 p1
    (beBytes 2 1 ++ beBytes 2 s2 ++ beBytes 2 d2 ++ beBytes 2 p2.length ++ p2 ++ rest) sched
    (by decide) hs1 hd1 hp1
  obtain ⟨k2, e2⟩ := C17_recv_exact 1 s2 d2 p2 rest k1 (by decide) hs2 hd2 hp2
  exact ⟨_, _, e1, e2, rfl⟩

/-- a stream that ends before the announced payload is complete is an error, never data. -/
theorem C17_short_stream_refused (v s d n : Nat) (part : Bytes) (sched : List Nat)
    (hv : v < 65536) (hs : s < 65536) (hd : d < 65536) (hn : n < 65536) (hshort : part.length < n) :
    ∃ e, transportRecv { stream := beBytes 2 v ++ beBytes 2 s ++ beBytes 2 d ++ beBytes 2 n ++ part, sched := sched }
      = .error e := by
  have hl8 := header_length v s d n
  obtain ⟨k1, h1⟩ := recvExactly_ok 8 8
    (beBytes 2 v ++ beBytes 2 s ++ beBytes 2 d ++ beBytes 2 n) part []
    sched (Nat.le_refl _) hl8
  obtain ⟨e, he⟩ := recvExactly_short n { stream := part, sched := k1 } n [] hshort
  refine ⟨e, ?_⟩
  unfold transportRecv
  rw [h1]
  simp only [List.nil_append]
  rw [fromBytes_header v s d n hv hs hd hn]
  simpa using he

end Props.C17
