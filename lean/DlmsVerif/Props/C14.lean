/-
  C14 — DLMS data codec: values decode as encoded, lengths honoured, truncation refused.

  `Spec.Axdr.encode` is the standard A-XDR encoding of a value tree (unbounded depth and
  width); `Model.Axdr` models the cursor-driven decoder of a_xdr.py, run with the tag table
  extracted from the code (Gen.Data), and the value encoders of dlms_data.py.
-/
import DlmsVerif.Gen.Data
import DlmsVerif.Model.Axdr
import DlmsVerif.Lemmas.Basic

namespace Props.C14
open Dlms Spec.Axdr Model.Axdr

def T : Table := Gen.Data.dataMap

/- the Python value corresponding to a value tree (`none` when a date/time string does not
   denote a calendar value: then the decoder refuses, see C16). -/
mutual
def toPy : Data → Option PyVal
  | .null => some .none
  | .bool b => some (.bool b)
  | .i8 v => some (.int v) | .i16 v => some (.int v) | .i32 v => some (.int v) | .i64 v => some (.int v)
  | .u8 v => some (.int v) | .u16 v => some (.int v) | .u32 v => some (.int v) | .u64 v => some (.int v)
  | .enum v => some (.int v)
  | .octets bs => some (.bytes bs)
  | .dateTime bs => match Model.Time.decode bs with
    | .ok (d, st) => some (.dateTime d st)
    | .error _ => none
  | .date bs => match Model.Time.decodeDate bs with
    | .ok (y, m, d) => some (.date y m d)
    | .error _ => none
  | .time bs => match Model.Time.decodeTime bs with
    | .ok (h, m, s, us) => some (.time h m s us)
    | .error _ => none
  | .array xs => (toPyList xs).map .list
  | .structure xs => (toPyList xs).map .list
def toPyList : List Data → Option (List PyVal)
  | [] => some []
  | x :: xs => match toPy x, toPyList xs with
    | some v, some vs => some (v :: vs)
    | _, _ => none
end

/-- the tag table of the code is the Blue-Book table for the supported types (tags, fixed
    sizes), and the classes without a decoder are exactly the unsupported ones. -/
theorem C14_table :
    (Gen.Data.dataMap.map fun r => (r.1, r.2.2.1, r.2.2.2.1)) =
      [(0, 0, true), (1, -1, false), (2, -1, false), (3, 1, true), (4, -1, false), (5, 4, true), (6, 4, true),
       (9, -1, true), (10, -1, false), (12, -1, false), (13, -1, false), (15, 1, true), (16, 2, true),
       (17, 1, true), (18, 2, true), (19, -1, false), (20, 8, true), (21, 8, true), (22, 1, true),
       (23, 4, false), (24, 8, false), (25, 12, true), (26, 5, true), (27, 4, true), (255, 0, false)] ∧
    (Gen.Data.dataMap.all fun r => r.1 == r.2.2.2.2.2) = true ∧ Gen.Data.variableLength = -1 := by
  sorry

/-- every length / count is read back, whatever follows (one-byte and 0x81.. forms). -/
theorem C14_lenPrefix_roundtrip (n : Nat) (h : byteLen n ≤ 127) (r : Bytes) :
    axdrLen (lenPrefix n ++ r) = .ok (n, r) := by
  sorry

/-- **decode ∘ encode = id with exact consumption**: for every well-formed value tree (any
    depth, any width, octet strings of any length) followed by any bytes, the decoder
    returns the corresponding Python value and exactly the bytes that follow. -/
theorem C14_decode_encode (v : Data) (hw : wf v = true) (py : PyVal) (hp : toPy v = some py)
    (rest : Bytes) (fuel : Nat) (hf : (encode v).length ≤ fuel) :
    decodeItem T fuel (encode v ++ rest) = .ok (py, rest) := by
  sorry

/-- the top-level entry point on the encoding of one value. -/
theorem C14_parse_single (v : Data) (hw : wf v = true) (py : PyVal) (hp : toPy v = some py) :
    parseAsDlmsData T (encode v) = .ok py := by
  sorry

/-- **truncation is refused**: an input that ends before the lengths and counts it declares
    are satisfied — every non-empty proper prefix of an encoding — is refused, not completed. -/
theorem C14_prefix_refused (v : Data) (hw : wf v = true) (p : Bytes)
    (hp : p <+: encode v) (hne : p ≠ encode v) (hnn : p ≠ []) :
    parseAsDlmsData T p = .error .decode := by
  sorry

/-- **encoders**: the value encoders the library has (double-long-unsigned, long-unsigned,
    integer, octet-string of any length, including 128 bytes and more) produce the standard
    encoding. -/
theorem C14_encoder_ok (v : Data) (hw : wf v = true)
    (hs : match v with | .u32 _ | .u16 _ | .i8 _ | .octets _ => True | _ => False) :
    toBytes T v = .ok (encode v) := by
  sorry

/-- non-vacuity: a nested value with a 200-byte octet string. -/
example : wf (.structure [.array [.u8 1, .null], .octets (List.replicate 200 0), .i8 (-1)]) = true := by
  sorry

end Props.C14
