/-
  C14 — DLMS data codec: values decode as encoded, lengths honoured, truncation refused.

  `Spec.Axdr.encode` is the standard A-XDR encoding of a value tree (unbounded depth and
  width); `Model.Axdr` models the cursor-driven decoder of a_xdr.py, run with the tag table
  extracted from the code (Gen.Data), and the value encoders of dlms_data.py.
-/
import DlmsVerif.Gen.Data
import DlmsVerif.Model.Axdr
import DlmsVerif.Lemmas.Basic
import DlmsVerif.Lemmas.Axdr

namespace Props.C14
open Dlms Spec.Axdr Model.Axdr Lemmas.Axdr

def T : Table := Gen.Data.dataMap

/- the Python value corresponding to a value tree (`none` when a date/time string does not
   denote a calendar value: then the decoder refuses, see C16). -/
mutual
def toPy : Data → Option PyVal
  | .null => some .none
  | .bool b => some (.bool b)
  | .i8 v => some (.int v) | .i16 v => some (.int v) | .i32 v => some (.int v) | .i64 v => some (.int v)
  | .u8 v => some (.int v) | .u16 v => some (.int v) | .u32 v => some (.int v) | .u64 v => some (.int v)
  | .enum v => some (.int v)
  | .octets bs => some (.bytes bs)
  | .dateTime bs => match Model.Time.decode bs with
    | .ok (d, st) => some (.dateTime d st)
    | .error _ => none
  | .date bs => match Model.Time.decodeDate bs with
    | .ok (y, m, d) => some (.date y m d)
    | .error _ => none
  | .time bs => match Model.Time.decodeTime bs with
    | .ok (h, m, s, us) => some (.time h m s us)
    | .error _ => none
  | .array xs => (toPyList xs).map .list
  | .structure xs => (toPyList xs).map .list
def toPyList : List Data → Option (List PyVal)
  | [] => some []
  | x :: xs => match toPy x, toPyList xs with
    | some v, some vs => some (v :: vs)
    | _, _ => none
end


/-! ### helpers: rows of the concrete table -/

private theorem lk0 : lookup T (0 : UInt8).toNat = some ("NullData", 0, true) := by decide
private theorem lk1 : lookup T (1 : UInt8).toNat = some ("DataArray", -1, false) := by decide
private theorem lk2 : lookup T (2 : UInt8).toNat = some ("DataStructure", -1, false) := by decide
private theorem lk3 : lookup T (3 : UInt8).toNat = some ("BooleanData", 1, true) := by decide
private theorem lk5 : lookup T (5 : UInt8).toNat = some ("DoubleLongData", 4, true) := by decide
private theorem lk6 : lookup T (6 : UInt8).toNat = some ("DoubleLongUnsignedData", 4, true) := by decide
private theorem lk9 : lookup T (9 : UInt8).toNat = some ("OctetStringData", -1, true) := by decide
private theorem lk15 : lookup T (15 : UInt8).toNat = some ("IntegerData", 1, true) := by decide
private theorem lk16 : lookup T (16 : UInt8).toNat = some ("LongData", 2, true) := by decide
private theorem lk17 : lookup T (17 : UInt8).toNat = some ("UnsignedIntegerData", 1, true) := by decide
private theorem lk18 : lookup T (18 : UInt8).toNat = some ("UnsignedLongData", 2, true) := by decide
private theorem lk20 : lookup T (20 : UInt8).toNat = some ("Long64Data", 8, true) := by decide
private theorem lk21 : lookup T (21 : UInt8).toNat = some ("UnsignedLong64Data", 8, true) := by decide
private theorem lk22 : lookup T (22 : UInt8).toNat = some ("EnumData", 1, true) := by decide
private theorem lk25 : lookup T (25 : UInt8).toNat = some ("DateTimeData", 12, true) := by decide
private theorem lk26 : lookup T (26 : UInt8).toNat = some ("DateData", 5, true) := by decide
private theorem lk27 : lookup T (27 : UInt8).toNat = some ("TimeData", 4, true) := by decide

private theorem twos_length (k : Nat) (v : Int) : (twos k v).length = k := by
  unfold twos; exact beBytes_length _ _

private theorem encode_length_pos (v : Data) : 1 ≤ (encode v).length := by
  cases v <;> simp [encode]

/-! ### decoding an encoding: exact consumption, or the refusal of an invalid date/time -/

mutual
private theorem dec_item (v : Data) (hw : wf v = true) (rest : Bytes) (k : Nat)
    (hf : (encode v).length ≤ k + 1) :
    decodeItem T (k + 1) (encode v ++ rest) =
      match toPy v with
      | some py => .ok (py, rest)
      | none => .error .decode := by
  match v with
  | .null =>
    simp only [encode, toPy, List.cons_append, List.nil_append]
    rw [show rest = [] ++ rest from rfl,
      decodeItem_fixed T 0 _ _ k lk0 (by decide) (by decide) [] rest (by decide)]
    simp [fromBytes]
  | .bool b =>
    simp only [encode, toPy, List.cons_append, List.nil_append]
    rw [show (if b then (1 : UInt8) else 0) :: rest = [if b then (1 : UInt8) else 0] ++ rest from rfl,
      decodeItem_fixed T 3 _ _ k lk3 (by decide) (by decide) _ rest rfl]
    cases b <;> simp [fromBytes, beNat]
  | .i8 x =>
    simp only [wf, Bool.and_eq_true, decide_eq_true_eq] at hw
    simp only [encode, toPy, List.cons_append]
    rw [decodeItem_fixed T 15 _ _ k lk15 (by decide) (by decide) _ rest (twos_length 1 x)]
    simp [fromBytes, signed_twos_1 x hw.1 hw.2]
  | .i16 x =>
    simp only [wf, Bool.and_eq_true, decide_eq_true_eq] at hw
    simp only [encode, toPy, List.cons_append]
    rw [decodeItem_fixed T 16 _ _ k lk16 (by decide) (by decide) _ rest (twos_length 2 x)]
    simp [fromBytes, signed_twos_2 x hw.1 hw.2]
  | .i32 x =>
    simp only [wf, Bool.and_eq_true, decide_eq_true_eq] at hw
    simp only [encode, toPy, List.cons_append]
    rw [decodeItem_fixed T 5 _ _ k lk5 (by decide) (by decide) _ rest (twos_length 4 x)]
    simp [fromBytes, signed_twos_4 x hw.1 hw.2]
  | .i64 x =>
    simp only [wf, Bool.and_eq_true, decide_eq_true_eq] at hw
    simp only [encode, toPy, List.cons_append]
    rw [decodeItem_fixed T 20 _ _ k lk20 (by decide) (by decide) _ rest (twos_length 8 x)]
    simp [fromBytes, signed_twos_8 x hw.1 hw.2]
  | .u8 x =>
    simp only [wf, decide_eq_true_eq] at hw
    simp only [encode, toPy, List.cons_append]
    rw [decodeItem_fixed T 17 _ _ k lk17 (by decide) (by decide) _ rest (beBytes_length 1 x)]
    simp [fromBytes, beNat_beBytes_of_lt 1 x (by rw [p1]; exact hw)]
  | .u16 x =>
    simp only [wf, decide_eq_true_eq] at hw
    simp only [encode, toPy, List.cons_append]
    rw [decodeItem_fixed T 18 _ _ k lk18 (by decide) (by decide) _ rest (beBytes_length 2 x)]
    simp [fromBytes, beNat_beBytes_of_lt 2 x (by rw [p2]; exact hw)]
  | .u32 x =>
    simp only [wf, decide_eq_true_eq] at hw
    simp only [encode, toPy, List.cons_append]
    rw [decodeItem_fixed T 6 _ _ k lk6 (by decide) (by decide) _ rest (beBytes_length 4 x)]
    simp [fromBytes, beNat_beBytes_of_lt 4 x (by rw [p4]; exact hw)]
  | .u64 x =>
    simp only [wf, decide_eq_true_eq] at hw
    simp only [encode, toPy, List.cons_append]
    rw [decodeItem_fixed T 21 _ _ k lk21 (by decide) (by decide) _ rest (beBytes_length 8 x)]
    simp [fromBytes, beNat_beBytes_of_lt 8 x (by rw [p8]; exact hw)]
  | .enum x =>
    simp only [wf, decide_eq_true_eq] at hw
    simp only [encode, toPy, List.cons_append]
    rw [decodeItem_fixed T 22 _ _ k lk22 (by decide) (by decide) _ rest (beBytes_length 1 x)]
    simp [fromBytes, beNat_beBytes_of_lt 1 x (by rw [p1]; exact hw)]
  | .octets bs =>
    simp only [wf, decide_eq_true_eq] at hw
    simp only [encode, toPy, List.cons_append, List.append_assoc]
    rw [decodeItem_var T 9 _ k lk9 (by decide) bs rest hw]
    simp [fromBytes]
  | .dateTime bs =>
    simp only [wf, beq_iff_eq] at hw
    simp only [encode, toPy, List.cons_append]
    rw [decodeItem_fixed T 25 _ _ k lk25 (by decide) (by decide) bs rest (by rw [hw]; decide)]
    cases h : Model.Time.decode bs with
    | error e => cases time_decode_err bs e h; simp [fromBytes, h]
    | ok x => simp [fromBytes, h]
  | .date bs =>
    simp only [wf, beq_iff_eq] at hw
    simp only [encode, toPy, List.cons_append]
    rw [decodeItem_fixed T 26 _ _ k lk26 (by decide) (by decide) bs rest (by rw [hw]; decide)]
    cases h : Model.Time.decodeDate bs with
    | error e => cases time_decodeDate_err bs e h; simp [fromBytes, h]
    | ok x => simp [fromBytes, h]
  | .time bs =>
    simp only [wf, beq_iff_eq] at hw
    simp only [encode, toPy, List.cons_append]
    rw [decodeItem_fixed T 27 _ _ k lk27 (by decide) (by decide) bs rest (by rw [hw]; decide)]
    cases h : Model.Time.decodeTime bs with
    | error e => cases time_decodeTime_err bs e h; simp [fromBytes, h]
    | ok x => simp [fromBytes, h]
  | .array xs =>
    simp only [wf, Bool.and_eq_true, decide_eq_true_eq] at hw
    simp only [encode, List.length_cons, List.length_append] at hf
    simp only [encode, toPy, List.cons_append, List.append_assoc]
    rw [decodeItem_container T 1 _ _ _ k lk1 (by decide) _ hw.1,
      dec_list xs hw.2 rest k (by omega)]
    cases toPyList xs <;> simp
  | .structure xs =>
    simp only [wf, Bool.and_eq_true, decide_eq_true_eq] at hw
    simp only [encode, List.length_cons, List.length_append] at hf
    simp only [encode, toPy, List.cons_append, List.append_assoc]
    rw [decodeItem_container T 2 _ _ _ k lk2 (by decide) _ hw.1,
      dec_list xs hw.2 rest k (by omega)]
    cases toPyList xs <;> simp
private theorem dec_list (xs : List Data) (hw : wfList xs = true) (rest : Bytes) (k : Nat)
    (hf : (encodeList xs).length ≤ k) :
    decodeN T k xs.length (encodeList xs ++ rest) =
      match toPyList xs with
      | some pys => .ok (pys, rest)
      | none => .error .decode := by
  match xs with
  | [] => simp [decodeN, encodeList, toPyList]
  | x :: xs =>
    simp only [wfList, Bool.and_eq_true] at hw
    simp only [encodeList, List.length_append] at hf
    have hpos := encode_length_pos x
    obtain ⟨k', rfl⟩ : ∃ k', k = k' + 1 := ⟨k - 1, by omega⟩
    simp only [encodeList, List.length_cons, List.append_assoc, decodeN, toPyList]
    rw [dec_item x hw.1 _ k' (by omega)]
    cases hx : toPy x with
    | none => simp
    | some py =>
      simp only []
      rw [dec_list xs hw.2 rest (k' + 1) (by omega)]
      cases toPyList xs <;> simp
end

/-! ### a truncated encoding is refused -/

mutual
private theorem pre_item (v : Data) (hw : wf v = true) (p : Bytes) (hp : p <+: encode v)
    (hne : p ≠ encode v) (fuel : Nat) (hf : p.length ≤ fuel) :
    decodeItem T fuel p = .error .decode := by
  match v with
  | .null =>
    simp only [encode] at hp hne
    exact decodeItem_fixed_prefix T 0 _ _ _ fuel lk0 (by decide) (by decide) _ rfl p hp hne
  | .bool b =>
    simp only [encode] at hp hne
    exact decodeItem_fixed_prefix T 3 _ _ _ fuel lk3 (by decide) (by decide) _ rfl p hp hne
  | .i8 x =>
    simp only [encode] at hp hne
    exact decodeItem_fixed_prefix T 15 _ _ _ fuel lk15 (by decide) (by decide) _ (twos_length 1 x) p hp hne
  | .i16 x =>
    simp only [encode] at hp hne
    exact decodeItem_fixed_prefix T 16 _ _ _ fuel lk16 (by decide) (by decide) _ (twos_length 2 x) p hp hne
  | .i32 x =>
    simp only [encode] at hp hne
    exact decodeItem_fixed_prefix T 5 _ _ _ fuel lk5 (by decide) (by decide) _ (twos_length 4 x) p hp hne
  | .i64 x =>
    simp only [encode] at hp hne
    exact decodeItem_fixed_prefix T 20 _ _ _ fuel lk20 (by decide) (by decide) _ (twos_length 8 x) p hp hne
  | .u8 x =>
    simp only [encode] at hp hne
    exact decodeItem_fixed_prefix T 17 _ _ _ fuel lk17 (by decide) (by decide) _ (beBytes_length 1 x) p hp hne
  | .u16 x =>
    simp only [encode] at hp hne
    exact decodeItem_fixed_prefix T 18 _ _ _ fuel lk18 (by decide) (by decide) _ (beBytes_length 2 x) p hp hne
  | .u32 x =>
    simp only [encode] at hp hne
    exact decodeItem_fixed_prefix T 6 _ _ _ fuel lk6 (by decide) (by decide) _ (beBytes_length 4 x) p hp hne
  | .u64 x =>
    simp only [encode] at hp hne
    exact decodeItem_fixed_prefix T 21 _ _ _ fuel lk21 (by decide) (by decide) _ (beBytes_length 8 x) p hp hne
  | .enum x =>
    simp only [encode] at hp hne
    exact decodeItem_fixed_prefix T 22 _ _ _ fuel lk22 (by decide) (by decide) _ (beBytes_length 1 x) p hp hne
  | .octets bs =>
    simp only [wf, decide_eq_true_eq] at hw
    simp only [encode] at hp hne
    exact decodeItem_var_prefix T 9 _ _ fuel lk9 (by decide) bs hw p hp hne
  | .dateTime bs =>
    simp only [wf, beq_iff_eq] at hw
    simp only [encode] at hp hne
    exact decodeItem_fixed_prefix T 25 _ _ _ fuel lk25 (by decide) (by decide) _ (by rw [hw]; decide) p hp hne
  | .date bs =>
    simp only [wf, beq_iff_eq] at hw
    simp only [encode] at hp hne
    exact decodeItem_fixed_prefix T 26 _ _ _ fuel lk26 (by decide) (by decide) _ (by rw [hw]; decide) p hp hne
  | .time bs =>
    simp only [wf, beq_iff_eq] at hw
    simp only [encode] at hp hne
    exact decodeItem_fixed_prefix T 27 _ _ _ fuel lk27 (by decide) (by decide) _ (by rw [hw]; decide) p hp hne
  | .array xs =>
    simp only [wf, Bool.and_eq_true, decide_eq_true_eq] at hw
    simp only [encode] at hp hne
    rcases proper_prefix_cons hp hne with rfl | ⟨q, rfl, hq, hqne⟩
    · exact decodeItem_nil T fuel
    · obtain ⟨k, rfl⟩ : ∃ k, fuel = k + 1 := ⟨fuel - 1, by simp at hf; omega⟩
      rcases proper_prefix_append hq hqne with ⟨h1, h2⟩ | ⟨q', rfl, h1, h2⟩
      · exact decodeItem_len_short T 1 _ _ _ k lk1 (.inl (by decide)) _ hw.1 q h1 h2
      · rw [decodeItem_container T 1 _ _ _ k lk1 (by decide) _ hw.1,
          pre_list xs hw.2 q' h1 h2 k (by simp at hf; omega)]
  | .structure xs =>
    simp only [wf, Bool.and_eq_true, decide_eq_true_eq] at hw
    simp only [encode] at hp hne
    rcases proper_prefix_cons hp hne with rfl | ⟨q, rfl, hq, hqne⟩
    · exact decodeItem_nil T fuel
    · obtain ⟨k, rfl⟩ : ∃ k, fuel = k + 1 := ⟨fuel - 1, by simp at hf; omega⟩
      rcases proper_prefix_append hq hqne with ⟨h1, h2⟩ | ⟨q', rfl, h1, h2⟩
      · exact decodeItem_len_short T 2 _ _ _ k lk2 (.inl (by decide)) _ hw.1 q h1 h2
      · rw [decodeItem_container T 2 _ _ _ k lk2 (by decide) _ hw.1,
          pre_list xs hw.2 q' h1 h2 k (by simp at hf; omega)]
private theorem pre_list (xs : List Data) (hw : wfList xs = true) (p : Bytes)
    (hp : p <+: encodeList xs) (hne : p ≠ encodeList xs) (fuel : Nat) (hf : p.length ≤ fuel) :
    decodeN T fuel xs.length p = .error .decode := by
  match xs with
  | [] =>
    simp only [encodeList] at hp hne
    exact absurd (List.prefix_nil.mp hp) hne
  | x :: xs =>
    simp only [wfList, Bool.and_eq_true] at hw
    simp only [encodeList] at hp hne
    simp only [List.length_cons, decodeN]
    rcases proper_prefix_append hp hne with ⟨h1, h2⟩ | ⟨q, rfl, h1, h2⟩
    · rw [pre_item x hw.1 p h1 h2 fuel hf]
    · have hpos := encode_length_pos x
      simp only [List.length_append] at hf
      obtain ⟨k, rfl⟩ : ∃ k, fuel = k + 1 := ⟨fuel - 1, by omega⟩
      rw [dec_item x hw.1 q k (by omega)]
      cases toPy x with
      | none => rfl
      | some py =>
        simp only []
        rw [pre_list xs hw.2 q h1 h2 (k + 1) (by omega)]
end

/-- the tag table of the code is the Blue-Book table for the supported types (tags, fixed
    sizes), and the classes without a decoder are exactly the unsupported ones. -/
theorem C14_table :
    (Gen.Data.dataMap.map fun r => (r.1, r.2.2.1, r.2.2.2.1)) =
      [(0, 0, true), (1, -1, false), (2, -1, false), (3, 1, true), (4, -1, false), (5, 4, true), (6, 4, true),
       (9, -1, true), (10, -1, false), (12, -1, false), (13, -1, false), (15, 1, true), (16, 2, true),
       (17, 1, true), (18, 2, true), (19, -1, false), (20, 8, true), (21, 8, true), (22, 1, true),
       (23, 4, false), (24, 8, false), (25, 12, true), (26, 5, true), (27, 4, true), (255, 0, false)] ∧
    (Gen.Data.dataMap.all fun r => r.1 == r.2.2.2.2.2) = true ∧ Gen.Data.variableLength = -1 := by
  decide

/-- every length / count is read back, whatever follows (one-byte and 0x81.. forms). -/
theorem C14_lenPrefix_roundtrip (n : Nat) (h : byteLen n ≤ 127) (r : Bytes) :
    axdrLen (lenPrefix n ++ r) = .ok (n, r) :=
  axdrLen_lenPrefix n h r

/-- **decode ∘ encode = id with exact consumption**: for every well-formed value tree (any
    depth, any width, octet strings of any length) followed by any bytes, the decoder
    returns the corresponding Python value and exactly the bytes that follow. -/
theorem C14_decode_encode (v : Data) (hw : wf v = true) (py : PyVal) (hp : toPy v = some py)
    (rest : Bytes) (fuel : Nat) (hf : (encode v).length ≤ fuel) :
    decodeItem T fuel (encode v ++ rest) = .ok (py, rest) := by
  have hpos := encode_length_pos v
  obtain ⟨k, rfl⟩ : ∃ k, fuel = k + 1 := ⟨fuel - 1, by omega⟩
  rw [dec_item v hw rest k hf, hp]

/-- the top-level entry point on the encoding of one value. -/
theorem C14_parse_single (v : Data) (hw : wf v = true) (py : PyVal) (hp : toPy v = some py) :
    parseAsDlmsData T (encode v) = .ok py := by
  have hpos := encode_length_pos v
  have hne : (encode v).isEmpty = false := by
    cases h : encode v with
    | nil => rw [h] at hpos; simp at hpos
    | cons a l => rfl
  have hd := C14_decode_encode v hw py hp [] ((encode v).length + 1) (by omega)
  rw [List.append_nil] at hd
  unfold parseAsDlmsData
  rw [decodeAll]
  simp only [hne, hd]
  have he : ∀ k, decodeAll T k [] = .ok [] := by
    intro k; cases k <;> simp [decodeAll]
  simp [he]

/-- **truncation is refused**: an input that ends before the lengths and counts it declares
    are satisfied — every non-empty proper prefix of an encoding — is refused, not completed. -/
theorem C14_prefix_refused (v : Data) (hw : wf v = true) (p : Bytes)
    (hp : p <+: encode v) (hne : p ≠ encode v) (hnn : p ≠ []) :
    parseAsDlmsData T p = .error .decode := by
  have hne' : p.isEmpty = false := by
    cases p with
    | nil => exact absurd rfl hnn
    | cons a l => rfl
  unfold parseAsDlmsData
  rw [decodeAll]
  simp only [hne', pre_item v hw p hp hne (p.length + 1) (by omega)]
  simp

/-- **encoders**: the value encoders the library has (double-long-unsigned, long-unsigned,
    integer, octet-string of any length, including 128 bytes and more) produce the standard
    encoding. -/
theorem C14_encoder_ok (v : Data) (hw : wf v = true)
    (hs : match v with | .u32 _ | .u16 _ | .i8 _ | .octets _ => True | _ => False) :
    toBytes T v = .ok (encode v) := by
  have s6 : ((T.find? fun r => r.1 == 6).any fun r => r.2.2.2.2.1) = true := by decide
  have s18 : ((T.find? fun r => r.1 == 18).any fun r => r.2.2.2.2.1) = true := by decide
  have s15 : ((T.find? fun r => r.1 == 15).any fun r => r.2.2.2.2.1) = true := by decide
  have s9 : ((T.find? fun r => r.1 == 9).any fun r => r.2.2.2.2.1) = true := by decide
  cases v with
  | u32 x =>
    simp only [wf, decide_eq_true_eq] at hw
    have : x < 2 ^ 32 := by omega
    simp [toBytes, encode, s6, this]
  | u16 x =>
    simp only [wf, decide_eq_true_eq] at hw
    have : x < 2 ^ 16 := by omega
    simp [toBytes, encode, s18, this]
  | i8 x =>
    simp only [wf, Bool.and_eq_true, decide_eq_true_eq] at hw
    simp [toBytes, encode, s15, hw.1, hw.2]
  | octets bs => simp [toBytes, encode, s9, encodeVarInt]
  | _ => exact absurd hs (by simp)

/-- non-vacuity: a nested value with a 200-byte octet string. -/
example : wf (.structure [.array [.u8 1, .null], .octets (List.replicate 200 0), .i8 (-1)]) = true := by
  simp only [wf, wfList, List.length_replicate, List.length_cons, List.length_nil]
  simp [byteLen_of_lt]

end Props.C14
