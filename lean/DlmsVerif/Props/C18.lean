/-
  C18 - HDLC transport reassembles segmented responses exactly, for every segmentation.
  Theorems about Model.Transport (model of clients/hdlc_transport.py) over Model.Link with the
  tables regenerated from hdlc/state.py and hdlc/connection.py, against the meter of
  Spec.Meter (normal response mode, window 1, any split of the answer).
-/
import DlmsVerif.Lemmas.TransportDefs
import DlmsVerif.Lemmas.Transport
import DlmsVerif.Props.C10
import DlmsVerif.Gen.Misc

namespace Props.C18
open Dlms Model.Transport Spec.Meter Lemmas.TransportDefs Lemmas.Transport

/-- the frames prescribed for a request carry, concatenated, exactly the request, each
    information field is non-empty and within the maximum information size, and there are
    no more of them than bytes. -/
theorem C18_request_frames_shape (maxData : Nat) (hm : 0 < maxData) (fuel ssn rsn : Nat) (out : Bytes)
    (hf : out.length ≤ fuel) :
    ((requestFrames maxData fuel ssn rsn out).flatMap LFrame.payload = out) ∧
    (∀ f ∈ requestFrames maxData fuel ssn rsn out, 0 < f.payload.length ∧ f.payload.length ≤ maxData) ∧
    (requestFrames maxData fuel ssn rsn out).length ≤ out.length := by
  induction fuel generalizing ssn out with
  | zero =>
    have : out = [] := List.length_eq_zero_iff.mp (by omega)
    subst this
    simp [requestFrames]
  | succ fuel ih =>
    by_cases hout : out = []
    · subst hout; simp [requestFrames]
    · have hoe : out.isEmpty = false := by simp [hout]
      have hlt := drop_len_lt maxData hm out hout
      obtain ⟨i1, i2, i3⟩ := ih ((ssn + 1) % 8) (out.drop maxData) (by omega)
      have hd := take_ne_nil maxData hm out hout
      rw [requestFrames]
      simp only [hoe, Bool.false_eq_true, if_false]
      refine ⟨?_, ?_, ?_⟩
      · simp only [List.flatMap_cons, i1, LFrame.payload, List.take_append_drop]
      · intro f hf'
        rcases List.mem_cons.mp hf' with rfl | hf'
        · exact ⟨List.length_pos_iff.mpr hd, take_len_le maxData out⟩
        · exact i2 f hf'
      · simp only [List.length_cons]; omega

/-- **one exchange**, for every request length, every split of the answer into information
    fields (of any sizes, any number, any content) and every value of the sequence numbers:
    the transport returns exactly the answer without the LLC header; what it wrote is the
    prescribed request frames followed by one receive-ready per non-final answer frame with
    the right number; the meter reassembled LLC header + request and saw no frame out of
    line; and client and meter agree again, with the counters advanced modulo 8. -/
theorem C18_exchange (maxData fuel : Nat) (w : W Meter) (x : Exch) (rest : List (List Bytes))
    (hs : Sync w) (hm : 0 < maxData) (hmi : maxData ≤ w.meter.maxInfo)
    (hscript : w.meter.script = x.segs :: rest) (hx : x.ok) (hfuel : x.need ≤ fuel) :
    let r := send T react maxData fuel w x.apdu
    let k := (requestFrames maxData fuel w.meter.vr w.meter.vs x.request).length
    r.1 = .ok x.answer ∧ Sync r.2 ∧
    r.2.meter.requests = w.meter.requests ++ [x.request] ∧
    r.2.meter.script = rest ∧ r.2.meter.violations = w.meter.violations ∧ r.2.meter.maxInfo = w.meter.maxInfo ∧
    r.2.meter.vr = (w.meter.vr + k) % 8 ∧ r.2.meter.vs = (w.meter.vs + x.segs.length) % 8 ∧
    r.2.written = w.written ++ requestFrames maxData fuel w.meter.vr w.meter.vs x.request ++
      ackFrames (x.segs.length - 1) w.meter.vs := by
  intro r k
  obtain ⟨hst, hl, hp, hrb, hvs, hvr, h1, h1', h2, h2'⟩ := hs
  obtain ⟨hne, hflat⟩ := hx
  obtain ⟨p, ps, hsegs⟩ : ∃ p ps, x.segs = p :: ps := by
    cases h : x.segs with
    | nil => exact absurd h hne
    | cons p ps => exact ⟨p, ps, rfl⟩
  have hneed : x.need = (llcCmd ++ x.apdu).length + (ps.length + 1) + 1 := by
    simp [Exch.need, Exch.request, hsegs]
  have hr : r = _ := send_ok maxData fuel hm w x.apdu p ps rest hst hl hp hvs hvr h1 h1' h2 h2' hmi
    (by rw [hscript, hsegs]) (by omega) (by omega) (by rw [← hsegs, hflat]; simp [llcResp])
  have hans : ((p :: ps).flatten).drop 3 = x.answer := by rw [← hsegs, hflat]; simp [llcResp]
  have hlen : x.segs.length = ps.length + 1 := by rw [hsegs]; rfl
  have h8 : ∀ n, n % 8 < 8 := fun n => Nat.mod_lt _ (by omega)
  rw [hr, hans]
  simp [k, Exch.request, hlen, hrb, Sync, h8]

/-- **sessions of any length** (sequence numbers wrap any number of times): every exchange
    returns its answer, the meter reassembled every request, no frame was out of line. -/
theorem C18_session (maxData fuel : Nat) (w : W Meter) (xs : List Exch)
    (hs : Sync w) (hm : 0 < maxData) (hmi : maxData ≤ w.meter.maxInfo)
    (hscript : w.meter.script = xs.map Exch.segs) (hx : ∀ x ∈ xs, x.ok) (hfuel : ∀ x ∈ xs, x.need ≤ fuel) :
    let r := session maxData fuel w (xs.map Exch.apdu)
    r.1 = xs.map (fun x => .ok x.answer) ∧ Sync r.2 ∧
    r.2.meter.requests = w.meter.requests ++ xs.map Exch.request ∧
    r.2.meter.script = [] ∧ r.2.meter.violations = w.meter.violations := by
  induction xs generalizing w with
  | nil =>
    simp only [List.map_nil] at hscript
    simp [session, hs, hscript]
  | cons x xs ih =>
    simp only [List.map_cons] at hscript
    obtain ⟨e1, e2, e3, e4, e5, e6, _, _, _⟩ := C18_exchange maxData fuel w x (xs.map Exch.segs) hs hm hmi hscript
      (hx x (List.mem_cons_self ..)) (hfuel x (List.mem_cons_self ..))
    obtain ⟨i1, i2, i3, i4, i5⟩ := ih (send T react maxData fuel w x.apdu).2 e2 (by rw [e6]; exact hmi) e4
      (fun y hy => hx y (List.mem_cons_of_mem _ hy)) (fun y hy => hfuel y (List.mem_cons_of_mem _ hy))
    simp only [List.map_cons, session]
    refine ⟨?_, i2, ?_, i4, ?_⟩
    · rw [e1, i1]
    · rw [i3, e3, List.append_assoc]; rfl
    · rw [i5, e5]

/-- connect: SNRM out, UA in, the link is connected; nothing else changes. -/
theorem C18_connect (w : W Meter) (hst : w.link.state = "NOT_CONNECTED") (hl : w.line = []) :
    connect T react w = (.ok .ua, { w with link := { w.link with state := "IDLE" }, written := w.written ++ [.snrm] }) := by
  obtain ⟨⟨st, cs, cr, ss, sr⟩, m, line, written⟩ := w
  simp only at hst hl
  subst hst hl
  simp only [connect, bne_self_eq_false, Bool.false_eq_true, if_false, LFrame.cls]
  rw [send_snrm_nc _ rfl]
  simp only [write, react, nextEvent, List.nil_append, LFrame.cls]
  rw [recv_ua_ac _ rfl]

/-- disconnect: DISC out, UA in, the link is disconnected. -/
theorem C18_disconnect (w : W Meter) (hst : w.link.state = "IDLE") (hl : w.line = []) :
    disconnect T react w =
      (.ok .ua, { w with link := { w.link with state := "NOT_CONNECTED" }, written := w.written ++ [.disc] }) := by
  obtain ⟨⟨st, cs, cr, ss, sr⟩, m, line, written⟩ := w
  simp only at hst hl
  subst hst hl
  simp only [disconnect, LFrame.cls]
  rw [send_disc_idle _ rfl]
  simp only [write, react, nextEvent, List.nil_append, LFrame.cls]
  rw [recv_ua_ad _ rfl]

/-- a fresh transport and a fresh meter are in agreement once connected. -/
theorem C18_connect_sync (script : List (List Bytes)) :
    Sync (connect T react { link := { state := Gen.Tables.hdlcInitialState }, meter := { script := script } }).2 := by
  rw [C18_connect _ rfl rfl]
  simp [Sync]

/-- **bytes**: whatever the granularity in which the serial port hands over the bytes of a
    well-formed frame (payload may contain flag bytes), the receive path of the link layer
    delivers exactly that frame, once, and leaves the buffer empty (composition of C09/C10). -/
theorem C18_frame_read_any_granularity (crc : Bytes → Bytes) (hcrc : ∀ x, (crc x).length = 2)
    (k : Model.Hdlc.PKind) (f : Spec.Hdlc.Frame) (hk : f.kind = k.toKind)
    (ht : Props.C09.addrTypesOk k f = true) (h : Spec.Hdlc.WF f = true) (bs : Bytes)
    (hs : Spec.Hdlc.serializeWith crc f = some bs) (chunks : List Bytes) (hc : chunks.flatten = bs) :
    ∃ p, Model.Rx.feed (Props.C10.parseOpt crc k) chunks = ({ buf := [], pos := 1 }, [p]) ∧ p.toFrame k = f := by
  obtain ⟨b, p, hbs, hgood, hpf⟩ := Props.C10.C10_good_of_wf crc hcrc k f hk ht h bs hs
  refine ⟨p, ?_, hpf⟩
  exact Props.C10.C10_chunking_irrelevant (Props.C10.parseOpt crc k) [b] [p] [] (.cons hgood .nil) chunks
    (by rw [hc, hbs]; simp [Props.C10.wire, Props.C10.wireAux])

/-- non-vacuity: a 7-byte request in pieces of 4, the answer in three pieces one of them empty. -/
example :
    (send T react 4 20
      { link := { state := "IDLE", serverSsn := 7, clientRsn := 7, serverRsn := 6, clientSsn := 6 },
        meter := { vs := 6, vr := 7, script := [[[0xE6, 0xE7], [], [0x00, 1, 2]]] } } [9, 8, 7, 6]).1 = .ok [1, 2] := by
  decide

/-- the constants of the model are those of the code (regenerated on every run): the two
    LLC headers and the default maximum information size. -/
theorem C18_constants :
    llcCmd = Gen.Misc.llcCommandHeader.map UInt8.ofNat ∧ llcResp = Gen.Misc.llcResponseHeader.map UInt8.ofNat ∧
    Gen.Misc.hdlcMaxDataSize = 128 := by decide

end Props.C18
