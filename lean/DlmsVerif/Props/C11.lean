/-
  C11 — HDLC link follows the normal-response-mode client procedure with mod-8 numbering.

  `Model.Link` (model of HdlcConnection.send / next_event / handle_sequence_numbers) is run
  with the transition table, SEND_STATES and PARSE_METHODS extracted from the code on every
  run (Gen.Tables) and is shown to *refine* the abstract client procedure `Spec.Nrm`, whose
  state is the link phase and the numbers of information frames sent and received so far.
-/
import DlmsVerif.Gen.Tables
import DlmsVerif.Model.Link
import DlmsVerif.Spec.Nrm

set_option linter.unusedSimpArgs false

namespace Props.C11
open Spec.Nrm Model.Link

def T : Tables :=
  { transitions := Gen.Tables.hdlcTransitions, sendStates := Gen.Tables.hdlcSendStates,
    parseMethods := Gen.Tables.hdlcParseMethods }

def linkName : Link → String
  | .notConnected => "NOT_CONNECTED" | .awaitingConnection => "AWAITING_CONNECTION"
  | .idle => "IDLE" | .awaitingResponse => "AWAITING_RESPONSE"
  | .awaitingDisconnect => "AWAITING_DISCONNECT"

def kindName : Kind → String
  | .snrm => "SetNormalResponseModeFrame" | .ua => "UnNumberedAcknowledgmentFrame"
  | .disc => "DisconnectFrame" | .rr => "ReceiveReadyFrame" | .i => "InformationFrame"
  | .ui => "UnnumberedInformationFrame"

/-- the code accepts a receive-ready frame while a response is awaited (it acknowledges a
    segment of a segmented request), so the model is compared with the full procedure. -/
abbrev next' := next
abbrev step' := step

def op (m : St) (d : Dir) (k : Kind) (ssn rsn : Nat) : St × Res :=
  match d with
  | .send => send T m (kindName k) ssn rsn
  | .recv => recv T m (kindName k) ssn rsn

/-- abstraction relation between the connection object and the procedure's state. -/
def Abs (m : St) (s : State) : Prop :=
  m.state = linkName s.link ∧ m.serverSsn = s.nSent % 8 ∧ m.clientRsn = s.nSent % 8 ∧
  m.serverRsn = s.nRecv % 8 ∧ m.clientSsn = s.nRecv % 8

theorem lookup_ok (l : Link) (k : Kind) :
    lookup T.transitions (linkName l) (kindName k) =
      ((next .send l k).orElse fun _ => next .recv l k).map linkName := by
  cases l <;> cases k <;> decide

theorem send_states_ok (l : Link) :
    T.sendStates.contains (linkName l) = (l == .notConnected || l == .idle) := by
  cases l <;> decide

theorem parse_ok (l : Link) :
    (T.parseMethods.find? fun r => r.1 == linkName l).map (·.2) =
      match l with
      | .awaitingConnection => some "read_ua_frame"
      | .awaitingDisconnect => some "read_ua_frame"
      | .awaitingResponse => some "read_response_frame"
      | _ => none := by
  cases l <;> decide

/-- the table has no rows beyond those of the procedure. -/
theorem table_rows :
    (Gen.Tables.hdlcTransitions.all fun r =>
      [Link.notConnected, .awaitingConnection, .idle, .awaitingResponse, .awaitingDisconnect].any fun l =>
        [Kind.snrm, .ua, .disc, .rr, .i, .ui].any fun k =>
          r.1 == linkName l && r.2.1 == kindName k) = true ∧
    Gen.Tables.hdlcInitialState = linkName .notConnected := by decide

theorem bump_mod (n : Nat) : bump (n % 8) = (n + 1) % 8 := by
  unfold bump; split <;> omega

/-- **one step refines the procedure**: the object accepts exactly what `step'` accepts,
    moves to the prescribed phase, advances exactly the right counter modulo 8, and a
    refused operation changes nothing. -/
theorem C11_step_refines (m : St) (s : State) (h : Abs m s) (d : Dir) (k : Kind) (ssn rsn : Nat) :
    Abs (op m d k ssn rsn).1 (step' s d k ssn rsn).1 ∧
    ((op m d k ssn rsn).2 = .accepted ↔ (step' s d k ssn rsn).2 = true) ∧
    ((op m d k ssn rsn).2 ≠ .accepted → (op m d k ssn rsn).1 = m) := by
  obtain ⟨hst, h1, h2, h3, h4⟩ := h
  cases m with
  | mk state cs cr ss sr =>
  simp only at hst h1 h2 h3 h4
  subst hst h1 h2 h3 h4
  cases s with
  | mk link nS nR =>
  cases d
  · -- send
    simp only [op, send, send_states_ok, lookup_ok]
    cases link <;> cases k <;>
      simp [step', step, next', next, Abs, linkName, kindName, iName, numbersOk, bump_mod] <;>
      (try (by_cases hs : ssn = nS % 8 <;> by_cases hr : rsn = nR % 8 <;> simp [hs, hr, linkName, bump_mod]))
  · -- receive
    simp only [op, recv, parse_ok, lookup_ok]
    cases link <;> cases k <;>
      simp [step', step, next', next, Abs, linkName, kindName, iName, uaName, rrName, numbersOk, bump_mod] <;>
      (try (by_cases hs : ssn = nR % 8 <;> by_cases hr : rsn = nS % 8 <;> simp [hs, hr, linkName, bump_mod]))

def toOp (o : Op) (m : St) : St × Res := op m o.dir o.kind o.ssn o.rsn

def runModel (ops : List Op) (m : St) : St := ops.foldl (fun m o => (toOp o m).1) m
def runSpec (ops : List Op) (s : State) : State :=
  ops.foldl (fun s o => (step' s o.dir o.kind o.ssn o.rsn).1) s

/-- **every history**: after any sequence of sends and receives (accepted or refused) the
    object's phase and counters are those of the procedure. -/
theorem C11_history_refines (ops : List Op) (m : St) (s : State) (h : Abs m s) :
    Abs (runModel ops m) (runSpec ops s) := by
  induction ops generalizing m s with
  | nil => exact h
  | cons o ops ih =>
    simp only [runModel, runSpec, List.foldl_cons]
    exact ih _ _ (C11_step_refines m s h o.dir o.kind o.ssn o.rsn).1

def init : St := { state := Gen.Tables.hdlcInitialState }

theorem init_abs : Abs init {} := by
  refine ⟨by decide, rfl, rfl, rfl, rfl⟩

/-- number of information frames accepted in each direction over a history. -/
def counts : List Op → State → Nat × Nat
  | [], s => (s.nSent, s.nRecv)
  | o :: ops, s => counts ops (step' s o.dir o.kind o.ssn o.rsn).1

/-- **counters are counts**: from a fresh connection, the numbers the client must put into
    its next information frame are the numbers of information frames sent and received so
    far, modulo 8 — for histories of any length (so through any number of wrap-arounds). -/
theorem C11_counters_are_counts (ops : List Op) :
    let m := runModel ops init
    let s := runSpec ops {}
    (m.serverSsn, m.serverRsn) = (s.nSent % 8, s.nRecv % 8) ∧
    (m.clientRsn, m.clientSsn) = (s.nSent % 8, s.nRecv % 8) := by
  have h := C11_history_refines ops init {} init_abs
  obtain ⟨_, h1, h2, h3, h4⟩ := h
  simp only [h1, h2, h3, h4, and_self]

/-- each accepted information frame advances exactly one count by one; nothing else does. -/
theorem C11_advance (s : State) (d : Dir) (k : Kind) (ssn rsn : Nat) :
    let s' := (step' s d k ssn rsn).1
    (s'.nSent, s'.nRecv) =
      if (step' s d k ssn rsn).2 = true ∧ k = .i then
        (match d with | .send => (s.nSent + 1, s.nRecv) | .recv => (s.nSent, s.nRecv + 1))
      else (s.nSent, s.nRecv) := by
  unfold step' step
  cases hn : next d s.link k <;> simp
  by_cases hk : k = .i <;> simp [hk]
  by_cases hok : numbersOk s d ssn rsn = true <;> cases d <;> simp [hok]

/-- non-vacuity: a session that wraps the send counter. -/
example :
    let ops : List Op := [⟨.send, .snrm, 0, 0⟩, ⟨.recv, .ua, 0, 0⟩] ++
      (List.range 9).flatMap (fun n => [⟨.send, .i, n % 8, n % 8⟩, ⟨.recv, .i, n % 8, (n + 1) % 8⟩])
    (runModel ops init).serverSsn = 1 ∧ (runModel ops init).state = "IDLE" := by decide +kernel

end Props.C11
