/-
  C02 — ACSE APDUs (AARQ/AARE/RLRQ/RLRE) encode to valid BER and decode back unchanged.

  `Spec.Acse.encode*` is the standard BER layout (the correspondence check compares each
  `to_bytes()` with it byte for byte); `Model.Acse.decode*` models the tag-table driven
  decoders, run with the PARSE_TAGS keys regenerated from the code.
-/
import DlmsVerif.Gen.Enums
import DlmsVerif.Model.Acse
import DlmsVerif.Props.C14
import DlmsVerif.Lemmas.Acse

namespace Props.C02
open Dlms Spec.Acse Model.Acse Lemmas.Acse

def aarqTags : List Nat := Gen.Enums.aarqTags.map (·.1)
def aareTags : List Nat := Gen.Enums.aareTags.map (·.1)
def rlrqTags : List Nat := Gen.Enums.rlrqTags.map (·.1)
def rlreTags : List Nat := Gen.Enums.rlreTags.map (·.1)

/-- the tag tables, APDU tags and object-identifier constants of the code are the standard's. -/
theorem C02_tables :
    Gen.Enums.acseApduTags = [0x60, 0x61, 0x62, 0x63] ∧
    Gen.Enums.oidPrefix.map UInt8.ofNat = oidPrefix ∧ Gen.Enums.oidTag = 6 ∧
    Gen.Enums.appContextArc = 1 ∧ Gen.Enums.mechanismArc = 2 ∧ Gen.Enums.userInformationTag = 4 ∧
    ([0xA1, 0xA6, 0xA7, 0x8A, 0x8B, 0xAC, 0xBE].all fun t => aarqTags.contains t) = true ∧
    ([0xA1, 0xA2, 0xA3, 0xA4, 0xA5, 0x88, 0x89, 0xAA, 0xBE].all fun t => aareTags.contains t) = true ∧
    rlrqTags = [0x80, 0xBE] ∧ rlreTags = [0x80, 0xBE] ∧
    Gen.Enums.authenticationMechanism = [0, 1, 2, 3, 4, 5, 6, 7] ∧
    Gen.Enums.associationResult = [0, 1, 2] ∧ Gen.Enums.releaseRequestReason = [0, 1, 30] ∧
    Gen.Enums.releaseResponseReason = [0, 1, 30] := by
  decide

/-- a title/certificate/password fits the one-byte inner headers the decoder strips (the
    quantifier has them at 0..64 bytes); every mechanism is a member of the enumeration;
    an authentication value only comes with an authentication mechanism; the user
    information is an xDLMS APDU of a kind the decoder knows. -/
def smallOpt (o : Option Bytes) : Bool := match o with | none => true | some b => b.length < 126

def mechOk (m : Option Nat) (v : Option Bytes) : Bool :=
  (match m with | none => true | some k => 1 ≤ k && k ≤ 7) && (v.isSome → isAuth m) && smallOpt v

def uiOk (u : Bytes) : Bool :=
  (match u.head? with | some t => [1, 8, 14, 33, 40].contains t.toNat | none => false) &&
    Spec.Axdr.byteLen (u.length + 1024) ≤ 127

def aarqWf (a : Aarq) : Bool := smallOpt a.title && smallOpt a.cert && mechOk a.mechanism a.authValue && uiOk a.userInfo

def aareWf (a : Aare) : Bool :=
  a.result < 128 && a.diag < 128 && smallOpt a.title && smallOpt a.cert && mechOk a.mechanism a.authValue &&
    (match a.userInfo with | none => true | some u => uiOk u)

def releaseWf (r : Release) : Bool :=
  (match r.reason with | none => true | some x => x < 256) && (match r.userInfo with | none => true | some u => uiOk u)


/-! ### helpers -/

private theorem aarqTags_eq :
    aarqTags = [128, 138, 139, 161, 162, 163, 164, 165, 166, 167, 168, 169, 172, 189, 190] := by decide
private theorem aareTags_eq :
    aareTags = [128, 136, 137, 161, 162, 163, 164, 165, 166, 167, 170, 189, 190] := by decide
private theorem rlrqTags_eq : rlrqTags = [128, 190] := by decide
private theorem rlreTags_eq : rlreTags = [128, 190] := by decide

/-- normalise every length of a TLV with a short content, then linear arithmetic. -/
local macro "acse_len" : tactic => `(tactic| first | omega |
  (simp (disch := omega) only [enc, List.forall_mem_cons, tlv_length, berLen_length_small, contextName_length,
     mechanismOid_length, List.length_cons, List.length_nil, List.length_append, List.not_mem_nil, false_imp_iff,
     implies_true, and_true, List.cons_append, List.nil_append] <;>
   omega))

/-- every component of an AARQ fits a definite length, and so does the body. -/
private theorem aarqCs_ok (a : Aarq) (ht : smallOpt a.title = true) (hc : smallOpt a.cert = true)
    (hv : smallOpt a.authValue = true) (hu : a.userInfo.length + 1024 < big) :
    (∀ p ∈ aarqCs a, p.2.length < big) ∧ (enc (aarqCs a)).length < big ∧ 11 ≤ (enc (aarqCs a)).length := by
  obtain ⟨ciph, title, cert, mech, av, u⟩ := a
  simp only at ht hc hv hu
  have hbig := big_ge
  have l1 := berLen_length_le (n := u.length) (by omega)
  have l2 := berLen_length_le (n := u.length + 1 + (berLen u.length).length) (by omega)
  have hauth : authCs 0x8A 0x8B 0xAC mech av = [] ∨ ∃ m, authCs 0x8A 0x8B 0xAC mech av =
      [(0x8A, [0x07, 0x80]), (0x8B, mechanismOid m)] ++ optCs av (fun v => (0xAC, tlv 0x80 v)) := by
    unfold authCs
    rcases mech with _ | m
    · exact .inl rfl
    · by_cases hm : (m != 0) = true
      · exact .inr ⟨m, by simp only [hm, ↓reduceIte]⟩
      · exact .inl (by simp only [hm]; rfl)
  simp only [aarqCs]
  rcases hauth with e | ⟨m, e⟩ <;> rw [e] <;>
    rcases title with _ | t <;> rcases cert with _ | c <;> rcases av with _ | v <;>
    simp only [smallOpt, decide_eq_true_eq] at ht hc hv <;>
    simp only [optCs] <;> refine ⟨?_, ?_, ?_⟩ <;> acse_len

private theorem aareCs_ok (a : Aare) (ht : smallOpt a.title = true) (hc : smallOpt a.cert = true)
    (hv : smallOpt a.authValue = true) (hu : ∀ u, a.userInfo = some u → u.length + 1024 < big) :
    (∀ p ∈ aareCs a, p.2.length < big) ∧ (enc (aareCs a)).length < big ∧ 11 ≤ (enc (aareCs a)).length := by
  obtain ⟨ciph, res, du, dv, title, cert, mech, av, ui⟩ := a
  simp only at ht hc hv hu
  have hbig := big_ge
  have hauth : authCs 0x88 0x89 0xAA mech av = [] ∨ ∃ m, authCs 0x88 0x89 0xAA mech av =
      [(0x88, [0x07, 0x80]), (0x89, mechanismOid m)] ++ optCs av (fun v => (0xAA, tlv 0x80 v)) := by
    unfold authCs
    rcases mech with _ | m
    · exact .inl rfl
    · by_cases hm : (m != 0) = true
      · exact .inr ⟨m, by simp only [hm, ↓reduceIte]⟩
      · exact .inl (by simp only [hm]; rfl)
  simp only [aareCs]
  rcases ui with _ | u
  · rcases hauth with e | ⟨m, e⟩ <;> rw [e] <;>
      rcases title with _ | t <;> rcases cert with _ | c <;> rcases av with _ | v <;>
      simp only [smallOpt, decide_eq_true_eq] at ht hc hv <;>
      simp only [optCs] <;> refine ⟨?_, ?_, ?_⟩ <;> acse_len
  · have hu := hu u rfl
    have l1 := berLen_length_le (n := u.length) (by omega)
    have l2 := berLen_length_le (n := u.length + 1 + (berLen u.length).length) (by omega)
    rcases hauth with e | ⟨m, e⟩ <;> rw [e] <;>
      rcases title with _ | t <;> rcases cert with _ | c <;> rcases av with _ | v <;>
      simp only [smallOpt, decide_eq_true_eq] at ht hc hv <;>
      simp only [optCs] <;> refine ⟨?_, ?_, ?_⟩ <;> acse_len

private theorem releaseCs_ok (r : Release) (hu : ∀ u, r.userInfo = some u → u.length + 1024 < big) :
    (∀ p ∈ releaseCs r, p.2.length < big) ∧ (enc (releaseCs r)).length < big := by
  obtain ⟨reason, ui⟩ := r
  simp only at hu
  have hbig := big_ge
  simp only [releaseCs]
  rcases ui with _ | u
  · rcases reason with _ | x <;> simp only [optCs] <;> refine ⟨?_, ?_⟩ <;> acse_len
  · have hu := hu u rfl
    have l1 := berLen_length_le (n := u.length) (by omega)
    have l2 := berLen_length_le (n := u.length + 1 + (berLen u.length).length) (by omega)
    rcases reason with _ | x <;> simp only [optCs] <;> refine ⟨?_, ?_⟩ <;> acse_len

private theorem uiOk_iff (u : Bytes) : uiOk u = true ↔
    (match u.head? with | some t => [1, 8, 14, 33, 40].contains t.toNat | none => false) = true ∧
      u.length + 1024 < big := by
  simp only [uiOk, Bool.and_eq_true, decide_eq_true_eq, Lemmas.Acse.byteLen_le_iff]

private theorem uiOpt (o : Option Bytes) (h : (match o with | none => true | some u => uiOk u) = true) :
    ∀ u, o = some u → (match u.head? with | some t => [1, 8, 14, 33, 40].contains t.toNat | none => false) = true ∧
      u.length + 1024 < big := by
  intro u e; subst e; exact (uiOk_iff u).1 h

/-- **well-formed nesting at every level**: every length equals the length of what it
    frames, in all four APDUs, for every value (inner and outer lengths beyond 127 included). -/
theorem C02_wellFormed_aarq (a : Aarq) (h : aarqWf a = true) : berWF (encodeAarq a).length (encodeAarq a) = true := by
  simp only [aarqWf, mechOk, Bool.and_eq_true, uiOk_iff] at h
  obtain ⟨⟨⟨ht, hc⟩, ⟨hm, _⟩, hsv⟩, _, hu⟩ := h
  obtain ⟨_, hb, hge⟩ := aarqCs_ok a ht hc hsv hu
  rw [encodeAarq_eq]
  refine berWF_top _ _ hb (berWF_mono (f := 10) ?_ (by omega))
  obtain ⟨ciph, title, cert, mech, av, u⟩ := a
  simp only at ht hc hsv hu hm
  have hbig := big_ge
  have l1 := berLen_length_le (n := u.length) (by omega)
  have l2 := berLen_length_le (n := u.length + 1 + (berLen u.length).length) (by omega)
  rcases mech with _ | m
  · rcases title with _ | t <;> rcases cert with _ | c <;>
      simp only [smallOpt, decide_eq_true_eq] at ht hc <;>
      simp (disch := acse_len) [aarqCs, optCs, authCs, berWF_enc_cons, berWF_enc_nil, berWF_tlv_nil, berWF_contextName]
  · have hm : 1 ≤ m ∧ m ≤ 7 := by simpa using hm
    have hm0 : (m != 0) = true := by simp; omega
    rcases title with _ | t <;> rcases cert with _ | c <;> rcases av with _ | v <;>
      simp only [smallOpt, decide_eq_true_eq] at ht hc hsv <;>
      simp (disch := acse_len) [aarqCs, optCs, authCs, hm0, berWF_enc_cons, berWF_enc_nil, berWF_tlv_nil, berWF_contextName]

theorem C02_wellFormed_aare (a : Aare) (h : aareWf a = true) : berWF (encodeAare a).length (encodeAare a) = true := by
  simp only [aareWf, mechOk, Bool.and_eq_true] at h
  obtain ⟨⟨⟨⟨⟨_, _⟩, ht⟩, hc⟩, ⟨hm, _⟩, hsv⟩, hui0⟩ := h
  have hui := uiOpt _ hui0
  clear hui0
  obtain ⟨_, hb, hge⟩ := aareCs_ok a ht hc hsv (fun u e => (hui u e).2)
  rw [encodeAare_eq]
  refine berWF_top _ _ hb (berWF_mono (f := 10) ?_ (by omega))
  obtain ⟨ciph, res, du, dv, title, cert, mech, av, ui⟩ := a
  simp only at ht hc hsv hui hm
  have hbig := big_ge
  rcases mech with _ | m
  · rcases ui with _ | u
    · rcases du <;> rcases title with _ | t <;> rcases cert with _ | c <;>
        simp only [smallOpt, decide_eq_true_eq] at ht hc <;>
        simp (disch := acse_len) [aareCs, optCs, authCs, berWF_enc_cons, berWF_enc_nil, berWF_tlv_nil, berWF_contextName]
    · have hu := (hui u rfl).2
      have l1 := berLen_length_le (n := u.length) (by omega)
      have l2 := berLen_length_le (n := u.length + 1 + (berLen u.length).length) (by omega)
      rcases du <;> rcases title with _ | t <;> rcases cert with _ | c <;>
        simp only [smallOpt, decide_eq_true_eq] at ht hc <;>
        simp (disch := acse_len) [aareCs, optCs, authCs, berWF_enc_cons, berWF_enc_nil, berWF_tlv_nil, berWF_contextName]
  · have hm : 1 ≤ m ∧ m ≤ 7 := by simpa using hm
    have hm0 : (m != 0) = true := by simp; omega
    rcases ui with _ | u
    · rcases du <;> rcases title with _ | t <;> rcases cert with _ | c <;> rcases av with _ | v <;>
        simp only [smallOpt, decide_eq_true_eq] at ht hc hsv <;>
        simp (disch := acse_len) [aareCs, optCs, authCs, hm0, berWF_enc_cons, berWF_enc_nil, berWF_tlv_nil, berWF_contextName]
    · have hu := (hui u rfl).2
      have l1 := berLen_length_le (n := u.length) (by omega)
      have l2 := berLen_length_le (n := u.length + 1 + (berLen u.length).length) (by omega)
      rcases du <;> rcases title with _ | t <;> rcases cert with _ | c <;> rcases av with _ | v <;>
        simp only [smallOpt, decide_eq_true_eq] at ht hc hsv <;>
        simp (disch := acse_len) [aareCs, optCs, authCs, hm0, berWF_enc_cons, berWF_enc_nil, berWF_tlv_nil, berWF_contextName]

theorem C02_wellFormed_release (tag : UInt8) (r : Release) (h : releaseWf r = true) :
    berWF (encodeRelease tag r).length (encodeRelease tag r) = true := by
  simp only [releaseWf, Bool.and_eq_true] at h
  have hui := uiOpt _ h.2
  obtain ⟨_, hb⟩ := releaseCs_ok r (fun u e => (hui u e).2)
  rw [encodeRelease_eq]
  refine berWF_top _ _ hb ?_
  obtain ⟨reason, ui⟩ := r
  simp only at hui
  have hbig := big_ge
  rcases ui with _ | u
  · rcases reason with _ | x
    · simp [releaseCs, optCs, berWF_enc_nil]
    · refine berWF_mono (f := 3) ?_ (by simp only [releaseCs, optCs]; acse_len)
      simp (disch := acse_len) [releaseCs, optCs, berWF_enc_cons, berWF_enc_nil]
  · have hu := (hui u rfl).2
    have l1 := berLen_length_le (n := u.length) (by omega)
    have l2 := berLen_length_le (n := u.length + 1 + (berLen u.length).length) (by omega)
    have p1 := berLen_length_pos u.length
    have p2 := berLen_length_pos (u.length + 1 + (berLen u.length).length)
    rcases reason with _ | x <;>
      (refine berWF_mono (f := 3) ?_ (by simp only [releaseCs, optCs]; acse_len)
       simp (disch := acse_len) [releaseCs, optCs, berWF_enc_cons, berWF_enc_nil, berWF_tlv_nil])

/-- **decoding inverts encoding**. -/
theorem C02_decode_encode_aarq (a : Aarq) (h : aarqWf a = true) : decodeAarq aarqTags (encodeAarq a) = some a := by
  simp only [aarqWf, mechOk, Bool.and_eq_true, uiOk_iff, decide_eq_true_eq] at h
  obtain ⟨⟨⟨ht, hc⟩, ⟨hm, hv⟩, hsv⟩, hh, hu⟩ := h
  obtain ⟨hcs, hb, _⟩ := aarqCs_ok a ht hc hsv hu
  rw [encodeAarq_eq, decodeAarq_enc _ _ hcs hb]
  clear hcs hb
  obtain ⟨ciph, title, cert, mech, av, u⟩ := a
  simp only at ht hc hsv hu hm hv hh
  have hbig := big_ge
  have hui := userInfoOf_tlv u (by omega) hh
  rcases mech with _ | m
  · have : av = none := by
      cases av with
      | none => rfl
      | some v => simp [isAuth] at hv
    subst this
    rcases title with _ | t <;> rcases cert with _ | c <;>
      simp only [smallOpt, decide_eq_true_eq] at ht hc <;>
      simp (disch := omega) [aarqCs, optCs, authCs, aarqOfCs, allowed, aarqTags_eq, lookup_cons, lookup_nil, authOf,
        contextOf_contextName, hui, octetOf_tlv, octetOf_none]
  · have hm : 1 ≤ m ∧ m ≤ 7 := by simpa using hm
    have hm0 : (m != 0) = true := by simp; omega
    have hmo := mechanismOf_mechanismOid m hm.2
    rcases title with _ | t <;> rcases cert with _ | c <;> rcases av with _ | v <;>
      simp only [smallOpt, decide_eq_true_eq] at ht hc hsv <;>
      simp (disch := omega) [aarqCs, optCs, authCs, aarqOfCs, allowed, aarqTags_eq, lookup_cons, lookup_nil, authOf,
        contextOf_contextName, hui, octetOf_tlv, octetOf_none, hm0, hmo, splitTlv_tlv_nil]

theorem C02_decode_encode_aare (a : Aare) (h : aareWf a = true) : decodeAare aareTags (encodeAare a) = some a := by
  simp only [aareWf, mechOk, Bool.and_eq_true, decide_eq_true_eq] at h
  obtain ⟨⟨⟨⟨⟨hres, hdv⟩, ht⟩, hc⟩, ⟨hm, hv⟩, hsv⟩, hui0⟩ := h
  have hui := uiOpt _ hui0
  clear hui0
  obtain ⟨hcs, hb, _⟩ := aareCs_ok a ht hc hsv (fun u e => (hui u e).2)
  rw [encodeAare_eq, decodeAare_enc _ _ hcs hb]
  clear hcs hb
  obtain ⟨ciph, res, du, dv, title, cert, mech, av, ui⟩ := a
  simp only at hres hdv ht hc hsv hui hm hv
  have hbig := big_ge
  have hres' := intOf_tlv res (by omega)
  have hdv' := intOf_tlv dv (by omega)
  have hdg : ∀ tag, splitTlv (tlv tag (tlv 2 [UInt8.ofNat dv])) = some (tag, tlv 2 [UInt8.ofNat dv], []) :=
    fun tag => splitTlv_tlv_nil _ _ (by acse_len)
  rcases mech with _ | m
  · have : av = none := by
      cases av with
      | none => rfl
      | some v => simp [isAuth] at hv
    subst this
    rcases ui with _ | u
    · rcases du <;> rcases title with _ | t <;> rcases cert with _ | c <;>
        simp only [smallOpt, decide_eq_true_eq] at ht hc <;>
        simp (disch := omega) [aareCs, optCs, authCs, aareOfCs, allowed, aareTags_eq, lookup_cons, lookup_nil, authOf,
          contextOf_contextName, octetOf_tlv, octetOf_none, hres', hdv', hdg]
    · obtain ⟨hh, hu⟩ := hui u rfl
      have hui' := userInfoOf_tlv u (by omega) hh
      rcases du <;> rcases title with _ | t <;> rcases cert with _ | c <;>
        simp only [smallOpt, decide_eq_true_eq] at ht hc <;>
        simp (disch := omega) [aareCs, optCs, authCs, aareOfCs, allowed, aareTags_eq, lookup_cons, lookup_nil, authOf,
          contextOf_contextName, octetOf_tlv, octetOf_none, hres', hdv', hdg, hui']
  · have hm : 1 ≤ m ∧ m ≤ 7 := by simpa using hm
    have hm0 : (m != 0) = true := by simp; omega
    have hmo := mechanismOf_mechanismOid m hm.2
    rcases ui with _ | u
    · rcases du <;> rcases title with _ | t <;> rcases cert with _ | c <;> rcases av with _ | v <;>
        simp only [smallOpt, decide_eq_true_eq] at ht hc hsv <;>
        simp (disch := omega) [aareCs, optCs, authCs, aareOfCs, allowed, aareTags_eq, lookup_cons, lookup_nil, authOf,
          contextOf_contextName, octetOf_tlv, octetOf_none, hres', hdv', hdg, hm0, hmo, splitTlv_tlv_nil]
    · obtain ⟨hh, hu⟩ := hui u rfl
      have hui' := userInfoOf_tlv u (by omega) hh
      rcases du <;> rcases title with _ | t <;> rcases cert with _ | c <;> rcases av with _ | v <;>
        simp only [smallOpt, decide_eq_true_eq] at ht hc hsv <;>
        simp (disch := omega) [aareCs, optCs, authCs, aareOfCs, allowed, aareTags_eq, lookup_cons, lookup_nil, authOf,
          contextOf_contextName, octetOf_tlv, octetOf_none, hres', hdv', hdg, hm0, hmo, hui', splitTlv_tlv_nil]

private theorem dec_release (apduTag : UInt8) (tags : List Nat) (htags : tags = [128, 190]) (r : Release)
    (h : releaseWf r = true) : decodeRelease apduTag tags (encodeRelease apduTag r) = some r := by
  subst htags
  simp only [releaseWf, Bool.and_eq_true] at h
  obtain ⟨hr, hui0⟩ := h
  have hui := uiOpt _ hui0
  clear hui0
  obtain ⟨hcs, hb⟩ := releaseCs_ok r (fun u e => (hui u e).2)
  rw [encodeRelease_eq, decodeRelease_enc _ _ _ hcs hb]
  clear hcs hb
  obtain ⟨reason, ui⟩ := r
  simp only at hr hui
  have hbig := big_ge
  rcases ui with _ | u
  · rcases reason with _ | x
    · simp [releaseCs, optCs, releaseOfCs, allowed, lookup_nil]
    · have hx : x < 256 := by simpa using hr
      have e : (UInt8.ofNat x).toNat = x := by simp [UInt8.toNat_ofNat']; omega
      simp [releaseCs, optCs, releaseOfCs, allowed, lookup_cons, lookup_nil, e]
  · obtain ⟨hh, hu⟩ := hui u rfl
    have hui' := userInfoOf_tlv u (by omega) hh
    rcases reason with _ | x
    · simp [releaseCs, optCs, releaseOfCs, allowed, lookup_cons, lookup_nil, hui']
    · have hx : x < 256 := by simpa using hr
      have e : (UInt8.ofNat x).toNat = x := by simp [UInt8.toNat_ofNat']; omega
      simp [releaseCs, optCs, releaseOfCs, allowed, lookup_cons, lookup_nil, e, hui']

theorem C02_decode_encode_rlrq (r : Release) (h : releaseWf r = true) : decodeRelease 0x62 rlrqTags (encodeRlrq r) = some r :=
  dec_release 0x62 rlrqTags rlrqTags_eq r h

theorem C02_decode_encode_rlre (r : Release) (h : releaseWf r = true) : decodeRelease 0x63 rlreTags (encodeRlre r) = some r :=
  dec_release 0x63 rlreTags rlreTags_eq r h

/-- does a component with this tag occur at the top level of the APDU body? -/
def hasComponent (apduTag : UInt8) (enc : Bytes) (tag : UInt8) : Bool :=
  match single apduTag enc with
  | some body => match components body.length body with
    | some cs => cs.any (·.1 == tag)
    | none => false
  | none => false

private theorem hasComponent_enc (apduTag : UInt8) (cs : List (UInt8 × Bytes)) (tag : UInt8)
    (h : ∀ p ∈ cs, p.2.length < big) (hb : (enc cs).length < big) :
    hasComponent apduTag (tlv apduTag (enc cs)) tag = cs.any (·.1 == tag) := by
  simp only [hasComponent, single_tlv _ _ hb, components_enc_self cs h]

/-- **authentication components ⇔ mechanism**: ACSE requirements, mechanism name (and the
    authentication value, when one is given) are in the encoding exactly when an
    authentication mechanism other than 'none' is selected. -/
theorem C02_auth_iff_aarq (a : Aarq) (h : smallOpt a.title = true ∧ smallOpt a.cert = true ∧ smallOpt a.authValue = true ∧
      Spec.Axdr.byteLen (a.userInfo.length + 1024) ≤ 127) :
    (hasComponent 0x60 (encodeAarq a) 0x8A = isAuth a.mechanism) ∧
    (hasComponent 0x60 (encodeAarq a) 0x8B = isAuth a.mechanism) ∧
    (hasComponent 0x60 (encodeAarq a) 0xAC = (isAuth a.mechanism && a.authValue.isSome)) := by
  obtain ⟨ht, hc, hv, hu⟩ := h
  obtain ⟨hcs, hb, _⟩ := aarqCs_ok a ht hc hv ((Lemmas.Acse.byteLen_le_iff _).1 hu)
  rw [encodeAarq_eq]
  simp only [hasComponent_enc _ _ _ hcs hb]
  clear hcs hb ht hc hv hu
  obtain ⟨ciph, title, cert, mech, av, u⟩ := a
  rcases mech with _ | m
  · rcases title with _ | t <;> rcases cert with _ | c <;> simp [aarqCs, optCs, authCs, isAuth]
  · by_cases hm : m = 0
    · subst hm
      rcases title with _ | t <;> rcases cert with _ | c <;> simp [aarqCs, optCs, authCs, isAuth]
    · rcases title with _ | t <;> rcases cert with _ | c <;> rcases av with _ | v <;>
        simp [aarqCs, optCs, authCs, isAuth, hm]

theorem C02_auth_iff_aare (a : Aare) (h : a.result < 128 ∧ a.diag < 128 ∧ smallOpt a.title = true ∧ smallOpt a.cert = true ∧
      smallOpt a.authValue = true ∧ (match a.userInfo with | none => True | some u => Spec.Axdr.byteLen (u.length + 1024) ≤ 127)) :
    (hasComponent 0x61 (encodeAare a) 0x88 = isAuth a.mechanism) ∧
    (hasComponent 0x61 (encodeAare a) 0x89 = isAuth a.mechanism) ∧
    (hasComponent 0x61 (encodeAare a) 0xAA = (isAuth a.mechanism && a.authValue.isSome)) := by
  obtain ⟨_, _, ht, hc, hv, hu⟩ := h
  have hu' : ∀ u, a.userInfo = some u → u.length + 1024 < big := by
    intro u e; rw [e] at hu; exact (Lemmas.Acse.byteLen_le_iff _).1 hu
  obtain ⟨hcs, hb, _⟩ := aareCs_ok a ht hc hv hu'
  rw [encodeAare_eq]
  simp only [hasComponent_enc _ _ _ hcs hb]
  clear hcs hb ht hc hv hu hu'
  obtain ⟨ciph, res, du, dv, title, cert, mech, av, ui⟩ := a
  rcases mech with _ | m
  · rcases title with _ | t <;> rcases cert with _ | c <;> rcases ui with _ | u <;>
      simp [aareCs, optCs, authCs, isAuth]
  · by_cases hm : m = 0
    · subst hm
      rcases title with _ | t <;> rcases cert with _ | c <;> rcases ui with _ | u <;>
        simp [aareCs, optCs, authCs, isAuth]
    · rcases title with _ | t <;> rcases cert with _ | c <;> rcases ui with _ | u <;> rcases av with _ | v <;>
        simp [aareCs, optCs, authCs, isAuth, hm]

/-- BER definite lengths are read back for every length (short and long form). -/
theorem C02_berLen_roundtrip (tag : UInt8) (content rest : Bytes) (h : Spec.Axdr.byteLen content.length ≤ 127) :
    splitTlv (tlv tag content ++ rest) = some (tag, content, rest) :=
  splitTlv_tlv tag content rest ((Lemmas.Acse.byteLen_le_iff _).1 h)

/-- non-vacuity: an HLS-GMAC AARQ whose outer length needs the long form. -/
example : aarqWf { ciphered := true, title := some [1, 2, 3, 4, 5, 6, 7, 8], mechanism := some 5,
                    authValue := some (List.replicate 32 7), userInfo := 33 :: List.replicate 70 1 } = true := by
  have hbig := big_ge
  simp [aarqWf, smallOpt, mechOk, isAuth, uiOk, Lemmas.Acse.byteLen_le_iff]
  omega

end Props.C02
