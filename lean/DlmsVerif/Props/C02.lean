/-
  C02 — ACSE APDUs (AARQ/AARE/RLRQ/RLRE) encode to valid BER and decode back unchanged.

  `Spec.Acse.encode*` is the standard BER layout (the correspondence check compares each
  `to_bytes()` with it byte for byte); `Model.Acse.decode*` models the tag-table driven
  decoders, run with the PARSE_TAGS keys regenerated from the code.
-/
import DlmsVerif.Gen.Enums
import DlmsVerif.Model.Acse
import DlmsVerif.Props.C14

namespace Props.C02
open Dlms Spec.Acse Model.Acse

def aarqTags : List Nat := Gen.Enums.aarqTags.map (·.1)
def aareTags : List Nat := Gen.Enums.aareTags.map (·.1)
def rlrqTags : List Nat := Gen.Enums.rlrqTags.map (·.1)
def rlreTags : List Nat := Gen.Enums.rlreTags.map (·.1)

/-- the tag tables, APDU tags and object-identifier constants of the code are the standard's. -/
theorem C02_tables :
    Gen.Enums.acseApduTags = [0x60, 0x61, 0x62, 0x63] ∧
    Gen.Enums.oidPrefix.map UInt8.ofNat = oidPrefix ∧ Gen.Enums.oidTag = 6 ∧
    Gen.Enums.appContextArc = 1 ∧ Gen.Enums.mechanismArc = 2 ∧ Gen.Enums.userInformationTag = 4 ∧
    ([0xA1, 0xA6, 0xA7, 0x8A, 0x8B, 0xAC, 0xBE].all fun t => aarqTags.contains t) = true ∧
    ([0xA1, 0xA2, 0xA3, 0xA4, 0xA5, 0x88, 0x89, 0xAA, 0xBE].all fun t => aareTags.contains t) = true ∧
    rlrqTags = [0x80, 0xBE] ∧ rlreTags = [0x80, 0xBE] ∧
    Gen.Enums.authenticationMechanism = [0, 1, 2, 3, 4, 5, 6, 7] ∧
    Gen.Enums.associationResult = [0, 1, 2] ∧ Gen.Enums.releaseRequestReason = [0, 1, 30] ∧
    Gen.Enums.releaseResponseReason = [0, 1, 30] := by
  sorry

/-- a title/certificate/password fits the one-byte inner headers the decoder strips (the
    quantifier has them at 0..64 bytes); every mechanism is a member of the enumeration;
    an authentication value only comes with an authentication mechanism; the user
    information is an xDLMS APDU of a kind the decoder knows. -/
def smallOpt (o : Option Bytes) : Bool := match o with | none => true | some b => b.length < 126

def mechOk (m : Option Nat) (v : Option Bytes) : Bool :=
  (match m with | none => true | some k => 1 ≤ k && k ≤ 7) && (v.isSome → isAuth m) && smallOpt v

def uiOk (u : Bytes) : Bool :=
  (match u.head? with | some t => [1, 8, 14, 33, 40].contains t.toNat | none => false) &&
    Spec.Axdr.byteLen (u.length + 1024) ≤ 127

def aarqWf (a : Aarq) : Bool := smallOpt a.title && smallOpt a.cert && mechOk a.mechanism a.authValue && uiOk a.userInfo

def aareWf (a : Aare) : Bool :=
  a.result < 128 && a.diag < 128 && smallOpt a.title && smallOpt a.cert && mechOk a.mechanism a.authValue &&
    (match a.userInfo with | none => true | some u => uiOk u)

def releaseWf (r : Release) : Bool :=
  (match r.reason with | none => true | some x => x < 256) && (match r.userInfo with | none => true | some u => uiOk u)

/-- **well-formed nesting at every level**: every length equals the length of what it
    frames, in all four APDUs, for every value (inner and outer lengths beyond 127 included). -/
theorem C02_wellFormed_aarq (a : Aarq) (h : aarqWf a = true) : berWF (encodeAarq a).length (encodeAarq a) = true := by
  sorry

theorem C02_wellFormed_aare (a : Aare) (h : aareWf a = true) : berWF (encodeAare a).length (encodeAare a) = true := by
  sorry

theorem C02_wellFormed_release (tag : UInt8) (r : Release) (h : releaseWf r = true) :
    berWF (encodeRelease tag r).length (encodeRelease tag r) = true := by
  sorry

/-- **decoding inverts encoding**. -/
theorem C02_decode_encode_aarq (a : Aarq) (h : aarqWf a = true) : decodeAarq aarqTags (encodeAarq a) = some a := by
  sorry

theorem C02_decode_encode_aare (a : Aare) (h : aareWf a = true) : decodeAare aareTags (encodeAare a) = some a := by
  sorry

theorem C02_decode_encode_rlrq (r : Release) (h : releaseWf r = true) : decodeRelease 0x62 rlrqTags (encodeRlrq r) = some r := by
  sorry

theorem C02_decode_encode_rlre (r : Release) (h : releaseWf r = true) : decodeRelease 0x63 rlreTags (encodeRlre r) = some r := by
  sorry

/-- does a component with this tag occur at the top level of the APDU body? -/
def hasComponent (apduTag : UInt8) (enc : Bytes) (tag : UInt8) : Bool :=
  match single apduTag enc with
  | some body => match components body.length body with
    | some cs => cs.any (·.1 == tag)
    | none => false
  | none => false

/-- **authentication components ⇔ mechanism**: ACSE requirements, mechanism name (and the
    authentication value, when one is given) are in the encoding exactly when an
    authentication mechanism other than 'none' is selected. -/
theorem C02_auth_iff_aarq (a : Aarq) (h : smallOpt a.title = true ∧ smallOpt a.cert = true ∧ smallOpt a.authValue = true ∧
      Spec.Axdr.byteLen (a.userInfo.length + 1024) ≤ 127) :
    (hasComponent 0x60 (encodeAarq a) 0x8A = isAuth a.mechanism) ∧
    (hasComponent 0x60 (encodeAarq a) 0x8B = isAuth a.mechanism) ∧
    (hasComponent 0x60 (encodeAarq a) 0xAC = (isAuth a.mechanism && a.authValue.isSome)) := by
  sorry

theorem C02_auth_iff_aare (a : Aare) (h : a.result < 128 ∧ a.diag < 128 ∧ smallOpt a.title = true ∧ smallOpt a.cert = true ∧
      smallOpt a.authValue = true ∧ (match a.userInfo with | none => True | some u => Spec.Axdr.byteLen (u.length + 1024) ≤ 127)) :
    (hasComponent 0x61 (encodeAare a) 0x88 = isAuth a.mechanism) ∧
    (hasComponent 0x61 (encodeAare a) 0x89 = isAuth a.mechanism) ∧
    (hasComponent 0x61 (encodeAare a) 0xAA = (isAuth a.mechanism && a.authValue.isSome)) := by
  sorry

/-- BER definite lengths are read back for every length (short and long form). -/
theorem C02_berLen_roundtrip (tag : UInt8) (content rest : Bytes) (h : Spec.Axdr.byteLen content.length ≤ 127) :
    splitTlv (tlv tag content ++ rest) = some (tag, content, rest) := by
  sorry

/-- non-vacuity: an HLS-GMAC AARQ whose outer length needs the long form. -/
example : aarqWf { ciphered := true, title := some [1, 2, 3, 4, 5, 6, 7, 8], mechanism := some 5,
                    authValue := some (List.replicate 32 7), userInfo := 33 :: List.replicate 70 1 } = true := by
  sorry

end Props.C02
