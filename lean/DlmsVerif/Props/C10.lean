/-
  C10 — HDLC receive path yields the same frames however the byte stream is chunked.

  `Model.Rx` models HdlcConnection.receive_data / next_event / _find_frame / _tidy_buffer.
  The frame parser is a parameter `parse : Bytes → Option F` of which only two facts are
  used (`Good`): it accepts the complete frame and refuses every proper prefix of it.
  `C10_good_of_wf` shows that the model of the library's own parsers (C09) has both
  properties for every well-formed frame, whatever its payload (flag bytes included).
-/
import DlmsVerif.Model.Rx
import DlmsVerif.Props.C09
import DlmsVerif.Lemmas.Rx

namespace Props.C10
open Model.Rx Lemmas.Rx

/-- bytes on the line for a list of frame bodies (the bytes between the flags);
    `sh[i] = true` means frame `i+1` re-uses the closing flag of frame `i` as its opening flag. -/
def wireAux : Bool → List Bytes → List Bool → Bytes
  | _, [], _ => []
  | op, b :: bs, sh =>
    (if op then [0x7E] else []) ++ b ++ [0x7E] ++ wireAux (!(sh.headD false)) bs sh.tail

def wire (bodies : List Bytes) (sh : List Bool) : Bytes := wireAux true bodies sh

/-- offsets (in `wire`) just after the closing flag of each frame. -/
def endsAux : Nat → Bool → List Bytes → List Bool → List Nat
  | _, _, [], _ => []
  | off, op, b :: bs, sh =>
    let e := off + (if op then 1 else 0) + b.length + 1
    e :: endsAux e (!(sh.headD false)) bs sh.tail

def ends (bodies : List Bytes) (sh : List Bool) : List Nat := endsAux 0 true bodies sh

/-- what the theorem needs from the parser, for one frame with body `b` and value `f`. -/
def Good {F : Type} (parse : Bytes → Option F) (b : Bytes) (f : F) : Prop :=
  b ≠ [] ∧ b.head? ≠ some 0x7E ∧
  parse (0x7E :: b ++ [0x7E]) = some f ∧
  ∀ n, n < (b ++ [0x7E]).length → parse (0x7E :: (b ++ [0x7E]).take n) = none

/-- every body is `Good` for the frame value at the same position. -/
inductive AllGood {F : Type} (parse : Bytes → Option F) : List Bytes → List F → Prop
  | nil : AllGood parse [] []
  | cons {b f bs fs} : Good parse b f → AllGood parse bs fs → AllGood parse (b :: bs) (f :: fs)


/-! ### helpers -/

private theorem endsAux_gt : ∀ (bs : List Bytes) (off : Nat) (op : Bool) (sh : List Bool) (x : Nat),
    x ∈ endsAux off op bs sh → off < x := by
  intro bs
  induction bs with
  | nil => intro off op sh x hx; simp [endsAux] at hx
  | cons b bs ih =>
    intro off op sh x hx
    simp only [endsAux, List.mem_cons] at hx
    rcases hx with hx | hx
    · omega
    · have := ih _ _ _ x hx
      omega

private theorem pre_cases (op : Bool) :
    (if op = true then ([0x7E] : Bytes) else []) = [] ∨ (if op = true then ([0x7E] : Bytes) else []) = [0x7E] := by
  cases op <;> simp

private theorem pre_len (op : Bool) :
    (if op = true then ([0x7E] : Bytes) else []).length = if op = true then 1 else 0 := by
  cases op <;> simp

/-- draining a prefix of the wire at once delivers the frames that end within it. -/
private theorem batch {F : Type} (parse : Bytes → Option F) (bodies : List Bytes) (fs : List F)
    (hg : AllGood parse bodies fs) :
    ∀ (op : Bool) (sh : List Bool) (off k : Nat),
      (drain parse { buf := (wireAux op bodies sh).take k, pos := 1 }).2
        = fs.take ((endsAux off op bodies sh).filter (· ≤ off + k)).length := by
  induction hg with
  | nil =>
    intro op sh off k
    simp only [wireAux, List.take_nil, endsAux, List.filter_nil, List.length_nil]
    rw [drain_not_pending parse _ (by rfl)]
  | @cons b f bs fs hgood _ ih =>
    intro op sh off k
    obtain ⟨hb, hh, hP1, hP2⟩ := hgood
    have hbl : 1 ≤ b.length := List.length_pos_iff.mpr hb
    have hs := scan parse (if op = true then [0x7E] else []) b
      (wireAux (!(sh.headD false)) bs sh.tail) f (pre_cases op) hb hh hP1 hP2 k
      ((if op = true then ([0x7E] : Bytes) else []).length + b.length + 1) 1 (by omega)
      (Nat.le_refl 1) (by omega)
    rw [pre_len] at hs
    simp only [wireAux, endsAux]
    by_cases hk : (if op = true then 1 else 0) + b.length < k
    · rw [hs.1 hk]
      have hle : off + (if op = true then 1 else 0) + b.length + 1 ≤ off + k := by omega
      rw [List.filter_cons_of_pos (by simpa using hle)]
      simp only [List.length_cons, List.take_succ_cons]
      rw [ih (!(sh.headD false)) sh.tail (off + (if op = true then 1 else 0) + b.length + 1)
        (k - ((if op = true then 1 else 0) + b.length + 1))]
      have e : off + (if op = true then 1 else 0) + b.length + 1 +
          (k - ((if op = true then 1 else 0) + b.length + 1)) = off + k := by omega
      rw [e]
    · rw [hs.2 (by omega)]
      have hnle : ¬ off + (if op = true then 1 else 0) + b.length + 1 ≤ off + k := by omega
      rw [List.filter_cons_of_neg (by simpa using hnle)]
      have : (endsAux (off + (if op = true then 1 else 0) + b.length + 1) (!(sh.headD false)) bs sh.tail).filter
          (· ≤ off + k) = [] := by
        rw [List.filter_eq_nil_iff]
        intro x hx
        have := endsAux_gt _ _ _ _ x hx
        simp only [decide_eq_true_eq]
        omega
      rw [this]
      rfl

/-- draining the whole wire at once delivers every frame and leaves nothing. -/
private theorem batch_full {F : Type} (parse : Bytes → Option F) (bodies : List Bytes) (fs : List F)
    (hg : AllGood parse bodies fs) :
    ∀ (op : Bool) (sh : List Bool),
      drain parse { buf := wireAux op bodies sh, pos := 1 } = ({ buf := [], pos := 1 }, fs) := by
  induction hg with
  | nil =>
    intro op sh
    simp only [wireAux]
    rw [drain_not_pending parse _ (by rfl)]
  | @cons b f bs fs hgood _ ih =>
    intro op sh
    obtain ⟨hb, hh, hP1, hP2⟩ := hgood
    have hbl : 1 ≤ b.length := List.length_pos_iff.mpr hb
    have hs := scan parse (if op = true then [0x7E] else []) b
      (wireAux (!(sh.headD false)) bs sh.tail) f (pre_cases op) hb hh hP1 hP2
      ((if op = true then [0x7E] else []) ++ b ++ [0x7E] ++ wireAux (!(sh.headD false)) bs sh.tail).length
      ((if op = true then ([0x7E] : Bytes) else []).length + b.length + 1) 1 (by omega)
      (Nat.le_refl 1) (by omega)
    have h1 := hs.1 (by simp only [List.length_append, List.length_cons, List.length_nil]; omega)
    rw [List.take_length, List.take_of_length_le
      (by simp only [List.length_append, List.length_cons, List.length_nil]; omega), ih] at h1
    simp only [wireAux]
    exact h1

/-- **silent before complete / exactly once / in order**: after any chunks whose
    concatenation is the first `k` bytes of the stream, exactly the frames whose last byte
    lies within those `k` bytes have been delivered, in order, each once. -/
theorem C10_prefix_delivery {F : Type} (parse : Bytes → Option F)
    (bodies : List Bytes) (fs : List F) (sh : List Bool)
    (hg : AllGood parse bodies fs)
    (chunks : List Bytes) (k : Nat) (hc : chunks.flatten = (wire bodies sh).take k) :
    (feed parse chunks).2 = fs.take ((ends bodies sh).filter (· ≤ k)).length := by
  rw [feed_eq_drain, hc]
  have := batch parse bodies fs hg true sh 0 k
  simpa [wire, ends] using this

/-- **chunking is irrelevant**: whatever the partition of the stream into chunks, polling
    until nothing is pending after each chunk delivers exactly the frames, in order, each
    once, and leaves the receive buffer empty. -/
theorem C10_chunking_irrelevant {F : Type} (parse : Bytes → Option F)
    (bodies : List Bytes) (fs : List F) (sh : List Bool)
    (hg : AllGood parse bodies fs)
    (chunks : List Bytes) (hc : chunks.flatten = wire bodies sh) :
    feed parse chunks = ({ buf := [], pos := 1 }, fs) := by
  rw [feed_eq_drain, hc]
  exact batch_full parse bodies fs hg true sh

def parseOpt (crc : Bytes → Bytes) (k : Model.Hdlc.PKind) (fb : Bytes) : Option Model.Hdlc.Parsed :=
  match Model.Hdlc.parse crc k fb with
  | .ok p => some p
  | .error _ => none

/-- the library's own frame parsers (as modelled for C09) satisfy `Good` on every
    well-formed frame: payloads may contain any number of flag bytes. -/
theorem C10_good_of_wf (crc : Bytes → Bytes) (hcrc : ∀ x, (crc x).length = 2)
    (k : Model.Hdlc.PKind) (f : Spec.Hdlc.Frame) (hk : f.kind = k.toKind)
    (ht : Props.C09.addrTypesOk k f = true) (h : Spec.Hdlc.WF f = true) (bs : Bytes)
    (hs : Spec.Hdlc.serializeWith crc f = some bs) :
    ∃ b p, bs = 0x7E :: b ++ [0x7E] ∧ Good (parseOpt crc k) b p ∧ p.toFrame k = f := by
  obtain ⟨ctl, _, hbs⟩ := Lemmas.Hdlc.shape crc f h bs hs
  obtain ⟨p, hp, hpf⟩ := Props.C09.C09_parse_serialize crc hcrc k f hk ht h bs hs
  obtain ⟨_, _, hlen, _⟩ := Lemmas.Hdlc.WF_parts f h
  have hbs' : bs = 0x7E :: (Lemmas.Hdlc.bodyOf crc f ctl ++ crc (Lemmas.Hdlc.bodyOf crc f ctl)) ++ [0x7E] := by
    rw [hbs]; simp
  refine ⟨Lemmas.Hdlc.bodyOf crc f ctl ++ crc (Lemmas.Hdlc.bodyOf crc f ctl), p, hbs', ⟨?_, ?_, ?_, ?_⟩, hpf⟩
  · intro he
    have := congrArg List.length he
    simp [hcrc] at this
  · rw [Lemmas.Hdlc.bodyOf_eq]
    have hne : UInt8.ofNat ((0xA000 + 2048 * f.segmented.toNat + Spec.Hdlc.frameLength f) / 256 % 256) ≠ 0x7E := by
      intro he
      have := congrArg UInt8.toNat he
      have hseg : f.segmented.toNat ≤ 1 := by cases f.segmented <;> simp
      simp at this
      omega
    simp only [Lemmas.Hdlc.fmtOf, Dlms.beBytes]
    simpa using hne
  · rw [← hbs']
    unfold parseOpt; rw [hp]
  · intro n hn
    have e : 0x7E :: ((Lemmas.Hdlc.bodyOf crc f ctl ++ crc (Lemmas.Hdlc.bodyOf crc f ctl)) ++ [0x7E]).take n
        = bs.take (n + 1) := by rw [hbs']; rfl
    have hl : bs.length
        = ((Lemmas.Hdlc.bodyOf crc f ctl ++ crc (Lemmas.Hdlc.bodyOf crc f ctl)) ++ [0x7E]).length + 1 := by
      rw [hbs']; rfl
    obtain ⟨e', he'⟩ := Props.C09.C09_truncated_refused crc hcrc k f h bs hs (n + 1) (by omega)
    rw [e]
    unfold parseOpt; rw [he']

end Props.C10
