/-
  C10 — HDLC receive path yields the same frames however the byte stream is chunked.

  `Model.Rx` models HdlcConnection.receive_data / next_event / _find_frame / _tidy_buffer.
  The frame parser is a parameter `parse : Bytes → Option F` of which only two facts are
  used (`Good`): it accepts the complete frame and refuses every proper prefix of it.
  `C10_good_of_wf` shows that the model of the library's own parsers (C09) has both
  properties for every well-formed frame, whatever its payload (flag bytes included).
-/
import DlmsVerif.Model.Rx
import DlmsVerif.Props.C09

namespace Props.C10
open Model.Rx

/-- bytes on the line for a list of frame bodies (the bytes between the flags);
    `sh[i] = true` means frame `i+1` re-uses the closing flag of frame `i` as its opening flag. -/
def wireAux : Bool → List Bytes → List Bool → Bytes
  | _, [], _ => []
  | op, b :: bs, sh =>
    (if op then [0x7E] else []) ++ b ++ [0x7E] ++ wireAux (!(sh.headD false)) bs sh.tail

def wire (bodies : List Bytes) (sh : List Bool) : Bytes := wireAux true bodies sh

/-- offsets (in `wire`) just after the closing flag of each frame. -/
def endsAux : Nat → Bool → List Bytes → List Bool → List Nat
  | _, _, [], _ => []
  | off, op, b :: bs, sh =>
    let e := off + (if op then 1 else 0) + b.length + 1
    e :: endsAux e (!(sh.headD false)) bs sh.tail

def ends (bodies : List Bytes) (sh : List Bool) : List Nat := endsAux 0 true bodies sh

/-- what the theorem needs from the parser, for one frame with body `b` and value `f`. -/
def Good {F : Type} (parse : Bytes → Option F) (b : Bytes) (f : F) : Prop :=
  b ≠ [] ∧ b.head? ≠ some 0x7E ∧
  parse (0x7E :: b ++ [0x7E]) = some f ∧
  ∀ n, n < (b ++ [0x7E]).length → parse (0x7E :: (b ++ [0x7E]).take n) = none

/-- every body is `Good` for the frame value at the same position. -/
inductive AllGood {F : Type} (parse : Bytes → Option F) : List Bytes → List F → Prop
  | nil : AllGood parse [] []
  | cons {b f bs fs} : Good parse b f → AllGood parse bs fs → AllGood parse (b :: bs) (f :: fs)

/-- **silent before complete / exactly once / in order**: after any chunks whose
    concatenation is the first `k` bytes of the stream, exactly the frames whose last byte
    lies within those `k` bytes have been delivered, in order, each once. -/
theorem C10_prefix_delivery {F : Type} (parse : Bytes → Option F)
    (bodies : List Bytes) (fs : List F) (sh : List Bool)
    (hg : AllGood parse bodies fs)
    (chunks : List Bytes) (k : Nat) (hc : chunks.flatten = (wire bodies sh).take k) :
    (feed parse chunks).2 = fs.take ((ends bodies sh).filter (· ≤ k)).length := by
  sorry

/-- **chunking is irrelevant**: whatever the partition of the stream into chunks, polling
    until nothing is pending after each chunk delivers exactly the frames, in order, each
    once, and leaves the receive buffer empty. -/
theorem C10_chunking_irrelevant {F : Type} (parse : Bytes → Option F)
    (bodies : List Bytes) (fs : List F) (sh : List Bool)
    (hg : AllGood parse bodies fs)
    (chunks : List Bytes) (hc : chunks.flatten = wire bodies sh) :
    feed parse chunks = ({ buf := [], pos := 1 }, fs) := by
  sorry

def parseOpt (crc : Bytes → Bytes) (k : Model.Hdlc.PKind) (fb : Bytes) : Option Model.Hdlc.Parsed :=
  match Model.Hdlc.parse crc k fb with
  | .ok p => some p
  | .error _ => none

/-- the library's own frame parsers (as modelled for C09) satisfy `Good` on every
    well-formed frame: payloads may contain any number of flag bytes. -/
theorem C10_good_of_wf (crc : Bytes → Bytes) (hcrc : ∀ x, (crc x).length = 2)
    (k : Model.Hdlc.PKind) (f : Spec.Hdlc.Frame) (hk : f.kind = k.toKind)
    (ht : Props.C09.addrTypesOk k f = true) (h : Spec.Hdlc.WF f = true) (bs : Bytes)
    (hs : Spec.Hdlc.serializeWith crc f = some bs) :
    ∃ b p, bs = 0x7E :: b ++ [0x7E] ∧ Good (parseOpt crc k) b p ∧ p.toFrame k = f := by
  sorry

end Props.C10
