/-
  C03 — Association state machine admits exactly the legal request/response sequences.

  `Model.Conn.send` / `deliver` (the part of `next_event` after unprotection) are run with the
  transition table regenerated from the code and shown to refine the abstract client
  procedure `Spec.Assoc`, step by step and over histories of any length.
-/
import DlmsVerif.Gen.Tables
import DlmsVerif.Model.ConnSpec
import DlmsVerif.Lemmas.Conn

set_option linter.unusedSimpArgs false

namespace Props.C03
open Dlms Model.Conn Model.ConnSpec Spec.Assoc

def T : Tables := { transitions := Gen.Tables.dlmsTransitions }

/-- a usable security configuration: no protection, or both keys with lengths matching the
    suite and an 8-byte system title. -/
def cfgOk (c : Config) : Bool :=
  match c.ek, c.ak with
  | none, none => true
  | some ek, some ak => c.suite ≤ 2 && keyLenOk c.suite ek && keyLenOk c.suite ak && c.clientTitle.length == 8
  | _, _ => false

def isOk {α} : Except Err α → Bool
  | .ok _ => true
  | .error _ => false


private theorem T_eq : T = Lemmas.Conn.tbl := rfl

/-- with `cfgOk` and a counter in range `encrypt` succeeds. -/
private theorem encrypt_ok (c : Config) (s : Conn) (pl : Inner) (ek ak : Key) (hek : c.ek = some ek) (hak : c.ak = some ak)
    (hc : cfgOk c = true) (hic : s.clientIC < 2 ^ 32) :
    encrypt c s pl = .ok (.sealed ⟨ek, c.clientTitle, s.clientIC, c.scByte, ak⟩ pl, s.clientIC,
      { s with clientIC := s.clientIC + 1, log := s.log ++ [.seal ⟨ek, c.clientTitle, s.clientIC, c.scByte, ak⟩] }) := by
  unfold cfgOk at hc
  rw [hek, hak] at hc
  simp only [Bool.and_eq_true, decide_eq_true_eq, beq_iff_eq] at hc
  obtain ⟨⟨⟨h1, h2⟩, h3⟩, h4⟩ := hc
  exact Lemmas.Conn.encrypt_ok c s pl ek ak hek hak h1 h2 h3 h4 hic

/-- sending without keys (no counter involved). -/
private theorem send_refines_unprot (c : Config) (hu : c.useProtection = false) (s : Conn) (p : Phase)
    (hs : s.state = phaseName p) (k : Kind) (e : Ev) (he : evOfSend k = some e) (ui : Bool) :
    (send T c s k ui).2.state = phaseName (Spec.Assoc.step c.preEstablished p e) ∧
    (isOk (send T c s k ui).1 = (next c.preEstablished p e).isSome) ∧
    (isOk (send T c s k ui).1 = false → (send T c s k ui).2 = s) := by
  have hl := Lemmas.Conn.send_lookup p k e he
  unfold send
  rw [hs, T_eq, hl]
  clear hl
  cases k <;> simp [evOfSend] at he <;> subst he <;> cases p <;> cases hpre : c.preEstablished <;>
    simp [next, Spec.Assoc.step, Ev.isAcse, Kind.isAcseRequest, phaseName, isOk, hs, hu]

/-- the initial state of a connection object is the procedure's "no association". -/
theorem C03_initial : Gen.Tables.dlmsInitialState = phaseName .noAssociation := by
  decide

/-- **sending refines the procedure**: in every phase, for every request kind of the
    alphabet, the connection accepts the send exactly when the procedure allows it, ends in
    the prescribed phase, and a refused send changes nothing. -/
theorem C03_send_refines (c : Config) (hc : cfgOk c = true) (s : Conn) (p : Phase) (hs : s.state = phaseName p)
    (hic : s.clientIC < 2 ^ 32) (k : Kind) (e : Ev) (he : evOfSend k = some e) (ui : Bool) :
    (send T c s k ui).2.state = phaseName (step c.preEstablished p e) ∧
    (isOk (send T c s k ui).1 = (next c.preEstablished p e).isSome) ∧
    (isOk (send T c s k ui).1 = false → (send T c s k ui).2 = s) := by
  cases hek : c.ek <;> cases hak : c.ak <;> simp only [cfgOk, hek, hak] at hc
  · exact send_refines_unprot c (by simp [Config.useProtection, hek, hak]) s p hs k e he ui
  · simp at hc
  · simp at hc
  · rename_i ek ak
    have hu : c.useProtection = true := by simp [Config.useProtection, hek, hak]
    have hc' : cfgOk c = true := by simp only [cfgOk, hek, hak]; exact hc
    have hl := Lemmas.Conn.send_lookup p k e he
    unfold send
    rw [hs, T_eq, hl]
    clear hl
    cases k <;> simp [evOfSend] at he <;> subst he <;> cases p <;> cases hpre : c.preEstablished <;> cases ui <;>
      simp [next, Spec.Assoc.step, Ev.isAcse, Kind.isAcseRequest, Kind.isAcseResponse, Kind.isXdlmsClass, phaseName,
        isOk, hs, hu, encrypt_ok c _ _ ek ak hek hak hc', hic]

/-- **receiving refines the procedure**: for every APDU of the alphabet in the clear. -/
theorem C03_deliver_refines (c : Config) (s : Conn) (p : Phase) (hs : s.state = phaseName p)
    (a : Apdu) (e : Ev) (he : evOfApdu c s a = some e) :
    (deliver T c s a).2.state = phaseName (step c.preEstablished p e) ∧
    (isOk (deliver T c s a).1 = (next c.preEstablished p e).isSome) ∧
    (isOk (deliver T c s a).1 = false → (deliver T c s a).2 = s) := by
  cases a with
  | simple k =>
    have hl := Lemmas.Conn.simple_lookup c s p k e he
    unfold deliver transition
    simp only [Apdu.kind]
    rw [hs, T_eq, hl]
    cases k <;> simp [evOfApdu] at he <;> subst he <;> cases p <;> cases hpre : c.preEstablished <;>
      simp [next, Spec.Assoc.step, Ev.isAcse, Kind.isAcseResponse, phaseName, isOk, hs]
  | ggc => simp [evOfApdu] at he
  | rlre ui =>
    simp only [evOfApdu, Option.some.injEq] at he; subst he
    unfold deliver transition
    simp only [Apdu.kind, Kind.cls]
    rw [hs, T_eq, Lemmas.Conn.rlre_lookup]
    cases p <;> cases hpre : c.preEstablished <;>
      simp [next, Spec.Assoc.step, Ev.isAcse, Kind.isAcseResponse, phaseName, isOk, hs]
  | actRespData status d =>
    simp only [evOfApdu, Option.some.injEq] at he; subst he
    unfold deliver transition
    simp only [Apdu.kind, Kind.cls]
    rw [hs, T_eq, Lemmas.Conn.actRespData_lookup]
    cases hv : (status == 0 && hlsValid c s d) <;> cases p <;> cases hpre : c.preEstablished <;>
      simp [next, Spec.Assoc.step, Ev.isAcse, Kind.isAcseResponse, phaseName, isOk, hs, Lemmas.Conn.hlsValid_state, hv,
        Lemmas.Conn.hlsSuccess_lookup, Lemmas.Conn.hlsFailed_lookup]
  | aare result mech title challenge ui =>
    simp only [evOfApdu, Option.some.injEq] at he; subst he
    unfold deliver transition
    simp only [Apdu.kind, Kind.cls]
    rw [hs, T_eq, Lemmas.Conn.aare_lookup]
    cases hr : (result == 1 || result == 2) <;> cases hm : (mech == some 5) <;> cases ui <;> cases p <;>
      cases hpre : c.preEstablished <;>
      simp [next, Spec.Assoc.step, Ev.isAcse, Kind.isAcseResponse, phaseName, isOk, hs, hr, hm,
        Lemmas.Conn.reject_lookup, Lemmas.Conn.hlsStart_lookup]

/-- without keys `next_event` is `deliver`. -/
theorem C03_recv_unprotected (c : Config) (h : c.useProtection = false) (s : Conn) (a : Apdu) :
    recv T c s (.apdu a) = deliver T c s a := by
  simp only [recv, Lemmas.Conn.unprotect_unprotected c h]

/-- an operation of the alphabet, seen as an abstract event in the current state. -/
def evOfOp (c : Config) (s : Conn) : Op → Option Ev
  | .send k _ => evOfSend k
  | .recv (.apdu a) => evOfApdu c s a
  | _ => none

/-- the abstract events along a run of the model. -/
def trace (c : Config) : List Op → Conn → List (Option Ev)
  | [], _ => []
  | o :: os, s => evOfOp c s o :: trace c os (step T c s o)

/-- **every history** (plain, LLS and pre-established configurations: no keys): after any
    sequence of sends and receives of the alphabet — accepted or refused — the connection is
    in the phase the procedure prescribes. -/
theorem C03_history_refines (c : Config) (h : c.useProtection = false) (ops : List Op) (s : Conn) (p : Phase)
    (hs : s.state = phaseName p) (hic : s.clientIC < 2 ^ 32)
    (hal : ∀ e ∈ trace c ops s, e.isSome = true) :
    (run T c ops s).state = phaseName (Spec.Assoc.run c.preEstablished ((trace c ops s).filterMap id) p) := by
  have h0 := hic
  clear h0 hic
  induction ops generalizing s p with
  | nil => simpa [Model.Conn.run, trace, Spec.Assoc.run] using hs
  | cons o os ih =>
    simp only [trace, List.mem_cons, forall_eq_or_imp] at hal
    obtain ⟨ho, hal'⟩ := hal
    cases heo : evOfOp c s o with
    | none => simp [heo] at ho
    | some e =>
      have key : (Model.Conn.step T c s o).state = phaseName (Spec.Assoc.step c.preEstablished p e) := by
        cases o with
        | send k ui => exact (send_refines_unprot c h s p hs k e heo ui).1
        | recv x =>
          cases x with
          | garbage => simp [evOfOp] at heo
          | apdu a =>
            simp only [Model.Conn.step, C03_recv_unprotected c h]
            exact (C03_deliver_refines c s p hs a e heo).1
        | hlsReply => simp [evOfOp] at heo
      simp only [Model.Conn.run, List.foldl_cons, trace, heo, List.filterMap_cons, id, Spec.Assoc.run]
      exact ih _ _ key hal'

/-- on a **pre-established** association ACSE APDUs are refused in both directions and
    nothing changes. -/
theorem C03_preEstablished_refuses_acse (c : Config) (h : c.preEstablished = true) (s : Conn) :
    (∀ ui, send T c s .aarq ui = (.error .preEstablished, s)) ∧
    (∀ ui, send T c s .rlrq ui = (.error .preEstablished, s)) ∧
    (∀ a, a.kind.isAcseResponse = true → deliver T c s a = (.error .preEstablished, s)) := by
  refine ⟨?_, ?_, ?_⟩
  · intro ui; simp [send, h, Kind.isAcseRequest]
  · intro ui; simp [send, h, Kind.isAcseRequest]
  · intro a ha; simp [deliver, h, ha]

/-- properties of the procedure itself (what C03 says in words): a service request is allowed
    only while an association is established and nothing is outstanding; an association
    request only when none exists; after acceptance → ready, after rejection or completed
    release → no association, after a block → must acknowledge before anything else. -/
theorem C03_procedure_facts :
    (∀ pre p e p', next pre p e = some p' → e.isServiceRequest = true →
        p = .ready ∨ (p = .shouldAckLastGetBlock ∧ e = .sendGetNext) ∨ (p = .shouldSendHlsServerChallengeResult ∧ e = .sendAction)) ∧
    (∀ pre p p', next pre p .sendAarq = some p' → p = .noAssociation ∧ pre = false) ∧
    (∀ p, next false p (.recvAare true false) = some .ready ↔ p = .awaitingAssociationResponse) ∧
    (∀ p h, next false p (.recvAare false h) = some .noAssociation ↔ p = .awaitingAssociationResponse) ∧
    (∀ p, next false p .recvRlre = some .noAssociation ↔ p = .awaitingReleaseResponse) ∧
    (∀ e p', next false .shouldAckLastGetBlock e = some p' → e = .sendGetNext) ∧
    (∀ pre p p', next pre p .recvDataNotification = some p' → p = .ready ∧ p' = .ready) := by
  refine ⟨?_, ?_, ?_, ?_, ?_, ?_, ?_⟩
  · intro pre p e p' h hs
    cases e <;> simp [Ev.isServiceRequest] at hs <;> cases pre <;> cases p <;> simp [next, Ev.isAcse] at h ⊢
  · intro pre p p' h
    cases pre <;> cases p <;> simp [next, Ev.isAcse] at h ⊢
  · intro p; cases p <;> simp [next, Ev.isAcse]
  · intro p h; cases p <;> cases h <;> simp [next, Ev.isAcse]
  · intro p; cases p <;> simp [next, Ev.isAcse]
  · intro e p' h
    cases e <;> simp [next, Ev.isAcse] at h ⊢
  · intro pre p p' h
    cases pre <;> cases p <;> simp [next, Ev.isAcse] at h ⊢ <;> simp [h]

end Props.C03
