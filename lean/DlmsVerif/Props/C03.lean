/-
  C03 — Association state machine admits exactly the legal request/response sequences.

  `Model.Conn.send` / `deliver` (the part of `next_event` after unprotection) are run with the
  transition table regenerated from the code and shown to refine the abstract client
  procedure `Spec.Assoc`, step by step and over histories of any length.
-/
import DlmsVerif.Gen.Tables
import DlmsVerif.Model.ConnSpec

set_option linter.unusedSimpArgs false

namespace Props.C03
open Dlms Model.Conn Model.ConnSpec Spec.Assoc

def T : Tables := { transitions := Gen.Tables.dlmsTransitions }

/-- a usable security configuration: no protection, or both keys with lengths matching the
    suite and an 8-byte system title. -/
def cfgOk (c : Config) : Bool :=
  match c.ek, c.ak with
  | none, none => true
  | some ek, some ak => c.suite ≤ 2 && keyLenOk c.suite ek && keyLenOk c.suite ak && c.clientTitle.length == 8
  | _, _ => false

def isOk {α} : Except Err α → Bool
  | .ok _ => true
  | .error _ => false

/-- the initial state of a connection object is the procedure's "no association". -/
theorem C03_initial : Gen.Tables.dlmsInitialState = phaseName .noAssociation := by
  sorry

/-- **sending refines the procedure**: in every phase, for every request kind of the
    alphabet, the connection accepts the send exactly when the procedure allows it, ends in
    the prescribed phase, and a refused send changes nothing. -/
theorem C03_send_refines (c : Config) (hc : cfgOk c = true) (s : Conn) (p : Phase) (hs : s.state = phaseName p)
    (hic : s.clientIC < 2 ^ 32) (k : Kind) (e : Ev) (he : evOfSend k = some e) (ui : Bool) :
    (send T c s k ui).2.state = phaseName (step c.preEstablished p e) ∧
    (isOk (send T c s k ui).1 = (next c.preEstablished p e).isSome) ∧
    (isOk (send T c s k ui).1 = false → (send T c s k ui).2 = s) := by
  sorry

/-- **receiving refines the procedure**: for every APDU of the alphabet in the clear. -/
theorem C03_deliver_refines (c : Config) (s : Conn) (p : Phase) (hs : s.state = phaseName p)
    (a : Apdu) (e : Ev) (he : evOfApdu c s a = some e) :
    (deliver T c s a).2.state = phaseName (step c.preEstablished p e) ∧
    (isOk (deliver T c s a).1 = (next c.preEstablished p e).isSome) ∧
    (isOk (deliver T c s a).1 = false → (deliver T c s a).2 = s) := by
  sorry

/-- without keys `next_event` is `deliver`. -/
theorem C03_recv_unprotected (c : Config) (h : c.useProtection = false) (s : Conn) (a : Apdu) :
    recv T c s (.apdu a) = deliver T c s a := by
  sorry

/-- an operation of the alphabet, seen as an abstract event in the current state. -/
def evOfOp (c : Config) (s : Conn) : Op → Option Ev
  | .send k _ => evOfSend k
  | .recv (.apdu a) => evOfApdu c s a
  | _ => none

/-- the abstract events along a run of the model. -/
def trace (c : Config) : List Op → Conn → List (Option Ev)
  | [], _ => []
  | o :: os, s => evOfOp c s o :: trace c os (step T c s o)

/-- **every history** (plain, LLS and pre-established configurations: no keys): after any
    sequence of sends and receives of the alphabet — accepted or refused — the connection is
    in the phase the procedure prescribes. -/
theorem C03_history_refines (c : Config) (h : c.useProtection = false) (ops : List Op) (s : Conn) (p : Phase)
    (hs : s.state = phaseName p) (hic : s.clientIC < 2 ^ 32)
    (hal : ∀ e ∈ trace c ops s, e.isSome = true) :
    (run T c ops s).state = phaseName (Spec.Assoc.run c.preEstablished ((trace c ops s).filterMap id) p) := by
  sorry

/-- on a **pre-established** association ACSE APDUs are refused in both directions and
    nothing changes. -/
theorem C03_preEstablished_refuses_acse (c : Config) (h : c.preEstablished = true) (s : Conn) :
    (∀ ui, send T c s .aarq ui = (.error .preEstablished, s)) ∧
    (∀ ui, send T c s .rlrq ui = (.error .preEstablished, s)) ∧
    (∀ a, a.kind.isAcseResponse = true → deliver T c s a = (.error .preEstablished, s)) := by
  sorry

/-- properties of the procedure itself (what C03 says in words): a service request is allowed
    only while an association is established and nothing is outstanding; an association
    request only when none exists; after acceptance → ready, after rejection or completed
    release → no association, after a block → must acknowledge before anything else. -/
theorem C03_procedure_facts :
    (∀ pre p e p', next pre p e = some p' → e.isServiceRequest = true →
        p = .ready ∨ (p = .shouldAckLastGetBlock ∧ e = .sendGetNext) ∨ (p = .shouldSendHlsServerChallengeResult ∧ e = .sendAction)) ∧
    (∀ pre p p', next pre p .sendAarq = some p' → p = .noAssociation ∧ pre = false) ∧
    (∀ p, next false p (.recvAare true false) = some .ready ↔ p = .awaitingAssociationResponse) ∧
    (∀ p h, next false p (.recvAare false h) = some .noAssociation ↔ p = .awaitingAssociationResponse) ∧
    (∀ p, next false p .recvRlre = some .noAssociation ↔ p = .awaitingReleaseResponse) ∧
    (∀ e p', next false .shouldAckLastGetBlock e = some p' → e = .sendGetNext) ∧
    (∀ pre p p', next pre p .recvDataNotification = some p' → p = .ready ∧ p' = .ready) := by
  sorry

end Props.C03
