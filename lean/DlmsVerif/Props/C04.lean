/-
  C04 — With keys set, every APDU sent is ciphered; plaintext answers are refused.
-/
import DlmsVerif.Lemmas.ConnDefs
import DlmsVerif.Lemmas.ConnSend

namespace Props.C04
open Dlms Model.Conn Lemmas.ConnDefs Lemmas.ConnSend

/-- **service APDUs**: on a connection with both keys, whatever the state, every service APDU
    that `send` hands to the transport is a general-glo-ciphering APDU carrying the client
    system title, the security-control byte for authenticated encryption (0x30 + suite), the
    invocation counter used, and as content the plain encoding sealed under exactly
    (encryption key, title ‖ counter, security control ‖ authentication key). -/
theorem C04_send_service (c : Config) (ek ak : Key) (hk : keysOk c ek ak) (s s' : Conn) (k : Kind) (ui : Bool)
    (hx : k.isAcseRequest = false) (out : Sent) (h : send T c s k ui = (.ok out, s')) :
    out = .ggc c.clientTitle (c.suite + 48) s.clientIC
      (.sealed { key := ek, title := c.clientTitle, ic := s.clientIC, sc := c.suite + 48, ak := ak } (.simple k)) := by
  have hp := keysOk_useProtection hk
  have hsc := keysOk_scByte hk
  unfold send at h
  simp only [hx, Bool.and_false, hp, Bool.not_true, Bool.false_eq_true, if_false] at h
  split at h
  · simp at h
  · split at h
    · split at h
      · rename_i ct ic s2 he
        have := encrypt_keysOk hk _ _ he
        simp only [Prod.mk.injEq] at this h
        obtain ⟨h1, h2, h3⟩ := this
        obtain ⟨h4, h5⟩ := h
        cases h4
        rw [h1, h2, hsc]
      · simp at h
    · simp at h

/-- **association and release requests** carry their initiate parameters only in ciphered form. -/
theorem C04_send_acse (c : Config) (ek ak : Key) (hk : keysOk c ek ak) (s s' : Conn) (k : Kind)
    (hx : k.isAcseRequest = true) (out : Sent) (h : send T c s k true = (.ok out, s')) :
    out = .acseGlo k (c.suite + 48) s.clientIC
      (.sealed { key := ek, title := c.clientTitle, ic := s.clientIC, sc := c.suite + 48, ak := ak } (.simple .initiateReq)) := by
  have hp := keysOk_useProtection hk
  have hsc := keysOk_scByte hk
  unfold send at h
  simp only [hx, Bool.and_true, hp, Bool.not_true, Bool.false_eq_true, if_false, if_true] at h
  split at h
  · simp at h
  · split at h
    · simp at h
    · split at h
      · rename_i ct ic s2 he
        have := encrypt_keysOk hk _ _ he
        simp only [Prod.mk.injEq] at this h
        obtain ⟨h1, h2, h3⟩ := this
        obtain ⟨h4, h5⟩ := h
        cases h4
        rw [h1, h2, hsc]
      · simp at h

/-- with keys set nothing leaves the connection in the clear except an ACSE request that has
    no user-information at all. -/
theorem C04_never_plain (c : Config) (ek ak : Key) (hk : keysOk c ek ak) (s s' : Conn) (k : Kind) (ui : Bool) (k' : Kind)
    (h : send T c s k ui = (.ok (.plain k'), s')) : k.isAcseRequest = true ∧ ui = false := by
  have hp := keysOk_useProtection hk
  cases hx : k.isAcseRequest
  · have := C04_send_service c ek ak hk s s' k ui hx _ h
    cases this
  · cases ui
    · exact ⟨rfl, rfl⟩
    · have := C04_send_acse c ek ak hk s s' k hx _ h
      cases this

/-- a send that the state machine or the protection refuses emits nothing (there is no output term). -/
theorem C04_refused_emits_nothing (c : Config) (s : Conn) (k : Kind) (ui : Bool) (e : Err) (s' : Conn)
    (h : send T c s k ui = (.error e, s')) : ∀ out, (send T c s k ui).1 ≠ .ok out := by
  intro out; rw [h]; simp

/-- **plaintext answers are refused**: an unciphered GET, SET or ACTION response, a
    data-notification — any APDU that is neither a general-glo-ciphering APDU nor an ACSE
    response — arriving on a connection with keys is never delivered, in any state. -/
theorem C04_recv_plain_refused (c : Config) (h : c.useProtection = true) (s : Conn) (a : Apdu)
    (ha : match a with | .simple _ => True | .actRespData .. => True | _ => False) :
    recv T c s (.apdu a) = (.error .protection, s) := by
  unfold recv unprotect
  cases a <;> simp [h] at ha ⊢

end Props.C04
