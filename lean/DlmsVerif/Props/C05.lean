/-
  C05 - AES-GCM protection matches the DLMS construction and detects every tampering.
  Theorems about Model.Security (model of security.py) with the key-length table and tag
  length regenerated from the code (Gen.Misc), the GCM / key-wrap reference of Spec.Gcm
  (generic in the block function) and the ideal primitive for the tamper claims.
-/
import DlmsVerif.Gen.Misc
import DlmsVerif.Model.Security
import DlmsVerif.Spec.Aes
import DlmsVerif.Lemmas.Aes
import DlmsVerif.Lemmas.Security

namespace Props.C05
open Dlms Model.Security Lemmas.Security

def P : Params := { keyLengths := Gen.Misc.keyLengths, tagLength := Gen.Misc.tagLength }

/-- the table in the code is the one of the security suites: AES-128 for suites 0 and 1, AES-256 for suite 2; tag of 12 bytes. -/
theorem C05_key_table : P.keyLengths = [(0, 16), (1, 16), (2, 32)] ∧ P.tagLength = 12 := by
  exact ⟨rfl, rfl⟩

/-- **construction**: protecting a plaintext is AES-GCM (any block function) with
    nonce = system title ‖ 4-byte counter, associated data = security-control byte ‖
    authentication key, output = ciphertext ‖ first 12 bytes of the tag. -/
theorem C05_encrypt_is_gcm (E : Bytes → Bytes → Bytes) (sc : SC) (title : Bytes) (ic : Nat) (key pt ak : Bytes)
    (hsc : sc.encrypted = true ∨ sc.authenticated = true) (h : argsOk P sc title ic key ak = true) :
    encrypt P E sc title ic key pt ak =
      .ok ((Spec.Gcm.encrypt (E key) (title ++ beBytes 4 ic) (sc.toByte :: ak) pt).1 ++
           ((Spec.Gcm.encrypt (E key) (title ++ beBytes 4 ic) (sc.toByte :: ak) pt).2.take 12)) := by
  exact encrypt_eq P E sc title ic key pt ak hsc h

/-- the ciphertext part has the length of the plaintext: the protected text is 12 bytes longer. -/
theorem C05_length (E : Bytes → Bytes → Bytes) (hE : ∀ k b, (E k b).length = 16) (sc : SC) (title : Bytes) (ic : Nat) (key pt ak ct : Bytes)
    (h : encrypt P E sc title ic key pt ak = .ok ct) : ct.length = pt.length + 12 := by
  obtain ⟨_, _, hct⟩ := encrypt_ok P E sc title ic key pt ak ct h
  have h1 := gcm_ct_length (E key) (hE key) (iv title ic) (aad sc ak) pt
  have h2 := gcm_tag12_length (E key) (hE key) (iv title ic) (aad sc ak) pt
  rw [hct, List.length_append, h1]
  exact congrArg (pt.length + ·) h2

/-- GMAC is GCM over security-control byte ‖ authentication key ‖ challenge with no plaintext. -/
theorem C05_gmac_is_gcm (E : Bytes → Bytes → Bytes) (sc : SC) (title : Bytes) (ic : Nat) (key ak ch : Bytes)
    (hsc : sc.encrypted = false) (h : argsOk P sc title ic key ak = true) :
    gmac P E sc title ic key ak ch =
      .ok ((Spec.Gcm.encrypt (E key) (title ++ beBytes 4 ic) (sc.toByte :: ak ++ ch) []).2.take 12) := by
  have ht : P.tagLength = 12 := rfl
  simp [gmac, hsc, h, iv, aad, ht]

/-- **round trip**, for every block function whose output is 16 bytes, every plaintext of any
    length and all parameters: removing protection with the same parameters gives the plaintext. -/
theorem C05_decrypt_encrypt (E : Bytes → Bytes → Bytes) (hE : ∀ k b, (E k b).length = 16)
    (sc : SC) (title : Bytes) (ic : Nat) (key pt ak ct : Bytes)
    (h : encrypt P E sc title ic key pt ak = .ok ct) :
    decrypt P E sc title ic key ct ak = .ok pt := by
  obtain ⟨hsc, ha, hct⟩ := encrypt_ok P E sc title ic key pt ak ct h
  have h1 := gcm_ct_length (E key) (hE key) (iv title ic) (aad sc ak) pt
  have h2 : ((Spec.Gcm.encrypt (E key) (iv title ic) (aad sc ak) pt).2.take P.tagLength).length = 12 :=
    gcm_tag12_length (E key) (hE key) (iv title ic) (aad sc ak) pt
  have hlen : ct.length - 12 = (Spec.Gcm.encrypt (E key) (iv title ic) (aad sc ak) pt).1.length := by
    rw [hct, List.length_append, h2]; omega
  apply decrypt_some P E sc title ic key ct ak pt hsc ha (by rw [hct, List.length_append, h2]; omega)
  rw [hlen, hct, List.take_left' rfl, List.drop_left' rfl]
  exact gcm_decrypt_encrypt (E key) (hE key) (iv title ic) (aad sc ak) pt

/-- **refusals**: a key whose length does not match the suite, a system title that is not
    8 bytes, a counter that does not fit 4 bytes: error, for every operation. -/
theorem C05_bad_lengths_refused (E : Bytes → Bytes → Bytes) (sc : SC) (title : Bytes) (ic : Nat) (key x ak : Bytes)
    (h : title.length ≠ 8 ∨ 2 ^ 32 ≤ ic ∨ validateKey P sc.suite key = false ∨ validateKey P sc.suite ak = false) :
    (∃ e, encrypt P E sc title ic key x ak = .error e) ∧ (∃ e, decrypt P E sc title ic key x ak = .error e) ∧
    (∃ e, gmac P E sc title ic key ak x = .error e) := by
  have ha := argsOk_false_of P sc title ic key ak h
  refine ⟨?_, ?_, ?_⟩
  · unfold encrypt; split
    · exact ⟨_, rfl⟩
    · simp [ha]
  · unfold decrypt; split
    · exact ⟨_, rfl⟩
    · simp [ha]
  · unfold gmac; split
    · exact ⟨_, rfl⟩
    · simp [ha]

theorem C05_key_lengths (suite : Nat) (key : Bytes) :
    validateKey P suite key = true ↔ (suite = 0 ∧ key.length = 16) ∨ (suite = 1 ∧ key.length = 16) ∨ (suite = 2 ∧ key.length = 32) := by
  exact validateKey_table P rfl suite key

/-- **tag and truncation, on the real construction** (any block function): with all other
    inputs unchanged, a text whose last 12 bytes differ from the genuine tag is refused with
    the authentication error, and a text shorter than a tag is refused; data is never returned. -/
theorem C05_tag_tamper_detected (E : Bytes → Bytes → Bytes) (hE : ∀ k b, (E k b).length = 16)
    (sc : SC) (title : Bytes) (ic : Nat) (key pt ak ct tag' : Bytes)
    (h : encrypt P E sc title ic key pt ak = .ok ct) (hl : tag'.length = 12) (hne : tag' ≠ ct.drop pt.length) :
    decrypt P E sc title ic key (ct.take pt.length ++ tag') ak = .error .auth := by
  obtain ⟨hsc, ha, hct⟩ := encrypt_ok P E sc title ic key pt ak ct h
  have h1 := gcm_ct_length (E key) (hE key) (iv title ic) (aad sc ak) pt
  rw [hct, List.drop_left' h1] at hne
  rw [hct, List.take_left' h1]
  have hlen : ((Spec.Gcm.encrypt (E key) (iv title ic) (aad sc ak) pt).1 ++ tag').length - 12 =
      (Spec.Gcm.encrypt (E key) (iv title ic) (aad sc ak) pt).1.length := by
    rw [List.length_append, hl]; omega
  apply decrypt_none P E sc title ic key _ ak hsc ha (by rw [List.length_append, hl]; omega)
  rw [hlen, List.take_left' rfl, List.drop_left' rfl]
  exact gcm_decrypt_bad_tag (E key) _ _ _ tag' hl hne

theorem C05_short_text_refused (E : Bytes → Bytes → Bytes) (sc : SC) (title : Bytes) (ic : Nat) (key ct ak : Bytes)
    (hl : ct.length < 12) : ∃ e, decrypt P E sc title ic key ct ak = .error e := by
  unfold decrypt
  split
  · exact ⟨_, rfl⟩
  · split
    · exact ⟨_, rfl⟩
    · exact ⟨_, rfl⟩

/-- **every parameter is bound**: the (key, nonce, associated data) triple that goes into the
    primitive determines key, system title, counter, security-control byte and authentication
    key - this is what the DLMS construction contributes to tamper evidence. -/
theorem C05_parameters_bound (sc sc' : SC) (title title' : Bytes) (ic ic' : Nat) (ak ak' : Bytes)
    (ht : title.length = 8) (ht' : title'.length = 8) (hic : ic < 2 ^ 32) (hic' : ic' < 2 ^ 32)
    (h : iv title ic = iv title' ic' ∧ aad sc ak = aad sc' ak') :
    title = title' ∧ ic = ic' ∧ sc.toByte = sc'.toByte ∧ ak = ak' := by
  obtain ⟨h1, h2⟩ := h
  simp only [iv, aad, List.cons.injEq] at h1 h2
  obtain ⟨ht1, hic1⟩ := List.append_inj h1 (ht.trans ht'.symm)
  exact ⟨ht1, beBytes4_inj hic hic' hic1, h2.1, h2.2⟩

/-- **tampering, ideal primitive**: removing protection returns data only if key, title,
    counter, security-control byte and authentication key are those used for protecting, and
    the text is the genuine one; any difference gives the authentication error (or a refusal
    of the parameters) - never data. -/
theorem C05_ideal_tamper_detected (sc sc' : SC) (title title' : Bytes) (ic ic' : Nat) (key key' pt ak ak' : Bytes) (ct : Text)
    (h : encryptIdeal P sc title ic key pt ak = .ok ct) (x : Bytes)
    (hd : decryptIdeal P sc' title' ic' key' ct ak' = .ok x) :
    x = pt ∧ key' = key ∧ title' = title ∧ ic' = ic ∧ sc'.toByte = sc.toByte ∧ ak' = ak := by
  unfold encryptIdeal at h
  split at h
  · cases h
  · split at h
    · cases h
    · rename_i hf ha
      have hargs := (argsOk_iff P sc title ic key ak).mp (by simpa using ha)
      cases h
      unfold decryptIdeal at hd
      split at hd
      · cases hd
      · split at hd
        · cases hd
        · rename_i hf' ha'
          have hargs' := (argsOk_iff P sc' title' ic' key' ak').mp (by simpa using ha')
          simp only at hd
          split at hd
          · rename_i hc
            obtain ⟨hk, hiv, haad⟩ := hc
            cases hd
            have := C05_parameters_bound sc sc' title title' ic ic' ak ak' hargs.1 hargs'.1 hargs.2.1 hargs'.2.1 ⟨hiv, haad⟩
            exact ⟨rfl, hk.symm, this.1.symm, this.2.1.symm, this.2.2.1.symm, this.2.2.2.symm⟩
          · cases hd

theorem C05_ideal_other_refused (sc : SC) (title : Bytes) (ic : Nat) (key ak : Bytes) (n : Nat) :
    ∃ e, decryptIdeal P sc title ic key (.other n) ak = .error e := by
  unfold decryptIdeal
  split
  · exact ⟨_, rfl⟩
  · split <;> exact ⟨_, rfl⟩

theorem C05_ideal_round_trip (sc : SC) (title : Bytes) (ic : Nat) (key pt ak : Bytes) (ct : Text)
    (h : encryptIdeal P sc title ic key pt ak = .ok ct) : decryptIdeal P sc title ic key ct ak = .ok pt := by
  unfold encryptIdeal at h
  split at h
  · cases h
  · split at h
    · cases h
    · rename_i hf ha
      cases h
      simp [decryptIdeal, hf, ha]

/-- **key wrap**: for every block function `E` with inverse `D` on 16-byte blocks, a wrapped
    key (any multiple of 8 bytes, at least 16) unwraps to the key that was wrapped. -/
theorem C05_unwrap_wrap_generic (E D : Bytes → Bytes) (hE : ∀ b, (E b).length = 16)
    (hD : ∀ b, b.length = 16 → D (E b) = b) (key : Bytes) (hk : key.length % 8 = 0) (hk2 : 16 ≤ key.length) :
    Spec.Gcm.unwrap D (Spec.Gcm.wrap E key) = some key := by
  have _ := hk2  -- not needed: the round trip holds for every multiple of 8 bytes
  exact unwrap_wrap E D hE hD key hk

theorem C05_unwrap_wrap (E D : Bytes → Bytes → Bytes) (hE : ∀ k b, (E k b).length = 16)
    (hD : ∀ k b, b.length = 16 → D k (E k b) = b) (sc : SC) (kek key w : Bytes)
    (h : wrapKey P E sc kek key = .ok w) : unwrapKey P D sc kek w = .ok key := by
  unfold wrapKey at h
  split at h
  · cases h
  · rename_i hv
    simp only [Bool.or_eq_true, Bool.not_eq_true', not_or, Bool.not_eq_false] at hv
    obtain ⟨hkek, hkey⟩ := hv
    cases h
    have hk8 : key.length % 8 = 0 := by
      rcases (C05_key_lengths sc.suite key).mp hkey with ⟨_, h⟩ | ⟨_, h⟩ | ⟨_, h⟩ <;> rw [h]
    have hk16 : 16 ≤ key.length := by
      rcases (C05_key_lengths sc.suite key).mp hkey with ⟨_, h⟩ | ⟨_, h⟩ | ⟨_, h⟩ <;> rw [h] <;> decide
    have hwl := wrap_length (E kek) (hE kek) key hk8
    have hu := unwrap_wrap (E kek) (D kek) (hE kek) (hD kek) key hk8
    have hc : (decide ((Spec.Gcm.wrap (E kek) key).length < 24) || (Spec.Gcm.wrap (E kek) key).length % 8 != 0) = false := by
      rw [hwl]; simp; omega
    simp [unwrapKey, hkek, hc, hu, hkey]

/-- the block function the driver runs is AES: FIPS-197 appendix C.1 and C.3. -/
example : Spec.Aes.encryptBlock ((List.range 16).map UInt8.ofNat) ((List.range 16).map fun i => UInt8.ofNat (17 * i)) =
    [0x69, 0xc4, 0xe0, 0xd8, 0x6a, 0x7b, 0x04, 0x30, 0xd8, 0xcd, 0xb7, 0x80, 0x70, 0xb4, 0xc5, 0x5a] := by
  decide +kernel

example : Spec.Aes.encryptBlock ((List.range 32).map UInt8.ofNat) ((List.range 16).map fun i => UInt8.ofNat (17 * i)) =
    [0x8e, 0xa2, 0xb7, 0xca, 0x51, 0x67, 0x45, 0xbf, 0xea, 0xfc, 0x49, 0x90, 0x4b, 0x49, 0x60, 0x89] := by
  decide +kernel

/-! ### the block function of the executable reference is a permutation: AES itself -/

theorem C05_aes_block_length (key block : Bytes) (hk : key.length = 16 ∨ key.length = 32) (hb : block.length = 16) :
    (Spec.Aes.encryptBlock key block).length = 16 := by
  have _ := hb  -- not needed: the last step of the cipher produces 16 bytes whatever the block
  exact Lemmas.Aes.encryptBlock_length key block hk

theorem C05_aes_inverse (key block : Bytes) (hk : key.length = 16 ∨ key.length = 32) (hb : block.length = 16) :
    Spec.Aes.decryptBlock key (Spec.Aes.encryptBlock key block) = block := by
  exact Lemmas.Aes.decryptBlock_encryptBlock key block hk hb

/-- key wrap with AES itself: a key wrapped under a key of the suite unwraps to itself. -/
theorem C05_unwrap_wrap_aes (sc : SC) (kek key w : Bytes)
    (h : wrapKey P Spec.Aes.encryptBlock sc kek key = .ok w) :
    unwrapKey P Spec.Aes.decryptBlock sc kek w = .ok key := by
  -- as C05_unwrap_wrap, with the facts about the block function for the accepted `kek` only
  unfold wrapKey at h
  split at h
  · cases h
  · rename_i hv
    simp only [Bool.or_eq_true, Bool.not_eq_true', not_or, Bool.not_eq_false] at hv
    obtain ⟨hkek, hkey⟩ := hv
    cases h
    have hkl : kek.length = 16 ∨ kek.length = 32 := by
      rcases (C05_key_lengths sc.suite kek).mp hkek with ⟨_, h⟩ | ⟨_, h⟩ | ⟨_, h⟩
      · exact .inl h
      · exact .inl h
      · exact .inr h
    have hE : ∀ b, (Spec.Aes.encryptBlock kek b).length = 16 :=
      fun b => Lemmas.Aes.encryptBlock_length kek b hkl
    have hD : ∀ b, b.length = 16 → Spec.Aes.decryptBlock kek (Spec.Aes.encryptBlock kek b) = b :=
      fun b hb => C05_aes_inverse kek b hkl hb
    have hk8 : key.length % 8 = 0 := by
      rcases (C05_key_lengths sc.suite key).mp hkey with ⟨_, h⟩ | ⟨_, h⟩ | ⟨_, h⟩ <;> rw [h]
    have hk16 : 16 ≤ key.length := by
      rcases (C05_key_lengths sc.suite key).mp hkey with ⟨_, h⟩ | ⟨_, h⟩ | ⟨_, h⟩ <;> rw [h] <;> decide
    have hwl := wrap_length (Spec.Aes.encryptBlock kek) hE key hk8
    have hu := unwrap_wrap (Spec.Aes.encryptBlock kek) (Spec.Aes.decryptBlock kek) hE hD key hk8
    have hc : (decide ((Spec.Gcm.wrap (Spec.Aes.encryptBlock kek) key).length < 24) ||
        (Spec.Gcm.wrap (Spec.Aes.encryptBlock kek) key).length % 8 != 0) = false := by
      rw [hwl]; simp; omega
    simp [unwrapKey, hkek, hc, hu, hkey]


end Props.C05
