-- This module serves as the root of the `DlmsVerif` library.
-- Import modules here that should be built as part of the library.
import DlmsVerif.Basic
