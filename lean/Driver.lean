/-
  Line-protocol driver: one request per line on stdin, one response per line on stdout.
  `<namespace> <op> <arg>*`.  Stateless namespaces are dispatched to pure handlers;
  stateful ones thread a state through `DriverState`.
-/
import DlmsVerif.Run.Crc
import DlmsVerif.Run.Fields
import DlmsVerif.Run.Link
import DlmsVerif.Run.Addr
import DlmsVerif.Run.Hdlc
import DlmsVerif.Run.Rx
import DlmsVerif.Run.Time
import DlmsVerif.Run.Axdr
import DlmsVerif.Run.Parsers
import DlmsVerif.Run.Wrapper
import DlmsVerif.Run.Xdlms
import DlmsVerif.Run.Acse
import DlmsVerif.Run.Conn
import DlmsVerif.Run.Client
import DlmsVerif.Run.Transport
import DlmsVerif.Run.Security

structure DriverState where
  link : Run.Link.S := {}
  rx : Run.Rx.S := {}
  conn : Run.Conn.S := {}
  cli : Run.Client.S := {}
  tr : Run.Transport.S := {}

def step (st : DriverState) (line : String) : DriverState × String :=
  match (line.trimAscii.toString.splitOn " ").filter (· ≠ "") with
  | "sec" :: rest => (st, Run.Security.handle rest)
  | ["echo", tok] => (st, "ok " ++ tok)      -- for checks whose oracle runs on the harness side only (the expected answer is `ok <tok>`)
  | "crc" :: rest => (st, Run.Crc.handle rest)
  | "fld" :: rest => (st, Run.Fields.handle rest)
  | "acse" :: rest => (st, Run.Acse.handle rest)
  | "xdlms" :: rest => (st, Run.Xdlms.handle rest)
  | "wrp" :: rest => (st, Run.Wrapper.handle rest)
  | "pars" :: rest => (st, Run.Parsers.handle rest)
  | "axdr" :: rest => (st, Run.Axdr.handle rest)
  | "time" :: rest => (st, Run.Time.handle rest)
  | "hdlc" :: rest => (st, Run.Hdlc.handle rest)
  | "addr" :: rest => (st, Run.Addr.handle rest)
  | "conn" :: rest => let (l, r) := Run.Conn.handle st.conn rest; ({ st with conn := l }, r)
  | "tr" :: rest => let (l, r) := Run.Transport.handle st.tr rest; ({ st with tr := l }, r)
  | "cli" :: rest => let (l, r) := Run.Client.handle st.cli rest; ({ st with cli := l }, r)
  | "rx" :: rest => let (l, r) := Run.Rx.handle st.rx rest; ({ st with rx := l }, r)
  | "link" :: rest => let (l, r) := Run.Link.handle st.link rest; ({ st with link := l }, r)
  | [] => (st, "bad-op")
  | _ => (st, "bad-op")

partial def loop (h : IO.FS.Stream) (out : IO.FS.Stream) (st : DriverState) : IO Unit := do
  let line ← h.getLine
  if line.isEmpty then return ()
  let (st', r) := step st line
  out.putStrLn r
  loop h out st'

def main : IO Unit := do
  let stdin ← IO.getStdin
  let stdout ← IO.getStdout
  loop stdin stdout {}
