"""C05 - AES-GCM protection matches the DLMS construction and detects every tampering."""
from harness import framework as fw


def hx(b):
    return bytes(b).hex() if b else "-"


def ref_gcm(key, iv, aad, pt):
    """AES-GCM with a 12-byte tag straight from the `cryptography` package (not through the repository's code):
    used to build the texts whose removal is tested."""
    from cryptography.hazmat.primitives.ciphers import Cipher, algorithms, modes
    enc = Cipher(algorithms.AES(key), modes.GCM(iv, None, min_tag_length=12)).encryptor()
    enc.authenticate_additional_data(aad)
    ct = enc.update(pt) + enc.finalize()
    return ct + enc.tag[:12]


def sc_obj(v):
    from dlms_cosem.security import SecurityControlField
    return SecurityControlField.from_bytes(bytes([v]))


def sc_for(d):
    """the security-control object of a case. With `scprev`: an object that was parsed from another byte and used (serialised,
    handed to encrypt) before, then given the case's field values one by one - what counts is what it says when it is used."""
    if d.get("scprev") is None:
        return sc_obj(d["sc"])
    from dlms_cosem import security
    s = sc_obj(d["scprev"])
    s.to_bytes()
    try:
        klen = 32 if s.security_suite == 2 else 16
        security.encrypt(s, b"PREVIOUS", 1, bytes(klen), b"\x01\x02", bytes(klen))
    except fw._Timeout:
        raise
    except Exception:  # noqa
        pass
    t = sc_obj(d["sc"])
    for n in ("security_suite", "authenticated", "encrypted", "broadcast_key", "compressed"):
        setattr(s, n, getattr(t, n))
    return s


def run(d):
    from dlms_cosem import security
    k = d["k"]
    b = lambda n: b"" if d[n] == "-" else bytes.fromhex(d[n])
    if k == "sc":
        t = lambda x: "true" if x else "false"
        show = lambda s: f"ok {s.security_suite} {t(s.authenticated)} {t(s.encrypted)} {t(s.broadcast_key)} {t(s.compressed)} {s.to_bytes()[0]}"
        s = sc_obj(d["v"])
        first = show(s)
        # what a caller does with a parsed field (clear a flag, set another suite) does not change what the byte parses to next time
        fw.scribble(s)
        again = show(sc_obj(d["v"]))
        return first if again == first else first + " !second-parse-differs:" + again
    if k == "block":
        from cryptography.hazmat.primitives.ciphers import Cipher, algorithms, modes
        e = Cipher(algorithms.AES(b("key")), modes.ECB()).encryptor()
        return f"ok {hx(e.update(b('x')) + e.finalize())} {d['x']}"
    if k in ("tamper", "tunwrap", "tamper-apdu", "tamper-conn"):
        try:
            s = sc_obj(d["sc"])
            if k == "tamper":
                r = security.decrypt(s, b("title"), d["ic"], b("key"), b("x"), b("ak"))
            elif k == "tamper-apdu":
                from dlms_cosem.protocol import xdlms
                if d.get("good"):
                    # one APDU object: first opened with the genuine parameters, then - the same object - asked again after
                    # the text / title / counter were altered or with altered keys
                    g0 = d["good"]
                    g = xdlms.GeneralGlobalCipher(bytes.fromhex(g0["title"]), sc_obj(g0["sc"]), g0["ic"], bytes.fromhex(g0["x"]))
                    first = g.to_plain_apdu(bytes.fromhex(g0["key"]), bytes.fromhex(g0["ak"]))
                    if bytes(first) != bytes.fromhex(g0["pt"]):
                        return "data | genuine-text-opened-to " + hx(first)
                    g.system_title, g.security_control, g.invocation_counter, g.ciphered_text = b("title"), s, d["ic"], b("x")
                    r = g.to_plain_apdu(b("key"), b("ak"))
                else:
                    r = xdlms.GeneralGlobalCipher(b("title"), s, d["ic"], b("x")).to_plain_apdu(b("key"), b("ak"))
            elif k == "tamper-conn":
                from dlms_cosem.connection import DlmsConnection
                conn = DlmsConnection(client_system_title=b"CLIENT01", global_encryption_key=b("key"), global_authentication_key=b("ak"),
                                      security_suite=s.security_suite, meter_system_title=bytes.fromhex(d["remembered_title"]),
                                      meter_invocation_counter=d["remembered_ic"])
                r = conn.decrypt(b("x"), system_title=b("title"), invocation_counter=d["ic"])
            else:
                r = security.unwrap_key(s, b("key"), b("x"))
        except fw._Timeout:
            raise
        except Exception as e:  # noqa
            return "refused | err " + fw.classify_exception(e, ERR_MAP)
        return "data | ok " + hx(r)
    if d.get("ba"):
        # the system title handed over as a bytearray (what the library's own decoders return): same answer, the caller's buffer
        # is not touched, and a second call with the same object gives the same answer
        # (the system title only: it is what the library's A-XDR decoder hands out as a bytearray; the `cryptography` package
        #  itself insists on bytes for keys and tags)
        args = {n: (bytearray(b(n)) if n == "title" else b(n)) for n in ("title", "key", "x", "ak")}
        keep = {n: bytes(v) for n, v in args.items()}
        outs = []
        for _ in range(2):
            try:
                s = sc_obj(d["sc"])
                if k == "enc":
                    r = security.encrypt(s, args["title"], d["ic"], args["key"], args["x"], args["ak"])
                elif k == "dec":
                    r = security.decrypt(s, args["title"], d["ic"], args["key"], args["x"], args["ak"])
                else:
                    r = security.gmac(s, args["title"], d["ic"], args["key"], args["ak"], args["x"])
                outs.append(f"ok {hx(r)} | ok {hx(r)}")
            except (fw._Timeout, fw.MachineryError):
                raise
            except Exception as e:  # noqa
                outs.append("refused | err " + fw.classify_exception(e, ERR_MAP))
        changed = [n for n, v in args.items() if bytes(v) != keep[n]]
        if changed:
            return outs[0] + " !PROP callers-buffer-modified:" + ",".join(changed)
        if outs[0] != outs[1]:
            return outs[0] + " !PROP second-call-differs:" + outs[1]
        return outs[0]
    try:
        s = sc_for(d)
        if k == "enc":
            r = security.encrypt(s, b("title"), d["ic"], b("key"), b("x"), b("ak"))
        elif k == "dec":
            r = security.decrypt(s, b("title"), d["ic"], b("key"), b("x"), b("ak"))
            if d.get("via_apdu"):
                # the same removal through the other two entrances the library offers: the general-glo-ciphering APDU object
                # and the connection's decrypt with explicit title and counter - same parameters, same answer
                from dlms_cosem.connection import DlmsConnection
                from dlms_cosem.protocol import xdlms
                r2 = xdlms.GeneralGlobalCipher(b("title"), s, d["ic"], b("x")).to_plain_apdu(b("key"), b("ak"))
                if bytes(r2) != bytes(r):
                    return f"ok {hx(r)} | ok {hx(r)} !PROP apdu-object-gives:{hx(r2)}"
        elif k == "gmac":
            r = security.gmac(s, b("title"), d["ic"], b("key"), b("ak"), b("x"))
        elif k == "wrap":
            r = security.wrap_key(s, b("key"), b("x"))
        elif k == "unwrap":
            r = security.unwrap_key(s, b("key"), b("x"))
        else:
            raise fw.MachineryError(k)
    except (fw._Timeout, fw.MachineryError):
        raise
    except Exception as e:  # noqa
        return "refused | err " + fw.classify_exception(e, ERR_MAP)
    return f"ok {hx(r)} | ok {hx(r)}"
    raise fw.MachineryError(k)


ERR_MAP = [("InvalidUnwrap", "auth"), ("InvalidTag", "auth")]


class C05(fw.Prop):
    id = "C05"
    anchors = ["dlms_cosem/security.py", "dlms_cosem/exceptions.py"]
    design_ref = "DESIGN.md §6 C05"
    err_map = ERR_MAP
    rule = ("security.encrypt / decrypt / gmac / wrap_key / unwrap_key / SecurityControlField against the Lean AES-GCM / RFC 3394 reference byte for byte: "
            "Green-Book, McGrew-Viega and RFC 3394 vectors; random keys of suites 0/1/2, titles, counters incl. 0 and 2^32-1, every security-control "
            "byte 0..255; plaintext lengths 0..2048 (all in thorough, boundary and random ones in quick); keys of length 0..40, titles of length 0..12, "
            "counter 2^32; fault enumeration on the real primitive (validation of the idealisation): every single-bit flip and every truncation of N "
            "protected texts, every single-bit flip of key, authentication key, title, counter, security-control byte - removal must raise, also through the APDU object (fresh and "
            "re-used after a successful removal) and the connection; texts made outside the library under nonces from titles of 0..16 bytes; plaintexts whose "
            "protected text begins like a header (security control || counter, tag and title); single AES blocks against the package's ECB mode; titles spelled as text (hex digits, blanks, length byte), the title as a bytearray (unchanged afterwards, same answer twice), security-control bytes re-parsed after the first result was overwritten; non-trivial = distinct input")
    trusted_base = ["Spec.Aes / Spec.Gcm are FIPS 197 / SP 800-38D / RFC 3394 as I wrote them down (validated by the standard vectors and against the `cryptography` package)",
                    "extract.py (key-length table, tag length)", "the ideal-AEAD abstraction for 'every tampering is detected' (DESIGN.md §5b)",
                    "the meter's side of the connection-level harnesses uses harness/refcrypto.py (the same construction written straight on the `cryptography` primitives), not dlms_cosem.security"]
    assumptions = ["counters are non-negative integers", "'every tampering is detected' is a theorem about the ideal primitive and about the tag / too-short texts on the real construction; on the real primitive it is validated by exhaustive single-fault enumeration"]
    technique = "Lean 4 proof: construction by unfolding against an executable GCM reference, round trip and key-wrap inversion generic in the block function (induction over blocks / wrap steps) and instantiated with the Lean AES, whose decryption is proved to invert its encryption (C05_aes_inverse), injectivity of the parameter composition, tamper theorem over an ideal AEAD; differential correspondence byte for byte with a Lean AES-GCM; fault enumeration on the real primitive"
    level_text = ("C05_encrypt_is_gcm / C05_gmac_is_gcm / C05_decrypt_encrypt / C05_bad_lengths_refused / C05_key_lengths / C05_tag_tamper_detected / C05_short_text_refused / "
                  "C05_parameters_bound / C05_ideal_tamper_detected / C05_unwrap_wrap / C05_aes_block_length / C05_aes_inverse / C05_unwrap_wrap_aes: theorems over every plaintext, key, title, counter and block function, "
                  "the key-wrap round trip also for the Lean AES-128/256 itself (its inverse cipher is proved to be the inverse). Tied to security.py by "
                  "byte-for-byte comparison with an executable AES-GCM / key wrap written in Lean, and by single-fault enumeration.")
    level_note = "Trusted: Lean kernel (+propext, Classical.choice, Quot.sound), Spec.Aes/Gcm as the reading of the standards, the ideal-AEAD abstraction, extract.py, the harness."
    chunk = 3000

    def make_case(self, d):
        k = d["k"]
        if k == "sc":
            line = f"sec sc {d['v']}"
        elif k == "block":
            line = f"sec block {d['key']} {d['x']}"
        elif k in ("wrap", "unwrap", "tunwrap"):
            line = f"sec {k} {d['sc']} {d['key']} {d['x']}"
        else:
            line = f"sec {k} {d['sc']} {d['title']} {d['ic']} {d['key']} {d['ak']} {d['x']}"
        kind = "model" if k == "block" else ("prop" if k == "sc" else "split")
        if k in ("tamper-apdu", "tamper-conn"):
            # (the error class of these entrances is their own business: only "never data" is demanded)
            line, kind = "echo refused", "prop"
            inner = run

            def run_(dd=d):
                r = inner(dd)
                return "ok refused" if r.startswith("refused") else "ok refused !" + r
            return fw.Case(line, run_, kind, d, tags=(k, d.get("tag", "x")))
        return fw.Case(line, lambda: run(d), kind, d, tags=(k, d.get("tag", "x")))

    def cases(self, rng, tier, deep):
        mk = self.make_case

        def rb(n):
            return bytes(rng.getrandbits(8) for _ in range(n))

        def params(suite=None, scb=None):
            suite = rng.choice([0, 1, 2]) if suite is None else suite
            klen = 32 if suite == 2 else 16
            scb = (suite | rng.choice([0x30, 0x10, 0x20, 0x30, 0x70, 0xB0, 0xF0])) if scb is None else scb
            return dict(sc=scb, title=hx(rb(8)), ic=rng.choice([0, 1, 255, 2 ** 31, 2 ** 32 - 1, rng.getrandbits(32)]), key=hx(rb(klen)), ak=hx(rb(klen)))
        # known answers
        gb = dict(sc=0x30, title="4d4d4d0000bc614e", ic=0x01234567, key="000102030405060708090a0b0c0d0e0f", ak="d0d1d2d3d4d5d6d7d8d9dadbdcdddedf")
        yield mk(dict(k="enc", x="c0010000080000010000ff0200", tag="green-book", **gb))
        yield mk(dict(k="dec", x="411312ff935a47566827c467bc7d825c3be4a77c3fcc056b6b", tag="green-book", **gb))
        yield mk(dict(k="wrap", sc=0, key="000102030405060708090a0b0c0d0e0f", x="00112233445566778899aabbccddeeff", tag="rfc3394"))
        yield mk(dict(k="unwrap", sc=0, key="000102030405060708090a0b0c0d0e0f", x="1fa68b0a8112b447aef34bd8fb5a7b829d3e862371d2cfe5", tag="rfc3394"))
        yield mk(dict(k="wrap", sc=2, key=bytes(range(32)).hex(), x="00112233445566778899aabbccddeeff000102030405060708090a0b0c0d0e0f", tag="rfc3394"))
        # every security-control byte
        for v in range(256):
            yield mk(dict(k="sc", v=v))
            p = params(suite=v % 16 if v % 16 <= 2 else 0, scb=v)
            yield mk(dict(k="enc", x=hx(rb(rng.randint(0, 40))), tag="every-sc", **p))
            yield mk(dict(k="gmac", x=hx(rb(rng.randint(8, 64))), tag="every-sc", **p))
        # plaintext lengths
        lens = list(range(0, 2049)) if deep else sorted(set(list(range(0, 50)) + [63, 64, 65, 127, 128, 129, 255, 256, 257, 1023, 1024, 2047, 2048] +
                                                            [rng.randint(0, 2048) for _ in range(60)]))
        for n in lens:
            p = params()
            pt = rb(n)
            yield mk(dict(k="enc", x=hx(pt), tag="lengths", **p))
            s = sc_obj(p["sc"])
            ct = ref_gcm(bytes.fromhex(p["key"]), bytes.fromhex(p["title"]) + p["ic"].to_bytes(4, "big"), s.to_bytes() + bytes.fromhex(p["ak"]), pt)
            yield mk(dict(k="dec", x=hx(ct), tag="lengths", via_apdu=(p["sc"] & 0x30 == 0x30), **p))
        # gmac with challenges of 0..64 bytes
        for n in (range(0, 65) if deep else [0, 1, 8, 16, 17, 32, 63, 64]):
            yield mk(dict(k="gmac", x=hx(rb(n)), tag="challenge-lengths", **params(scb=rng.choice([0x10, 0x11, 0x12]))))
        # wrong lengths
        for n in range(0, 41):
            p = params()
            yield mk(dict(k="enc", x="0102", tag="key-length", **{**p, "key": hx(rb(n))}))
            yield mk(dict(k="dec", x=hx(rb(30)), tag="key-length", **{**p, "ak": hx(rb(n))}))
            yield mk(dict(k="gmac", x=hx(rb(16)), tag="key-length", **{**params(scb=0x10), "key": hx(rb(n))}))
            for suite in (0, 1, 2):
                yield mk(dict(k="wrap", sc=suite, key=hx(rb(n)), x=hx(rb(32 if suite == 2 else 16)), tag="key-length"))
                yield mk(dict(k="wrap", sc=suite, key=hx(rb(32 if suite == 2 else 16)), x=hx(rb(n)), tag="key-length"))
                yield mk(dict(k="unwrap", sc=suite, key=hx(rb(32 if suite == 2 else 16)), x=hx(rb(n)), tag="key-length"))
        for n in range(0, 13):
            p = params()
            yield mk(dict(k="enc", x="0102", tag="title-length", **{**p, "title": hx(rb(n))}))
            yield mk(dict(k="dec", x=hx(rb(30)), tag="title-length", **{**p, "title": hx(rb(n))}))
        # titles spelled as text (16 hex digits, with blanks, with a length byte in front): not 8 bytes, refused - also when the
        # text was made under the 8 bytes they spell
        for _ in range(6 if deep else 3):
            p = params()
            real = bytes.fromhex(p["title"])
            ct = ref_gcm(bytes.fromhex(p["key"]), real + p["ic"].to_bytes(4, "big"), bytes([p["sc"]]) + bytes.fromhex(p["ak"]), rb(11))
            for spelled in (real.hex().upper().encode(), real.hex().encode(), real + b" ", b" " + real, real + b"\x00", b"\x08" + real, real + real):
                yield mk(dict(k="enc", x="c001c100", tag="title-spelled", **{**p, "title": hx(spelled)}))
                yield mk(dict(k="gmac", x=hx(rb(16)), tag="title-spelled", **{**params(scb=0x10), "title": hx(spelled)}))
                yield mk(dict(k="tamper", x=hx(ct), tag="title-spelled", **{**p, "title": hx(spelled)}))
        # a security-control object that was used under other settings before (what it says now is what counts)
        for v in (range(256) if deep else [0x10, 0x20, 0x30, 0x31, 0x32, 0x70, 0xB0, 0xF0, 0x50, 0x90, 0x00, 0x12, 0x21, 0xF2, 0x60, 0xE1]):
            if v % 16 > 2:
                continue
            prev = v ^ (1 << rng.choice([4, 5, 6, 7]))
            p = params(suite=v % 16, scb=v)
            pt = rb(rng.randint(0, 40))
            ct = ref_gcm(bytes.fromhex(p["key"]), bytes.fromhex(p["title"]) + p["ic"].to_bytes(4, "big"), sc_obj(v).to_bytes() + bytes.fromhex(p["ak"]), pt)
            yield mk(dict(k="enc", x=hx(pt), tag="reused-sc", scprev=prev, **p))
            yield mk(dict(k="dec", x=hx(ct), tag="reused-sc", scprev=prev, **p))
            yield mk(dict(k="gmac", x=hx(rb(16)), tag="reused-sc", scprev=prev, **p))
        # texts that are themselves compressed streams, under security controls with and without the compression bit: protection
        # is removed, nothing more (what was protected comes back)
        import zlib
        for v in (0x30, 0xB0, 0xF0, 0x90, 0xA0, 0xB1, 0xB2):
            for inner in (b"meter reading 12345", bytes(200), b""):
                p = params(suite=v % 16, scb=v)
                for pt in (zlib.compress(inner), zlib.compress(inner, 9)[:-1] + b"\x00", b"\x78\x9c" + inner):
                    ct = ref_gcm(bytes.fromhex(p["key"]), bytes.fromhex(p["title"]) + p["ic"].to_bytes(4, "big"), sc_obj(v).to_bytes() + bytes.fromhex(p["ak"]), pt)
                    yield mk(dict(k="enc", x=hx(pt), tag="compressed-stream", **p))
                    yield mk(dict(k="dec", x=hx(ct), tag="compressed-stream", via_apdu=(v & 0x30 == 0x30), **p))
        # both keys of the wrong length at once (lengths that add up to the right total, and others)
        for suite in (0, 1, 2):
            klen = 32 if suite == 2 else 16
            for n1 in (range(0, 2 * klen + 17) if deep else [0, 8, klen - 1, klen + 1, 24, 2 * klen, 2 * klen + 16, 48]):
                if n1 == klen:
                    continue
                for n2 in {2 * klen - n1, rng.randint(0, 48)}:
                    if n2 < 0:
                        continue
                    p = {**params(suite=suite), "key": hx(rb(n1)), "ak": hx(rb(n2))}
                    yield mk(dict(k="enc", x="0102", tag="key-length-pairs", **p))
                    yield mk(dict(k="dec", x=hx(rb(30)), tag="key-length-pairs", **p))
                    yield mk(dict(k="gmac", x=hx(rb(16)), tag="key-length-pairs", **{**p, "sc": 0x10 + suite}))
        # the system title handed over as a bytearray
        for n in (0, 1, 16, 33, 100):
            p = params()
            pt = rb(n)
            s = sc_obj(p["sc"])
            ct = ref_gcm(bytes.fromhex(p["key"]), bytes.fromhex(p["title"]) + p["ic"].to_bytes(4, "big"), s.to_bytes() + bytes.fromhex(p["ak"]), pt)
            yield mk(dict(k="enc", x=hx(pt), tag="bytearrays", ba=True, **p))
            yield mk(dict(k="dec", x=hx(ct), tag="bytearrays", ba=True, **p))
            yield mk(dict(k="gmac", x=hx(rb(n + 8)), tag="bytearrays", ba=True, **params(scb=0x10 + rng.choice([0, 1]))))
        # texts made outside the library under a nonce built from a title that is not 8 bytes: refused, never opened
        for n in list(range(0, 8)) + list(range(9, 17)):
            p = params()
            t = rb(n)
            iv = t + p["ic"].to_bytes(4, "big")
            if len(iv) < 8:
                continue                      # (the package itself has no GCM for nonces that short)
            ct = ref_gcm(bytes.fromhex(p["key"]), iv, bytes([p["sc"]]) + bytes.fromhex(p["ak"]), rb(13))
            yield mk(dict(k="tamper", x=hx(ct), tag="title-length-text", **{**p, "title": hx(t)}))
        # plaintexts whose protected text begins like a header (security control || counter, the general-glo tag and title
        # length, the title): removal returns them like any other
        for _ in range(12 if deep else 4):
            p = params(scb=rng.choice([0x30, 0x31]) if rng.random() < 0.7 else None)
            key, ak, title = bytes.fromhex(p["key"]), bytes.fromhex(p["ak"]), bytes.fromhex(p["title"])
            iv, aad = title + p["ic"].to_bytes(4, "big"), bytes([p["sc"]]) + ak
            for prefix in (bytes([p["sc"]]) + p["ic"].to_bytes(4, "big"), b"\xdb\x08" + title, title, bytes([p["sc"]]), bytes([p["sc"]]) + p["ic"].to_bytes(4, "big") + title):
                ks = ref_gcm(key, iv, aad, bytes(len(prefix)))[:len(prefix)]
                pt = bytes(a ^ c for a, c in zip(ks, prefix)) + rb(rng.choice([0, 1, 12, 30]))
                ct = ref_gcm(key, iv, aad, pt)
                assert ct.startswith(prefix)
                yield mk(dict(k="enc", x=hx(pt), tag="header-like-text", **p))
                yield mk(dict(k="dec", x=hx(ct), tag="header-like-text", via_apdu=(p["sc"] & 0x30 == 0x30), **p))
        for ic in (2 ** 32, 2 ** 32 + 1, 2 ** 40):
            yield mk(dict(k="enc", x="0102", tag="counter-range", **{**params(), "ic": ic}))
            yield mk(dict(k="dec", x=hx(rb(30)), tag="counter-range", **{**params(), "ic": ic}))
        for n in range(0, 14):
            yield mk(dict(k="dec", x=hx(rb(n)), tag="short-text", **params()))
        # a connection that remembers the meter's genuine title and counter but is asked to remove protection with other ones
        for suite in (0, 1, 2):
            p = params(suite=suite, scb=0x30 + suite)
            p["ic"] = rng.choice([5, 1000, 2 ** 31])
            pt = rb(20)
            ct = ref_gcm(bytes.fromhex(p["key"]), bytes.fromhex(p["title"]) + p["ic"].to_bytes(4, "big"), bytes([p["sc"]]) + bytes.fromhex(p["ak"]), pt)
            for bad_ic in (0, p["ic"] ^ 1, p["ic"] + 1):
                yield mk(dict(k="tamper-conn", x=hx(ct), tag="counter-conn", remembered_title=p["title"], remembered_ic=p["ic"], **{**p, "ic": bad_ic}))
            for bad_title in ("", hx(rb(8))):
                yield mk(dict(k="tamper-conn", x=hx(ct), tag="title-conn", remembered_title=p["title"], remembered_ic=p["ic"], **{**p, "title": bad_title or "-"}))
        # key wrap round trips and tampering
        for _ in range(200 if deep else 30):
            suite = rng.choice([0, 1, 2])
            klen = 32 if suite == 2 else 16
            kek, key = rb(klen), rb(klen)
            yield mk(dict(k="wrap", sc=suite, key=hx(kek), x=hx(key), tag="wrap"))
            from cryptography.hazmat.primitives.keywrap import aes_key_wrap
            w = aes_key_wrap(kek, key)
            yield mk(dict(k="unwrap", sc=suite, key=hx(kek), x=hx(w), tag="wrap"))
            for bit in (range(len(w) * 8) if deep else rng.sample(range(len(w) * 8), 12)):
                x = bytearray(w)
                x[bit // 8] ^= 1 << (bit % 8)
                yield mk(dict(k="tunwrap", sc=suite, key=hx(kek), x=hx(x), tag="wrap-bitflip"))
            for n in range(0, len(w)):
                yield mk(dict(k="tunwrap", sc=suite, key=hx(kek), x=hx(w[:n]), tag="wrap-truncated"))
            bad = bytearray(kek)
            bad[rng.randrange(klen)] ^= 1 << rng.randrange(8)
            yield mk(dict(k="tunwrap", sc=suite, key=hx(bad), x=hx(w), tag="wrap-wrong-kek"))
        # single AES blocks
        for _ in range(300 if deep else 40):
            yield mk(dict(k="block", key=hx(rb(rng.choice([16, 32]))), x=hx(rb(16))))
        # fault enumeration on the real primitive
        for rep in range(40 if deep else 3):
            p = params() if rep else params(scb=0x30 + rng.choice([0, 1]))
            pt = rb(rng.choice([0, 1, 15, 16, 17, 40]))
            s = sc_obj(p["sc"])
            title, key, ak = bytes.fromhex(p["title"]), bytes.fromhex(p["key"]), bytes.fromhex(p["ak"])
            ct = ref_gcm(key, title + p["ic"].to_bytes(4, "big"), s.to_bytes() + ak, pt)
            for bit in range(len(ct) * 8):
                x = bytearray(ct)
                x[bit // 8] ^= 1 << (bit % 8)
                yield mk(dict(k="tamper", x=hx(x), tag="text-bitflip", **p))
            for n in range(len(ct)):
                yield mk(dict(k="tamper", x=hx(ct[:n]), tag="text-truncated", **p))
            for name, val in (("key", key), ("ak", ak), ("title", title)):
                for bit in range(len(val) * 8):
                    x = bytearray(val)
                    x[bit // 8] ^= 1 << (bit % 8)
                    yield mk(dict(k="tamper", x=hx(ct), tag=name + "-bitflip", **{**p, name: hx(x)}))
            for bit in range(32):
                yield mk(dict(k="tamper", x=hx(ct), tag="counter-bitflip", **{**p, "ic": p["ic"] ^ (1 << bit)}))
            # the same single-bit differences through the APDU object, and through a connection that remembers the genuine
            # title and counter while it is asked to use the altered ones (0 and the empty title included)
            if p["sc"] & 0x30 == 0x30:
                for name, val in (("key", key), ("ak", ak), ("title", title)):
                    for bit in rng.sample(range(len(val) * 8), 6):
                        x = bytearray(val)
                        x[bit // 8] ^= 1 << (bit % 8)
                        yield mk(dict(k="tamper-apdu", x=hx(ct), tag=name + "-bitflip-apdu", **{**p, name: hx(x)}))
                        yield mk(dict(k="tamper-apdu", x=hx(ct), tag=name + "-bitflip-apdu-reused", good=dict(x=hx(ct), pt=hx(pt), **p), **{**p, name: hx(x)}))
                good = dict(x=hx(ct), pt=hx(pt), **p)
                for bit in rng.sample(range(len(ct) * 8), 6):
                    x = bytearray(ct)
                    x[bit // 8] ^= 1 << (bit % 8)
                    yield mk(dict(k="tamper-apdu", x=hx(x), tag="text-bitflip-apdu-reused", good=good, **p))
                yield mk(dict(k="tamper-apdu", x=hx(ct[:-1]), tag="text-truncated-apdu-reused", good=good, **p))
                yield mk(dict(k="tamper-apdu", x=hx(ct), tag="counter-apdu-reused", good=good, **{**p, "ic": p["ic"] ^ (1 << rng.randrange(32))}))
                if p["sc"] == 0x30 + (p["sc"] & 15):
                    for bad_ic in sorted({0, p["ic"] ^ 1, p["ic"] ^ (1 << 31)} - {p["ic"]}):
                        yield mk(dict(k="tamper-conn", x=hx(ct), tag="counter-conn", remembered_title=p["title"], remembered_ic=p["ic"],
                                      **{**p, "ic": bad_ic}))
            for bit in range(8):
                v = p["sc"] ^ (1 << bit)
                if v & 0x30 == 0:
                    continue            # neither authenticated nor encrypted: refused for that reason
                yield mk(dict(k="tamper", x=hx(ct), tag="sc-bitflip", **{**p, "sc": v}))
            yield mk(dict(k="tamper", x=hx(ct + b"\x00"), tag="text-extended", **p))


PROP = C05()
