"""C12 - frame check sequences equal CRC-16/X-25 for every message."""
from harness import framework as fw


def x25_ref(data):
    """independent bitwise CRC-16/X-25 (second oracle, cross-checks the Lean Spec)."""
    reg = 0xFFFF
    for b in data:
        reg ^= b
        for _ in range(8):
            reg = (reg >> 1) ^ 0x8408 if reg & 1 else reg >> 1
    reg ^= 0xFFFF
    return bytes([reg & 0xFF, reg >> 8])


class C12(fw.Prop):
    id = "C12"
    anchors = ["dlms_cosem/crc.py"]
    design_ref = "DESIGN.md §6 C12"
    rule = ("messages: all of length 0 and 1 (256), all of length 2 (65 536, thorough), every table index "
            "hit with every register high byte, random messages of length 0..4096; each compared with "
            "Spec.Crc.fcs (driver) in both byte orders and with an independent bitwise X-25 in the harness; "
            "non-trivial = distinct message")
    trusted_base = ["extract.py prints crc_ccitt_table / reverse_byte graph / constants as they are in the running code",
                    "Spec.Crc is CRC-16/X-25 as in ISO/IEC 13239 (cross-checked against an independent bitwise implementation and the check string)"]
    assumptions = ["CPython executes crc.py as written"]
    technique = "Lean 4 proof (induction over the message, XOR-linearity, bit extensionality, kernel-decided 256-entry tables regenerated from the code) + differential correspondence"
    level_text = ("Theorem C12_calculate_for_eq_x25: for every byte string the model of calculate_for, instantiated with the table, "
                  "reversal graph and constants extracted from the running code on every run, equals the bit-serial CRC-16/X-25 "
                  "low byte first. Unbounded in the message length. The model is tied to crc.py by regeneration (tables) and by "
                  "comparison of calculate_for with the Lean spec on all 0/1/2-byte messages and random long ones.")
    level_note = ("Trusted: Lean kernel (+propext, Classical.choice, Quot.sound); extract.py; that Model.Crc mirrors the three short "
                  "procedures of crc.py (validated by the correspondence run); Spec.Crc as the reading of ISO/IEC 13239.")

    def make_case(self, d):
        from dlms_cosem.crc import CRCCCITT
        msg = bytes.fromhex(d["msg"])
        lsb = bool(d.get("lsb_first", False))

        def impl():
            out = CRCCCITT().calculate_for(msg, lsb_first=lsb)
            ref = x25_ref(msg)
            if (out[::-1] if lsb else out) != ref:
                return "ok " + fw.hx(out) + " !=ref " + fw.hx(ref)
            return "ok " + fw.hx(out)

        if lsb:
            line = f"crc speclsb {fw.hx(msg)}"
        else:
            line = f"crc spec {fw.hx(msg)}"
        return fw.Case(line, impl, "prop", d, tags=("lsb_first" if lsb else "default", f"len{min(len(msg), 9)}" if len(msg) < 9 else "len>=9"))

    def cases(self, rng, tier, deep):
        yield self.make_case({"msg": ""})
        yield self.make_case({"msg": "", "lsb_first": True})
        yield self.make_case({"msg": "313233343536373839"})
        for b in range(256):
            yield self.make_case({"msg": bytes([b]).hex()})
            yield self.make_case({"msg": bytes([b]).hex(), "lsb_first": True})
        if deep:
            for a in range(256):
                for b in range(256):
                    yield self.make_case({"msg": bytes([a, b]).hex()})
        else:
            for a in range(0, 256, 5):
                for b in range(0, 256, 7):
                    yield self.make_case({"msg": bytes([a, b]).hex()})
        n = 20000 if deep else 1500
        for i in range(n):
            r = rng.random()
            if r < 0.4:
                ln = rng.randint(0, 24)
            elif r < 0.9:
                ln = rng.randint(0, 300)
            else:
                ln = rng.randint(300, 4096)
            kind = rng.random()
            if kind < 0.1:
                msg = bytes([rng.choice([0, 0xFF, 0x7E])]) * ln
            else:
                msg = bytes(rng.getrandbits(8) for _ in range(ln))
            yield self.make_case({"msg": msg.hex(), "lsb_first": rng.random() < 0.2})


PROP = C12()
