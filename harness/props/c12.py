"""C12 - frame check sequences equal CRC-16/X-25 for every message."""
from harness import framework as fw


def x25_ref(data):
    """independent bitwise CRC-16/X-25 (second oracle, cross-checks the Lean Spec)."""
    reg = 0xFFFF
    for b in data:
        reg ^= b
        for _ in range(8):
            reg = (reg >> 1) ^ 0x8408 if reg & 1 else reg >> 1
    reg ^= 0xFFFF
    return bytes([reg & 0xFF, reg >> 8])


class C12(fw.Prop):
    id = "C12"
    anchors = ["dlms_cosem/crc.py"]
    design_ref = "DESIGN.md §6 C12"
    rule = ("messages: all of length 0 and 1 (256), all of length 2 (65 536, thorough), every table index "
            "hit with every register high byte, random messages of length 0..4096; each compared with "
            "Spec.Crc.fcs (driver) in both byte orders and with an independent bitwise X-25 in the harness; information frames "
            "whose check value contains the flag byte 0x7E or a zero byte in either position, frame objects serialised, modified and serialised "
            "again, valid frames parsed back; "
            "the caller's buffer is unchanged after the call; calculators configured through whatever optional constructor arguments exist are built next to the default one, which still computes X-25; messages as memoryview slices / strided views; payloads containing 7D 5E / 7D 5D; three threads sharing the calculators; non-trivial = distinct message")
    trusted_base = ["extract.py prints crc_ccitt_table / reverse_byte graph / constants as they are in the running code",
                    "Spec.Crc is CRC-16/X-25 as in ISO/IEC 13239 (cross-checked against an independent bitwise implementation and the check string)"]
    assumptions = ["CPython executes crc.py as written"]
    technique = "Lean 4 proof (induction over the message, XOR-linearity, bit extensionality, kernel-decided 256-entry tables regenerated from the code) + differential correspondence"
    level_text = ("Theorem C12_calculate_for_eq_x25: for every byte string the model of calculate_for, instantiated with the table, "
                  "reversal graph and constants extracted from the running code on every run, equals the bit-serial CRC-16/X-25 "
                  "low byte first. Unbounded in the message length. The model is tied to crc.py by regeneration (tables) and by "
                  "comparison of calculate_for with the Lean spec on all 0/1/2-byte messages and random long ones.")
    level_note = ("Trusted: Lean kernel (+propext, Classical.choice, Quot.sound); extract.py; that Model.Crc mirrors the three short "
                  "procedures of crc.py (validated by the correspondence run); Spec.Crc as the reading of ISO/IEC 13239.")

    def make_frame_case(self, d):
        """the check sequences as the frame classes emit and verify them (anchor hdlc/frames.py): an information frame is
        serialised, then the same object is given another payload / receive number and serialised again (the check value
        must be that of the *current* content), and the bytes are parsed back (a correct check value must be accepted,
        whatever its two bytes are - the flag byte 0x7E included)."""
        payload, first = bytes.fromhex(d["payload"]), bytes.fromhex(d["first"])
        # header: format, destination (client 16), source (server 1/17), control - written by hand
        ctrl = (d["rsn"] << 5) | 0x10 | (d["ssn"] << 1)
        n = 2 + 1 + 2 + 1 + 2 + len(payload) + 2
        head = (0xA000 | n).to_bytes(2, "big") + bytes([0x21, 0x02, 0x23, ctrl])
        body = head + x25_ref(head) + payload

        def impl():
            from dlms_cosem.hdlc import address, frames
            c, srv = address.HdlcAddress(16, None, "client"), address.HdlcAddress(1, 17, "server")
            frames.FCS.calculate_for(first, lsb_first=True)      # (a caller using the other byte order must not disturb later frames)
            f = frames.InformationFrame(c, srv, payload=first, send_sequence_number=d["ssn"], receive_sequence_number=(d["rsn"] + 1) % 8)
            f.to_bytes()
            f.payload = payload
            f.receive_sequence_number = d["rsn"]
            out = f.to_bytes()
            note = ""
            if bytes(out[1:-3]) != body:
                note += " !content-differs"
            wire = b"\x7e" + body + x25_ref(body) + b"\x7e"
            try:
                back = frames.InformationFrame.from_bytes(wire)
                if back.payload != payload:
                    note += " !payload-differs"
            except Exception as e:  # noqa
                note += " !valid-frame-refused:" + type(e).__name__
            # a check value that is not the X-25 of the content is refused - with and without an information field
            empty_head = (0xA000 | 10).to_bytes(2, "big") + bytes([0x21, 0x02, 0x23, ctrl])
            empty_body = empty_head + x25_ref(empty_head)          # (the library's layout for an empty information field: HCS then FCS)
            for what, content in (("info", body), ("no-info", empty_body)):
                good = x25_ref(content)
                for bad in (bytes([good[0] ^ 1, good[1]]), bytes([good[0], good[1] ^ 0x80]), good[::-1] if good[0] != good[1] else b"\x00\x00"):
                    if bad == good:
                        continue
                    try:
                        frames.InformationFrame.from_bytes(b"\x7e" + content + bad + b"\x7e")
                        note += f" !wrong-check-value-accepted:{what}"
                        break
                    except Exception:  # noqa
                        pass
            # ... and so is a header check value that is not the X-25 of the header, although the frame check sequence was then
            # computed over what was sent - segmented or not, in every kind of frame that has a header check value
            info = payload or b"\x01"
            for seg in (0, 0x0800):
                for kind, cb in (("i", ctrl), ("ui", 0x13), ("ua", 0x73)):
                    h = (0xA000 | seg | (2 + 1 + 2 + 1 + 2 + len(info) + 2)).to_bytes(2, "big") + bytes([0x21, 0x02, 0x23, cb])
                    good = x25_ref(h)
                    for bad in (bytes([good[0] ^ 1, good[1]]), bytes([good[0], good[1] ^ 0x40])):
                        content = h + bad + info
                        parser = {"i": frames.InformationFrame, "ui": frames.UnnumberedInformationFrame, "ua": frames.UnNumberedAcknowledgmentFrame}[kind]
                        try:
                            parser.from_bytes(b"\x7e" + content + x25_ref(content) + b"\x7e")
                            note += f" !wrong-header-check-value-accepted:{kind}:{'segmented' if seg else 'unsegmented'}"
                            break
                        except Exception:  # noqa
                            pass
            return "ok " + fw.hx(out[-3:-1]) + note
        return fw.Case(f"crc spec {fw.hx(body)}", impl, "prop", d, tags=("frame", "fcs-has-flag" if 0x7E in x25_ref(body) else "frame"))

    _shared = None
    _buffer = bytearray()

    @classmethod
    def shared(cls):
        """one calculator object for all cases of a run (as the library keeps one for all frames): what a call returns
        must not depend on the calls before it - e.g. on an earlier call with the other byte order."""
        if cls._shared is None:
            from dlms_cosem.crc import CRCCCITT
            cls._shared = CRCCCITT()
        return cls._shared

    def make_thread_case(self, d):
        """two links served by two threads share the calculators the library keeps (frames.FCS / frames.HCS and one of ours): every
        value is still the X-25 of its own message."""
        def impl():
            import sys
            import threading
            from dlms_cosem.hdlc import address, frames
            c, srv = address.HdlcAddress(16, None, "client"), address.HdlcAddress(1, 17, "server")
            calc = self.shared()
            wrong = []

            def work(seed):
                for i in range(150):
                    msg = bytes((seed * 31 + i * 7 + j * 13) % 256 for j in range(40 + (i + seed) % 200))
                    if bytes(calc.calculate_for(msg)) != x25_ref(msg):
                        wrong.append(("calc", seed, i))
                    f = frames.InformationFrame(c, srv, msg, send_sequence_number=i % 8, receive_sequence_number=seed % 8).to_bytes()
                    if bytes(f[-3:-1]) != x25_ref(bytes(f[1:-3])):
                        wrong.append(("frame", seed, i))
            old = sys.getswitchinterval()
            sys.setswitchinterval(1e-6)
            try:
                ts = [threading.Thread(target=work, args=(k,)) for k in (1, 2, 3)]
                for t in ts:
                    t.start()
                for t in ts:
                    t.join()
            finally:
                sys.setswitchinterval(old)
            return "ok threads" + ("" if not wrong else f" !wrong-values-under-concurrency:{len(wrong)}")
        return fw.Case("echo threads", impl, "prop", d, tags=("two-threads",))

    def make_case(self, d):
        if d.get("threads"):
            return self.make_thread_case(d)
        if d.get("frame"):
            return self.make_frame_case(d)
        from dlms_cosem.crc import CRCCCITT
        msg = bytes.fromhex(d["msg"])
        lsb = bool(d.get("lsb_first", False))

        def impl():
            out = CRCCCITT().calculate_for(msg, lsb_first=lsb)
            out2 = self.shared().calculate_for(msg, lsb_first=lsb)
            if bytes(out2) != bytes(out):
                return "ok " + fw.hx(out2) + " !shared-instance-differs-from-fresh " + fw.hx(out)
            # one mutable buffer re-used for every message (as a caller assembling frames in place would): the value
            # depends on the buffer's content, not on its identity
            buf = C12._buffer
            self.shared().calculate_for(buf, lsb_first=lsb)       # (the buffer with its previous content)
            buf[:] = msg
            out3 = self.shared().calculate_for(buf, lsb_first=lsb)
            if bytes(out3) != bytes(out):
                return "ok " + fw.hx(out3) + " !reused-buffer-differs-from-fresh " + fw.hx(out)
            # the message as a view into a larger buffer (a slice of the receive buffer, every second byte of another one): the
            # check value is that of the bytes the view shows
            big = bytearray(b"\x7e\xa0") + bytearray(msg) + bytearray(b"\x11\x22\x7e")
            inter = bytearray(2 * len(msg))
            inter[::2] = msg
            for name, view in (("slice", memoryview(big)[2:2 + len(msg)]), ("strided", memoryview(inter)[::2]), ("bytes-slice", memoryview(bytes(big))[2:2 + len(msg)])):
                try:
                    outv = self.shared().calculate_for(view, lsb_first=lsb)
                except fw._Timeout:
                    raise
                except Exception as e:  # noqa
                    outv = None       # (a type the function does not take is its own business: refused, not miscalculated)
                if outv is not None and bytes(outv) != bytes(out):
                    return "ok " + fw.hx(outv) + f" !{name}-view-differs-from-bytes " + fw.hx(out)
            # ... and the message is the caller's: it is still what it was (appending the check value to it gives the residue)
            if bytes(buf) != msg:
                return "ok " + fw.hx(out3) + " !message-buffer-was-modified " + fw.hx(bytes(buf)[:40])
            if d.get("other_options"):
                # calculators configured differently through whatever optional arguments the constructor offers (none today) are
                # built and used next to the default one: the default calculator, and the ones the frame classes hold, still
                # compute X-25
                import inspect
                for name, prm in list(inspect.signature(CRCCCITT.__init__).parameters.items())[1:]:
                    if prm.default is inspect.Parameter.empty or prm.kind in (prm.VAR_POSITIONAL, prm.VAR_KEYWORD):
                        continue
                    dflt = prm.default
                    alts = [not dflt] if isinstance(dflt, bool) else ([dflt ^ 0x2D44, 0x3D65, 0x8005, 0, dflt + 1] if isinstance(dflt, int) else
                                                                      [b"\x00\x00", None] if isinstance(dflt, (bytes, type(None))) else [])
                    for alt in alts:
                        try:
                            CRCCCITT(**{name: alt}).calculate_for(msg or b"123456789")
                        except fw._Timeout:
                            raise
                        except Exception:  # noqa
                            pass
                again = CRCCCITT().calculate_for(msg, lsb_first=lsb)
                if bytes(again) != bytes(out):
                    return "ok " + fw.hx(again) + " !default-calculator-changed-after-another-was-configured " + fw.hx(out)
            ref = x25_ref(msg)
            if (out[::-1] if lsb else out) != ref:
                return "ok " + fw.hx(out) + " !=ref " + fw.hx(ref)
            return "ok " + fw.hx(out)

        if lsb:
            line = f"crc speclsb {fw.hx(msg)}"
        else:
            line = f"crc spec {fw.hx(msg)}"
        return fw.Case(line, impl, "prop", d, tags=("lsb_first" if lsb else "default", f"len{min(len(msg), 9)}" if len(msg) < 9 else "len>=9"))

    def cases(self, rng, tier, deep):
        yield self.make_case({"msg": "313233343536373839", "other_options": True})
        yield self.make_case({"msg": ""})
        yield self.make_case({"msg": "", "lsb_first": True})
        yield self.make_case({"msg": "313233343536373839"})
        for b in range(256):
            yield self.make_case({"msg": bytes([b]).hex()})
            yield self.make_case({"msg": bytes([b]).hex(), "lsb_first": True})
        if deep:
            for a in range(256):
                for b in range(256):
                    yield self.make_case({"msg": bytes([a, b]).hex()})
        else:
            for a in range(0, 256, 5):
                for b in range(0, 256, 7):
                    yield self.make_case({"msg": bytes([a, b]).hex()})
        n = 20000 if deep else 1500
        for i in range(n):
            r = rng.random()
            if r < 0.4:
                ln = rng.randint(0, 24)
            elif r < 0.9:
                ln = rng.randint(0, 300)
            else:
                ln = rng.randint(300, 4096)
            kind = rng.random()
            if kind < 0.1:
                msg = bytes([rng.choice([0, 0xFF, 0x7E])]) * ln
            else:
                msg = bytes(rng.getrandbits(8) for _ in range(ln))
            yield self.make_case({"msg": msg.hex(), "lsb_first": rng.random() < 0.2})
        # messages whose register is exactly 0x0000 (and 0xFFFF) after 64, 256, 512, 1024, 2048, 4096 bytes, with more to
        # follow: the values an implementation working in blocks could mistake for "nothing yet"
        def reg_after(data):
            reg = 0xFFFF
            for b in data:
                reg ^= b
                for _ in range(8):
                    reg = (reg >> 1) ^ 0x8408 if reg & 1 else reg >> 1
            return reg
        for boundary in ((64, 1024, 2048) if not deep else (64, 256, 512, 1024, 2048, 3072, 4096)):
            for want in (0x0000, 0xFFFF):
                head = bytes(rng.getrandbits(8) for _ in range(boundary - 2))
                reg = reg_after(head)
                # the two bytes that bring the register to `want`: the register is linear in them - solve by search
                # over the first byte (256) and closed form for the second
                found = None
                for b0 in range(256):
                    r1 = reg ^ b0
                    for _ in range(8):
                        r1 = (r1 >> 1) ^ 0x8408 if r1 & 1 else r1 >> 1
                    for b1 in range(256):
                        r2 = r1 ^ b1
                        for _ in range(8):
                            r2 = (r2 >> 1) ^ 0x8408 if r2 & 1 else r2 >> 1
                        if r2 == want:
                            found = bytes([b0, b1])
                            break
                    if found:
                        break
                if found:
                    for tail in (b"", b"\x00", bytes(rng.getrandbits(8) for _ in range(rng.randint(1, 200)))):
                        yield self.make_case({"msg": (head + found + tail).hex()})
        # frames: re-used frame objects, and check values that contain the flag byte or a zero byte
        want = {"7e-first": 0, "7e-second": 0, "00-first": 0, "00-second": 0}
        k = 0
        while min(want.values()) < (6 if deep else 2) and k < 400000:
            k += 1
            payload = b"\xe6\xe7\x00" + k.to_bytes(3, "big")
            ssn, rsn = k % 8, (k // 8) % 8
            ctrl = (rsn << 5) | 0x10 | (ssn << 1)
            head = (0xA000 | (2 + 1 + 2 + 1 + 2 + len(payload) + 2)).to_bytes(2, "big") + bytes([0x21, 0x02, 0x23, ctrl])
            fcs = x25_ref(head + x25_ref(head) + payload)
            key = {(0x7E, 0): "7e-first", (0x7E, 1): "7e-second", (0, 0): "00-first", (0, 1): "00-second"}
            hit = [key[(b, i)] for i, b in enumerate(fcs) if (b, i) in key]
            if hit and want[hit[0]] < (6 if deep else 2):
                want[hit[0]] += 1
                yield self.make_case({"frame": True, "payload": payload.hex(), "first": "e6e700aa", "ssn": ssn, "rsn": rsn})
        # information fields containing what octet-transparency would escape (7D 5E, 7D 5D, 7D 7D, 7D 33): the check sequences are
        # over the bytes between the flags as they are
        for esc in ("7d5e", "7d5d", "7d7d", "7d33", "7d5e7d5d", "007d", "7d"):
            for pre in ("", "e6e700", "c401"):
                yield self.make_case({"frame": True, "payload": pre + esc + "0102", "first": "e6e700aa", "ssn": rng.randrange(8), "rsn": rng.randrange(8)})
        # frames with an empty or one-byte information field (the header check value is still followed by a frame check sequence)
        for payload in ("", "", "00", "7e", "ff", "e6"):
            yield self.make_case({"frame": True, "payload": payload, "first": rng.choice(["e6e700aa", "01"]), "ssn": rng.randrange(8), "rsn": rng.randrange(8)})
        yield self.make_case({"threads": True, "msg": ""})
        for _ in range(400 if deep else 40):
            yield self.make_case({"frame": True, "payload": bytes(rng.getrandbits(8) for _ in range(rng.randint(1, 60))).hex(),
                                  "first": bytes(rng.getrandbits(8) for _ in range(rng.randint(1, 20))).hex(),
                                  "ssn": rng.randrange(8), "rsn": rng.randrange(8)})


PROP = C12()
