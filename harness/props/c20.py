"""C20 - bit-packed protocol fields use the standard bit positions and round-trip."""
from harness import framework as fw

CONF_NAMES = ["general_protection", "general_block_transfer", "delta_value_encoding",
              "attribute_0_supported_with_set", "priority_management_supported",
              "attribute_0_supported_with_get", "block_transfer_with_get_or_read",
              "block_transfer_with_set_or_write", "block_transfer_with_action", "multiple_references",
              "data_notification", "access", "get", "set", "selective_access", "event_notification", "action"]


def b01(b):
    return "1" if b else "0"



def fresh_decode(fn):
    """decode, scribble over every field of the returned object, decode again and report the second result: what a decoder
    returns must not depend on what a caller did with an earlier result (decoders hand out independent objects)."""
    first = fn()
    try:
        import attr
        for a in attr.fields(type(first)):
            v = getattr(first, a.name)
            if isinstance(v, bool):
                setattr(first, a.name, not v)
            elif isinstance(v, int):
                setattr(first, a.name, (v + 1) % 3)
    except Exception:  # noqa  (not an attrs object, frozen, validators ...: nothing to scribble on)
        pass
    return fn()


class C20(fw.Prop):
    id = "C20"
    anchors = ["dlms_cosem/protocol/xdlms/conformance.py", "dlms_cosem/security.py",
               "dlms_cosem/protocol/xdlms/invoke_id_and_priority.py",
               "dlms_cosem/protocol/xdlms/data_notification.py", "dlms_cosem/time.py",
               "dlms_cosem/hdlc/fields.py", "dlms_cosem/hdlc/validators.py", "dlms_cosem/cosem/obis.py"]
    design_ref = "DESIGN.md §6 C20"
    exhaustive = True
    rule = ("exhaustive: all 2^17 conformance flag sets (encode + decode of the encoding), all 256 values of "
            "security control / invoke-id / clock status / I, RR, UI control bytes in both directions, all "
            "suite 0..15 x flag combinations, all sequence numbers 0..9, all 2^16 format words (decode) and lengths "
            "0..2200 x segmentation (encode); sampled: 2^24 conformance words on decode (single-bit, all-but-one, random), "
            "2^32 long-invoke words (boundaries + random), OBIS every byte value per position in byte and dotted form; "
            "expected value = Spec.Fields via the driver; clock status written inside date-times of every kind (naive, fixed, summer / winter zone); the long invoke-id word inside a data-notification; sequence numbers 8..1000 and negatives refused by the frame classes; every _to case is preceded by a failed parse in the same process; invoke-id byte and OBIS code inside a GET request after partly-read and truncated requests; non-trivial = distinct protocol line")
    trusted_base = ["extract.py evaluates each one-byte function on its whole domain and prints the graph",
                    "Spec.Fields is my reading of the Green Book / Blue Book / IEC 62056-46 bit layouts"]
    assumptions = ["dotted OBIS form: round trip validated exhaustively per position, not proved (String.splitOn reasoning)"]
    technique = "Lean 4 proof: kernel-decided equality of complete extracted graphs with the standard layouts; structural proofs for conformance (all 2^17 sets), long invoke id, OBIS; exhaustive differential correspondence"
    level_text = ("Every one-byte field function of the code is extracted as its complete graph on each run and the Lean kernel "
                  "decides that the graph equals the standard layout on the whole domain (layout, injectivity, refusal of "
                  "out-of-range values). Conformance round trip/injectivity is proved for every flag set by induction over a "
                  "strictly decreasing position list; long invoke id and OBIS by big-endian lemmas; format word by deciding "
                  "all 4096 values. The correspondence run re-checks all of it on the live code exhaustively.")
    level_note = ("Trusted: Lean kernel (+propext, Classical.choice, Quot.sound), extract.py, Spec.Fields as the statement of the "
                  "standards; OBIS dotted form only validated by exhaustive per-position comparison.")

    # ------------------------------------------------------------------ case builders
    def make_case(self, d):
        case = self.make_case_(d)
        if d["op"].endswith("_to") or d["op"] in ("frame_range", "fmt_to"):
            # whether a value is taken or refused does not depend on what the process has been through (a link that failed to
            # parse a frame, ...): the library is put through that first
            inner = case.impl

            def primed():
                fw.prime_failed_parses()
                return inner()
            case.impl = primed
        return case

    def make_case_(self, d):
        op = d["op"]
        tags = (op,)
        if op == "in_get":
            # invoke-id-and-priority byte and OBIS code where they live: inside a GET request, decoded after the decoder has
            # been through a request it reads only partly (one with a selective-access descriptor) and one cut short
            v, obis = d["v"], d["obis"]

            def impl():
                import datetime
                from dlms_cosem import cosem, enumerations as en
                from dlms_cosem.protocol import xdlms
                from dlms_cosem.protocol.xdlms import selective_access as sa
                from dlms_cosem.protocol.xdlms.invoke_id_and_priority import InvokeIdAndPriority as I
                sel = xdlms.GetRequestNormal(
                    cosem.CosemAttribute(en.CosemInterface.PROFILE_GENERIC, cosem.Obis(1, 0, 99, 1, 0, 255), 2),
                    access_selection=sa.RangeDescriptor(sa.CaptureObject(cosem.CosemAttribute(en.CosemInterface.CLOCK, cosem.Obis(0, 0, 1, 0, 0, 255), 2), 0),
                                                        datetime.datetime(2020, 1, 1), datetime.datetime(2020, 1, 6))).to_bytes()
                plain = bytes([0xC0, 0x01, v, 0x00, 0x03]) + bytes(obis) + bytes([0x02, 0x00])
                for poison in (sel, plain[:7], plain[:3], sel[:20]):
                    try:
                        xdlms.GetRequestNormal.from_bytes(poison)
                    except fw._Timeout:
                        raise
                    except Exception:  # noqa
                        pass
                g = xdlms.GetRequestNormal.from_bytes(plain)
                want = I.from_bytes(bytes([v]))
                got = g.invoke_id_and_priority
                out = "ok in-get"
                if (got.invoke_id, got.confirmed, got.high_priority) != (want.invoke_id, want.confirmed, want.high_priority):
                    out += f" invoke-byte-{v:#04x}-decodes-to:{got!r}"
                if tuple(g.cosem_attribute.instance.to_bytes()) != tuple(obis):
                    out += f" obis-decodes-to:{g.cosem_attribute.instance!r}"
                canonical = plain[:2] + want.to_bytes() + plain[3:]          # (bits 4-5 of the byte are reserved and not kept)
                if g.to_bytes() != canonical:
                    out += f" written-back-as:{g.to_bytes().hex()}"
                return out
            return fw.Case("echo in-get", impl, "prop", d, tags)
        if op == "in_apdus":
            # the invoke-id-and-priority byte where it lives in every other APDU kind, decoded through the tag-dispatching
            # decoder (bytes written by hand) and written back
            v = d["v"]

            def impl():
                from dlms_cosem.connection import XDlmsApduFactory
                from dlms_cosem.protocol.xdlms.invoke_id_and_priority import InvokeIdAndPriority as I
                want = I.from_bytes(bytes([v]))
                ob = bytes([0x00, 0x08, 0, 0, 1, 0, 0, 255])
                samples = {"get-next": bytes([0xC0, 0x02, v, 0, 0, 0, 2]),
                           "get-response-normal": bytes([0xC4, 0x01, v, 0x00, 0x11, 0x05]),
                           "get-response-error": bytes([0xC4, 0x01, v, 0x01, 0x03]),
                           "get-response-block": bytes([0xC4, 0x02, v, 0x00, 0, 0, 0, 1, 0x00, 0x02, 0xAA, 0xBB]),
                           "get-response-last-block": bytes([0xC4, 0x02, v, 0x01, 0, 0, 0, 3, 0x00, 0x02, 0xAA, 0xBB]),
                           "get-response-last-block-error": bytes([0xC4, 0x02, v, 0x01, 0, 0, 0, 3, 0x01, 0x02]),
                           "set-request": bytes([0xC1, 0x01, v]) + ob + bytes([0x02, 0x00, 0x11, 0x05]),
                           "set-response": bytes([0xC5, 0x01, v, 0x00]),
                           "action-request": bytes([0xC3, 0x01, v]) + ob + bytes([0x01, 0x00]),
                           "action-response": bytes([0xC7, 0x01, v, 0x00, 0x00]),
                           "action-response-data": bytes([0xC7, 0x01, v, 0x00, 0x01, 0x00, 0x11, 0x05])}
                out = "ok in-apdus"
                for name, raw in samples.items():
                    try:
                        a = XDlmsApduFactory.apdu_from_bytes(raw)
                        got = a.invoke_id_and_priority
                        if (got.invoke_id, got.confirmed, got.high_priority) != (want.invoke_id, want.confirmed, want.high_priority):
                            out += f" invoke-byte-{v:#04x}-in-{name}-decodes-to:({got.invoke_id},{got.confirmed},{got.high_priority})"
                        elif bytes(a.to_bytes())[2] != want.to_bytes()[0]:
                            out += f" invoke-byte-{v:#04x}-in-{name}-written-back-as:{bytes(a.to_bytes())[2]:#04x}"
                    except fw._Timeout:
                        raise
                    except Exception as e:  # noqa
                        out += f" {name}-refused:{type(e).__name__}"
                return out
            return fw.Case("echo in-apdus", impl, "prop", d, tags)
        if op == "conf_enc":
            mask = d["mask"]

            def impl():
                from dlms_cosem.protocol.xdlms.conformance import Conformance
                c = Conformance(**{n: bool(mask >> k & 1) for k, n in enumerate(CONF_NAMES)})
                bs = c.to_bytes()
                back = Conformance.from_bytes(bs)
                if back != c:
                    return "ok " + fw.hx(bs) + " roundtrip-differs"
                return "ok " + fw.hx(bs)
            return fw.Case(f"fld conf enc {mask}", impl, "prop", d, tags)
        if op == "conf_dec":
            w = d["word"]

            def impl():
                from dlms_cosem.protocol.xdlms.conformance import Conformance
                c = fresh_decode(lambda: Conformance.from_bytes(b"\x00" + w.to_bytes(3, "big")))
                mask = lambda c_: sum((1 << k) for k, n in enumerate(CONF_NAMES) if getattr(c_, n))
                out = "ok " + str(mask(c))
                # the same block where it lives: in an initiate response (quality of service absent and present) and request
                from dlms_cosem.protocol.xdlms import InitiateRequest, InitiateResponse
                block = b"\x5f\x1f\x04\x00" + w.to_bytes(3, "big")
                for name, cls, raw, attr in (("initiate-response", InitiateResponse, b"\x08\x00\x06" + block + b"\x01\xf4\x00\x07", "negotiated_conformance"),
                                             ("initiate-response-with-qos", InitiateResponse, b"\x08\x01\x05\x06" + block + b"\x01\xf4\x00\x07", "negotiated_conformance"),
                                             ("initiate-request", InitiateRequest, b"\x01\x00\x00\x00\x06" + block + b"\xff\xff", "proposed_conformance"),
                                             ("initiate-request-with-qos", InitiateRequest, b"\x01\x00\x00\x01\x03\x06" + block + b"\x04\x00", "proposed_conformance")):
                    try:
                        got = mask(getattr(cls.from_bytes(raw), attr))
                    except fw._Timeout:
                        raise
                    except Exception as e:  # noqa
                        got = "raised " + type(e).__name__
                    if got != mask(c):
                        out += f" !block-inside-{name}-decodes-to:{got}"
                return out
            return fw.Case(f"fld conf dec 00{w:06x}", impl, "prop", d, tags)
        if op == "scf_to":
            s, a, e, b, c = d["v"]

            def impl():
                from dlms_cosem.security import SecurityControlField
                try:
                    f = SecurityControlField(s, bool(a), bool(e), bool(b), bool(c))
                except ValueError:
                    return "err range"
                return "ok " + str(int.from_bytes(f.to_bytes(), "big"))
            return fw.Case(f"fld scf to {s} {a} {e} {b} {c}", impl, "prop", d, tags)
        if op == "scf_from":
            v = d["v"]

            def impl():
                from dlms_cosem.security import SecurityControlField
                f = fresh_decode(lambda: SecurityControlField.from_bytes(bytes([v])))
                return f"ok {f.security_suite} {b01(f.authenticated)} {b01(f.encrypted)} {b01(f.broadcast_key)} {b01(f.compressed)}"
            return fw.Case(f"fld scf from {v}", impl, "prop", d, tags)
        if op == "inv_to":
            i, c, h = d["v"]

            def impl():
                from dlms_cosem.protocol.xdlms.invoke_id_and_priority import InvokeIdAndPriority
                return "ok " + str(InvokeIdAndPriority(i, bool(c), bool(h)).to_bytes()[0])
            return fw.Case(f"fld inv to {i} {c} {h}", impl, "prop", d, tags)
        if op == "inv_from":
            v = d["v"]

            def impl():
                from dlms_cosem.protocol.xdlms.invoke_id_and_priority import InvokeIdAndPriority
                f = fresh_decode(lambda: InvokeIdAndPriority.from_bytes(bytes([v])))
                return f"ok {f.invoke_id} {b01(f.confirmed)} {b01(f.high_priority)}"
            return fw.Case(f"fld inv from {v}", impl, "prop", d, tags)
        if op == "clk_to":
            bits = d["v"]

            def impl():
                from dlms_cosem.time import ClockStatus
                from dlms_cosem import time as t
                import datetime as pydt
                from harness.props.c16 import ZoneWithDst, mk_dt
                cs = ClockStatus(*[bool(x) for x in bits])
                v = cs.to_bytes()[0]
                out = "ok " + str(v)
                # the same value where it lives: the last byte of a date-time, whatever kind of date-time it is written with
                # (naive, fixed offset, a zone that is in summer time, one that is not)
                for name, dt in (("naive", pydt.datetime(2021, 7, 1, 12, 0)), ("fixed", pydt.datetime(2021, 7, 1, 12, 0, tzinfo=pydt.timezone(pydt.timedelta(hours=2)))),
                                 ("dst-object", pydt.datetime(2021, 7, 1, 12, 0, tzinfo=ZoneWithDst(120))),
                                 ("summer", mk_dt([2021, 7, 1, 12, 0, 0, 0, 0], "tzstr:CET-1CEST,M3.5.0,M10.5.0/3")),
                                 ("winter", mk_dt([2021, 1, 5, 12, 0, 0, 0, 0], "tzstr:CET-1CEST,M3.5.0,M10.5.0/3"))):
                    got = t.datetime_to_bytes(dt, ClockStatus(*[bool(x) for x in bits]))[-1]
                    if got != v:
                        out += f" !in-a-{name}-date-time-written-as:{got:#04x}"
                return out
            return fw.Case("fld clk to " + " ".join(str(x) for x in bits), impl, "prop", d, tags)
        if op == "frame_fields":
            # the two fields where they live: format word and control byte of a serialised information frame, for every
            # combination of numbers and flags - also from a frame object that was serialised with other values before
            ssn, rsn, fin, seg, n = d["ssn"], d["rsn"], d["fin"], d["seg"], d["n"]

            def impl():
                from dlms_cosem.hdlc import address, frames
                c, srv = address.HdlcAddress(16, None, "client"), address.HdlcAddress(1, 17, "server")
                payload = bytes(range(n))
                fresh = frames.InformationFrame(c, srv, payload, send_sequence_number=ssn, receive_sequence_number=rsn, segmented=bool(seg), final=bool(fin))
                used = frames.InformationFrame(c, srv, b"\x01\x02\x03", send_sequence_number=(ssn + 3) % 8, receive_sequence_number=(rsn + 5) % 8,
                                               segmented=not seg, final=not fin)
                used.to_bytes()
                used.payload, used.send_sequence_number, used.receive_sequence_number = payload, ssn, rsn
                used.segmented, used.final = bool(seg), bool(fin)
                problems = []
                for name, f in (("fresh", fresh), ("re-used", used)):
                    b = f.to_bytes()
                    fmt, ctrl = int.from_bytes(b[1:3], "big"), b[6]
                    want_fmt = 0xA000 | (0x0800 if seg else 0) | (len(b) - 2)
                    want_ctrl = (rsn << 5) | (0x10 if fin else 0) | (ssn << 1)
                    if fmt != want_fmt:
                        problems.append(f"{name}-format:{fmt:#06x}!={want_fmt:#06x}")
                    if ctrl != want_ctrl:
                        problems.append(f"{name}-control:{ctrl:#04x}!={want_ctrl:#04x}")
                return "ok frame-fields" + ("" if not problems else " " + ",".join(problems))
            return fw.Case("echo frame-fields", impl, "prop", d, tags)
        if op == "frame_kinds":
            # format word and control byte of every kind of frame, both ways: what the library writes for a frame with these flags,
            # and what it reads from the bytes (the bytes are checked by hand first, so a wrong reading is the library's)
            kind, seg, fin, r = d["kind"], d["seg"], d["fin"], d["r"]

            def impl():
                from dlms_cosem.hdlc import address, frames
                c, srv = address.HdlcAddress(16, None, "client"), address.HdlcAddress(1, 17, "server")
                kw = dict(segmented=bool(seg), final=bool(fin))
                if kind == "snrm":
                    f, want_ctrl = frames.SetNormalResponseModeFrame(srv, c, **kw), 0x83 | 0x10
                elif kind == "disc":
                    f, want_ctrl = frames.DisconnectFrame(srv, c, **kw), 0x43 | 0x10
                elif kind == "ua":
                    f, want_ctrl = frames.UnNumberedAcknowledgmentFrame(c, srv, b"\x81\x80\x00", **kw), 0x63 | 0x10
                elif kind == "ui":
                    f, want_ctrl = frames.UnnumberedInformationFrame(c, srv, b"\x01\x02", **kw), 0x03 | (0x10 if fin else 0)
                elif kind == "rr":
                    f, want_ctrl = frames.ReceiveReadyFrame(c, srv, receive_sequence_number=r, **kw), (r << 5) | 0x10 | 0x01
                else:
                    f = frames.InformationFrame(c, srv, b"\x01\x02", send_sequence_number=(r + 3) % 8, receive_sequence_number=r, **kw)
                    want_ctrl = (r << 5) | (0x10 if fin else 0) | (((r + 3) % 8) << 1)
                b = bytes(f.to_bytes())
                problems = []
                alen = 1 + 2 if kind in ("snrm", "disc") else 1 + 2
                fmt, ctrl = int.from_bytes(b[1:3], "big"), b[3 + alen]
                if fmt != (0xA000 | (0x0800 if seg else 0) | (len(b) - 2)):
                    problems.append(f"format-written:{fmt:#06x}")
                if kind in ("i", "ui", "rr") and ctrl != want_ctrl:
                    problems.append(f"control-written:{ctrl:#04x}!={want_ctrl:#04x}")
                if not problems and kind != "snrm":
                    try:
                        g = type(f).from_bytes(b)
                        if bool(g.segmented) != bool(seg):
                            problems.append(f"segmentation-bit-read-as:{g.segmented}")
                        if kind in ("i", "ui") and bool(g.final) != bool(fin):
                            problems.append(f"final-bit-read-as:{g.final}")
                        if bytes(g.to_bytes()) != b:
                            problems.append("parsed-frame-writes:" + bytes(g.to_bytes()).hex())
                    except fw._Timeout:
                        raise
                    except Exception as e:  # noqa
                        problems.append("valid-frame-refused:" + type(e).__name__)
                return "ok frame-kinds" + ("" if not problems else " " + ",".join(problems))
            return fw.Case("echo frame-kinds", impl, "prop", d, tags)
        if op == "frame_range":
            # sequence numbers outside 0..7 have no pattern: a frame cannot be made with them
            which, v = d["which"], d["v"]

            def impl():
                from dlms_cosem.hdlc import address, frames
                c, srv = address.HdlcAddress(16, None, "client"), address.HdlcAddress(1, 17, "server")
                try:
                    if which == "i-ssn":
                        b = frames.InformationFrame(c, srv, b"\x01", send_sequence_number=v, receive_sequence_number=1).to_bytes()
                    elif which == "i-rsn":
                        b = frames.InformationFrame(c, srv, b"\x01", send_sequence_number=1, receive_sequence_number=v).to_bytes()
                    else:
                        b = frames.ReceiveReadyFrame(c, srv, receive_sequence_number=v).to_bytes()
                except fw._Timeout:
                    raise
                except Exception:  # noqa
                    return "ok frame-range"
                return f"ok frame-range accepted-{which}={v}:{bytes(b).hex()}"
            return fw.Case("echo frame-range", impl, "prop", d, tags)
        if op == "clk_from":
            v = d["v"]

            def impl():
                from dlms_cosem.time import ClockStatus
                c = fresh_decode(lambda: ClockStatus.from_bytes(bytes([v])))
                out = "ok " + " ".join(b01(x) for x in (c.invalid, c.doubtful, c.different_base, c.invalid_status, c.daylight_saving_active))
                # the same byte where it lives: as the last byte of a date-time (decoded and written back)
                from dlms_cosem import time as t
                for head in ("07e40106ff00030000ffc4", "07e40106ff000300008000", "07e40701ff0c0000ff0000", "07e40701030c00000a003c", "07e4021dff173b3b63fe20"):
                    raw = bytes.fromhex(head) + bytes([v])
                    dt, st = t.datetime_from_bytes(raw)
                    if st != c:
                        out += f" !status-inside-a-date-time-({head[-4:]})-decodes-to:{st!r}"
                        break
                    back = t.datetime_to_bytes(dt, st)
                    if back[-1] != ClockStatus.from_bytes(bytes([v])).to_bytes()[0]:
                        out += f" !status-inside-a-date-time-({head[-4:]})-written-back-as:{back[-1]:#04x}"
                        break
                return out
            return fw.Case(f"fld clk from {v}", impl, "prop", d, tags)
        if op == "ctl_const":
            which = d["which"]

            def impl():
                from dlms_cosem.hdlc import fields as hf
                cls = {"snrm": hf.SnrmControlField, "ua": hf.UaControlField, "disc": hf.DisconnectControlField}[which]
                return "ok " + str(cls().to_bytes()[0])
            return fw.Case(f"fld ctl {which}", impl, "prop", d, tags)
        if op == "rr_to":
            r = d["r"]

            def impl():
                from dlms_cosem.hdlc import fields as hf
                try:
                    f = hf.ReceiveReadyControlField(r)
                except ValueError:
                    return "err range"
                back = hf.ReceiveReadyControlField.from_bytes(f.to_bytes())
                return "ok " + str(f.to_bytes()[0]) + ("" if back == f else " roundtrip-differs")
            return fw.Case(f"fld ctl rr {r}", impl, "prop", d, tags)
        if op == "i_to":
            s, r, f = d["v"]

            def impl():
                from dlms_cosem.hdlc import fields as hf
                try:
                    c = hf.InformationControlField(s, r, bool(f))
                except ValueError:
                    return "err range"
                back = hf.InformationControlField.from_bytes(c.to_bytes())
                return "ok " + str(c.to_bytes()[0]) + ("" if back == c else " roundtrip-differs")
            return fw.Case(f"fld ctl i {s} {r} {f}", impl, "prop", d, tags)
        if op == "i_from":
            v = d["v"]

            def impl():
                from dlms_cosem.hdlc import fields as hf
                c = fresh_decode(lambda: hf.InformationControlField.from_bytes(bytes([v])))
                return f"ok {c.send_sequence_number} {c.receive_sequence_number} {b01(c.final)}"
            return fw.Case(f"fld ctl ifrom {v}", impl, "prop", d, tags)
        if op == "ui_to":
            f = d["f"]

            def impl():
                from dlms_cosem.hdlc import fields as hf
                c = hf.UnnumberedInformationControlField(bool(f))
                back = hf.UnnumberedInformationControlField.from_bytes(c.to_bytes())
                return "ok " + str(c.to_bytes()[0]) + ("" if back == c else " roundtrip-differs")
            return fw.Case(f"fld ctl ui {f}", impl, "prop", d, tags)
        if op == "fmt_to":
            ln, sg = d["len"], d["seg"]

            def impl():
                from dlms_cosem.hdlc import fields as hf
                try:
                    f = hf.DlmsHdlcFrameFormatField(ln, bool(sg))
                except ValueError:
                    return "err range"
                return "ok " + fw.hx(f.to_bytes())
            return fw.Case(f"fld fmt to {ln} {sg}", impl, "prop", d, tags)
        if op == "fmt_from":
            w = d["w"]

            def impl():
                from dlms_cosem.hdlc import fields as hf
                f = fresh_decode(lambda: hf.DlmsHdlcFrameFormatField.from_bytes(w.to_bytes(2, "big")))
                return f"ok {f.length} {b01(f.segmented)}"
            return fw.Case(f"fld fmt from {w:04x}", impl, "prop", d, tags)
        if op == "linv_to":
            i, p, c, b, s = d["v"]

            def impl():
                from dlms_cosem.protocol.xdlms.data_notification import LongInvokeIdAndPriority as L
                try:
                    bs = L(i, prioritized=bool(p), confirmed=bool(c), break_on_error=bool(b), self_descriptive=bool(s)).to_bytes()
                except OverflowError:
                    return "err range"
                return "ok " + fw.hx(bs)
            return fw.Case(f"fld linv to {i} {p} {c} {b} {s}", impl, "prop", d, tags)
        if op == "linv_from":
            w = d["w"]

            def impl():
                from dlms_cosem.protocol.xdlms.data_notification import LongInvokeIdAndPriority as L
                f = fresh_decode(lambda: L.from_bytes(w.to_bytes(4, "big")))
                out = f"ok {f.long_invoke_id} {b01(f.prioritized)} {b01(f.confirmed)} {b01(f.break_on_error)} {b01(f.self_descriptive)}"
                # the same word where it lives: at the head of a data-notification (decoded there, and written back)
                from dlms_cosem.protocol import xdlms
                n = xdlms.DataNotification.from_bytes(b"\x0f" + w.to_bytes(4, "big") + b"\x00\x09\x01\x01")
                g = n.long_invoke_id_and_priority
                if (g.long_invoke_id, g.prioritized, g.confirmed, g.break_on_error, g.self_descriptive) != \
                        (f.long_invoke_id, f.prioritized, f.confirmed, f.break_on_error, f.self_descriptive):
                    out += f" !inside-a-data-notification-decodes-to:{g!r}"
                if n.to_bytes()[1:5] != L.from_bytes(w.to_bytes(4, "big")).to_bytes():
                    out += f" !inside-a-data-notification-written-back-as:{n.to_bytes()[1:5].hex()}"
                return out
            return fw.Case(f"fld linv from {w:08x}", impl, "prop", d, tags)
        if op == "obis_to":
            o = d["o"]

            def impl():
                from dlms_cosem.cosem.obis import Obis
                try:
                    bs = Obis(*o).to_bytes()
                except ValueError:
                    return "err range"
                return "ok " + fw.hx(bs)
            return fw.Case("fld obis to " + " ".join(map(str, o)), impl, "prop", d, tags)
        if op == "obis_from":
            o = d["o"]

            def impl():
                from dlms_cosem.cosem.obis import Obis
                x = Obis.from_bytes(bytes(o))
                return "ok " + " ".join(str(v) for v in (x.a, x.b, x.c, x.d, x.e, x.f))
            return fw.Case("fld obis from " + bytes(o).hex(), impl, "prop", d, tags)
        if op == "obis_dotted":
            o = d["o"]

            def impl():
                from dlms_cosem.cosem.obis import Obis
                return "ok " + Obis(*o).dotted_repr()
            return fw.Case("fld obis dotted " + " ".join(map(str, o)), impl, "prop", d, tags)
        if op == "obis_undotted":
            o = d["o"]
            s = ".".join(map(str, o))

            def impl():
                from dlms_cosem.cosem.obis import Obis
                x = Obis.from_dotted(s)
                return "ok " + " ".join(str(v) for v in (x.a, x.b, x.c, x.d, x.e, x.f))
            return fw.Case("fld obis undotted " + s, impl, "prop", d, tags)
        raise fw.MachineryError("unknown op " + op)

    def cases(self, rng, tier, deep):
        mk = self.make_case
        for v in range(256):
            yield mk({"op": "in_get", "v": v, "obis": [1, 0, 1, 8, 0, 255]})
        for pos in range(6):
            for val in (0, 1, 127, 128, 254, 255):
                o = [1, 0, 1, 8, 0, 255]
                o[pos] = val
                yield mk({"op": "in_get", "v": 0xC1, "obis": o})
        for which in ("i-ssn", "i-rsn", "rr-rsn"):
            for v in (8, 9, 15, 16, 17, 255, 256, 1000, -1, -8):
                yield mk({"op": "frame_range", "which": which, "v": v})
        for ssn in range(8):
            for rsn in range(8):
                for fin in (0, 1):
                    for seg in (0, 1):
                        yield mk({"op": "frame_fields", "ssn": ssn, "rsn": rsn, "fin": fin, "seg": seg, "n": (ssn * 8 + rsn) % 50})
        for v in (range(256) if deep else [0x00, 0x01, 0x0F, 0x41, 0x85, 0xC1, 0xCF, 0x80, 0x40, 0xFF, 0x30]):
            yield mk({"op": "in_apdus", "v": v})
        for kind in ("snrm", "disc", "ua", "ui", "rr", "i"):
            for seg in (0, 1):
                for fin in (0, 1):
                    for r in (range(8) if kind in ("rr", "i") else [0]):
                        yield mk({"op": "frame_kinds", "kind": kind, "seg": seg, "fin": fin, "r": r})
        # conformance: all 2^17 flag sets (thorough) / all sets of weight <=2, >=15 + 8192 random (quick)
        if deep:
            for m in range(1 << 17):
                yield mk({"op": "conf_enc", "mask": m})
        else:
            seen = set()
            for i in range(17):
                for j in range(17):
                    for m in ((1 << i) | (1 << j), ((1 << 17) - 1) ^ ((1 << i) | (1 << j))):
                        if m not in seen:
                            seen.add(m)
                            yield mk({"op": "conf_enc", "mask": m})
            yield mk({"op": "conf_enc", "mask": 0})
            for _ in range(6000):
                yield mk({"op": "conf_enc", "mask": rng.getrandbits(17)})
        for i in range(24):
            yield mk({"op": "conf_dec", "word": 1 << i})
            yield mk({"op": "conf_dec", "word": 0xFFFFFF ^ (1 << i)})
        for _ in range(20000 if deep else 2000):
            yield mk({"op": "conf_dec", "word": rng.getrandbits(24)})
        for v in range(256):
            yield mk({"op": "scf_to", "v": [v & 15, v >> 4 & 1, v >> 5 & 1, v >> 6 & 1, v >> 7 & 1]})
            yield mk({"op": "scf_from", "v": v})
            yield mk({"op": "inv_from", "v": v})
            yield mk({"op": "clk_from", "v": v})
            if v % 2 == 0:
                yield mk({"op": "i_from", "v": v})
        for j in range(64):
            yield mk({"op": "inv_to", "v": [j % 16, j >> 4 & 1, j >> 5 & 1]})
        for j in range(32):
            yield mk({"op": "clk_to", "v": [j & 1, j >> 1 & 1, j >> 2 & 1, j >> 3 & 1, j >> 4 & 1]})
        for w in ("snrm", "ua", "disc"):
            yield mk({"op": "ctl_const", "which": w})
        for r in range(10):
            yield mk({"op": "rr_to", "r": r})
        for s in range(10):
            for r in range(10):
                for f in (0, 1):
                    yield mk({"op": "i_to", "v": [s, r, f]})
        for f in (0, 1):
            yield mk({"op": "ui_to", "f": f})
        for ln in range(0, 2201):
            for sg in (0, 1):
                yield mk({"op": "fmt_to", "len": ln, "seg": sg})
        for w in (range(65536) if deep else list(range(0xA000, 0xB000)) + [rng.getrandbits(16) for _ in range(3000)]):
            yield mk({"op": "fmt_from", "w": w})
        ids = [0, 1, 255, 256, 65535, 65536, (1 << 24) - 1, 1 << 24, (1 << 24) + 1, 1 << 31]
        ids += [1 << k for k in range(24)] + [rng.getrandbits(24) for _ in range(3000 if deep else 300)]
        for i in ids:
            fl = rng.getrandbits(4)
            for fl in (range(16) if i < 300 else [rng.getrandbits(4)]):
                yield mk({"op": "linv_to", "v": [i, fl >> 3 & 1, fl >> 2 & 1, fl >> 1 & 1, fl & 1]})
        for k in range(32):
            yield mk({"op": "linv_from", "w": 1 << k})
            yield mk({"op": "linv_from", "w": 0xFFFFFFFF ^ (1 << k)})
        for _ in range(20000 if deep else 1500):
            yield mk({"op": "linv_from", "w": rng.getrandbits(32)})
        base = [1, 0, 1, 8, 0, 255]
        for pos in range(6):
            for v in range(256):
                o = list(base)
                o[pos] = v
                for op in ("obis_to", "obis_from", "obis_dotted", "obis_undotted"):
                    yield mk({"op": op, "o": o})
        for _ in range(5000 if deep else 500):
            o = [rng.getrandbits(8) for _ in range(6)]
            for op in ("obis_to", "obis_from", "obis_dotted", "obis_undotted"):
                yield mk({"op": op, "o": o})
        yield mk({"op": "obis_to", "o": [1, 0, 1, 8, 0, 256]})


PROP = C20()
