"""C09 - HDLC frames follow the frame format, round-trip; corruption never alters content."""
import itertools

from harness import framework as fw

KINDS = ["snrm", "ua", "disc", "rr", "i", "ui"]
PARSERS = ["ua", "disc", "rr", "i", "ui"]


def addr_str(a):
    t, l, p = a
    return f"c:{l}" if t == "c" else f"s:{l}:{'none' if p is None else p}"


def mk_addr(a):
    from dlms_cosem.hdlc.address import HdlcAddress
    t, l, p = a
    return HdlcAddress(l, p, "client" if t == "c" else "server")


def frame_class(kind):
    from dlms_cosem.hdlc import frames
    return {"snrm": frames.SetNormalResponseModeFrame, "ua": frames.UnNumberedAcknowledgmentFrame,
            "disc": frames.DisconnectFrame, "rr": frames.ReceiveReadyFrame, "i": frames.InformationFrame,
            "ui": frames.UnnumberedInformationFrame}[kind]


def build(kind, dst, src, ssn, rsn, final, seg, payload):
    cls = frame_class(kind)
    kw = {}
    if kind == "i":
        kw = dict(send_sequence_number=ssn, receive_sequence_number=rsn)
    elif kind == "rr":
        kw = dict(receive_sequence_number=rsn)
    return cls(mk_addr(dst), mk_addr(src), payload, segmented=bool(seg), final=bool(final), **kw)


def show(frame):
    def o(x):
        return "none" if x is None else str(x)
    d, s = frame.destination_address, frame.source_address
    ssn = getattr(frame, "send_sequence_number", 0)
    rsn = getattr(frame, "receive_sequence_number", 0)
    fin = frame.final
    if not isinstance(fin, bool):
        return f"ok final-is-not-a-bool:{type(fin).__name__}"
    # poll/final is always set on the kinds whose control field has no final attribute
    from dlms_cosem.hdlc import frames
    if isinstance(frame, (frames.UnNumberedAcknowledgmentFrame, frames.DisconnectFrame, frames.ReceiveReadyFrame)):
        fin = True
    payload = frame.information
    return (f"ok {d.logical_address} {o(d.physical_address)} {s.logical_address} {o(s.physical_address)} "
            f"{ssn} {rsn} {int(fin)} {int(bool(frame.segmented))} {fw.hx(payload)}")


def parse_with(kind, data):
    return show(frame_class(kind).from_bytes(data))


ERR = [("ValueError", "decode")]


class C09(fw.Prop):
    id = "C09"
    anchors = ["dlms_cosem/hdlc/frames.py", "dlms_cosem/hdlc/fields.py", "dlms_cosem/crc.py", "dlms_cosem/hdlc/address.py"]
    design_ref = "DESIGN.md §6 C09"
    rule = ("serialisation: all six kinds x ssn, rsn 0..7 x both flag bits x payload lengths {0,1,2,120..130,2030, largest legal, too long} x "
            "payload patterns (random, all 7E, all 00, all FF) x addresses from C13's boundary set, compared with Spec.Hdlc.serialize; "
            "round trip through the parser of the kind; fault enumeration (also the failing-input search): every single-bit flip of every "
            "generated frame <= 40 bytes (thorough: all), all 2- and 3-bit flips and all bursts <= 16 bits on frames <= 16 bytes, every "
            "truncation point, appended bytes; each corrupted string must be refused or yield the original content; every parser is also "
            "run on frames of the other kinds and on random strings (model correspondence); stations with reserved values (0x7E, 0x7F, 0x3FFE, 0x3FFF), address bytes equal to the flag, form boundaries and random ones for every kind; sequences of frames whose address fields share their first bytes parsed one after the other; every parser also fed a bytearray; the longest frames (payload 2028..2031) from one-, two- and four-byte stations; non-trivial = distinct protocol line set")
    trusted_base = ["Spec.Hdlc is my reading of IEC 62056-46 frame format type 3", "C12 (check sequence = X-25), C13 (addresses), C20 (control/format fields)"]
    assumptions = ["the header check sequence is emitted for the kinds that can carry information (UA, I, UI) even when the information field is empty, as the library does",
                   "poll/final is always 1 on SNRM, UA, DISC and RR (their control fields have no final attribute)"]
    technique = "Lean 4 proof of layout, parse∘serialize = id for all payloads, truncation/extension refusal; CRC algebra for small corruptions; exhaustive fault enumeration as model validation and failing-input search"
    level_text = ("C09_layout / C09_parse_serialize / C09_truncated_refused / C09_appended_refused / C09_accepted_is_checked are theorems about the model of "
                  "to_bytes/from_bytes for every frame value and payload; acceptance implies both check sequences hold over the received bytes, so that the "
                  "X-25 distance properties apply. The model is tied to frames.py by differential comparison on all kinds, boundary lengths and an exhaustive "
                  "fault enumeration (bit flips, bursts, truncations) on generated frames.")
    level_note = "Trusted: Lean kernel (+propext, Classical.choice, Quot.sound), Spec.Hdlc, the correspondence harness; the CRC distance argument is stated in DESIGN.md §6 C09."
    err_map = ERR
    chunk = 3000

    def make_case(self, d):
        op = d["op"]
        if op == "ser":
            kind, dst, src = d["kind"], tuple(d["dst"]), tuple(d["src"])
            payload = bytes.fromhex(d["payload"])
            ssn, rsn, fin, seg = d["ssn"], d["rsn"], d["final"], d["seg"]

            def impl():
                try:
                    f = build(kind, dst, src, ssn, rsn, fin, seg, payload)
                    out = f.to_bytes()
                except ValueError:
                    return "err range"
                if d.get("reuse"):
                    # the same frame from an object that was built and serialised with other values first and then given
                    # these ones field by field (a frame object re-used for the next segment / the next station): what
                    # to_bytes() emits depends on the current field values only
                    o = d["reuse"]
                    g = build(kind, tuple(o["dst"]), tuple(o["src"]), o["ssn"], o["rsn"], o["final"], o["seg"], bytes.fromhex(o["payload"]))
                    g.to_bytes()
                    g.destination_address, g.source_address = mk_addr(dst), mk_addr(src)
                    g.payload, g.segmented, g.final = payload, bool(seg), bool(fin)
                    if kind == "i":
                        g.send_sequence_number = ssn
                    if kind in ("i", "rr"):
                        g.receive_sequence_number = rsn
                    again = g.to_bytes()
                    if bytes(again) != bytes(out):
                        return "ok " + fw.hx(again) + " !reused-object-differs-from-fresh " + fw.hx(out)
                return "ok " + fw.hx(out)
            line = f"hdlc ser {kind} {addr_str(dst)} {addr_str(src)} {ssn} {rsn} {fin} {seg} {fw.hx(payload)}"
            return fw.Case(line, impl, "prop", d, tags=("ser-" + kind + ("-reused" if d.get("reuse") else ""),))
        if op == "parse":
            data = bytes.fromhex(d["data"])
            k = d["parser"]
            if d.get("ba"):
                data = bytearray(data)          # (what the connection hands to the parsers: its receive buffer is a bytearray)
            return fw.Case(f"hdlc parse {k} {fw.hx(data)}", lambda: parse_with(k, data), d.get("kind", "model"), d,
                           tags=("parse-" + d.get("tag", "other"),))
        if op == "parse-seq":
            k = d["parser"]
            datas = [bytes.fromhex(x) for x in d["datas"]]
            return fw.Case([f"hdlc parse {k} {fw.hx(x)}" for x in datas], lambda: [fw.guarded(lambda x=x: parse_with(k, x), ERR) for x in datas], "prop", d,
                           tags=("parse-sequence",))
        if op == "fault":
            orig = bytes.fromhex(d["orig"])
            bad = bytes.fromhex(d["bad"])
            k = d["parser"]

            def impl():
                return [fw.guarded(lambda: parse_with(k, orig), ERR), fw.guarded(lambda: parse_with(k, bad), ERR)]
            return fw.Case([f"hdlc parse {k} {fw.hx(orig)}", f"hdlc parse {k} {fw.hx(bad)}"], impl, "fault", d,
                           tags=("fault-" + d.get("tag", "x"),))
        raise fw.MachineryError(op)

    # reference serialisation through the implementation (used to obtain frames to corrupt)
    @staticmethod
    def impl_bytes(kind, dst, src, ssn, rsn, fin, seg, payload):
        return build(kind, dst, src, ssn, rsn, fin, seg, payload).to_bytes()

    def frames(self, rng, deep):
        """descriptions of well-formed frames (kind, dst, src, ssn, rsn, final, seg, payload)."""
        clients = [("c", 1, None), ("c", 16, None), ("c", 127, None), ("c", 0, None)]
        servers = [("s", 1, None), ("s", 1, 17), ("s", 0, 0), ("s", 127, 127), ("s", 200, 5), ("s", 16383, 16383), ("s", 5, 128)]
        lens = [0, 1, 2, 120, 127, 128, 129, 130, 2030]
        pats = ["rand", "7e", "00", "ff"]
        out = []
        for kind in KINDS:
            to_meter = kind in ("snrm", "disc")
            for ci, si in itertools.product(range(len(clients)), range(len(servers))):
                if not deep and (ci + si) % 3 and not (ci == 0 and si == 1):
                    continue
                c, s = clients[ci], servers[si]
                dst, src = (s, c) if to_meter else (c, s)
                nums = [(0, 0)]
                if kind == "i":
                    nums = list(itertools.product(range(8), range(8))) if (deep or (ci == 0 and si == 1)) else [(rng.randrange(8), rng.randrange(8))]
                elif kind == "rr":
                    nums = [(0, r) for r in range(8)]
                for ssn, rsn in nums:
                    for fin, seg in itertools.product((0, 1), (0, 1)):
                        if kind in ("ua", "i", "ui"):
                            ln = rng.choice(lens) if not (ci == 0 and si == 1 and ssn == 0 and rsn == 0) else None
                            for L in (lens if ln is None else [ln]):
                                pat = rng.choice(pats)
                                payload = {"rand": bytes(rng.getrandbits(8) for _ in range(L)), "7e": b"\x7e" * L,
                                           "00": b"\x00" * L, "ff": b"\xff" * L}[pat]
                                out.append((kind, dst, src, ssn, rsn, fin, seg, payload))
                        else:
                            out.append((kind, dst, src, ssn, rsn, fin, seg, b""))
        # information fields that look like protocol: beginning with the LLC headers, the UA's negotiation parameters, flags followed
        # by what a frame starts with, escape-like sequences, a whole frame as payload - in every kind that carries information
        llc = [bytes.fromhex(h) for h in ("e6e600", "e6e700", "e6e6", "e6e7", "e6", "e6e600c001c100", "e6e700c401c100120059", "e6e700818012050180",
                                           "e6e60060", "00e6e600", "818012050180060180070400000001080400000001", "7e", "7e7e", "7e7ea0", "7e7ea8",
                                           "017e7ea007", "7e7eaf00", "7ea0", "7ea00a", "a00a7e", "7d5e", "7d5d7d5e", "7e7ea00a0321", "ff7e7e")]
        llc.append(bytes.fromhex("7ea00a000200232193d2a47e"))
        llc.append(bytes(range(256)) + bytes.fromhex("7e7ea1"))
        for pre in ("e6e600", "e6e700", "7e7ea3"):
            llc.append(bytes.fromhex(pre) + bytes(rng.getrandbits(8) for _ in range(rng.choice([1, 17, 126, 300]))))
        for kind in ("ua", "i", "ui"):
            for pl in llc:
                c, sv = clients[0], rng.choice(servers[:2])
                fin, seg = rng.choice([(1, 0), (1, 0), (0, 1), (1, 1)])
                out.append((kind, c, sv, rng.randrange(8) if kind == "i" else 0, rng.randrange(8) if kind == "i" else 0, fin, seg, pl))
        return out

    def cases(self, rng, tier, deep):
        mk = self.make_case
        frs = self.frames(rng, deep)
        valid = []
        for (kind, dst, src, ssn, rsn, fin, seg, payload) in frs:
            yield mk({"op": "ser", "kind": kind, "dst": dst, "src": src, "ssn": ssn, "rsn": rsn, "final": fin,
                      "seg": seg, "payload": payload.hex()})
            try:
                data = self.impl_bytes(kind, dst, src, ssn, rsn, fin, seg, payload)
            except Exception:
                continue
            valid.append((kind, data))
            if kind != "snrm":
                # (the bytes are the specification's serialisation - checked by the "ser" case - so what the model of the
                #  parser returns for them is, by C09_parse_serialize, the frame itself: a disagreement is a property failure)
                yield mk({"op": "parse", "parser": kind, "data": data.hex(), "kind": "prop", "tag": "roundtrip"})
        # more stations: reserved values (0x7E calling, 0x7F all-station, 0x3FFE/0x3FFF), addresses whose encoding contains a
        # 0x7E byte, boundaries of the 1/2/4-byte forms, random ones - every kind, both directions
        more = [(200, 126), (200, 127), (128, 126), (16383, 126), (126, 126), (127, 126), (200, 16382), (200, 16383), (1, 16382), (63, 17), (63, 0),
                (8064, 300), (8100, 5), (191, 1), (200, 8064), (5, 8191), (1, 300), (1, 301), (127, 128), (128, 127), (128, None) if False else (128, 0)]
        more += [(rng.randrange(16384), rng.randrange(16384)) for _ in range(40 if deep else 8)]
        more += [(rng.randrange(128), rng.choice([None, rng.randrange(128)])) for _ in range(10 if deep else 3)]
        for (lg, ph) in more:
            for kind in KINDS:
                c, sv = ("c", rng.choice([1, 16, 17, 127])), ("s", lg, ph)
                c = (c[0], c[1], None)
                dst, src = (sv, c) if kind in ("snrm", "disc") else (c, sv)
                ssn, rsn, fin, seg = rng.randrange(8), rng.randrange(8), rng.randint(0, 1), rng.randint(0, 1)
                payload = bytes(rng.getrandbits(8) for _ in range(rng.choice([0, 3]))) if kind in ("ua", "i", "ui") else b""
                if kind != "i":
                    ssn = 0
                if kind not in ("i", "rr"):
                    rsn = 0
                yield mk({"op": "ser", "kind": kind, "dst": dst, "src": src, "ssn": ssn, "rsn": rsn, "final": fin, "seg": seg, "payload": payload.hex()})
                try:
                    data = self.impl_bytes(kind, dst, src, ssn, rsn, fin, seg, payload)
                except Exception:
                    continue
                if kind != "snrm":
                    yield mk({"op": "parse", "parser": kind, "data": data.hex(), "kind": "prop", "tag": "roundtrip-stations"})
                    yield mk({"op": "parse", "parser": kind, "data": data.hex(), "kind": "prop", "tag": "roundtrip-bytearray", "ba": True})
        # frames parsed one after the other whose address fields share their first bytes: each gets its own addresses
        for kind in ("i", "rr", "ui", "ua", "disc"):
            seqs = []
            for (a, b) in (((1, 300), (1, 301)), ((200, 5), (200, 6)), ((200, 128), (200, 129)), ((16383, 16382), (16383, 16383))):
                if kind == "disc":
                    seqs.append([(("s",) + a, ("c", 16, None)), (("s",) + a, ("c", 17, None)), (("s",) + b, ("c", 17, None))])
                else:
                    seqs.append([(("c", 16, None), ("s",) + a), (("c", 16, None), ("s",) + b), (("c", 17, None), ("s",) + b), (("c", 16, None), ("s",) + a)])
            for sq in seqs:
                datas = []
                for dst, src in sq:
                    try:
                        datas.append(self.impl_bytes(kind, dst, src, 0, 0, 1, 0, b"").hex())
                    except Exception:
                        datas = None
                        break
                if datas:
                    yield mk({"op": "parse-seq", "parser": kind, "datas": datas})
        # re-used frame objects: every frame of a sample is also produced from an object first serialised as another frame
        # of the same kind
        by_kind = {}
        for fr in frs:
            by_kind.setdefault(fr[0], []).append(fr)
        for (kind, dst, src, ssn, rsn, fin, seg, payload) in (frs if deep else rng.sample(frs, min(len(frs), 300))):
            okind, odst, osrc, ossn, orsn, ofin, oseg, opayload = rng.choice(by_kind[kind])
            yield mk({"op": "ser", "kind": kind, "dst": dst, "src": src, "ssn": ssn, "rsn": rsn, "final": fin, "seg": seg, "payload": payload.hex(),
                      "reuse": {"dst": odst, "src": osrc, "ssn": ossn, "rsn": orsn, "final": ofin, "seg": oseg, "payload": opayload.hex()}})
        # kinds without an information field built with the optional payload argument: it is not part of the frame
        for kind in ("snrm", "disc", "rr"):
            to_meter = kind in ("snrm", "disc")
            c, s = ("c", 16, None), ("s", 1, 17)
            yield mk({"op": "ser", "kind": kind, "dst": s if to_meter else c, "src": c if to_meter else s, "ssn": 0, "rsn": 3, "final": 1, "seg": 0,
                      "payload": "818012050180060180070400000001080400000001"})
        # largest legal and too long, out-of-range numbers
        c, s = ("c", 16, None), ("s", 1, 17)
        for kind in ("ua", "i", "ui"):
            fixed = 7 + 1 + 2
            for L in (2047 - fixed, 2047 - fixed + 1, 3000):
                yield mk({"op": "ser", "kind": kind, "dst": c, "src": s, "ssn": 0, "rsn": 0, "final": 1, "seg": 0,
                          "payload": (b"\x5a" * L).hex()})
        for srv in (("s", 1, 300), ("s", 300, 17), ("s", 16383, 16383), ("s", 1, 17), ("s", 1, None)):
            for kind in ("i", "ui", "ua"):
                for L in (2028, 2029, 2030, 2031):
                    payload = bytes((i * 11 + L) % 256 for i in range(L))
                    yield mk({"op": "ser", "kind": kind, "dst": c, "src": srv, "ssn": 0, "rsn": 0, "final": 1, "seg": 0, "payload": payload.hex()})
                    try:
                        data = self.impl_bytes(kind, c, srv, 0, 0, 1, 0, payload)
                    except Exception:
                        continue
                    yield mk({"op": "parse", "parser": kind, "data": data.hex(), "kind": "prop", "tag": "roundtrip-longest", "ba": bool(L % 2)})
        for ssn, rsn in ((8, 0), (0, 8), (9, 9)):
            yield mk({"op": "ser", "kind": "i", "dst": c, "src": s, "ssn": ssn, "rsn": rsn, "final": 1, "seg": 0, "payload": "01"})
        yield mk({"op": "ser", "kind": "rr", "dst": c, "src": s, "ssn": 0, "rsn": 8, "final": 1, "seg": 0, "payload": ""})
        # every parser on every kind of valid frame (wrong-kind behaviour) - model correspondence
        sample = valid if deep else rng.sample(valid, min(len(valid), 250))
        for kind, data in sample:
            for p in PARSERS:
                if p != kind:
                    yield mk({"op": "parse", "parser": p, "data": data.hex(), "kind": "model", "tag": "wrong-kind"})
        for _ in range(5000 if deep else 400):
            n = rng.randint(0, 24)
            body = bytes(rng.getrandbits(8) for _ in range(n))
            data = rng.choice([b"\x7e" + body + b"\x7e", body, b"\x7e\xa0" + bytes([n + 2]) + body + b"\x7e"])
            yield mk({"op": "parse", "parser": rng.choice(PARSERS), "data": data.hex(), "kind": "model", "tag": "random"})
        # fault enumeration
        short = [(k, d) for k, d in valid if k != "snrm" and len(d) <= 40]
        tiny = [(k, d) for k, d in valid if k != "snrm" and len(d) <= 16]
        pool = rng.sample(short, min(len(short), 400)) if deep else rng.sample(short, min(len(short), 40))
        for kind, data in pool:
            nbits = len(data) * 8
            for b in range(nbits):
                bad = bytearray(data)
                bad[b // 8] ^= 1 << (b % 8)
                yield mk({"op": "fault", "parser": kind, "orig": data.hex(), "bad": bytes(bad).hex(), "tag": "1bit"})
            for n in range(len(data)):
                yield mk({"op": "fault", "parser": kind, "orig": data.hex(), "bad": data[:n].hex(), "tag": "truncate"})
            for n in range(1, len(data)):
                yield mk({"op": "fault", "parser": kind, "orig": data.hex(), "bad": data[n:].hex(), "tag": "truncate-front"})
            for extra in (b"\x00", b"\x7e", b"\x7e\xa0", bytes(rng.getrandbits(8) for _ in range(5))):
                yield mk({"op": "fault", "parser": kind, "orig": data.hex(), "bad": (data + extra).hex(), "tag": "append"})
                yield mk({"op": "fault", "parser": kind, "orig": data.hex(), "bad": (extra + data).hex(), "tag": "prepend"})
            # extended between the flags with the check sequence recomputed over the longer content (the length field
            # still says the old length): valid content + old FCS + extra bytes + new FCS
            from harness.props.c12 import x25_ref
            for extra in (b"", b"\x00", bytes(rng.getrandbits(8) for _ in range(8))):
                mid = data[1:-1] + extra
                yield mk({"op": "fault", "parser": kind, "orig": data.hex(), "bad": (b"\x7e" + mid + x25_ref(mid) + b"\x7e").hex(),
                          "tag": "extend-refcs"})
        # constructed corruptions: two information bytes replaced so that the check sequence of the altered content is the received
        # one with its two bytes swapped / complemented / reversed bitwise (what a comparison in the wrong byte or bit order, or of
        # the wrong register, would take for a match) - exactly one such pair of bytes exists for each target
        tab = []
        for i in range(256):
            r = i
            for _ in range(8):
                r = (r >> 1) ^ 0x8408 if r & 1 else r >> 1
            tab.append(r)

        def reg_run(reg, bs):
            for b in bs:
                reg = (reg >> 8) ^ tab[(reg ^ b) & 0xFF]
            return reg
        withinfo = [(k, d) for k, d in valid if k in ("i", "ui", "ua") and 16 <= len(d) <= 60]
        import random as _random
        rng2 = _random.Random(len(valid))          # (own stream: the cases that follow are drawn as before)
        for kind, data in rng2.sample(withinfo, min(len(withinfo), 12 if deep else 4)):
            content, fcs = data[1:-3], data[-3:-1]
            pos = len(content) - 2 - rng2.randrange(0, min(4, len(content) - 11))       # two bytes inside the information field
            pre = reg_run(0xFFFF, content[:pos])
            suffix = content[pos + 2:]
            bitrev = bytes(int(f"{b:08b}"[::-1], 2) for b in fcs)
            for name, target in (("swapped", fcs[::-1]), ("complemented", bytes(b ^ 0xFF for b in fcs)), ("bit-reversed", bitrev), ("bit-reversed-swapped", bitrev[::-1])):
                if target == fcs:
                    continue
                want = (target[0] | target[1] << 8) ^ 0xFFFF
                found = None
                for u in range(256):
                    r1 = (pre >> 8) ^ tab[(pre ^ u) & 0xFF]
                    for v in range(256):
                        r2 = (r1 >> 8) ^ tab[(r1 ^ v) & 0xFF]
                        if reg_run(r2, suffix) == want:
                            found = bytes([u, v])
                            break
                    if found:
                        break
                if found and found != content[pos:pos + 2]:
                    bad = b"\x7e" + content[:pos] + found + suffix + fcs + b"\x7e"
                    yield mk({"op": "fault", "parser": kind, "orig": data.hex(), "bad": bad.hex(), "tag": "fcs-" + name})
        pool2 = rng.sample(tiny, min(len(tiny), 8)) if deep else rng.sample(tiny, min(len(tiny), 3))
        for kind, data in pool2:
            nbits = len(data) * 8
            for a, b in itertools.combinations(range(nbits), 2):
                bad = bytearray(data)
                bad[a // 8] ^= 1 << (a % 8)
                bad[b // 8] ^= 1 << (b % 8)
                yield mk({"op": "fault", "parser": kind, "orig": data.hex(), "bad": bytes(bad).hex(), "tag": "2bit"})
            trip = list(itertools.combinations(range(nbits), 3))
            trip = rng.sample(trip, min(len(trip), 60000 if deep else 3000))
            for t in trip:
                bad = bytearray(data)
                for x in t:
                    bad[x // 8] ^= 1 << (x % 8)
                yield mk({"op": "fault", "parser": kind, "orig": data.hex(), "bad": bytes(bad).hex(), "tag": "3bit"})
            for start in range(nbits - 1):
                # thorough: every burst of up to 9 bits at every position + random 16-bit bursts
                pats = (list(range(1, 1 << 9)) + [rng.randrange(1, 1 << 16) for _ in range(100)]) if deep \
                    else [rng.randrange(1, 1 << 16) for _ in range(40)]
                for pat in pats:
                    if not pat & 1:
                        continue      # burst starts at `start`
                    bad = bytearray(data)
                    for j in range(16):
                        if pat >> j & 1 and start + j < nbits:
                            x = start + j
                            bad[x // 8] ^= 1 << (7 - x % 8)
                    if bytes(bad) != data:
                        yield mk({"op": "fault", "parser": kind, "orig": data.hex(), "bad": bytes(bad).hex(), "tag": "burst16"})


PROP = C09()
