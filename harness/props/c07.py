"""C07 - a refused incoming APDU leaves the connection exactly as it was."""
from harness import connlib as cl
from harness import framework as fw
from harness.props.c03 import Path, configs, STATES, MT, EK, AK

WRONG_KEY, WRONG_AK = (3, 16), (4, 16)
WRONG_TITLE = "5858580000000009"


def strip_mic(o):
    return " ".join(t for t in o.split(" ") if not t.startswith("mic="))


def oracle_factory(cfg_json, ops, bad_index):
    """property oracle evaluated on the implementation's own behaviour:
       (1) if the input at `bad_index` is refused for decoding / authentication / an old counter, every observable
           attribute is as before; if refused for another reason only the meter counter may have moved;
       (2) the continuation behaves exactly as in a run without the refused input."""
    def oracle(trace, session):
        t = trace[bad_index]
        res = t["result"]
        tag = t["op"][3] if len(t["op"]) > 3 else ""
        if not res.startswith("err"):
            if tag in ("plain-on-ciphered", "bad-tag", "wrong-key", "wrong-ak", "short"):
                # nothing authenticates this input (no protection at all / a tag that cannot verify): if it is taken, a forged
                # APDU drives the connection and the genuine continuation is at its mercy
                return f"C07 a forged APDU ({tag}) was accepted: {t['before']} -> {t['after']}"
            if tag in ("replay", "old-counter"):
                # C07 counts an APDU that repeats an old invocation counter among the inputs the receive path refuses
                return f"C07 an APDU repeating an old invocation counter ({tag}) was accepted: {t['before']} -> {t['after']}"
            return None                      # accepted input: C07 says nothing
        cls = res.split()[1]
        if cls in ("decode", "auth") or tag in ("replay", "old-counter"):
            if t["before"] != t["after"]:
                return f"C07 refused ({cls}) but state changed: {t['before']} -> {t['after']}"
        else:
            if strip_mic(t["before"]) != strip_mic(t["after"]):
                return f"C07 refused ({cls}) but state changed: {t['before']} -> {t['after']}"
        # continuation without the refused input
        ops2 = ops[:bad_index] + ops[bad_index + 1:]
        _, impl2 = cl.run_history(cfg_json, ops2)
        out2 = impl2()
        with_bad = [x["result"] + " " + x["after"] for x in trace[bad_index + 1:]]
        without = [o.split(" | ", 1)[1].replace(" | ", " ") for o in out2[1 + bad_index:]]
        if cls in ("decode", "auth") or tag in ("replay", "old-counter"):
            if with_bad != without:
                return f"C07 continuation differs after refused input: {with_bad[:1]} vs {without[:1]}"
        else:
            if [strip_mic(x) for x in with_bad] != [strip_mic(x) for x in without]:
                # the counter of an authentic APDU may have been consumed; then a continuation carrying a counter
                # that is no longer fresh may legitimately differ - only flag differences for fresh continuations
                if "seal:1:" not in " ".join(map(str, t["op"][1])):
                    return f"C07 continuation differs after refused input: {with_bad[:1]} vs {without[:1]}"
        return None
    return oracle


class C07(fw.Prop):
    id = "C07"
    anchors = ["dlms_cosem/connection.py", "dlms_cosem/state.py"]
    design_ref = "DESIGN.md §6 C07"
    rule = ("for the plain, HLS-GMAC/ciphered and pre-established ciphered configurations, from every reachable protocol state: random bytes; every "
            "truncation and sampled bit flips of a valid APDU for that state; well-formed APDUs of every kind not allowed there; ciphered APDUs with a "
            "bad tag and a counter below / equal to / above the current one including 2^32-1; replays; APDUs sealed under a wrong key, wrong "
            "authentication key, wrong title or wrong security-control byte; AARE (plain and ciphered, good and bad) in wrong states and on pre-established "
            "associations; each followed by the genuine continuation.  Every step is compared with the model (outcome class and all observable "
            "attributes); in addition the harness evaluates the property itself on the implementation: attributes before/after the refused input and the "
            "continuation against a run without it; the refused inputs also followed by a long genuine continuation (release answered without user-information, new association, HLS, GET); forged AAREs claiming titles of 1/7/9 bytes or carrying texts too short for a tag; each refused input also three and five times in a row; genuine APDUs recorded long ago (counters 0, 2, floor/2, floor-2^31..) on a meter that has counted past 2^31; forged AAREs naming no title; non-trivial = distinct history")
    trusted_base = ["the symbolic-cryptography abstraction (ideal AEAD, DESIGN.md §5b): the harness maps real ciphertexts to the terms they were built from",
                    "extract.py (transition table)"]
    assumptions = ["a ciphered APDU carries a service APDU / an initiate response, not an ACSE APDU or another ciphered APDU",
                   "'refused' input is consumed: the receive buffer is empty afterwards"]
    technique = "Lean 4 proof by case analysis of the model of next_event (effect order is the object of the proof): refused ⇒ state unchanged, wrong-kind ⇒ at most the counter of an authentic text consumed, forged input harmless for every continuation; differential correspondence + direct property oracle on the implementation"
    level_text = ("C07_refused_unchanged / C07_replay_unchanged / C07_wrong_kind / C07_forged_harmless / C07_unauthentic_refused: theorems over every state, configuration "
                  "and input (the decoder's verdict is a parameter, so every byte string is covered) of the model of next_event/unprotect/decrypt with ideal AEAD. "
                  "Tied to connection.py by differential runs from every reachable state with real AES-GCM on the harness side, and by a direct before/after and "
                  "continuation oracle on the implementation.")
    level_note = "Trusted: Lean kernel (+propext, Classical.choice, Quot.sound), ideal-AEAD abstraction, extract.py, the harness (connlib)."
    chunk = 2000

    def make_case(self, d):
        lines, impl = cl.run_history(d["cfg"], d["ops"])
        orc = oracle_factory(d["cfg"], d["ops"], d["bad"]) if d.get("bad") is not None else None
        return fw.Case(lines, (lambda: impl(orc)), "split", d, tags=(d.get("tag", "x"), d.get("cfgname", "?")))

    def bad_inputs(self, p, rng, good, deep):
        """(tag, op) pairs: inputs that must be refused in the state reached; `good` is the genuine op for that state (or None)."""
        out = []
        c = p.cfg
        sc = c.suite + 48
        for n in (0, 1, 3, 17):
            out.append(("random", ["recv", ["raw", bytes(rng.getrandbits(8) for _ in range(n + 1)).hex()], None, "random"]))
        out.append(("random", ["recv", ["raw", "db08" + "00" * 8 + "11" + "30" + "00000001" + "aa" * 15], None, "random"]))
        if good is not None:
            for n in ([1, 2, 5, 9, 14, 20, 30] if not deep else range(1, 40)):
                out.append(("truncate", ["recv", good[1], ["trunc", n], "truncate"]))
            for _ in range(8 if not deep else 60):
                out.append(("bitflip", ["recv", good[1], ["flip", rng.randrange(0, 4000)], "bitflip"]))
        for k in ["getRespNormal", "getRespBlock", "getRespLastBlock", "setResp", "actResp", "actRespErr", "exceptionResp", "dataNotif",
                  "rlre", "confirmedServiceErr"]:
            out.append(("wrong-kind", p.resp(k) + ["wrong-kind"]))
        # variants: an exception-response carrying an invocation counter (small / 2^32-1), AAREs announcing a tiny maximum PDU
        # size or mechanism HLS with challenges of boundary lengths - wherever they are refused, nothing may have moved
        for k in ("exceptionRespIc", "exceptionRespIcBig"):
            out.append(("wrong-kind", p.resp(k) + ["wrong-kind"]))
        for size in (0, 5, 11):
            p.maxpdu = size
            out.append(("wrong-kind", p.resp("aare", (0, 5 if p.name == "hls" else None)) + ["wrong-kind"]))
        p.maxpdu = 500
        for n in (7, 64, 65):
            p.mch = "ab" * n
            out.append(("wrong-kind", p.resp("aare", (0, 5)) + ["wrong-kind"]))
        p.mch = "c1c2c3c4c5c6c7c8"
        out.append(("wrong-kind", p.resp("aare", (0, None)) + ["wrong-kind"]))
        out.append(("wrong-kind", p.resp("aare", (1, 5)) + ["wrong-kind"]))
        if p.ciphered:
            # unciphered APDUs on a connection with keys: nothing authenticates them, whatever the state allows
            for k in ["exceptionResp", "getRespNormal", "getRespBlock", "setResp", "actResp", "dataNotif", "confirmedServiceErr"]:
                out.append(("plain-on-ciphered", ["recv", ["s", k], None, "plain-on-ciphered"]))
            cur = p.mic
            for ic, tag in ((cur + 500, "bad-tag"), (2 ** 32 - 1, "bad-tag"), (cur, "old-counter"), (max(cur - 1, 0), "old-counter"), (0, "old-counter")):
                out.append((tag, ["recv", ["ggc", MT, str(sc), str(ic), f"junk:{ic % 97}"], None, tag]))
            fresh = cur + 40
            for key, ak, title, scb, tag in ((WRONG_KEY, AK, MT, sc, "wrong-key"), (EK, WRONG_AK, MT, sc, "wrong-ak"),
                                             (EK, AK, WRONG_TITLE, sc, "wrong-title"), (EK, AK, MT, c.suite + 48 + 64, "wrong-sc")):
                fresh += 1
                ct = f"seal:{key[0]}:{key[1]}:{title}:{fresh}:{scb}:{ak[0]}:{ak[1]}:s.getRespNormal"
                out.append((tag, ["recv", ["ggc", MT, str(sc), str(fresh), ct], None, tag]))
            # sealed correctly but the counter field in the APDU differs from the one under the seal
            ct = f"seal:{EK[0]}:{EK[1]}:{MT}:{fresh + 5}:{sc}:{AK[0]}:{AK[1]}:s.getRespNormal"
            out.append(("wrong-counter", ["recv", ["ggc", MT, str(sc), str(fresh + 6), ct], None, "wrong-counter"]))
            out.append(("short", ["recv", ["ggc", MT, str(sc), str(fresh + 7), "short"], None, "short"]))
            for mal in ("mal6", "mal7", "mal8", "mal9", "mal10", "mal11", "mal12", "mal13", "mal14"):
                out.append(("odd-proof", p.resp("actRespData", mal) + ["odd-proof"]))
            out.append(("undecodable-plaintext", ["recv", ["ggc", MT, str(sc), str(fresh + 8),
                                                           f"seal:{EK[0]}:{EK[1]}:{MT}:{fresh + 8}:{sc}:{AK[0]}:{AK[1]}:undec"], None, "undec"]))
            # AARE with a bad ciphered initiate response / an old counter
            out.append(("aare-bad-tag", ["recv", ["aare", "0", "5", WRONG_TITLE, "d1d2d3d4d5d6d7d8", f"glo:{sc}:{fresh + 9}:junk:3"], None, "bad-tag"]))
            out.append(("aare-old-counter", ["recv", ["aare", "0", "5", WRONG_TITLE, "d1d2d3d4d5d6d7d8", f"glo:{sc}:0:junk:4"], None, "old-counter"]))
            # ... claiming a title that is not 8 bytes, or with a text too short to hold a tag (refused before any tag is checked)
            for j, t in enumerate(("58585800000009", "585858000000000909", "58")):
                out.append(("aare-odd-title", ["recv", ["aare", "0", "5", t, "d1d2d3d4d5d6d7d8", f"glo:{sc}:{fresh + 10 + j}:junk:{5 + j}"], None, "bad-tag"]))
            # ... naming no title at all (the remembered one is used, and stays remembered)
            out.append(("aare-no-title", ["recv", ["aare", "0", "5", "none", "d1d2d3d4d5d6d7d8", f"glo:{sc}:{fresh + 16}:junk:9"], None, "bad-tag"]))
            out.append(("aare-no-title", ["recv", ["aare", "1", "none", "none", "none", f"glo:{sc}:{fresh + 17}:junk:10"], None, "bad-tag"]))
            # genuine APDUs recorded long ago: counters far below the current one (also more than 2^31 below it)
            floor = c.mic          # (what the connection remembered from the start: it never goes below that)
            for j, old in enumerate(sorted({0, 2, max(floor - 2 ** 31 - 3, 0), max(floor - 2 ** 31 + 1, 0), max(floor - 2 ** 31, 0), floor // 2, floor})):
                if old <= floor:
                    ct = f"seal:{EK[0]}:{EK[1]}:{MT}:{old}:{sc}:{AK[0]}:{AK[1]}:s.getRespNormal"
                    out.append(("recorded-long-ago", ["recv", ["ggc", MT, str(sc), str(old), ct], None, "old-counter"]))
            out.append(("aare-short-text", ["recv", ["aare", "0", "5", WRONG_TITLE, "d1d2d3d4d5d6d7d8", f"glo:{sc}:{fresh + 14}:short"], None, "short"]))
            out.append(("rlre-short-text", ["recv", ["rlre", f"glo:{sc}:{fresh + 15}:short"], None, "short"]))
        return out

    def genuine(self, p, st):
        """the genuine answer the meter would give in state `st` (None if the client is not waiting)."""
        m = {"AWAITING_ASSOCIATION_RESPONSE": ("aare", (0, 5 if p.name == "hls" else None)), "AWAITING_RELEASE_RESPONSE": ("rlre", None),
             "AWAITING_GET_RESPONSE": ("getRespNormal", None), "AWAITING_GET_BLOCK_RESPONSE": ("getRespLastBlock", None),
             "AWAITING_SET_RESPONSE": ("setResp", None), "AWAITING_ACTION_RESPONSE": ("actResp", None),
             "AWAITING_HLS_CLIENT_CHALLENGE_RESULT": ("actRespData", p.valid_proof(91)), "READY": ("dataNotif", None)}
        if st not in m:
            return None
        return m[st]

    def cases(self, rng, tier, deep):
        cfgs = configs()
        cfgs = dict(cfgs)
        # a pre-established ciphered association that does not know the meter's title yet: nothing can be authenticated,
        # and nothing a refused APDU carries may be remembered
        cfgs["pre-ciphered-notitle"] = cl.Cfg(pre=True, state="READY", ek=EK, ak=AK, meter_title=None, cic=7, mic=3)
        # ... and one whose meter has counted past 2^31
        cfgs["pre-ciphered-highmic"] = cl.Cfg(pre=True, state="READY", ek=EK, ak=AK, meter_title=MT, cic=6, mic=0x80000000)
        for name in ("plain", "hls", "pre-ciphered", "pre-ciphered-notitle", "pre-ciphered-highmic"):
            cfg = cfgs[name]
            for st in STATES:
                if Path(name, cfg).to_state(st) is None:
                    continue
                probe_path = Path(name, cfg)
                probe_path.to_state(st)
                g = self.genuine(probe_path, st)
                good0 = probe_path.resp(*g) if g else None
                n_bad = len(self.bad_inputs(probe_path, rng, good0, deep))
                for i in range(n_bad):
                    p = Path(name, cfg)
                    base = p.to_state(st)
                    good = p.resp(*g) if g else None
                    bads = self.bad_inputs(p, rng, good, deep)
                    tag, bad = bads[i]
                    if bad[0] == "recv" and bad[1] and bad[1][0] == "replay":
                        continue
                    cont = []
                    if g:
                        # the genuine answer after the refused input must carry a counter that is still fresh
                        cont.append(p.resp(*g))
                    cont.append(["send", "getReq", 1])
                    ops = base + [bad] + cont
                    yield self.make_case({"cfg": cfg.to_json(), "cfgname": name, "ops": ops, "bad": len(base), "tag": tag})
                # the same refused inputs followed by a long genuine continuation that also passes through APDUs which need no
                # deciphering (a release answered without user-information, a new association): nothing a refused input carried
                # may surface later
                if st in ("READY", "AWAITING_GET_RESPONSE", "AWAITING_SET_RESPONSE"):
                    for i in range(n_bad):
                        p = Path(name, cfg)
                        base = p.to_state(st)
                        good = p.resp(*g) if g else None
                        tag, bad = self.bad_inputs(p, rng, good, deep)[i]
                        if tag in ("truncate", "bitflip", "wrong-kind", "odd-proof", "plain-on-ciphered") and not deep:
                            continue
                        cont = [p.resp(*g)] if g and st != "READY" else []
                        if cfg.pre:
                            cont += [["send", "getReq", 1], p.resp("getRespNormal"), ["send", "setReq", 1], p.resp("setResp")]
                        else:
                            mech = 5 if name == "hls" else None
                            cont += [["send", "rlrq", 1], ["recv", ["rlre", "absent"], None], ["send", "aarq", 1], p.resp("aare", (0, mech))]
                            if name == "hls":
                                cont += [["hls"], ["send", "actReq", 1], p.resp("actRespData", p.valid_proof(123))]
                            cont += [["send", "getReq", 1], p.resp("getRespNormal")]
                        yield self.make_case({"cfg": cfg.to_json(), "cfgname": name, "ops": base + [bad] + cont, "bad": len(base), "tag": tag + "+long"})
                # the same refused input three and five times in a row (no genuine APDU in between), then the genuine continuation
                if st in ("READY", "AWAITING_GET_RESPONSE", "AWAITING_ASSOCIATION_RESPONSE", "AWAITING_HLS_CLIENT_CHALLENGE_RESULT"):
                    for i in range(n_bad):
                        for times in (3, 5):
                            p = Path(name, cfg)
                            base = p.to_state(st)
                            good = p.resp(*g) if g else None
                            tag, bad = self.bad_inputs(p, rng, good, deep)[i]
                            if tag in ("truncate", "bitflip", "wrong-kind", "odd-proof", "plain-on-ciphered", "random") and not deep:
                                continue
                            cont = ([p.resp(*g)] if g else []) + [["send", "getReq", 1]]
                            yield self.make_case({"cfg": cfg.to_json(), "cfgname": name, "ops": base + [bad] * times + cont, "bad": len(base),
                                                  "tag": f"{tag}x{times}"})
                # replay: the genuine answer twice
                if g and Path(name, cfg).ciphered:
                    p = Path(name, cfg)
                    base = p.to_state(st)
                    good = p.resp(*g)
                    ops = base + [good, good + ["replay"], ["send", "getReq", 1]]
                    yield self.make_case({"cfg": cfg.to_json(), "cfgname": name, "ops": ops, "bad": len(base) + 1, "tag": "replay"})


PROP = C07()
