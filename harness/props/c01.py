"""C01 - xDLMS APDUs encode to the standard A-XDR bytes and decoding inverts encoding."""
import datetime as pydt

from harness import framework as fw
from harness.props.c20 import CONF_NAMES

DAR = [0, 1, 2, 3, 4, 9, 11, 12, 13, 14, 15, 16, 17, 18, 19, 250]
ARS = [0, 1, 2, 3, 4, 9, 11, 12, 13, 14, 15, 16, 250]
ERR_TYPES = {0: ("ApplicationReferenceError", 7), 1: ("HardwareResourceError", 5), 2: ("VdeStateError", 5), 3: ("ServiceError", 3),
             4: ("DefinitionError", 4), 5: ("AccessError", 5), 6: ("InitiateError", 5), 7: ("LoadDataError", 8),
             8: ("DataScopeError", 1), 9: ("TaskError", 5), 10: ("OtherError", 1)}


def b01(x):
    return "1" if x else "0"


def build(d):
    """the Python APDU object for a value description."""
    from dlms_cosem import cosem, enumerations as en, security
    from dlms_cosem.protocol import xdlms
    from dlms_cosem.protocol.xdlms.data_notification import LongInvokeIdAndPriority
    from dlms_cosem.protocol.xdlms.invoke_id_and_priority import InvokeIdAndPriority as I
    k = d["k"]

    def inv():
        return I(d["id"], bool(d["c"]), bool(d["h"]))

    def attr():
        return cosem.CosemAttribute(en.CosemInterface(d["cls"]), cosem.Obis(*bytes.fromhex(d["obis"])), d["idx"])

    def meth():
        return cosem.CosemMethod(en.CosemInterface(d["cls"]), cosem.Obis(*bytes.fromhex(d["obis"])), d["idx"])

    def conf(mask):
        return xdlms.Conformance(**{n: bool(mask >> i & 1) for i, n in enumerate(CONF_NAMES)})

    def scf(b):
        return security.SecurityControlField(b & 15, bool(b & 16), bool(b & 32), bool(b & 64), bool(b & 128))
    data = bytes.fromhex(d["data"]) if "data" in d else None
    if k == "grn":
        sel = None
        if d.get("sel"):
            from dlms_cosem.protocol.xdlms.selective_access import RangeDescriptor, CaptureObject
            a = d["sel"]
            sel = RangeDescriptor(CaptureObject(cosem.CosemAttribute(en.CosemInterface(a["iface"]), cosem.Obis(*a["obis"]), a["attr"]), a["index"]),
                                  pydt.datetime(*a["from"]), pydt.datetime(*a["to"]))
        return xdlms.GetRequestNormal(attr(), inv(), sel)
    if k == "grx":
        return xdlms.GetRequestNext(d["block"], inv())
    if k == "gresn":
        return xdlms.GetResponseNormal(data, inv())
    if k == "grese":
        return xdlms.GetResponseNormalWithError(en.DataAccessResult(d["err"]), inv())
    if k == "gresb":
        return xdlms.GetResponseWithBlock(data, d["block"], inv())
    if k == "greslb":
        return xdlms.GetResponseLastBlock(data, d["block"], inv())
    if k == "gresle":
        return xdlms.GetResponseLastBlockWithError(en.DataAccessResult(d["err"]), d["block"], inv())
    if k == "setreq":
        return xdlms.SetRequestNormal(attr(), data, None, inv())
    if k == "setres":
        return xdlms.SetResponseNormal(en.DataAccessResult(d["result"]), inv())
    if k == "actreq":
        return xdlms.ActionRequestNormal(meth(), (data if (data or not d.get("none")) else None), inv())
    if k == "actres":
        return xdlms.ActionResponseNormal(en.ActionResultStatus(d["status"]), inv())
    if k == "actresd":
        return xdlms.ActionResponseNormalWithData(en.ActionResultStatus(d["status"]), data, inv())
    if k == "actrese":
        return xdlms.ActionResponseNormalWithError(en.ActionResultStatus(d["status"]), en.DataAccessResult(d["err"]), inv())
    if k == "dn":
        dt = None
        if d["dt"] is not None:
            from dateutil.tz import tzoffset
            y, m, dd, H, M, S, us, off = d["dt"]
            dt = pydt.datetime(y, m, dd, H, M, S, us, tzinfo=None if off is None else tzoffset(None, off * 60))
        return xdlms.DataNotification(LongInvokeIdAndPriority(d["lid"], bool(d["p"]), bool(d["c"]), bool(d["s"]), bool(d["b"])), dt, data)
    if k == "exc":
        return xdlms.ExceptionResponse(en.StateException(d["state"]), en.ServiceException(d["service"]),
                                       d["counter"] if d["service"] == 6 else None)
    if k == "cse":
        return xdlms.ConfirmedServiceError(getattr(en, ERR_TYPES[d["t"]][0])(d["v"]))
    if k == "ireq":
        key = bytes.fromhex(d["key"]) or None
        return xdlms.InitiateRequest(conf(d["conf"]), d["qos"] if d["qos"] or not d.get("qos_none") else None, d["maxpdu"], d["ver"],
                                     bool(d["ra"]), key)
    if k == "ires":
        return xdlms.InitiateResponse(conf(d["conf"]), d["maxpdu"], d["ver"], d["qos"])
    if k == "gireq":
        return xdlms.GlobalCipherInitiateRequest(scf(d["sc"]), d["ic"], data)
    if k == "gires":
        return xdlms.GlobalCipherInitiateResponse(scf(d["sc"]), d["ic"], data)
    if k == "ggc":
        return xdlms.GeneralGlobalCipher(bytes.fromhex(d["title"]), scf(d["sc"]), d["ic"], data)
    raise fw.MachineryError(k)


def canon(o):
    """canonical text of an APDU object (None / b'' and qos None / 0 identified)."""
    from dlms_cosem.protocol import xdlms
    name = type(o).__name__

    def inv(i):
        return f"{i.invoke_id} {b01(i.confirmed)} {b01(i.high_priority)}"

    def desc(a, idx):
        return f"{int(a.interface)} {a.instance.to_bytes().hex()} {idx}"

    def hx(b):
        return fw.hx(b or b"")
    if isinstance(o, xdlms.GetRequestNormal):
        sel = o.access_selection
        return f"grn {inv(o.invoke_id_and_priority)} {desc(o.cosem_attribute, o.cosem_attribute.attribute)} " + (
            "none" if sel is None else (sel.to_bytes().hex() if hasattr(sel, "to_bytes") else "raw:" + bytes(sel).hex()))
    if isinstance(o, xdlms.GetRequestNext):
        return f"grx {inv(o.invoke_id_and_priority)} {o.block_number}"
    if isinstance(o, xdlms.GetResponseNormal):
        return f"gresn {inv(o.invoke_id_and_priority)} {hx(o.data)}"
    if isinstance(o, xdlms.GetResponseNormalWithError):
        return f"grese {inv(o.invoke_id_and_priority)} {int(o.error)}"
    if isinstance(o, xdlms.GetResponseWithBlock):
        return f"gresb {inv(o.invoke_id_and_priority)} {o.block_number} {hx(o.data)}"
    if isinstance(o, xdlms.GetResponseLastBlock):
        return f"greslb {inv(o.invoke_id_and_priority)} {o.block_number} {hx(o.data)}"
    if isinstance(o, xdlms.GetResponseLastBlockWithError):
        return f"gresle {inv(o.invoke_id_and_priority)} {o.block_number} {int(o.error)}"
    if isinstance(o, xdlms.SetRequestNormal):
        return f"setreq {inv(o.invoke_id_and_priority)} {desc(o.cosem_attribute, o.cosem_attribute.attribute)} {hx(o.data)}"
    if isinstance(o, xdlms.SetResponseNormal):
        return f"setres {inv(o.invoke_id_and_priority)} {int(o.result)}"
    if isinstance(o, xdlms.ActionRequestNormal):
        return f"actreq {inv(o.invoke_id_and_priority)} {desc(o.cosem_method, o.cosem_method.method)} {hx(o.data)}"
    if isinstance(o, xdlms.ActionResponseNormal):
        return f"actres {inv(o.invoke_id_and_priority)} {int(o.status)}"
    if isinstance(o, xdlms.ActionResponseNormalWithData):
        return f"actresd {inv(o.invoke_id_and_priority)} {int(o.status)} {hx(o.data)}"
    if isinstance(o, xdlms.ActionResponseNormalWithError):
        return f"actrese {inv(o.invoke_id_and_priority)} {int(o.status)} {int(o.error)}"
    if isinstance(o, xdlms.DataNotification):
        li = o.long_invoke_id_and_priority
        dt = o.date_time
        if dt is None:
            dts = "none"
        else:
            off = dt.utcoffset()
            dts = f"{dt.year},{dt.month},{dt.day},{dt.hour},{dt.minute},{dt.second},{dt.microsecond}," + (
                "none" if off is None else str(int(off.total_seconds() // 60)))
        return (f"dn {li.long_invoke_id} {b01(li.prioritized)} {b01(li.confirmed)} {b01(li.break_on_error)} "
                f"{b01(li.self_descriptive)} {dts} {hx(o.body)}")
    if isinstance(o, xdlms.ExceptionResponse):
        # the invocation-counter-error choice carries a number: "no counter" there is not the value 0 that was encoded
        ic = o.invocation_counter_data if int(o.service_error) == 6 else (o.invocation_counter_data or 0)
        return f"exc {int(o.state_error)} {int(o.service_error)} {ic}"
    if isinstance(o, xdlms.ConfirmedServiceError):
        t = [k for k, v in ERR_TYPES.items() if v[0] == type(o.error).__name__]
        return f"cse {t[0] if t else '?'} {int(o.error)}"

    def cmask(c):
        return sum((1 << i) for i, n in enumerate(CONF_NAMES) if getattr(c, n))
    if isinstance(o, xdlms.InitiateRequest):
        return (f"ireq {hx(o.dedicated_key)} {b01(o.response_allowed)} {o.proposed_quality_of_service or 0} "
                f"{o.proposed_dlms_version_number} {cmask(o.proposed_conformance)} {o.client_max_receive_pdu_size}")
    if isinstance(o, xdlms.InitiateResponse):
        return (f"ires {o.negotiated_quality_of_service or 0} {o.negotiated_dlms_version_number} "
                f"{cmask(o.negotiated_conformance)} {o.server_max_receive_pdu_size}")
    if isinstance(o, xdlms.GlobalCipherInitiateRequest):
        return f"gireq {o.security_control.to_bytes()[0]} {o.invocation_counter} {hx(o.ciphered_text)}"
    if isinstance(o, xdlms.GlobalCipherInitiateResponse):
        return f"gires {o.security_control.to_bytes()[0]} {o.invocation_counter} {hx(o.ciphered_text)}"
    if isinstance(o, xdlms.GeneralGlobalCipher):
        return f"ggc {hx(o.system_title)} {o.security_control.to_bytes()[0]} {o.invocation_counter} {hx(o.ciphered_text)}"
    return "other:" + name


def line_of(d, sel_hex=None):
    k = d["k"]
    inv = f"{d.get('id', 0)} {d.get('c', 1)} {d.get('h', 1)}"
    desc = f"{d.get('cls')} {d.get('obis')} {d.get('idx')}"
    data = fw.hx(bytes.fromhex(d["data"])) if "data" in d else "-"
    if k == "grn":
        return f"xdlms enc grn {inv} {desc} {sel_hex or 'none'}"
    if k == "grx":
        return f"xdlms enc grx {inv} {d['block']}"
    if k == "gresn":
        return f"xdlms enc gresn {inv} {data}"
    if k == "grese":
        return f"xdlms enc grese {inv} {d['err']}"
    if k in ("gresb", "greslb"):
        return f"xdlms enc {k} {inv} {d['block']} {data}"
    if k == "gresle":
        return f"xdlms enc gresle {inv} {d['block']} {d['err']}"
    if k in ("setreq", "actreq"):
        return f"xdlms enc {k} {inv} {desc} {data}"
    if k == "setres":
        return f"xdlms enc setres {inv} {d['result']}"
    if k == "actres":
        return f"xdlms enc actres {inv} {d['status']}"
    if k == "actresd":
        return f"xdlms enc actresd {inv} {d['status']} {data}"
    if k == "actrese":
        return f"xdlms enc actrese {inv} {d['status']} {d['err']}"
    if k == "dn":
        dt = "none" if d["dt"] is None else ",".join("none" if x is None else str(x) for x in d["dt"])
        return f"xdlms enc dn {d['lid']} {d['p']} {d['c']} {d['b']} {d['s']} {dt} {data}"
    if k == "exc":
        return f"xdlms enc exc {d['state']} {d['service']} {d['counter'] if d['service'] == 6 else 0}"
    if k == "cse":
        return f"xdlms enc cse {d['t']} {d['v']}"
    if k == "ireq":
        return f"xdlms enc ireq {fw.hx(bytes.fromhex(d['key']))} {d['ra']} {d['qos']} {d['ver']} {d['conf']} {d['maxpdu']}"
    if k == "ires":
        return f"xdlms enc ires {d['qos']} {d['ver']} {d['conf']} {d['maxpdu']}"
    if k in ("gireq", "gires"):
        return f"xdlms enc {k} {d['sc']} {d['ic']} {data}"
    if k == "ggc":
        return f"xdlms enc ggc {fw.hx(bytes.fromhex(d['title']))} {d['sc']} {d['ic']} {data}"
    raise fw.MachineryError(k)


class C01(fw.Prop):
    id = "C01"
    anchors = ["dlms_cosem/protocol/xdlms/get.py", "dlms_cosem/protocol/xdlms/set.py", "dlms_cosem/protocol/xdlms/action.py",
               "dlms_cosem/protocol/xdlms/data_notification.py", "dlms_cosem/protocol/xdlms/exception_response.py",
               "dlms_cosem/protocol/xdlms/confirmed_service_error.py", "dlms_cosem/protocol/xdlms/initiate_request.py",
               "dlms_cosem/protocol/xdlms/initiate_response.py", "dlms_cosem/protocol/xdlms/general_global_cipher.py",
               "dlms_cosem/protocol/xdlms/invoke_id_and_priority.py", "dlms_cosem/connection.py", "dlms_cosem/a_xdr.py",
               "dlms_cosem/cosem/__init__.py", "dlms_cosem/cosem/obis.py", "dlms_cosem/enumerations.py"]
    design_ref = "DESIGN.md §6 C01"
    rule = ("every APDU kind x field boundaries: invoke-id 0,1,15 x both flags (64 exhaustive), every member of every result/error/interface "
            "enumeration, OBIS bytes 0,1,127,128,255 per position + random, ids 0,1,127,128,255, block numbers and counters "
            "0,1,255,256,65535,65536,2^24+-1,2^32-1, payload/ciphertext lengths 0,1,122..129,250..257,65530..65540 and random, data-notification "
            "with/without date-time and every offset class, initiate with/without dedicated key and every non-default field; each value: "
            "to_bytes() = Spec.Xdlms.encode (driver) and XDlmsApduFactory.apdu_from_bytes(to_bytes()) canonically equal to the value "
            "(None/b'' and QoS None/0 identified); every decoded value is overwritten in place and the bytes decoded again (decoding is a function of the bytes alone); data-notification date-times with every hundredths value; every value also produced from a re-used object (the previous value of its kind, fields transplanted one by one), decoded values re-encoded, dedicated keys containing the conformance tag; non-trivial = distinct protocol line")
    trusted_base = ["Spec.Xdlms is my reading of the Green Book xDLMS ASN.1 + A-XDR", "extract.py (enumerations, tag dispatch table)"]
    assumptions = ["values that differ only in Python's two spellings of 'no data' (None vs b'') or 'no QoS' (None vs 0) are identified",
                   "SET with selective access and the data-block / with-list variants are not represented by the library"]
    technique = "Lean 4 proof: decode∘encode = id and injectivity for all 21 APDU kinds with arbitrary payload lengths (A-XDR length prefix lemma), tag dispatch and enumerations decided against the tables regenerated from the code; differential correspondence to_bytes vs the Lean spec"
    level_text = ("C01_decode_encode / C01_encode_injective / C01_dispatch / C01_tables: for every well-formed value of each of the 21 APDU kinds, with payloads of any length, the "
                  "model of the tag-dispatching decoder inverts the standard encoding; the enumerations and the dispatch table used are regenerated from the code. The encoders are "
                  "tied to the standard by byte-for-byte comparison of to_bytes() with the Lean spec over the boundary-dense generator, and the decoders by the round trip on the live code.")
    level_note = "Trusted: Lean kernel (+propext, Classical.choice, Quot.sound), Spec.Xdlms, extract.py, the correspondence harness."
    chunk = 3000

    def make_case(self, d):
        def impl():
            o = build(d)
            bs = o.to_bytes()
            from dlms_cosem.connection import XDlmsApduFactory
            # decoding is a function of the bytes alone: damaged versions decoded (and refused or not) before the
            # genuine bytes must not influence what the genuine bytes decode to
            for bad in (bs[:-1], bs[:len(bs) // 2], bs + b"\x00\x01"):
                try:
                    XDlmsApduFactory.apdu_from_bytes(bad)
                except fw._Timeout:
                    raise
                except Exception:  # noqa
                    pass
            if d.get("prev"):
                # the same value from an object that was built and serialised as another value of this kind before and then
                # given these field values one by one (nested descriptors included)
                g = build(d["prev"])
                g.to_bytes()
                fw.transplant(g, build(d))
                again = g.to_bytes()
                if bytes(again) != bytes(bs):
                    return "ok " + fw.hx(bs) + " re-used-object-encodes-to: " + fw.hx(again)[:160]
            back = XDlmsApduFactory.apdu_from_bytes(bs)
            want = canon(o)
            if canon(back) != want:
                return "ok " + fw.hx(bs) + " decoded-differs: " + canon(back)[:120] + " != " + want[:120]
            # what the decoder hands out is a value of the same kind: it encodes to the same bytes
            try:
                rb_ = bytes(back.to_bytes())
            except fw._Timeout:
                raise
            except Exception as e:  # noqa
                rb_ = ("raised " + type(e).__name__).encode()
            if rb_ != bytes(bs):
                return "ok " + fw.hx(bs) + " decoded-value-encodes-to: " + (fw.hx(rb_)[:160] if not rb_.startswith(b"raised") else rb_.decode())
            # ... nor may what the caller does with an earlier result: the decoded value is overwritten in place, then the same
            # bytes are decoded again
            fw.scribble(back)
            again = XDlmsApduFactory.apdu_from_bytes(bs)
            if canon(again) != want:
                return "ok " + fw.hx(bs) + " second-decode-differs: " + canon(again)[:120] + " != " + want[:120]
            return "ok " + fw.hx(bs)
        sel_hex = None
        if d["k"] == "grn" and d.get("sel"):
            # the selective-access descriptor as the standard encodes it: selector 1 + range descriptor (C14)
            from harness.props import c14
            a = d["sel"]

            def dtb(v):
                y, m, dd_, H, M, S = v
                return y.to_bytes(2, "big") + bytes([m, dd_, 0xFF, H, M, S, 0, 0x80, 0x00, 0x00])
            tree = ("s", [("s", [("u16", a["iface"]), ("o", bytes(a["obis"])), ("i8", a["attr"]), ("u16", a["index"])]),
                          ("o", dtb(a["from"])), ("o", dtb(a["to"])), ("a", [])])
            sel_hex = (b"\x01" + c14.ref_encode(tree)).hex()
        return fw.Case(line_of(d, sel_hex), impl, "prop", d, tags=(d["k"],))

    def finding_key(self, m):
        d = m.case.descr
        if d.get("k") == "grn" and d.get("sel"):
            return "D02"
        return None

    def known_witness_cases(self, finding):
        if finding["id"] == "D02":
            return [self.make_case(finding["witness"])]
        return []

    def cases(self, rng, tier, deep):
        last = {}

        def mk(d):
            # every value is also produced from a re-used object: the previous value of the same kind
            if d["k"] in last and not d.get("sel"):
                d = dict(d, prev=last[d["k"]])
            last[d["k"]] = {x: v for x, v in d.items() if x != "prev"}
            return self.make_case(d)
        N = [0, 1, 255, 256, 65535, 65536, 2 ** 24 - 1, 2 ** 24 + 1, 2 ** 32 - 1]
        LENS = [0, 1] + list(range(122, 130)) + list(range(250, 258)) + ([65530, 65535, 65536, 65540] if deep else [65536])

        def rb(n):
            return bytes(rng.getrandbits(8) for _ in range(n)).hex()

        def invs():
            return [{"id": i, "c": c, "h": h} for i in (0, 1, 15) for c in (0, 1) for h in (0, 1)]

        def rinv():
            return {"id": rng.choice([0, 1, 7, 15]), "c": rng.randint(0, 1), "h": rng.randint(0, 1)}
        classes = [1, 3, 7, 8, 15, 70, 151, 9] + ([] if not deep else [4, 5, 6, 17, 18, 64])

        def rdesc():
            ob = bytes(rng.choice([0, 1, 127, 128, 255, rng.getrandbits(8)]) for _ in range(6)).hex()
            return {"cls": rng.choice(classes), "obis": ob, "idx": rng.choice([0, 1, 127, 128, 255])}
        for i in range(16):
            for c in (0, 1):
                for h in (0, 1):
                    yield mk({"k": "grx", "id": i, "c": c, "h": h, "block": rng.choice(N)})
        for iv in invs():
            yield mk(dict(k="grn", **iv, **rdesc()))
            yield mk(dict(k="gresn", **iv, data=rb(rng.choice([0, 1, 5]))))
            yield mk(dict(k="setreq", **iv, **rdesc(), data=rb(rng.choice([1, 5]))))
            yield mk(dict(k="actreq", **iv, **rdesc(), data=rb(rng.choice([0, 3]))))
        from dlms_cosem import enumerations as en
        for cls in sorted(int(m) for m in en.CosemInterface):
            yield mk(dict(k="grn", **rinv(), cls=cls, obis="0100010800ff", idx=2))
        for pos in range(6):
            for v in (0, 1, 127, 128, 255):
                ob = bytearray(bytes.fromhex("0100010800ff"))
                ob[pos] = v
                yield mk(dict(k="grn", **rinv(), cls=3, obis=bytes(ob).hex(), idx=2))
                yield mk(dict(k="actreq", **rinv(), cls=15, obis=bytes(ob).hex(), idx=v, data=""))
        for e in DAR:
            yield mk(dict(k="grese", **rinv(), err=e))
            yield mk(dict(k="gresle", **rinv(), block=rng.choice(N), err=e))
            yield mk(dict(k="setres", **rinv(), result=e))
            yield mk(dict(k="actrese", **rinv(), status=rng.choice(ARS), err=e))
        for s in ARS:
            yield mk(dict(k="actres", **rinv(), status=s))
            yield mk(dict(k="actresd", **rinv(), status=s, data=rb(rng.choice([1, 4, 130]))))
        for b in N:
            for L in ([0, 1, 127, 128, 255, 256] if b in (0, 2 ** 32 - 1) else [rng.choice(LENS)]):
                yield mk(dict(k="gresb", **rinv(), block=b, data=rb(L)))
                yield mk(dict(k="greslb", **rinv(), block=b, data=rb(L)))
        for L in LENS:
            yield mk(dict(k="gresb", **rinv(), block=1, data=rb(L)))
            yield mk(dict(k="greslb", **rinv(), block=2, data=rb(L)))
            yield mk(dict(k="gresn", **rinv(), data=rb(L)))
            yield mk(dict(k="actresd", **rinv(), status=0, data=rb(max(L, 1))))
            for sc in (0x30, 0x31, 0x32, 0x10, 0x20):
                if sc == 0x30 or L in (0, 122, 123, 127, 128, 250, 251, 256):
                    yield mk(dict(k="ggc", title=rb(8), sc=sc, ic=rng.choice(N[:-0] if False else N), data=rb(L)))
                    yield mk(dict(k="gireq", sc=sc, ic=rng.choice(N), data=rb(L)))
                    yield mk(dict(k="gires", sc=sc, ic=rng.choice(N), data=rb(L)))
        for st in (1, 2):
            for sv in (1, 2, 3, 4, 5, 6):
                for cnt in ([0] if sv != 6 else N):
                    yield mk(dict(k="exc", state=st, service=sv, counter=cnt))
        for t, (_, n) in ERR_TYPES.items():
            for v in range(n):
                yield mk(dict(k="cse", t=t, v=v))
        for lid in [0, 1, 255, 256, 65535, 65536, 2 ** 24 - 1]:
            for fl in (range(16) if lid in (0, 2 ** 24 - 1) else [rng.getrandbits(4)]):
                yield mk(dict(k="dn", lid=lid, p=fl >> 3 & 1, c=fl >> 2 & 1, b=fl >> 1 & 1, s=fl & 1, dt=None, data=rb(rng.choice([0, 3, 40]))))
        for off in [None, 0, 1, -1, 60, -60, 840, -840, 330]:
            yield mk(dict(k="dn", lid=5, p=0, c=1, b=0, s=0, dt=[rng.randint(1, 9999), rng.randint(1, 12), rng.randint(1, 28), rng.randint(0, 23),
                                                                   rng.randint(0, 59), rng.randint(0, 59), rng.randint(0, 99) * 10000, off], data=rb(6)))
        for h in range(100):
            # every hundredths value (the byte is computed from the microseconds)
            yield mk(dict(k="dn", lid=h, p=0, c=1, b=0, s=0, dt=[2021, 3, 4, 5, 6, 7, h * 10000, rng.choice([None, 0, 60])], data=rb(2)))
        for key in ("", rb(16), rb(32), rb(127), rb(128), rb(1)):
            for ra in (1, 0):
                for qos in (0, 1, 255):
                    yield mk(dict(k="ireq", key=key, ra=ra, qos=qos, ver=rng.choice([6, 0, 255]), conf=rng.getrandbits(17), maxpdu=rng.choice([0, 1200, 65535])))
        yield mk(dict(k="ireq", key="", ra=1, qos=0, qos_none=True, ver=6, conf=0x1F0B2, maxpdu=65535))
        # dedicated keys that contain what follows them in the APDU (the conformance tag 5F 1F 04, presence flags, the version)
        for key in ("5f1f04" + rb(13), rb(13) + "5f1f04", rb(6) + "5f1f04" + rb(7), "5f1f0400" + rb(28), "1f04" + rb(93), "0006" + rb(14), "01005f1f" + rb(12),
                    "5f1f04" * 5 + "00"):
            yield mk(dict(k="ireq", key=key, ra=rng.randint(0, 1), qos=0, ver=6, conf=rng.getrandbits(17), maxpdu=1200))
        for k in range(17):
            yield mk(dict(k="ireq", key="", ra=1, qos=0, ver=6, conf=1 << k, maxpdu=1200))
            yield mk(dict(k="ires", qos=0, ver=6, conf=1 << k, maxpdu=500))
        for qos in (0, 1, 7, 255):
            yield mk(dict(k="ires", qos=qos, ver=rng.choice([6, 5]), conf=rng.getrandbits(17), maxpdu=rng.choice([0, 500, 65535])))
        # selective access on GET (range descriptor): open finding D02 (decoder not implemented)
        yield mk(dict(k="grn", id=1, c=1, h=1, cls=7, obis="0100630100ff", idx=2,
                      sel={"iface": 8, "obis": [0, 0, 1, 0, 0, 255], "attr": 2, "index": 0, "from": [2020, 1, 1, 0, 0, 0], "to": [2020, 1, 6, 0, 0, 0]}))
        kinds = ["grn", "grx", "gresn", "grese", "gresb", "greslb", "gresle", "setreq", "setres", "actreq", "actres", "actresd", "actrese",
                 "exc", "ggc", "gireq", "gires", "ires", "ireq", "dn"]
        for _ in range(30000 if deep else 1500):
            k = rng.choice(kinds)
            L = rng.choice([0, 1, 2, rng.randint(0, 40), rng.randint(0, 400)])
            base = dict(k=k, **rinv())
            if k in ("grn", "setreq", "actreq"):
                base.update(rdesc())
            if k in ("gresn", "gresb", "greslb", "setreq", "actreq", "actresd", "ggc", "gireq", "gires"):
                base["data"] = rb(max(L, 1) if k in ("setreq", "actresd") else L)
            if k in ("grx", "gresb", "greslb", "gresle"):
                base["block"] = rng.choice(N + [rng.getrandbits(32)])
            if k in ("grese", "gresle", "actrese"):
                base["err"] = rng.choice(DAR)
            if k == "setres":
                base["result"] = rng.choice(DAR)
            if k in ("actres", "actresd", "actrese"):
                base["status"] = rng.choice(ARS)
            if k == "exc":
                sv = rng.randint(1, 6)
                base.update(state=rng.randint(1, 2), service=sv, counter=rng.getrandbits(32) if sv == 6 else 0)
            if k in ("ggc", "gireq", "gires"):
                base.update(sc=rng.choice([0x30, 0x31, 0x32, 0x10, 0x11, 0x20, 0x70, 0xB2]), ic=rng.choice(N + [rng.getrandbits(32)]))
            if k == "ggc":
                base["title"] = rb(8)
            if k == "ires":
                base.update(qos=rng.choice([0, 0, 3]), ver=6, conf=rng.getrandbits(17), maxpdu=rng.getrandbits(16))
            if k == "ireq":
                base.update(key=rng.choice(["", rb(16)]), ra=rng.randint(0, 1), qos=rng.choice([0, 0, 9]), ver=6, conf=rng.getrandbits(17), maxpdu=rng.getrandbits(16))
            if k == "dn":
                base.update(lid=rng.getrandbits(24), p=rng.randint(0, 1), c=rng.randint(0, 1), b=rng.randint(0, 1), s=rng.randint(0, 1), data=rb(L),
                            dt=rng.choice([None, [rng.randint(1, 9999), rng.randint(1, 12), rng.randint(1, 28), rng.randint(0, 23), rng.randint(0, 59),
                                                  rng.randint(0, 59), rng.randint(0, 99) * 10000, rng.choice([None, rng.randint(-840, 840)])]]))
            yield mk(base)


PROP = C01()
