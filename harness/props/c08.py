"""C08 - HLS-GMAC: the association becomes usable only after the meter proves key knowledge."""
from harness import connlib as cl
from harness import framework as fw
from harness.props.c03 import MT
from harness.props.c04 import PathK

MCH = "c1c2c3c4c5c6c7c8"


def oracle(trace, session):
    """on the implementation: the reply has the prescribed form (checked by Session.hls against a real GMAC), the
    association is READY after the meter's answer only if that answer was the valid one, and after any other answer
    a GET is refused."""
    answered = False
    valid_given = False
    sent_challenge = None
    for t in trace:
        op = t["op"]
        if op[0] == "hls" and t["result"].startswith("ok") and t["result"].endswith("junk"):
            return "C08 the client's HLS reply is not security-control || counter || GMAC(sc || AK || meter challenge) under its nonce"
        if op[0] == "recv" and op[1][0] == "aare" and t["result"].startswith("ok") and len(op) > 2 and not op[2]:
            sent_challenge = op[1][4]                 # the challenge as the meter put it on the wire
            # what the meter SENT (not what the library's decoder made of it): an accepted AARE naming HLS-GMAC starts the exchange
            if op[1][1] == "0" and op[1][2] == "5" and "AWAITING_ASSOCIATION_RESPONSE" in t["before"] and "st=READY" in t["after"]:
                return "C08 the association is READY straight after an AARE that selects HLS-GMAC"
        if op[0] == "hls" and t["result"].startswith("ok") and sent_challenge not in (None, "none"):
            over = t["result"].split(",")[-1]
            if over != sent_challenge:
                return f"C08 the client's HLS reply is a GMAC over {over}, the meter's challenge was {sent_challenge}"
        if op[0] == "recv" and len(op) > 3 and op[3] in ("valid-answer", "invalid-answer") and "AWAITING_HLS_CLIENT_CHALLENGE_RESULT" in t["before"]:
            answered = True
            ready = "st=READY" in t["after"]
            if op[3] == "invalid-answer" and ready:
                return f"C08 association became READY after an invalid answer: {op[1][:3]}"
            if op[3] == "valid-answer" and t["result"].startswith("ok") and not ready:
                return "C08 a valid proof did not make the association ready"
            valid_given = op[3] == "valid-answer" and ready
        if op[0] == "send" and op[1] in ("getReq", "setReq") and answered and not valid_given and t["result"].startswith("ok") \
                and "reassociated" not in op:
            return "C08 a service request was accepted although the meter never proved key knowledge"
        if op[0] == "send" and op[1] in ("getReq", "setReq", "rlrq") and t["result"].startswith("ok") and \
                ("SHOULD_SEND_HLS" in t["before"] or "AWAITING_HLS" in t["before"]):
            return "C08 a service request was accepted before the HLS exchange was complete"
    return None


class C08(fw.Prop):
    id = "C08"
    anchors = ["dlms_cosem/connection.py", "dlms_cosem/security.py", "dlms_cosem/state.py", "dlms_cosem/clients/dlms_client.py"]
    design_ref = "DESIGN.md §6 C08"
    rule = ("keys of suites 0/1/2, client and meter titles, challenges of 8, 9, 32, 63, 64 bytes, counters incl. 2^32-1; a valid meter answer and every "
            "single-bit alteration of it (thorough) or 60 sampled ones (quick); answers of wrong structure (not an octet string, too short, empty, extra "
            "bytes), wrong challenge, wrong key, wrong authentication key, wrong title, counter field altered, every non-success status with and without a "
            "valid proof, ACTION responses without data / with error; all orders of the four steps (service requests tried in the HLS sub-states); each "
            "followed by a GET; every step compared with the model; the harness also verifies the client's reply against a real GMAC; "
            "a second association on the same connection with another title / challenge answered with the first association's proof; meter challenges ending in blanks / zero bytes; answers whose counter field and tag disagree (zero field, transport counter); the reply must be over the challenge as sent; AAREs whose responder-acse-requirements bit string is written with 0 / 5 / 6 unused bits; oracle on what the meter sent: READY straight after an AARE selecting HLS-GMAC is a violation; non-trivial = distinct history")
    trusted_base = ["the symbolic-MAC abstraction (ideal MAC, DESIGN.md §5b)", "extract.py (HLS rows of the transition table)"]
    assumptions = ["the proof is the octet string security-control || counter || 12-byte MAC; other layouts are 'malformed'"]
    technique = "Lean 4 proof over the model with an ideal MAC: form of the client's reply, no service request in the HLS sub-states, ready ⇔ valid meter answer, otherwise not associated; differential correspondence with real GMAC on the harness side incl. every single-bit alteration"
    level_text = ("C08_reply_form / C08_no_service_before_proof / C08_ready_iff / C08_otherwise_dead / C08_dead_states_refuse_service: theorems over every configuration, state and answer "
                  "of the model of get_hls_reply / hls_response_valid / the HLS branch of next_event with an ideal MAC and the HLS rows of the regenerated table. Tied to the code by "
                  "differential runs with real GMAC values, all single-bit alterations of a valid answer and structurally different answers.")
    level_note = "Trusted: Lean kernel (+propext, Classical.choice, Quot.sound), ideal-MAC abstraction, extract.py, the harness."
    chunk = 2000

    def make_case(self, d):
        lines, impl = cl.run_history(d["cfg"], d["ops"])
        return fw.Case(lines, (lambda: impl(oracle)), "split", d, tags=(d.get("tag", "x"),))

    def to_awaiting(self, p):
        return [["send", "aarq", 1], p.resp("aare", (0, 5)), ["hls"], ["send", "actReq", 1]]

    def answer(self, p, hls, status=0, tag="invalid-answer", transform=None):
        ct, ic = p.seal(f"ard.{status}.{hls}")
        return ["recv", ["ggc", MT, str(p.cfg.suite + 48), str(ic), ct], transform, tag]

    def history_cases(self, rng, deep):
        """things that need more than one association on the connection, or a particular challenge."""
        for suite, klen in ((0, 16), (2, 32)):
            ek, ak = (1, klen), (2, klen)
            # a second association on the same connection with a meter that now names another title (and another challenge): the
            # answer recorded during the first association - valid then - is not the GMAC under the new nonce
            for t2, mch2 in ((MT[:-2] + "99", MCH), (MT, "d1d2d3d4d5d6d7d8e1"), (MT[:-2] + "77", "d1d2d3d4d5d6d7d8")):
                cfg = cl.Cfg(ek=ek, ak=ak, suite=suite, auth=5, cic=rng.choice([0, 400]), challenge="a1a2a3a4a5a6a7a8")
                p = PathK(cfg, ek, ak)
                first = [["send", "aarq", 1], p.resp("aare", (0, 5)), ["hls"], ["send", "actReq", 1]]
                first += [p.resp("actRespData", p.valid_proof(60))]
                first += [["send", "getReq", 1], p.resp("getRespNormal"), ["send", "rlrq", 1]]
                first += [p.resp("rlre")]
                q = PathK(cfg, ek, ak)
                q.mic, q.mch = p.mic, mch2
                aare2 = q.resp("aare", (0, 5))
                aare2[1][3] = t2                                         # (the AARE names t2; its ciphered part is under t2 as well)
                aare2[1][5] = aare2[1][5].replace(MT, t2)
                # the first answer again, re-sealed for the second association (fresh transport counter, under the title named now),
                # carrying the old proof
                old_proof = p.valid_proof(60)
                ic = q.next_ic()
                ct = f"seal:{ek[0]}:{ek[1]}:{t2}:{ic}:{suite + 48}:{ak[0]}:{ak[1]}:ard.0.{old_proof}"
                # (with the same title and the same client challenge the old proof is the GMAC asked for: valid again)
                replayed = ["recv", ["ggc", t2, str(suite + 48), str(ic), ct], None, "invalid-answer" if t2 != MT else "valid-answer"]
                yield self.make_case({"cfg": cfg.to_json(), "ops": first + [["send", "aarq", 1], aare2, ["hls"], ["send", "actReq", 1], replayed,
                                                                          ["send", "getReq", 1]], "expect": "invalid", "tag": "second-association-old-answer"})
            # meter challenges that end in blanks, zero bytes, or consist of them (8..64 bytes): the reply is over the challenge as sent
            for mch in ("c1c2c3c4c5c6c720", "c1c2c3c4c5c62020", "2020202020202020", "c1c2c3c4c5c6c700", "20" * 64, "c1" * 63 + "20", "c1c2c3c4c5c6c7c820",
                        "00" * 8, "c1c2c3c4c5c6c70a", "c1c2c3c4c5c6c7ff"):
                cfg = cl.Cfg(ek=ek, ak=ak, suite=suite, auth=5, cic=rng.choice([0, 9]))
                p = PathK(cfg, ek, ak)
                p.mch = mch
                ops = [["send", "aarq", 1], p.resp("aare", (0, 5)), ["hls"], ["send", "actReq", 1], p.resp("actRespData", p.valid_proof(31)) + ["valid-answer"], ["send", "getReq", 1]]
                yield self.make_case({"cfg": cfg.to_json(), "ops": ops, "expect": "valid", "tag": "challenge-bytes"})
            # an answer whose counter field is zero (or the transport counter) while its tag was made under another counter
            for field_ic, mac_ic in ((0, "transport"), (0, 77), ("transport", 77), (77, 0), (0, 1)):
                cfg = cl.Cfg(ek=ek, ak=ak, suite=suite, auth=5, cic=3)
                p = PathK(cfg, ek, ak)
                base = [["send", "aarq", 1], p.resp("aare", (0, 5)), ["hls"], ["send", "actReq", 1]]
                tic = p.mic + 1                                          # the counter the carrying APDU will have
                f_ic = tic if field_ic == "transport" else field_ic
                m_ic = tic if mac_ic == "transport" else mac_ic
                proof = (f"proof;{suite + 16};{f_ic};mac,{ek[0]},{ek[1]},{MT},{m_ic},{suite + 16},{ak[0]},{ak[1]},{cfg.challenge}")
                yield self.make_case({"cfg": cfg.to_json(), "ops": base + [p.resp("actRespData", proof) + ["invalid-answer"], ["send", "getReq", 1]], "expect": "invalid",
                                      "tag": "counter-field-vs-tag"})

    def cases(self, rng, tier, deep):
        yield from self.history_cases(rng, deep)
        # the AARE's responder-acse-requirements written with no / six unused bits instead of seven (same bit string): HLS-GMAC is
        # selected all the same, nothing can be sent before the meter's answer
        for alt in ("0080", "0680", "0580"):
            for suite, klen in ((0, 16), (2, 32)):
                ek, ak = (1, klen), (2, klen)
                cfg = cl.Cfg(ek=ek, ak=ak, suite=suite, auth=5, cic=4)
                p = PathK(cfg, ek, ak)
                aare = p.resp("aare", (0, 5))
                aare[1] = aare[1] + [alt]
                yield self.make_case({"cfg": cfg.to_json(), "ops": [["send", "aarq", 1], aare, ["send", "getReq", 1], ["send", "setReq", 1], ["hls"],
                                                                   ["send", "actReq", 1], self.answer(p, p.valid_proof(9), 0, "valid-answer"),
                                                                   ["send", "getReq", 1]], "tag": "acse-requirements-encoding"})
        for suite, klen in ((0, 16), (1, 16), (2, 32)):
            for chal_len in (8, 9, 32, 63, 64):
                for cic in ((0, 2 ** 32 - 3) if chal_len == 8 else (rng.choice([0, 5, 1000]),)):
                    ek, ak = (1, klen), (2, klen)
                    chal = bytes((i * 3 + chal_len) % 256 for i in range(chal_len)).hex()
                    cfg = cl.Cfg(ek=ek, ak=ak, suite=suite, auth=5, cic=cic, challenge=chal, dedicated=(chal_len + suite) % 3)

                    def P():
                        return PathK(cfg, ek, ak)
                    sc = suite + 16
                    # valid answer
                    p = P()
                    yield self.make_case({"cfg": cfg.to_json(), "ops": self.to_awaiting(p) + [self.answer(p, p.valid_proof(9), 0, "valid-answer"),
                                                                                                ["send", "getReq", 1]], "tag": "valid"})
                    variants = []
                    vp = P().valid_proof(9)
                    for m in ("mal0", "mal1", "mal2", "mal3", "mal4", "mal5"):
                        variants.append((m, 0))
                    variants.append((f"proof;{sc};9;junk", 0))
                    # answers whose security-control byte does not even claim authentication, with the tag AES-GCM gives for
                    # no associated data at all under the encryption key (needs no authentication key, no challenge)
                    for fsc in (0, suite, 0x20 + suite, 0x40 + suite):
                        variants.append((f"proof;{fsc};9;emptyaad,1,{klen},{MT},9", 0))
                    variants.append((f"proof;{sc};10;mac,1,{klen},{MT},9,{sc},2,{klen},{chal}", 0))           # counter field altered
                    variants.append((f"proof;{sc + 64};9;mac,1,{klen},{MT},9,{sc},2,{klen},{chal}", 0))       # security control altered
                    # every single-bit alteration of the proof's own security-control byte and counter field (the proof is inside the
                    # ciphered answer: these are alterations made before it was sealed), the tag being that of the genuine values
                    for bit in range(8):
                        if (sc ^ (1 << bit), 0) != (sc + 64, 0):
                            variants.append((f"proof;{sc ^ (1 << bit)};9;mac,1,{klen},{MT},9,{sc},2,{klen},{chal}", 0))
                    for bit in (range(32) if deep else (0, 3, 8, 31)):
                        variants.append((f"proof;{sc};{9 ^ (1 << bit)};mac,1,{klen},{MT},9,{sc},2,{klen},{chal}", 0))
                    variants.append((f"proof;{sc};9;mac,3,{klen},{MT},9,{sc},2,{klen},{chal}", 0))            # wrong key
                    variants.append((f"proof;{sc};9;mac,1,{klen},{MT},9,{sc},4,{klen},{chal}", 0))            # wrong authentication key
                    variants.append((f"proof;{sc};9;mac,1,{klen},5858580000000009,9,{sc},2,{klen},{chal}", 0))  # wrong title
                    variants.append((f"proof;{sc};9;mac,1,{klen},{MT},9,{sc},2,{klen},{'ee' * chal_len}", 0))  # wrong challenge
                    for status in (1, 2, 3, 4, 9, 11, 12, 13, 14, 15, 16, 250):
                        variants.append((vp, status))
                    for hls, status in variants:
                        p = P()
                        yield self.make_case({"cfg": cfg.to_json(), "ops": self.to_awaiting(p) + [self.answer(p, hls, status), ["send", "getReq", 1],
                                                                                                    ["send", "setReq", 1]], "tag": "invalid"})
                    for k in ("actResp", "actRespErr", "getRespNormal", "exceptionResp"):
                        p = P()
                        yield self.make_case({"cfg": cfg.to_json(), "ops": self.to_awaiting(p) + [p.resp(k) + ["invalid-answer"], ["send", "getReq", 1]],
                                              "tag": "other-apdu"})
                    # the meter's challenge may be 8..64 bytes as well
                    for mlen in ((8, 9, 63, 64) if chal_len == 8 else (rng.choice([16, 33, 64]),)):
                        p = P()
                        p.mch = bytes((i * 7 + mlen) % 256 for i in range(mlen)).hex()
                        yield self.make_case({"cfg": cfg.to_json(), "ops": self.to_awaiting(p) + [self.answer(p, p.valid_proof(9), 0, "valid-answer"),
                                                                                                    ["send", "getReq", 1]], "tag": "meter-challenge-length"})
                        p = P()
                        p.mch = bytes((i * 7 + mlen) % 256 for i in range(mlen)).hex()
                        yield self.make_case({"cfg": cfg.to_json(), "ops": [["send", "aarq", 1], p.resp("aare", (0, 5)), ["send", "getReq", 1], ["hls"]],
                                              "tag": "meter-challenge-length"})
                    if chal_len == 8:
                        # the meter selects HLS-GMAC although the client was configured with another mechanism (or none)
                        for auth, pw in ((None, None), (1, "3132333435363738"), (2, None)):
                            c2 = cl.Cfg(ek=ek, ak=ak, suite=suite, auth=auth, password=pw, cic=cic, challenge=chal)
                            p = PathK(c2, ek, ak)
                            yield self.make_case({"cfg": c2.to_json(), "ops": [["send", "aarq", 1], p.resp("aare", (0, 5)), ["send", "getReq", 1],
                                                                               ["send", "setReq", 1]], "tag": "meter-selects-hls"})
                    if chal_len == 8:
                        # single-bit alterations of the valid answer
                        p = P()
                        base = self.to_awaiting(p)
                        good = self.answer(p, p.valid_proof(9), 0, "invalid-answer")
                        nbits = len(cl.Meter().input_bytes(good[1])) * 8
                        bits = range(nbits) if deep else rng.sample(range(nbits), 60)
                        for b in bits:
                            # bytes 2..9 (system title) and byte 11 (security control) of the general-glo-ciphering
                            # envelope are not covered by the tag; the connection uses the title remembered from the
                            # AARE and its own security control, so the answer still carries the GMAC C08 asks for -
                            # these are compared with the model only
                            tagb = "envelope" if 16 <= b < 80 or 88 <= b < 96 else "invalid-answer"
                            yield self.make_case({"cfg": cfg.to_json(), "ops": base + [[good[0], good[1], ["flip", b], tagb],
                                                                                      ["send", "getReq", 1]], "tag": "bitflip"})
                        # orders of the four steps
                        for order in (["hls", "hls"], [["send", "getReq", 1]], [["send", "actReq", 1], ["hls"]], [["send", "rlrq", 1]],
                                      [["send", "actReq", 1], ["send", "getReq", 1]]):
                            p = P()
                            ops = [["send", "aarq", 1], p.resp("aare", (0, 5))]
                            for o in order:
                                ops.append(["hls"] if o == "hls" else o)
                            ops += [self.answer(p, p.valid_proof(9), 0, "valid-answer"), ["send", "getReq", 1]]
                            yield self.make_case({"cfg": cfg.to_json(), "ops": ops, "tag": "orders"})


PROP = C08()
