"""C04 - with keys set, every APDU sent is ciphered; plaintext answers are refused."""
from harness import connlib as cl
from harness import framework as fw
from harness.props.c03 import Path, configs, STATES, MT, EK, AK


def oracle_factory(cfg_json):
    """on the implementation: every successful send is a ciphered APDU whose content decrypts under the configured
    keys to exactly the plain encoding (this is what `seal:` in the description means), the plain encoding does not
    occur in the output, and a plain service response is never delivered."""
    def oracle(trace, session):
        # walk sends in order
        sends = [x for x in trace if x["op"][0] == "send" and x["result"].startswith("ok")]
        for x, (kind, plain, wire) in zip(sends, session.sent):
            descr = x["result"]
            if kind in ("aarq", "rlrq"):
                if x["op"][2] and "acseglo" not in descr:
                    return f"C04 {kind} left the connection without ciphered initiate parameters: {descr[:80]}"
                if "seal:" not in descr and x["op"][2]:
                    return f"C04 {kind} user-information does not decrypt to the initiate request: {descr[:80]}"
            else:
                if not descr.startswith("ok ggc") or "seal:" not in descr:
                    return f"C04 {kind} was not sent as general-glo-ciphering sealing its plain encoding: {descr[:80]}"
                if len(plain) >= 4 and bytes(plain) in bytes(wire):
                    return f"C04 plain encoding of {kind} occurs in the output"
        for x in trace:
            if x["op"][0] == "recv" and x["result"].startswith("ok") and x["op"][1][0] in ("s", "ard"):
                return f"C04 an unciphered {x['op'][1]} was delivered"
            if x["op"][0] == "recv" and x["result"].startswith("ok") and x["op"][1][0] == "ggc" and str(x["op"][1][4]).startswith("plain:"):
                return f"C04 an unciphered APDU inside a general-glo-ciphering envelope was delivered: {x['op'][1]}"
        return None
    return oracle


class C04(fw.Prop):
    id = "C04"
    anchors = ["dlms_cosem/connection.py", "dlms_cosem/security.py", "dlms_cosem/protocol/xdlms/general_global_cipher.py",
               "dlms_cosem/protocol/xdlms/initiate_request.py"]
    design_ref = "DESIGN.md §6 C04"
    rule = ("connections with both keys, suites 0/1/2 (AES-128/AES-256), starting counters 0, 1, 2^32-2: from every reachable protocol state every "
            "sendable kind (AARQ both from get_aarq() and built by the caller with a plain InitiateRequest) with payload lengths 0..300 and around 64 KiB (sends refused by the state machine must emit nothing), incoming plain APDUs of "
            "every kind in every state; each step compared with the model; in addition the harness, holding the keys, parses every output, checks title, "
            "security control, counter, decrypts and compares with the plain encoding, and searches the raw output for the plain encoding; "
            "sessions under negotiated conformances 0 / all-ones / random with request field variants, the dedicated-ciphering option, a dedicated key announced in a caller-built AARQ; what was sent is opened with an AES-GCM written independently of the library (harness/refcrypto.py); unprotected encodings placed inside general-glo envelopes claiming no / partial / full protection; every ciphered-content length 95..125 (80..150 thorough); non-trivial = distinct history")
    trusted_base = ["the symbolic-cryptography abstraction (DESIGN.md §5b)", "C01 for the framing of general-glo-ciphering with content >= 128 bytes"]
    assumptions = ["the connection is configured with both keys, of the length the suite demands, and an 8-byte system title"]
    technique = "Lean 4 proof over the model of send/protect/encrypt/unprotect with symbolic sealing (output = general-glo(seal(plain)) in every state; plain answers refused) + differential correspondence + decrypt-and-compare oracle on the implementation"
    level_text = ("C04_send_service / C04_send_acse / C04_never_plain / C04_recv_plain_refused: for every state, kind and configuration with both keys the model of send emits exactly "
                  "general-glo-ciphering(title, 0x30+suite, counter, seal(plain)) (glo-initiate inside AARQ/RLRQ) and nothing in the clear; unciphered service responses are refused in "
                  "every state. Tied to the code by differential runs and by decrypting every emitted APDU with the configured keys.")
    level_note = "Trusted: Lean kernel (+propext, Classical.choice, Quot.sound), ideal-AEAD abstraction, C01, the harness."
    chunk = 2000

    def ctor_case(self, d):
        """clients built through the alternative constructors protect with exactly the configured parameters: the first APDU
        a client sends (the AARQ) carries the configured title and its initiate request opens under the configured keys,
        suite and counter."""
        def impl():
            import serial
            from dlms_cosem import enumerations as en, security
            from dlms_cosem.clients.dlms_client import DlmsClient
            from dlms_cosem.protocol import acse, xdlms
            klen = 32 if d["suite"] == 2 else 16
            ek, ak, title = cl.key_bytes(1, klen), cl.key_bytes(2, klen), bytes.fromhex(d["title"])
            kw = dict(client_logical_address=16, server_logical_address=1, encryption_key=ek, authentication_key=ak, security_suite=d["suite"],
                      client_system_title=title, client_initial_invocation_counter=d["cic"], meter_initial_invocation_counter=d["mic"],
                      authentication_method=en.AuthenticationMechanism.HLS_GMAC, max_pdu_size=d["maxpdu"])
            real = serial.Serial
            serial.Serial = lambda *a, **k: None
            try:
                if d["via"] == "tcp":
                    c = DlmsClient.with_tcp_transport(host="localhost", port=4059, **kw)
                elif d["via"] == "serial":
                    c = DlmsClient.with_serial_hdlc_transport(serial_port="x", server_physical_address=17, **kw)
                else:
                    c = DlmsClient(io_interface=None, **kw)
            finally:
                serial.Serial = real
            wire = c.dlms_connection.send(c.dlms_connection.get_aarq())
            a = acse.ApplicationAssociationRequest.from_bytes(bytes(wire))
            g = a.user_information.content
            problems = []
            if bytes(a.system_title or b"") != title:
                problems.append(f"title-in-aarq:{bytes(a.system_title or b'').hex()}")
            if not isinstance(g, xdlms.GlobalCipherInitiateRequest):
                problems.append("initiate-request-not-ciphered")
            else:
                if g.security_control.to_bytes()[0] != 0x30 + d["suite"] or g.invocation_counter != d["cic"]:
                    problems.append(f"sc/counter:{g.security_control.to_bytes()[0]}/{g.invocation_counter}")
                try:
                    plain = security.decrypt(g.security_control, title, d["cic"], ek, g.ciphered_text, ak)
                    if xdlms.InitiateRequest.from_bytes(bytes(plain)).client_max_receive_pdu_size != d["maxpdu"]:
                        problems.append("max-pdu-size")
                except Exception as e:  # noqa
                    problems.append("does-not-open-under-the-configured-parameters:" + type(e).__name__)
            if c.dlms_connection.meter_invocation_counter != d["mic"]:
                problems.append("meter-counter")
            return "ok ctor" + ("" if not problems else " " + ",".join(problems))
        return fw.Case("echo ctor", impl, "prop", d, tags=("constructor-" + d["via"],))

    def make_case(self, d):
        if d.get("via"):
            return self.ctor_case(d)
        lines, impl = cl.run_history(d["cfg"], d["ops"])
        orc = oracle_factory(d["cfg"])
        return fw.Case(lines, (lambda: impl(orc)), "split", d, tags=(d.get("tag", "x"), f"suite{d['cfg']['suite']}"))

    def cases(self, rng, tier, deep):
        sizes = [0, 1, 100, 122, 123, 127, 128, 250, 251, 256, 300] + ([65535, 65536] if deep else [65536])
        for suite, klen in ((0, 16), (1, 16), (2, 32)):
            for cic in (0, 1, 2 ** 32 - 2):
                ek, ak = (1, klen), (2, klen)
                for st in STATES:
                    cfg = cl.Cfg(ek=ek, ak=ak, suite=suite, auth=5, cic=cic)
                    p = PathK(cfg, ek, ak)
                    base = p.to_state(st)
                    if base is None:
                        continue
                    sends = [["send", k, 1] for k in cl.REQUESTS] + [["send", "rlrq", 0], ["send", "dataNotif", 1], ["send", "getRespNormal", 1]]
                    if not deep and (suite, cic) not in ((0, 0), (2, 2 ** 32 - 2)):
                        sends = sends[:3]
                    # an AARQ built by the caller (application context without ciphering, plain InitiateRequest)
                    sends.append(["send", "aarq", 2])
                    for sop in sends:
                        q = PathK(cfg, ek, ak)
                        b = q.to_state(st)
                        op = list(sop)
                        if op[1] in ("setReq", "actReq"):
                            op.append(rng.choice(sizes))
                        yield self.make_case({"cfg": cfg.to_json(), "ops": b + [op, ["send", "getReq", 1]], "tag": "send"})
                    if (suite, cic) == (0, 0) or deep:
                        for k in cl.RESPONSES:
                            if k in ("aare", "rlre"):
                                continue
                            q = PathK(cfg, ek, ak)
                            b = q.to_state(st)
                            plain_in = ["recv", ["ard", "0", "mal1"], None] if k == "actRespData" else ["recv", ["s", k], None]
                            yield self.make_case({"cfg": cfg.to_json(), "ops": b + [plain_in], "tag": "plain-answer"})
                            # ... and the same unprotected encoding put where the ciphertext belongs, under an envelope whose
                            # security-control byte claims no / partial / full protection
                            inner = "ard.0.mal1" if k == "actRespData" else f"s.{k}"
                            for env in (0, 16, 32, 48, 64):
                                q = PathK(cfg, ek, ak)
                                b = q.to_state(st)
                                env_in = ["recv", ["ggc", MT, str(env + (suite if env else 0)), str(q.next_ic() + 3), f"plain:{inner}"], None]
                                yield self.make_case({"cfg": cfg.to_json(), "ops": b + [env_in, ["send", "getReq", 1]], "tag": "plain-answer-in-envelope"})
        # whatever conformance the meter negotiates, whatever the field values of the request, with and without the
        # dedicated-ciphering option and a dedicated key announced by the caller: the content is the plain encoding of what the
        # caller handed over, under the configured global keys
        nconf = len(cl.CONF_NAMES)
        reqs = ["getReq", "getReq@low+id9", "setReq@unconf", "actReq@id3", "getReq@sel", "setReq@low", "actReq@low+unconf"]
        for suite, klen in ((0, 16), (2, 32)):
            for conf in [0, (1 << nconf) - 1] + [rng.getrandbits(nconf) for _ in range(4 if deep else 1)]:
                for ded in (0, 1, 2):
                    for aarq in (1, 2, 3):
                        ek, ak = (1, klen), (2, klen)
                        cfg = cl.Cfg(ek=ek, ak=ak, suite=suite, auth=None, cic=rng.choice([0, 5, 2 ** 32 - 20]), dedicated=ded)
                        q = PathK(cfg, ek, ak)
                        q.name, q.conf = "ciphered", conf
                        ops = [["send", "aarq", aarq], q.resp("aare", (0, None))]
                        for r in rng.sample(reqs, 3):
                            ops += [["send", r, 1], q.resp({"g": "getRespNormal", "s": "setResp", "a": "actResp"}[r[0]])]
                        ops += [["send", "getReq", 1], q.resp("getRespBlock"), ["send", "getNext@low", 1], q.resp("getRespLastBlock"), ["send", "rlrq", 1]]
                        yield self.make_case({"cfg": cfg.to_json(), "ops": ops, "tag": "conformance-fields-dedicated"})
        for via in ("direct", "tcp", "serial"):
            for suite in (0, 1, 2):
                yield self.make_case({"via": via, "suite": suite, "title": "48455741" + "%08x" % rng.getrandbits(32), "cic": rng.choice([0, 7, 2 ** 31]),
                                      "mic": rng.choice([0, 9]), "maxpdu": rng.choice([500, 65535])})
        for size in (range(80, 150) if deep else range(95, 125)):
            # (every ciphered-content length around 128: the length prefix changes form there)
            cfg = cl.Cfg(ek=(1, 16), ak=(2, 16), pre=True, state="READY", meter_title=MT, cic=5)
            yield self.make_case({"cfg": cfg.to_json(), "ops": [["send", "setReq", 1, size]], "tag": "payload-size-sweep"})
            yield self.make_case({"cfg": cfg.to_json(), "ops": [["send", "actReq", 1, size]], "tag": "payload-size-sweep"})
        for size in sizes:
            cfg = cl.Cfg(ek=(1, 16), ak=(2, 16), pre=True, state="READY", meter_title=MT, cic=5)
            yield self.make_case({"cfg": cfg.to_json(), "ops": [["send", "setReq", 1, size]], "tag": "payload-size"})
            yield self.make_case({"cfg": cfg.to_json(), "ops": [["send", "actReq", 1, size]], "tag": "payload-size"})


class PathK(Path):
    """Path with explicit keys (suite 2 needs 32-byte keys)."""

    def __init__(self, cfg, ek, ak):
        super().__init__("hls", cfg)
        self.ek, self.ak = ek, ak

    def seal(self, inner, ic=None):
        ic = self.next_ic() if ic is None else ic
        return f"seal:{self.ek[0]}:{self.ek[1]}:{MT}:{ic}:{self.cfg.suite + 48}:{self.ak[0]}:{self.ak[1]}:{inner}", ic

    def valid_proof(self, ic=77):
        return (f"proof;{self.cfg.suite + 16};{ic};mac,{self.ek[0]},{self.ek[1]},{MT},{ic},{self.cfg.suite + 16},{self.ak[0]},{self.ak[1]},"
                f"{self.cfg.challenge}")


PROP = C04()
