"""C03 - association state machine admits exactly the legal request/response sequences."""
from harness import connlib as cl
from harness import framework as fw

MT = "4d4d4d0000000001"          # meter system title
MCH = "c1c2c3c4c5c6c7c8"         # meter-to-client challenge
EK, AK = (1, 16), (2, 16)


def configs():
    return {
        "plain": cl.Cfg(),
        "lls": cl.Cfg(auth=1, password="3132333435363738"),
        "hls": cl.Cfg(ek=EK, ak=AK, auth=5, cic=100),
        "pre": cl.Cfg(pre=True, state="READY"),
        "pre-ciphered": cl.Cfg(pre=True, state="READY", ek=EK, ak=AK, meter_title=MT, cic=7, mic=3),
    }


class Path:
    """builds histories for one configuration, keeping track of the meter's invocation counter."""

    def __init__(self, name, cfg):
        self.name, self.cfg = name, cfg
        self.ciphered = cfg.ek is not None
        self.mic = cfg.mic + 10
        self.mch = MCH
        self.maxpdu = 500                # server-max-receive-pdu-size the meter announces
        self.conf = 127                  # negotiated conformance the meter announces (mask over c20.CONF_NAMES)

    def seal(self, inner, ic=None):
        ic = self.next_ic() if ic is None else ic
        return f"seal:{EK[0]}:{EK[1]}:{MT}:{ic}:{self.cfg.suite + 48}:{AK[0]}:{AK[1]}:{inner}", ic

    def next_ic(self):
        self.mic += 1
        return self.mic

    def resp(self, kind, extra=None):
        """the meter's APDU of a response kind as the connection has to receive it in this configuration."""
        if kind == "aare":
            res, mech = extra or (0, None)
            title = MT if self.ciphered or mech == 5 else None
            chal = self.mch if mech == 5 else None
            if self.ciphered:
                ct, ic = self.seal(f"init.{self.conf}.{self.maxpdu}")
                ui = f"glo:{self.cfg.suite + 48}:{ic}:{ct}"
            else:
                ui = f"init:{self.conf}:{self.maxpdu}"
            return ["recv", ["aare", str(res), "none" if mech is None else str(mech), title or "none", chal or "none", ui], None]
        if kind == "rlre":
            if self.ciphered:
                ct, ic = self.seal("init.127.500")
                return ["recv", ["rlre", f"glo:{self.cfg.suite + 48}:{ic}:{ct}"], None]
            return ["recv", ["rlre", "absent"], None]
        if kind == "actRespData":
            hls = extra or "mal1"
            status = 0
            if isinstance(hls, tuple):          # (action result status, data)
                status, hls = hls
            if self.ciphered:
                ct, ic = self.seal(f"ard.{status}.{hls}")
                return ["recv", ["ggc", MT, str(self.cfg.suite + 48), str(ic), ct], None]
            return ["recv", ["ard", str(status), hls], None]
        if self.ciphered:
            ct, ic = self.seal(f"s.{kind}")
            return ["recv", ["ggc", MT, str(self.cfg.suite + 48), str(ic), ct], None]
        return ["recv", ["s", kind], None]

    def valid_proof(self, ic=77):
        return (f"proof;{self.cfg.suite + 16};{ic};mac,{EK[0]},{EK[1]},{MT},{ic},{self.cfg.suite + 16},{AK[0]},{AK[1]},"
                f"{self.cfg.challenge}")

    def to_state(self, state):
        """canonical shortest history from the initial state of the configuration to `state` (None if unreachable)."""
        pre = self.cfg.pre
        mech = 5 if self.name == "hls" else (1 if self.name == "lls" else None)
        assoc = [] if pre else [["send", "aarq", 1], self.resp("aare", (0, mech))]
        if self.name == "hls":
            ready = assoc + [["hls"], ["send", "actReq", 1], self.resp("actRespData", self.valid_proof())]
        else:
            ready = assoc
        if state == "NO_ASSOCIATION":
            return None if pre else []
        if state == "AWAITING_ASSOCIATION_RESPONSE":
            return None if pre else [["send", "aarq", 1]]
        if state == "SHOULD_SEND_HLS_SEVER_CHALLENGE_RESULT":
            if pre:
                return None
            return [["send", "aarq", 1], self.resp("aare", (0, 5))]
        if state == "AWAITING_HLS_CLIENT_CHALLENGE_RESULT":
            if pre:
                return None
            return [["send", "aarq", 1], self.resp("aare", (0, 5))] + ([["hls"]] if self.ciphered else []) + [["send", "actReq", 1]]
        if state == "READY":
            return ready
        if state == "AWAITING_RELEASE_RESPONSE":
            return None if pre else ready + [["send", "rlrq", 1]]
        if state == "AWAITING_GET_RESPONSE":
            return ready + [["send", "getReq", 1]]
        if state == "SHOULD_ACK_LAST_GET_BLOCK":
            return ready + [["send", "getReq", 1], self.resp("getRespBlock")]
        if state == "AWAITING_GET_BLOCK_RESPONSE":
            return ready + [["send", "getReq", 1], self.resp("getRespBlock"), ["send", "getNext", 1]]
        if state == "AWAITING_SET_RESPONSE":
            return ready + [["send", "setReq", 1]]
        if state == "AWAITING_ACTION_RESPONSE":
            return ready + [["send", "actReq", 1]]
        raise fw.MachineryError(state)


STATES = ["NO_ASSOCIATION", "AWAITING_ASSOCIATION_RESPONSE", "READY", "AWAITING_RELEASE_RESPONSE", "AWAITING_ACTION_RESPONSE",
          "AWAITING_GET_RESPONSE", "AWAITING_GET_BLOCK_RESPONSE", "SHOULD_ACK_LAST_GET_BLOCK", "AWAITING_SET_RESPONSE",
          "SHOULD_SEND_HLS_SEVER_CHALLENGE_RESULT", "AWAITING_HLS_CLIENT_CHALLENGE_RESULT"]


class C03(fw.Prop):
    id = "C03"
    anchors = ["dlms_cosem/state.py", "dlms_cosem/connection.py", "dlms_cosem/exceptions.py"]
    design_ref = "DESIGN.md §6 C03"
    exhaustive = True
    rule = ("exhaustive: for the plain, LLS, HLS-GMAC/ciphered and pre-established (plain and ciphered) configurations, from every protocol state "
            "reachable on the real connection object (reached by a canonical shortest history), every event of the alphabet in both directions "
            "(6 request kinds; AARE accepted / rejected-permanent / rejected-transient / accepted-with-HLS-GMAC, RLRE, the five GET responses, SET "
            "response, three ACTION responses incl. valid and invalid HLS proofs, exception-response, data-notification, confirmed-service-error, "
            "initiate-response), each followed by a legal continuation; then random histories of up to 200 steps (70 % legal); the left part of every "
            "line is the verdict of the abstract procedure Spec.Assoc (accepted/refused, phase), the rest the model of the code; events outside the "
            "alphabet (a response kind sent, a request kind received) are compared with the model only; field variants of every kind (invoke-id, service class unconfirmed, priority, selective-access descriptor, responses whose invoke-id is not the request's) from every state under negotiated conformances 0, all-ones, 127 and random; non-trivial = distinct history")
    trusted_base = ["extract.py prints DLMS_STATE_TRANSITIONS as it is in the running code", "Spec.Assoc is my reading of the client association procedure",
                    "the harness plays the meter with real AES-GCM and describes each decoded APDU symbolically (connlib)"]
    assumptions = ["the transition table is direction-blind; sends of response kinds and receipts of request kinds are outside C03's alphabet"]
    technique = "Lean 4 proof: the model of DlmsConnection.send/next_event over the extracted transition table refines the abstract client procedure step by step and over every history (induction), for all configurations; exhaustive differential correspondence on the reachable state graph of the real object"
    level_text = ("C03_send_refines / C03_deliver_refines / C03_history_refines and corollaries (service requests only when associated and idle, one outstanding request, "
                  "pre-established refuses ACSE in both directions): theorems about the model of the connection run with the transition table regenerated from the code, "
                  "for histories of any length. Tied to connection.py/state.py by exhaustive (state x event) comparison on the real object in five configurations.")
    level_note = "Trusted: Lean kernel (+propext, Classical.choice, Quot.sound), extract.py, Spec.Assoc, the symbolic-cryptography abstraction (DESIGN.md §5b), the harness."
    chunk = 2000

    def make_case(self, d):
        lines, impl = cl.run_history(d["cfg"], d["ops"])
        return fw.Case(lines, impl, "split", d, tags=(d.get("tag", "history"), d.get("cfgname", "?")))

    def probes(self, p):
        out = [["send", k, 1] for k in cl.REQUESTS] + [["send", "rlrq", 0]]
        for res, mech in ((0, None), (1, None), (2, None), (0, 5), (0, 1), (1, 5)):
            out.append(p.resp("aare", (res, mech)))
        # the same results under other diagnostics (authentication-required, authentication-failure, no-reason-given, ...)
        for res, mech in ((1, None), (2, None), (1, 5), (2, 5), (0, None), (0, 5)):
            for diag in (14, 13, 1, 11):
                a = p.resp("aare", (res, mech))
                a[1] = a[1] + [f"diag{diag}"]
                out.append(a)
        # an AARE whose user-information is not an initiate response (a meter that rejects sends a confirmed-service-error)
        for res in (0, 1, 2):
            out.append(["recv", ["aare", str(res), "none", MT if p.ciphered else "none", "none", "other"], None])
        for k in ["rlre", "getRespNormal", "getRespErr", "getRespBlock", "getRespLastBlock", "getRespLastBlockErr", "setResp", "actResp",
                  "actRespErr", "exceptionResp", "dataNotif", "confirmedServiceErr", "initiateResp"]:
            out.append(p.resp(k))
        out.append(p.resp("actRespData", "mal1"))
        out.append(p.resp("actRespData", p.valid_proof(78)))
        # a meter that refuses reply_to_HLS but still returns data: the status decides, whatever the data proves
        for status in (1, 3, 250):
            out.append(p.resp("actRespData", (status, p.valid_proof(79))))
        out.append(p.resp("actRespData", (3, "mal1")))
        # variants the state machine must treat like their kind: last-block TRUE written as 0xFF / 0x80, an exception-response
        # carrying an invocation counter, an AARE announcing an unusually small (or no) maximum PDU size
        for k in ["getRespLastBlockFF", "getRespLastBlock80", "getRespLastBlockErrFF", "exceptionRespIc", "exceptionRespIcBig",
                  "getRespBlockEmpty", "getRespLastBlockEmpty"]:
            out.append(p.resp(k))
        for size in (0, 5, 11, 12):
            p.maxpdu = size
            out.append(p.resp("aare", (0, None)))
            out.append(p.resp("aare", (1, None)))
        p.maxpdu = 500
        # outside the alphabet: a response kind sent, a request kind received
        out += [["send", "dataNotif", 1], ["send", "getRespNormal", 1], ["send", "exceptionResp", 1]]
        if not p.ciphered:
            out += [["recv", ["s", "getReq"], None], ["recv", ["s", "actReq"], None]]
        return out

    def cases(self, rng, tier, deep):
        for name, cfg in configs().items():
            for st in STATES:
                p = cl_path = Path(name, cfg)
                base = p.to_state(st)
                if base is None:
                    continue
                probes = self.probes(p)
                for probe in probes:
                    # rebuild the path per probe so that invocation counters are fresh and increasing
                    q = Path(name, cfg)
                    b = q.to_state(st)
                    pr = probe
                    if probe[0] == "recv":
                        # regenerate the probe with q's counters
                        idx = probes.index(probe)
                        pr = self.probes(q)[idx]
                    cont = [["send", "getReq", 1], ["send", "aarq", 1]]
                    yield self.make_case({"cfg": cfg.to_json(), "cfgname": name, "ops": b + [pr] + cont, "tag": "exhaustive-probe"})
        # the state machine looks at the kind of an event only: the same verdicts for other field values of a kind (invoke-id,
        # service class, priority, a selective-access descriptor, a response whose invoke-id is not the request's) and whatever
        # conformance was negotiated
        nconf = len(cl.CONF_NAMES)
        sends = ["getReq@unconf", "setReq@unconf+id7", "actReq@unconf+low", "getNext@unconf", "getReq@sel", "getReq@id9+low", "setReq@id0",
                 "actReq@id12", "getReq@sel+unconf"]
        recvs = ["getRespNormal@id9", "getRespBlock@id3+low", "getRespLastBlock@id15", "setResp@id6", "actResp@id2", "getRespErr@id11+unconf",
                 "actRespErr@id4", "getRespLastBlockErr@id8"]
        for name, cfg0 in configs().items():
            for conf in [0, (1 << nconf) - 1, 127] + [rng.getrandbits(nconf) for _ in range(3 if deep else 1)]:
                for st in STATES:
                    cfg = cl.Cfg.from_json(cfg0.to_json())
                    if cfg.pre:
                        cfg.conf = conf

                    def path():
                        q = Path(name, cfg)
                        q.conf = conf
                        return q
                    if path().to_state(st) is None:
                        continue
                    for i in range(len(sends) + len(recvs)):
                        q = path()
                        b = q.to_state(st)
                        pr = ["send", sends[i], 1] if i < len(sends) else q.resp(recvs[i - len(sends)])
                        cont = [["send", "getReq", 1], q.resp("getRespNormal"), ["send", "aarq", 1]]
                        yield self.make_case({"cfg": cfg.to_json(), "cfgname": name, "ops": b + [pr] + cont, "tag": "field-variants"})
        n = 1500 if deep else 60
        for _ in range(n):
            name = rng.choice(list(configs()))
            cfg = configs()[name]
            p = Path(name, cfg)
            ops = list(p.to_state(rng.choice([s for s in STATES if p.to_state(s) is not None])))
            p2 = Path(name, cfg)
            ops = []
            for _ in range(rng.randint(5, 200 if deep else 60)):
                r = rng.random()
                if r < 0.45:
                    ops.append(["send", rng.choice(cl.REQUESTS), 1])
                elif r < 0.5:
                    ops.append(["hls"])
                else:
                    k = rng.choice(["aare", "rlre", "getRespNormal", "getRespErr", "getRespBlock", "getRespLastBlock", "getRespLastBlockErr",
                                    "setResp", "actResp", "actRespErr", "actRespData", "exceptionResp", "dataNotif"])
                    extra = None
                    if k == "aare":
                        extra = rng.choice([(0, None), (0, 5), (1, None), (0, 1)])
                    if k == "actRespData":
                        extra = rng.choice(["mal1", p2.valid_proof(rng.randint(1, 500)), (rng.choice([1, 3, 12]), p2.valid_proof(rng.randint(1, 500)))])
                    ops.append(p2.resp(k, extra))
            yield self.make_case({"cfg": cfg.to_json(), "cfgname": name, "ops": ops, "tag": "random-history"})


PROP = C03()
