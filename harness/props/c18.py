"""C18 - HDLC transport reassembles segmented responses exactly, for every segmentation."""
from harness import framework as fw

LLC_CMD = b"\xe6\xe6\x00"
LLC_RESP = b"\xe6\xe7\x00"


class Starved(Exception):
    """nothing more will ever arrive on the serial line: the real transport would wait for ever."""


ERR_MAP = [("Starved", "starved"), ("ClientError", "client")]


def hx(b):
    return bytes(b).hex() if b else "-"


# ------------------------------------------------------------------ the harness's own HDLC codec (independent of the library)

def crc_x25(data):
    crc = 0xFFFF
    for b in data:
        crc ^= b
        for _ in range(8):
            crc = (crc >> 1) ^ 0x8408 if crc & 1 else crc >> 1
    crc ^= 0xFFFF
    return bytes([crc & 0xFF, crc >> 8])


def enc_addr(logical, physical):
    if physical is None:
        return bytes([(logical << 1) | 1])
    if logical < 128 and physical < 128:
        return bytes([logical << 1, (physical << 1) | 1])
    return bytes([(logical >> 7) << 1, (logical & 0x7F) << 1, (physical >> 7) << 1, ((physical & 0x7F) << 1) | 1])


def enc_frame(dest, src, ctrl, info=b"", segmented=False):
    n = 2 + len(dest) + len(src) + 1 + 2 + (2 + len(info) if info else 0)
    fmt = 0xA000 | (0x0800 if segmented else 0) | n
    head = fmt.to_bytes(2, "big") + dest + src + bytes([ctrl])
    if info:
        head += crc_x25(head)
        body = head + info
    else:
        body = head
    return b"\x7e" + body + crc_x25(body) + b"\x7e"


def read_addr(buf, pos):
    start = pos
    while pos < len(buf) and not buf[pos] & 1:
        pos += 1
    return bytes(buf[start:pos + 1]), pos + 1


def walk_frames(buf):
    """(complete frames, number of bytes consumed) using the length field."""
    out, pos = [], 0
    while pos + 3 <= len(buf) and buf[pos] == 0x7E:
        if buf[pos + 1] == 0x7E:       # shared flag
            pos += 1
            continue
        n = ((buf[pos + 1] & 0x07) << 8) | buf[pos + 2]
        if pos + n + 2 > len(buf):
            break
        out.append(bytes(buf[pos:pos + n + 2]))
        pos += n + 2
    return out, pos


class ByteMeter:
    """Spec.Meter at the level of bytes: normal response mode, window 1, answers split as scripted."""

    def __init__(self, client_addr, server_addr, vs, vr, max_info):
        self.ca, self.sa = client_addr, server_addr
        self.vs, self.vr, self.max_info = vs, vr, max_info
        self.req_buf = bytearray()
        self.requests = []
        self.pending = []
        self.script = []
        self.violations = 0
        self.inbuf = bytearray()
        self.described = []      # what the client wrote, frame by frame

    def feed(self, data, serial):
        """the client writes whole frames, one or more per write call; anything else is raw bytes."""
        frames, used = walk_frames(data) if data[:1] == b"\x7e" else ([], 0)
        if not frames or used != len(data):
            self.described.append("raw:" + hx(data))
            self.violations += 1
            return
        for fr in frames:
            serial.rx += self.on_frame(fr)

    def on_frame(self, fr):
        body = fr[1:-1]
        ok = len(body) >= 5 and crc_x25(body[:-2]) == body[-2:] and body[0] & 0xF0 == 0xA0
        if not ok:
            self.described.append("raw:" + hx(fr))
            self.violations += 1
            return b""
        seg = bool(body[0] & 0x08)
        dest, pos = read_addr(body, 2)
        src, pos = read_addr(body, pos)
        ctrl = body[pos]
        info = b""
        if len(body) > pos + 1 + 2:
            if crc_x25(body[:pos + 1]) != body[pos + 1:pos + 3]:
                self.described.append("raw:" + hx(fr))
                self.violations += 1
                return b""
            info = body[pos + 3:-2]
        if dest != self.sa or src != self.ca:
            self.described.append("misaddressed:" + hx(fr))
            self.violations += 1
            return b""
        fin = bool(ctrl & 0x10)
        if ctrl == 0x93:
            self.described.append("snrm")
            return enc_frame(self.ca, self.sa, 0x73, getattr(self, "ua_info", b""))
        if ctrl == 0x53:
            self.described.append("disc")
            return enc_frame(self.ca, self.sa, 0x73, getattr(self, "ua_info", b""))
        if ctrl & 0x01 == 0:
            ssn, rsn = (ctrl >> 1) & 7, ctrl >> 5
            self.described.append(f"i:{ssn}:{rsn}:{int(seg)}:{int(fin)}:{hx(info)}")
            if ssn != self.vr or rsn != self.vs or not fin or len(info) > self.max_info or not info or self.pending:
                self.violations += 1
                return b""
            self.vr = (self.vr + 1) % 8
            self.req_buf += info
            if seg:
                return enc_frame(self.ca, self.sa, (self.vr << 5) | 0x10 | 0x01)
            self.requests.append(bytes(self.req_buf))
            self.req_buf = bytearray()
            if not self.script:
                return b""
            self.pending = list(self.script.pop(0))
            return self.send_segment()
        if ctrl & 0x0F == 0x01:
            rsn = ctrl >> 5
            self.described.append(f"rr:{rsn}")
            if rsn == self.vs and self.pending:
                return self.send_segment()
            self.violations += 1
            return b""
        self.described.append("other:" + hx(fr))
        self.violations += 1
        return b""

    def send_segment(self):
        p = self.pending.pop(0)
        ctrl = (self.vr << 5) | 0x10 | (self.vs << 1)
        self.vs = (self.vs + 1) % 8
        return enc_frame(self.ca, self.sa, ctrl, p, segmented=bool(self.pending))


class FakeSerial:
    """read_until(flag) as pyserial does it: up to and including the first flag, or fewer bytes on a timeout;
    the schedule says how many bytes at most each read gets (0 = a timeout with nothing read)."""

    def __init__(self, meter, schedule):
        self.meter = meter
        self.rx = bytearray()
        self.schedule = schedule
        self.reads = 0
        self.idle = 0
        self.no_candidates = lambda: True

    def write(self, data):
        self.meter.feed(bytes(data), self)
        return len(data)

    def read_until(self, expected=b"\n", size=None):
        if not self.rx:
            # a timeout with nothing read; when that keeps happening nothing more will ever arrive
            # (the transport polls once per candidate end flag in its buffer and reads in between, so empty reads are
            #  normal while candidates are left)
            self.idle += 1
            if self.no_candidates() and self.idle > 2:
                raise Starved()
            return b""
        self.idle = 0
        n = self.schedule(self.reads)
        self.reads += 1
        if n == 0:
            return b""
        chunk = self.rx[:n]
        i = chunk.find(expected)
        if i >= 0:
            chunk = chunk[:i + 1]
        del self.rx[:len(chunk)]
        return bytes(chunk)


def make_schedule(kind, seed):
    import random
    rng = random.Random(seed)
    if kind == "whole":
        return lambda i: 10 ** 6
    if kind == "bytewise":
        return lambda i: 1
    if kind == "random":
        sizes = [rng.choice([1, 2, 3, 5, 8, 13, 64, 200]) for _ in range(997)]
        return lambda i: sizes[i % 997]
    if kind == "timeouts":
        sizes = [rng.choice([0, 1, 4, 10 ** 6]) for _ in range(991)]
        return lambda i: sizes[i % 991]
    raise fw.MachineryError(kind)


def run_session(d):
    lines = [f"tr init {d['maxData']} {d['maxInfo']} {d['vs']} {d['vr']}"]
    for op in d["ops"]:
        if op[0] == "script":
            lines.append("tr script " + ",".join(op[1]))
        elif op[0] == "send":
            lines.append("tr send " + op[1])
        else:
            lines.append("tr " + op[0])

    def impl():
        from dlms_cosem.clients.hdlc_transport import SerialHdlcTransport
        sl, sp = d.get("server", [1, 17])
        cl = d.get("client", 16)
        meter = ByteMeter(enc_addr(cl, None), enc_addr(sl, sp), d["vs"], d["vr"], d["maxInfo"])
        meter.ua_info = bytes.fromhex(d.get("uaInfo", ""))     # (the negotiated-parameters field a meter puts in its UA)
        ser = FakeSerial(meter, make_schedule(d["gran"], d.get("gseed", 0)))
        t = SerialHdlcTransport(client_logical_address=cl, server_logical_address=sl, server_physical_address=sp, serial_port="x", serial=ser)
        conn = t.hdlc_connection
        ser.no_candidates = lambda: conn.buffer.find(b"\x7e", conn.buffer_search_position) < 0
        conn.max_data_size = d["maxData"]
        conn.server_ssn = conn.client_rsn = d["vr"]
        conn.server_rsn = conn.client_ssn = d["vs"]
        out = ["ok"]
        for op in d["ops"]:
            if op[0] == "script":
                meter.script.append([b"" if s == "-" else bytes.fromhex(s) for s in op[1]])
                out.append("ok")
                continue
            meter.described = []
            note = ""
            try:
                if op[0] == "connect":
                    r = t.connect()
                    left, res = "na", "ok " + {"UnNumberedAcknowledgmentFrame": "ua"}.get(type(r).__name__, type(r).__name__)
                elif op[0] == "disconnect":
                    r = t.disconnect()
                    left, res = "na", "ok " + {"UnNumberedAcknowledgmentFrame": "ua"}.get(type(r).__name__, type(r).__name__)
                else:
                    apdu = b"" if op[1] == "-" else bytes.fromhex(op[1])
                    r = t.send(apdu)
                    left, res = "data " + hx(r), "ok " + hx(r)
                    if not meter.requests or bytes(meter.requests[-1]) != LLC_CMD + apdu:
                        # (what C18 demands of the frames written: their information fields, concatenated, are LLC header || APDU)
                        note = " !PROP the information fields the meter received are not the LLC command header followed by the APDU"
            except fw._Timeout:
                raise
            except Exception as e:  # noqa
                left, res = ("raise" if op[0] == "send" else "na"), "err " + fw.classify_exception(e, ERR_MAP)
            frames, _ = walk_frames(bytes(conn.buffer) + bytes(ser.rx)) if (conn.buffer[:1] == b"\x7e" or not conn.buffer) else ([0], 0)
            st = repr(conn.state.current_state)
            out.append(f"{left} | {res} | link={st},{conn.server_ssn},{conn.server_rsn},{conn.client_ssn},{conn.client_rsn} "
                       f"meter={meter.vs},{meter.vr},{meter.violations},{len(meter.pending)},{len(meter.script)} "
                       f"req={hx(meter.requests[-1]) if meter.requests else 'none'} nreq={len(meter.requests)} pending-line={len(frames)} "
                       f"written={','.join(meter.described)}" + note)
        return out
    return lines, impl


class C18(fw.Prop):
    id = "C18"
    anchors = ["dlms_cosem/clients/hdlc_transport.py", "dlms_cosem/hdlc/connection.py", "dlms_cosem/hdlc/frames.py", "dlms_cosem/hdlc/state.py",
               "dlms_cosem/hdlc/fields.py", "dlms_cosem/hdlc/address.py"]
    design_ref = "DESIGN.md §6 C18"
    rule = ("the real SerialHdlcTransport over a scripted serial port whose peer is a byte-level meter written in the harness (own CRC and frame codec; normal "
            "response mode, window 1): answers of 1..5000 bytes incl. flag bytes split into 1..40 information fields of 0..128 (and larger) bytes in every "
            "way (boundaries: one field, all single bytes, LLC header split across fields, empty fields); requests of 1..700 bytes with max information "
            "size 128 and 16..200 (so requests are segmented and acknowledged by RR); all 64 start values of the two sequence numbers; sessions of up to 40 "
            "exchanges (numbers wrap); serial read granularities: whole frames, byte by byte, random sizes, with timeouts returning nothing; connect / "
            "disconnect / reconnect / send without connection; answers without LLC header, missing answers; every step compared with the model "
            "(result, link state and four counters, the meter's state, the request as the meter reassembled it, the frames the client wrote); left part = "
            "the answer C18 demands; UAs carrying negotiation parameters (126 = 0x7E, 128) or check sequences containing 0x7E; stations whose address bytes contain 0x7E; requests that begin with E6 E6 00 / E6 E7 00, requests of flag bytes and with flags at the segment cuts; property oracle: what the meter reassembled is LLC header || APDU; non-trivial = distinct session")
    trusted_base = ["extract.py (HDLC tables)", "Spec.Meter is my reading of the peer C18 quantifies over", "the harness's byte-level meter and codec (written independently of the library)",
                    "frame bytes <-> frames and the receive buffer are C09/C10/C12 (composed in C18_frame_read_any_granularity)"]
    assumptions = ["the meter follows the normal-response-mode procedure with window 1 (Spec.Meter) and does not reset its numbers on SNRM",
                   "send() is called on a connected idle link (other states are compared with the model only)",
                   "max_data_size is at least the length of a supervisory frame (16): drain_out_buffer cuts SNRM/RR/DISC frames at max_data_size as well"]
    technique = "Lean 4 proof by induction over request pieces, answer segments and sessions: the model of SerialHdlcTransport over the link model with regenerated tables, against the reactive meter of Spec.Meter, returns exactly the answer and writes exactly the prescribed frames for every split and every counter value; composition with C09/C10 for bytes and read granularity; differential correspondence against a byte-level meter on a scripted serial port"
    level_text = ("C18_request_frames_shape / C18_exchange / C18_session / C18_connect / C18_disconnect / C18_connect_sync / C18_frame_read_any_granularity: theorems over every request "
                  "length, every split of the answer, every value of the sequence numbers and sessions of any length of the model of hdlc_transport.py. Tied to the code by "
                  "differential sessions with a byte-level meter and every read granularity.")
    level_note = "Trusted: Lean kernel (+propext, Classical.choice, Quot.sound), extract.py, Spec.Meter, the harness's meter and codec."
    chunk = 300

    def make_case(self, d):
        lines, impl = run_session(d)
        return fw.Case(lines, impl, "split", d, tags=(d.get("tag", "x"), d["gran"]))

    @staticmethod
    def data(rng, n):
        return bytes(rng.choice([0x7E, 0x7E, 0x00, 0xE6, 0xFF, rng.getrandbits(8), rng.getrandbits(8)]) for _ in range(n))

    @staticmethod
    def split(rng, blob, nseg, maxlen=128, allow_empty=False):
        """split blob into nseg fields; sizes 1..maxlen unless allow_empty."""
        n = len(blob)
        nseg = max(1, min(nseg, n if not allow_empty else nseg))
        if nseg * maxlen < n:
            nseg = (n + maxlen - 1) // maxlen
        for _ in range(200):
            cuts = sorted(rng.sample(range(1, n), nseg - 1)) if (not allow_empty and nseg > 1) else sorted(rng.randint(0, n) for _ in range(nseg - 1))
            parts, prev = [], 0
            for c in cuts + [n]:
                parts.append(blob[prev:c])
                prev = c
            if all(len(p) <= maxlen for p in parts):
                return parts
        # fall back to an even split
        k = (n + nseg - 1) // nseg
        return [blob[i:i + k] for i in range(0, n, k)]

    def exchange(self, rng, alen, nseg, reqlen, allow_empty=False, maxlen=128):
        answer = self.data(rng, alen)
        segs = self.split(rng, LLC_RESP + answer, nseg, maxlen, allow_empty)
        return [["script", [hx(s) for s in segs]], ["send", hx(self.data(rng, reqlen))]]

    def cases(self, rng, tier, deep):
        grans = ["whole", "bytewise", "random", "timeouts"]

        def case(ops, tag, maxData=128, vs=0, vr=0, gran=None, maxInfo=None, connect=True):
            return self.make_case({"maxData": maxData, "maxInfo": maxInfo if maxInfo is not None else max(maxData, 128), "vs": vs, "vr": vr,
                                   "gran": gran or rng.choice(grans), "gseed": rng.randrange(10 ** 6),
                                   "ops": ([["connect"]] if connect else []) + ops, "tag": tag})
        # every start value of the two numbers, a 3-segment answer and a 2-segment request
        for vs in range(8):
            for vr in range(8):
                yield case(self.exchange(rng, 40, 3, 200) + self.exchange(rng, 5, 1, 3), "start-numbers", vs=vs, vr=vr)
        # answer lengths x number of segments
        for alen in ([1, 2, 125, 126, 300, 5000] if not deep else [1, 2, 3, 124, 125, 126, 127, 128, 129, 253, 254, 1000, 4999, 5000]):
            for nseg in ([1, 2, 40] if not deep else [1, 2, 3, 7, 39, 40]):
                for gran in (grans if deep else [rng.choice(grans)]):
                    yield case(self.exchange(rng, alen, nseg, rng.choice([1, 20, 125])), "answer-splits", gran=gran)
        # boundaries of the split: LLC header split, single bytes, empty fields, fields longer than 128
        for gran in grans:
            a = self.data(rng, 9)
            blob = LLC_RESP + a
            yield case([["script", [hx(blob[i:i + 1]) for i in range(len(blob))]], ["send", "c001c1"]], "single-bytes", gran=gran)
            yield case([["script", ["e6", "e7", "00" + a.hex()]], ["send", "c001c1"]], "llc-split", gran=gran)
            yield case([["script", ["-", "e6e7", "-", "00" + a.hex(), "-"]], ["send", "c001c1"]], "empty-fields", gran=gran)
            yield case([["script", [hx(LLC_RESP + self.data(rng, 600))]], ["send", "c001c1"]], "long-field", gran=gran)
            yield case([["script", [hx(LLC_RESP)]], ["send", "c001c1"]], "empty-answer", gran=gran)
        # answer data that itself contains the LLC header bytes, with a segment boundary right in front of them (and elsewhere)
        for gran in grans:
            a = self.data(rng, 20) + LLC_RESP + self.data(rng, 15) + LLC_CMD + b"\xe6\xe7\x00" + self.data(rng, 4)
            blob = LLC_RESP + a
            for cutset in ([23], [23 + 3], [3], [3, 23, 41], [6, 23, 44]):
                parts, prev = [], 0
                for c in cutset + [len(blob)]:
                    parts.append(blob[prev:c])
                    prev = c
                yield case([["script", [hx(x) for x in parts]], ["send", "c001c1"]], "llc-bytes-in-data", gran=gran)
        # requests that themselves begin with the LLC bytes (E6 E6 00 / E6 E7 00 / E6 E6), short and segmented; requests made of
        # flag bytes, or with flag bytes exactly where the segments are cut
        for gran in grans:
            for head in ("e6e600", "e6e700", "e6e6", "e6e600e6e600"):
                for n in (3, 200, 300):
                    a = self.data(rng, 7)
                    yield case([["script", [hx(LLC_RESP + a)]], ["send", head + self.data(rng, n).hex()]], "request-begins-like-llc", gran=gran)
            req = bytearray(self.data(rng, 300))
            for pos in (125, 252, 124, 126, 253):
                req[pos] = 0x7E
            yield case([["script", [hx(LLC_RESP + self.data(rng, 5))]], ["send", bytes(req).hex()]], "flags-at-the-cuts", gran=gran)
            yield case([["script", [hx(LLC_RESP + self.data(rng, 5))]], ["send", "7e" * 300]], "request-of-flags", gran=gran)
        # request lengths x max information size
        for md in ([128, 16, 33] if not deep else [128, 127, 129, 130, 16, 17, 31, 64, 200]):
            for reqlen in ([1, 124, 125, 126, 300] if not deep else [1, 2, 122, 123, 124, 125, 126, 127, 128, 129, 250, 253, 254, 381, 700]):
                yield case(self.exchange(rng, rng.choice([3, 200]), rng.choice([1, 3]), reqlen), "request-lengths", maxData=md)
        # sessions: numbers wrap
        for _ in range(30 if deep else 5):
            ops = []
            for _ in range(rng.randint(9, 40 if deep else 20)):
                ops += self.exchange(rng, rng.choice([1, 10, 130, 400]), rng.randint(1, 6), rng.choice([3, 50, 126, 260]), allow_empty=rng.random() < 0.2)
            yield case(ops, "session", vs=rng.randrange(8), vr=rng.randrange(8))
        # connect / disconnect / reconnect / misuse
        ex = self.exchange(rng, 10, 2, 5)
        yield case(ex + [["disconnect"], ["connect"]] + self.exchange(rng, 4, 1, 4) + [["disconnect"], ["disconnect"]], "reconnect")
        yield case(ex, "send-unconnected", connect=False)
        yield case([["connect"]] + ex, "connect-twice")
        yield case([["disconnect"]], "disconnect-unconnected", connect=False)
        yield case([["send", "c001c1"]], "no-answer")
        yield case([["script", ["e6e600aa"]], ["send", "c001c1"], ["send", "c001c1"]], "no-llc")
        yield case([["script", ["aa"]], ["send", "c001c1"]], "no-llc")
        yield case([["script", ["e6e700" + "aa" * 10]], ["send", "-"]], "empty-request")
        # the meter takes less than the client sends in one field
        yield case(self.exchange(rng, 5, 1, 100), "meter-max-info", maxData=128, maxInfo=64)
        # the UA carries the meter's parameters (maximum information lengths 126 = 0x7E, 128, ...), or one of its check sequences
        # happens to contain the flag byte; stations whose address bytes contain 0x7E
        def ua_params(tx, rx, wtx=1, wrx=1):
            body = b"\x05\x01" + bytes([tx]) + b"\x06\x01" + bytes([rx]) + b"\x07\x04" + wtx.to_bytes(4, "big") + b"\x08\x04" + wrx.to_bytes(4, "big")
            return b"\x81\x80" + bytes([len(body)]) + body
        infos = [ua_params(126, 126), ua_params(128, 128), ua_params(126, 128), ua_params(0x7E, 0x7D, 0x7E, 0x7E7E)]
        for w in range(1, 4000):
            fr = enc_frame(enc_addr(16, None), enc_addr(1, 17), 0x73, ua_params(128, 128, w, 1))
            if 0x7E in fr[-3:-1] or 0x7E in fr[9:11]:
                infos.append(ua_params(128, 128, w, 1))
                if len(infos) >= 8:
                    break
        for info in infos:
            for gran in grans:
                d = {"maxData": 128, "maxInfo": 128, "vs": 0, "vr": 0, "gran": gran, "gseed": rng.randrange(10 ** 6), "uaInfo": info.hex(),
                     "ops": [["connect"]] + self.exchange(rng, 30, 2, 10) + [["disconnect"], ["connect"]] + self.exchange(rng, 3, 1, 3) + [["disconnect"]],
                     "tag": "ua-with-parameters"}
                yield self.make_case(d)
        for server, client in (([63, 17], 16), ([63, 0], 63), ([8100, 5], 16), ([191, 1], 16), ([200, 8064], 1)):
            for gran in grans:
                d = {"maxData": 128, "maxInfo": 128, "vs": 0, "vr": 0, "gran": gran, "gseed": rng.randrange(10 ** 6), "server": server, "client": client,
                     "ops": [["connect"]] + self.exchange(rng, 150, 2, 150) + [["disconnect"]], "tag": "addresses-with-flag-byte"}
                yield self.make_case(d)
        # addresses
        for server, client in (([1, None], 16), ([1, 17], 1), ([127, 127], 127), ([16, 1], 32), ([200, 17], 16), ([5, 200], 16), ([16383, 16383], 16),
                               ([1, 0], 16), ([300, 5000], 100)):
            d = {"maxData": 128, "maxInfo": 128, "vs": 0, "vr": 0, "gran": rng.choice(grans), "gseed": 1, "server": server, "client": client,
                 "ops": [["connect"]] + self.exchange(rng, 200, 3, 200) + [["disconnect"]], "tag": "addresses"}
            yield self.make_case(d)


PROP = C18()
