"""C17 - IP wrapper frames by length; TCP transport returns whole APDUs for any chunking."""
from harness import framework as fw


class ScriptedSocket:
    """a socket object that delivers `stream` according to a schedule of per-read upper bounds."""

    def __init__(self, stream, sched):
        self.stream = bytes(stream)
        self.sched = list(sched)
        self.reads = 0
        self.sent = b""

    def recv(self, n):
        cap = n
        if self.sched:
            cap = min(n, max(self.sched.pop(0), 1))
            self.reads += 1
        out, self.stream = self.stream[:cap], self.stream[cap:]
        return out

    def sendall(self, data):
        self.sent += bytes(data)


ERR = [("CommunicationError", "client"), ("OverflowError", "range")]


class C17(fw.Prop):
    id = "C17"
    anchors = ["dlms_cosem/protocol/wrappers.py", "dlms_cosem/clients/blocking_tcp_transport.py"]
    design_ref = "DESIGN.md §6 C17"
    err_map = ERR
    rule = ("header fields 0,1,255,256,65535 (and 65536 as refusal) in every position; wrap/unwrap for payload lengths 0,1,255,256,65535 and "
            "random; datagrams whose length field is off by -1/+1/random; transport receive over a scripted socket: every single split and "
            "every pair of splits of header+payload for messages <= 40 bytes (splits inside the 8-byte header included), random multi-splits "
            "down to 1-byte reads for payloads up to 65535, back-to-back messages, streams that end early; messages of 1200..65535 bytes delivered one byte per read; headers decoded again after the first result was turned into a reply header; a transport re-addressed between two sends; every distance -16..+16 between length field and payload, through both message classes; non-trivial = distinct protocol line")
    trusted_base = ["the scripted socket obeys the recv contract (1..n bytes unless the peer closed)"]
    assumptions = ["OS contract of socket.recv: returns at least one byte unless the connection is closed; timeouts are not modelled"]
    technique = "Lean 4 proof: big-endian header round trip, length check, and exact receive for every read schedule by induction on the receive loop; differential correspondence over all split positions with a scripted socket"
    level_text = ("C17_header_roundtrip / C17_pdu_roundtrip / C17_length_mismatch_refused / C17_recv_exact / C17_back_to_back / C17_short_stream_refused: theorems about the model of "
                  "wrappers.py and of BlockingTcpTransport.recv over a socket that may return any number (>=1) of the requested bytes per read; unbounded in payload and schedule. "
                  "Tied to the code by differential runs with a scripted socket object over every split position.")
    level_note = "Trusted: Lean kernel (+propext, Classical.choice, Quot.sound), the recv contract, the correspondence harness."
    chunk = 3000

    def make_case(self, d):
        op = d["op"]
        if op == "hdr":
            v, s, dd, n = d["f"]

            def impl():
                from dlms_cosem.protocol.wrappers import WrapperHeader
                return "ok " + fw.hx(WrapperHeader(s, dd, n, v).to_bytes())
            return fw.Case(f"wrp hdr {v} {s} {dd} {n}", impl, "prop", d, tags=("hdr",))
        if op == "unhdr":
            b = bytes.fromhex(d["b"])

            def impl():
                from dlms_cosem.protocol.wrappers import WrapperHeader
                h = WrapperHeader.from_bytes(b)
                out = f"ok {h.version} {h.source_wport} {h.destination_wport} {h.length}"
                # the caller turns the header it got into the one of its answer (ports swapped, another length); the same eight
                # bytes decoded again are still what they say
                h.source_wport, h.destination_wport, h.length = h.destination_wport ^ 0x55, h.source_wport ^ 0xAA, (h.length + 4) % 65536
                fw.scribble(h)
                h2 = WrapperHeader.from_bytes(b)
                out2 = f"ok {h2.version} {h2.source_wport} {h2.destination_wport} {h2.length}"
                return out if out2 == out else out + " !second-decode-gives:" + out2
            return fw.Case(f"wrp unhdr {fw.hx(b)}", impl, "prop", d, tags=("unhdr",))
        if op == "wrap":
            c, s, apdu = d["c"], d["s"], bytes.fromhex(d["apdu"])

            def impl():
                from dlms_cosem.clients.blocking_tcp_transport import BlockingTcpTransport
                t = BlockingTcpTransport("h", 1, c, s)
                # send() = sendall(wrap(apdu)) then recv(): give the peer an empty answer message
                sock = ScriptedSocket(bytes([0, 1, 0, 1, 0, 1, 0, 0]), [])
                t.tcp_socket = sock
                if d.get("before"):
                    # the transport has been used with other addresses before (one connection, first the public client, then
                    # the management client): what is sent carries the addresses the transport has now
                    oc, os_ = d["before"]
                    t.client_logical_address, t.server_logical_address = oc, os_
                    t.send(b"\xc0\x01\xc1\x00")
                    sock.stream = bytes([0, 1, 0, 1, 0, 1, 0, 0])
                    sock.sent = b""
                    t.client_logical_address, t.server_logical_address = c, s
                t.send(apdu)
                if sock.sent != t.wrap(apdu):
                    return "ok sent-differs-from-wrap"
                return "ok " + fw.hx(sock.sent)
            return fw.Case(f"wrp wrap {c} {s} {fw.hx(apdu)}", impl, "prop", d, tags=("wrap",))
        if op == "unpdu":
            b = bytes.fromhex(d["b"])

            def impl():
                from dlms_cosem.protocol.wrappers import WrapperProtocolDataUnit
                p = WrapperProtocolDataUnit.from_bytes(b)
                h = p.wrapper_header
                out = f"ok {h.version} {h.source_wport} {h.destination_wport} {h.length} {fw.hx(p.data)}"
                h.source_wport, h.destination_wport, h.length = h.destination_wport ^ 0x55, h.source_wport ^ 0xAA, (h.length + 4) % 65536
                fw.scribble(p)
                p2 = WrapperProtocolDataUnit.from_bytes(b)
                h2 = p2.wrapper_header
                out2 = f"ok {h2.version} {h2.source_wport} {h2.destination_wport} {h2.length} {fw.hx(p2.data)}"
                if d.get("udp"):
                    from dlms_cosem.protocol.wrappers import DlmsUdpMessage
                    u = DlmsUdpMessage.from_bytes(b)
                    hu = u.wrapper_header
                    out3 = f"ok {hu.version} {hu.source_wport} {hu.destination_wport} {hu.length} {fw.hx(u.data)}"
                    if out3 != out:
                        return out + " !as-udp-message:" + out3
                return out if out2 == out else out + " !second-decode-gives:" + out2
            return fw.Case(f"wrp unpdu {fw.hx(b)}", impl, "prop", d, tags=("unpdu",))
        if op == "recv":
            stream = bytes.fromhex(d["stream"])
            sched = d["sched"]

            def impl():
                from dlms_cosem.clients.blocking_tcp_transport import BlockingTcpTransport
                t = BlockingTcpTransport("h", 1, 16, 1)
                sock = ScriptedSocket(stream, sched)
                t.tcp_socket = sock
                data = t.recv()
                return f"ok {fw.hx(data)} rest={fw.hx(sock.stream)} reads={sock.reads}"
            line = f"wrp recv {fw.hx(stream)} {','.join(map(str, sched)) if sched else '-'}"
            return fw.Case(line, impl, "prop", d, tags=("recv-" + d.get("tag", "x"),))
        if op == "recv-seq":
            # one transport object over its life: a receive that fails because the peer goes away in the middle of a message,
            # then a new connection (a new socket) on which complete messages arrive - nothing of the old connection is left
            parts = [(bytes.fromhex(x["stream"]), x["sched"]) for x in d["parts"]]

            def impl():
                from dlms_cosem.clients.blocking_tcp_transport import BlockingTcpTransport
                t = BlockingTcpTransport("h", 1, 16, 1)
                out = []
                for stream, sched in parts:
                    sock = ScriptedSocket(stream, sched)
                    t.tcp_socket = sock
                    out.append(fw.guarded(lambda: (lambda data: f"ok {fw.hx(data)} rest={fw.hx(sock.stream)} reads={sock.reads}")(t.recv()), ERR))
                return out
            lines = [f"wrp recv {fw.hx(st)} {','.join(map(str, sc)) if sc else '-'}" for st, sc in parts]
            return fw.Case(lines, impl, "prop", d, tags=("recv-sequence",))
        raise fw.MachineryError(op)

    @staticmethod
    def msg(src, dst, payload, version=1):
        return version.to_bytes(2, "big") + src.to_bytes(2, "big") + dst.to_bytes(2, "big") + len(payload).to_bytes(2, "big") + payload

    def cases(self, rng, tier, deep):
        mk = self.make_case
        B = [0, 1, 255, 256, 65535]
        for v in B + [65536]:
            for s in B + [65536]:
                for dd in (0, 1, 65535, 65536):
                    for n in (0, 1, 256, 65535, 65536):
                        if deep or sum(x == 65536 for x in (v, s, dd, n)) <= 1:
                            yield mk({"op": "hdr", "f": [v, s, dd, n]})
        for _ in range(3000 if deep else 300):
            b = bytes(rng.getrandbits(8) for _ in range(rng.choice([8, 8, 8, 7, 9, 0, 16])))
            yield mk({"op": "unhdr", "b": b.hex()})
        for L in [0, 1, 255, 256, 65535, 65536] + [rng.randint(0, 3000) for _ in range(100 if deep else 15)]:
            apdu = bytes(rng.getrandbits(8) for _ in range(L))
            yield mk({"op": "wrap", "c": rng.choice(B), "s": rng.choice(B), "apdu": apdu.hex()})
            m = self.msg(rng.choice(B), rng.choice(B), apdu) if L < 65536 else b""
            if m:
                yield mk({"op": "unpdu", "b": m.hex()})
                yield mk({"op": "unpdu", "b": m[:-1].hex()})
                yield mk({"op": "unpdu", "b": (m + b"\x00").hex()})
        yield mk({"op": "wrap", "c": 65536, "s": 1, "apdu": "00"})
        for _ in range(12 if deep else 4):
            yield mk({"op": "wrap", "c": rng.choice(B), "s": rng.choice(B), "apdu": bytes(rng.getrandbits(8) for _ in range(rng.randint(0, 40))).hex(),
                      "before": [rng.choice([16, 1, 0x10]), rng.choice([1, 2, 0x7FFF])]})
        # every distance between the length field and the payload length from -16 to +16 (and the header's own 8 bytes counted or not)
        for L in (0, 1, 9, 40):
            apdu = bytes(rng.getrandbits(8) for _ in range(L))
            for delta in range(-16, 17):
                if L + delta < 0 or delta == 0:
                    continue
                m = self.msg(rng.choice(B), rng.choice(B), apdu)
                bad = m[:6] + (L + delta).to_bytes(2, "big") + m[8:]
                yield mk({"op": "unpdu", "b": bad.hex(), "udp": True})
            yield mk({"op": "unpdu", "b": self.msg(1, 16, apdu).hex(), "udp": True})
        # the length check does not depend on the other header fields (version, ports)
        for version in (0, 1, 2, 257, 65535):
            for L in (0, 1, 13):
                apdu = bytes(rng.getrandbits(8) for _ in range(L))
                m = self.msg(rng.choice(B), rng.choice(B), apdu, version)
                for x in (m, m[:-1] if L else m + b"\x01", m + b"\x00", m[:8] + b"\x00" * 20):
                    yield mk({"op": "unpdu", "b": x.hex()})
        # sequences on one transport object
        for _ in range(40 if deep else 8):
            L = rng.randint(1, 30)
            full = self.msg(1, 16, bytes(rng.getrandbits(8) for _ in range(L)))
            cut = rng.randrange(1, len(full))
            second = self.msg(1, 16, bytes(rng.getrandbits(8) for _ in range(rng.randint(0, 20))))
            third = self.msg(1, 16, b"\xc4\x01\xc1\x00")
            yield mk({"op": "recv-seq", "parts": [{"stream": full[:cut].hex(), "sched": [rng.randint(1, 9) for _ in range(rng.randint(0, 5))]},
                                                    {"stream": (second + third).hex(), "sched": []}, {"stream": third.hex(), "sched": [3, 3]}]})
        # transport receive: every split / pair of splits for short messages
        for rep in range(10 if deep else 3):
            L = rng.randint(0, 30)
            payload = bytes(rng.getrandbits(8) for _ in range(L))
            tail = rng.choice([b"", self.msg(1, 16, b"\xaa\xbb"), bytes(rng.getrandbits(8) for _ in range(5))])
            stream = self.msg(1, 16, payload) + tail
            total = 8 + L
            yield mk({"op": "recv", "stream": stream.hex(), "sched": [], "tag": "whole"})
            for a in range(1, total):
                # read bounds that cut the message exactly at position a
                yield mk({"op": "recv", "stream": stream.hex(), "sched": [a], "tag": "one-split"})
            pairs = [(a, b) for a in range(1, total) for b in range(1, total - a)]
            if not deep:
                pairs = rng.sample(pairs, min(len(pairs), 120))
            for a, b in pairs:
                yield mk({"op": "recv", "stream": stream.hex(), "sched": [a, b], "tag": "two-splits"})
            yield mk({"op": "recv", "stream": stream.hex(), "sched": [1] * (total + 3), "tag": "one-byte-reads"})
        for _ in range(300 if deep else 30):
            L = rng.choice([rng.randint(0, 200), rng.randint(0, 5000), 65535])
            payload = bytes(rng.getrandbits(8) for _ in range(L))
            stream = self.msg(rng.choice(B), rng.choice(B), payload, rng.choice([1, 1, 0, 2])) + rng.choice([b"", b"\x00\x01"])
            sched = [rng.choice([1, 2, 3, 7, 8, 9, 100, 1460, 70000]) for _ in range(rng.randint(0, 60))]
            yield mk({"op": "recv", "stream": stream.hex(), "sched": sched, "tag": "random-splits"})
        # payloads that look like wrapper messages themselves (a forwarded message, a header-like beginning, version/length words)
        for inner in (b"", b"\xc4\x01\xc1\x00", bytes(rng.getrandbits(8) for _ in range(60))):
            looks = [self.msg(1, 16, inner), self.msg(16, 1, inner), self.msg(1, 16, inner) + b"\x00", b"\x00" + self.msg(1, 16, inner),
                     self.msg(1, 16, inner)[:8], self.msg(1, 16, self.msg(1, 16, inner)), b"\x00\x01" * 4 + inner, self.msg(1, 16, inner, 2)]
            for payload in looks:
                stream = self.msg(1, 16, payload) + self.msg(1, 16, b"\xaa\xbb")
                for sched in ([], [8], [8, 8], [rng.randint(1, 20) for _ in range(6)]):
                    yield mk({"op": "recv", "stream": stream.hex(), "sched": sched, "tag": "message-as-payload"})
        # long messages delivered one byte per read (thousands of reads for one message), and in small irregular pieces
        for L in ([1200, 5000, 20000, 65535] if deep else [1200, 5000]):
            payload = bytes(rng.getrandbits(8) for _ in range(L))
            stream = self.msg(1, 16, payload) + self.msg(1, 16, b"\xc4\x01")
            yield mk({"op": "recv", "stream": stream.hex(), "sched": [1] * (L + 8), "tag": "one-byte-reads-long"})
            yield mk({"op": "recv", "stream": stream.hex(), "sched": [rng.choice([1, 1, 2, 3]) for _ in range(L)], "tag": "small-reads-long"})
        # streams that end early
        for _ in range(200 if deep else 30):
            L = rng.randint(1, 40)
            full = self.msg(1, 16, bytes(rng.getrandbits(8) for _ in range(L)))
            cut = rng.randrange(0, len(full))
            yield mk({"op": "recv", "stream": full[:cut].hex(), "sched": [rng.randint(1, 9) for _ in range(rng.randint(0, 8))], "tag": "short-stream"})


PROP = C17()
