"""C14 - DLMS data codec: values decode as encoded, lengths honoured, truncation refused."""
import datetime as pydt

from harness import framework as fw

INT = {"i8": (15, 1, True), "i16": (16, 2, True), "i32": (5, 4, True), "i64": (20, 8, True),
       "u8": (17, 1, False), "u16": (18, 2, False), "u32": (6, 4, False), "u64": (21, 8, False), "e": (22, 1, False)}


def var_len(n):
    if n < 128:
        return bytes([n])
    k = max(1, (n.bit_length() + 7) // 8)
    return bytes([0x80 + k]) + n.to_bytes(k, "big")


def ref_encode(t):
    """reference encoder of the harness (validated against Spec.Axdr.encode on every run)."""
    k = t[0]
    if k == "n":
        return b"\x00"
    if k == "b":
        return bytes([3, 1 if t[1] else 0])
    if k in INT:
        tag, size, sg = INT[k]
        return bytes([tag]) + int(t[1]).to_bytes(size, "big", signed=sg)
    if k == "o":
        return b"\x09" + var_len(len(t[1])) + t[1]
    if k == "dt":
        return b"\x19" + t[1]
    if k == "da":
        return b"\x1a" + t[1]
    if k == "ti":
        return b"\x1b" + t[1]
    if k in ("a", "s"):
        return bytes([1 if k == "a" else 2]) + var_len(len(t[1])) + b"".join(ref_encode(x) for x in t[1])
    raise ValueError(k)


def spec_tokens(t):
    k = t[0]
    if k == "n":
        return ["n"]
    if k == "b":
        return ["b1" if t[1] else "b0"]
    if k in INT:
        return [f"{k}:{t[1]}"]
    if k in ("o", "dt", "da", "ti"):
        return [f"{k}:{fw.hx(t[1])}"]
    out = [f"{k}:{len(t[1])}"]
    for x in t[1]:
        out += spec_tokens(x)
    return out


def expected_py(t):
    """the Python value the property demands, from the generated tree."""
    k = t[0]
    if k == "n":
        return "none"
    if k == "b":
        return "T" if t[1] else "F"
    if k in INT:
        return f"i{t[1]}"
    if k == "o":
        return "b" + fw.hx(t[1])
    if k == "dt":
        y, m, d, H, M, S, hu, off, st = t[2]
        return f"dt({y},{m},{d},{H},{M},{S},{hu * 10000},{'none' if off is None else off},{st & 0x8F})"
    if k == "da":
        return "da(%d,%d,%d)" % t[2]
    if k == "ti":
        return "ti(%d,%d,%d,%d)" % (t[2][0], t[2][1], t[2][2], t[2][3] * 10000)
    return "[" + ",".join(expected_py(x) for x in t[1]) + "]"


def show_py(v):
    from dlms_cosem.time import ClockStatus
    if v is None:
        return "none"
    if isinstance(v, bool):
        return "T" if v else "F"
    if isinstance(v, int):
        return f"i{v}"
    if isinstance(v, (bytes, bytearray)):
        return "b" + fw.hx(v)
    if isinstance(v, tuple) and len(v) == 2 and isinstance(v[0], pydt.datetime):
        dt, st = v
        off = dt.utcoffset()
        offs = "none" if off is None else str(int(off.total_seconds() // 60))
        stb = st.to_bytes()[0] if isinstance(st, ClockStatus) else "?"
        return f"dt({dt.year},{dt.month},{dt.day},{dt.hour},{dt.minute},{dt.second},{dt.microsecond},{offs},{stb})"
    if isinstance(v, pydt.datetime):
        return "datetime?"
    if isinstance(v, pydt.date):
        return f"da({v.year},{v.month},{v.day})"
    if isinstance(v, pydt.time):
        return f"ti({v.hour},{v.minute},{v.second},{v.microsecond})"
    if isinstance(v, list):
        return "[" + ",".join(show_py(x) for x in v) + "]"
    return "other:" + type(v).__name__


def tree_from_json(j):
    k = j[0]
    if k in ("o",):
        return (k, bytes.fromhex(j[1]))
    if k in ("dt", "da", "ti"):
        return (k, bytes.fromhex(j[1]), tuple(j[2]))
    if k in ("a", "s"):
        return (k, [tree_from_json(x) for x in j[1]])
    return tuple(j)


def tree_to_json(t):
    k = t[0]
    if k == "o":
        return [k, t[1].hex()]
    if k in ("dt", "da", "ti"):
        return [k, t[1].hex(), list(t[2])]
    if k in ("a", "s"):
        return [k, [tree_to_json(x) for x in t[1]]]
    return list(t)


class C14(fw.Prop):
    id = "C14"
    anchors = ["dlms_cosem/a_xdr.py", "dlms_cosem/dlms_data.py", "dlms_cosem/utils.py",
               "dlms_cosem/protocol/xdlms/selective_access.py"]
    design_ref = "DESIGN.md §6 C14"
    rule = ("value trees from a sized grammar (depth <= 6, width <= 300), integers at every range boundary, octet strings of length "
            "0,1,127,128,255,256,65535,65536,70000, element counts 0,1,127,128,300, canonical date-time/date/time strings; for each tree: "
            "reference encoding = Spec.Axdr.encode (driver), parse_as_dlms_data(encoding) = the tree's Python value, every proper prefix "
            "(thorough) or <= 40 prefixes per tree (quick) refused, two concatenated values give a 2-list; encoders (to_bytes) of the four "
            "classes that have one against Spec for in-range and out-of-range values; random/mutated byte strings compare the model of the "
            "decoder with the code outside the property; every implementation call runs under a 2 s watchdog; every decoded value is overwritten in place and the bytes decoded again; non-trivial = distinct line")
    trusted_base = ["Spec.Axdr is my reading of the Blue Book Data encoding", "C16 for the meaning of date-time strings",
                    "the harness's reference encoder is checked against Spec.Axdr.encode on every generated tree"]
    assumptions = ["non-canonical length prefixes (e.g. 0x81 0x05) are accepted by the decoder; the property speaks of standard encodings"]
    technique = "Lean 4 proof by mutual structural induction over the nested value type (unbounded depth/width): decode∘encode = id with exact consumption, every proper prefix refused, encoders = standard; differential correspondence incl. all prefixes"
    level_text = ("C14_decode_encode / C14_parse_single / C14_prefix_refused / C14_encoder_ok / C14_lenPrefix_roundtrip are theorems about the model of AXdrDecoder and of the "
                  "value encoders, instantiated with the tag table regenerated from the code, for every well-formed value tree. The model is tied to a_xdr.py/dlms_data.py by "
                  "differential comparison on generated trees, all their prefixes and mutated inputs.")
    level_note = "Trusted: Lean kernel (+propext, Classical.choice, Quot.sound), extract.py (tag table), Spec.Axdr, C16, the correspondence harness."
    chunk = 2500

    def make_case(self, d):
        op = d["op"]
        if op == "enc":
            t = tree_from_json(d["tree"])
            ref = ref_encode(t)
            return fw.Case("axdr enc " + " ".join(spec_tokens(t)), lambda: "ok " + fw.hx(ref), "model", d, tags=("ref-encoder",))
        if op == "parse":
            data = bytes.fromhex(d["data"])
            exp = d.get("expect")

            def impl():
                from dlms_cosem.utils import parse_as_dlms_data
                try:
                    v = parse_as_dlms_data(data)
                    r = "ok " + show_py(v)
                    # what the caller does with a decoded value (mark a reading's clock status, edit a list) does not change
                    # what the same bytes decode to next time, nor what its other elements are
                    fw.scribble(v)
                    r2 = "ok " + show_py(parse_as_dlms_data(data))
                    if r2 != r:
                        r = r + " !second-decode-differs " + r2[:120]
                except BaseException as e:
                    if isinstance(e, (KeyboardInterrupt, SystemExit)) or type(e).__name__ == "_Timeout":
                        raise
                    r = "err " + fw.classify_exception(e)
                if exp is not None and r != exp:
                    return r + " !=demanded " + exp
                return r
            return fw.Case(f"axdr parse {fw.hx(data)}", impl, d.get("kind", "model"), d, tags=("parse-" + d.get("tag", "x"),))
        if op == "tobytes":
            t = tree_from_json(d["tree"])

            def impl():
                from dlms_cosem import dlms_data as dd
                cls = {"u32": dd.DoubleLongUnsignedData, "u16": dd.UnsignedLongData, "i8": dd.IntegerData,
                       "o": dd.OctetStringData, "u8": dd.UnsignedIntegerData, "i16": dd.LongData, "b": dd.BooleanData}[t[0]]
                try:
                    return "ok " + fw.hx(cls(t[1]).to_bytes())
                except OverflowError:
                    return "err range"
                except NotImplementedError:
                    return "err decode"
            return fw.Case("axdr tobytes " + " ".join(spec_tokens(t)), impl, d.get("kind", "prop"), d, tags=("tobytes-" + t[0],))
        if op == "range_descriptor":
            def impl():
                from dlms_cosem import cosem, enumerations as en
                from dlms_cosem.protocol.xdlms.selective_access import RangeDescriptor, CaptureObject
                a = d["args"]
                co = CaptureObject(cosem.CosemAttribute(en.CosemInterface(a["iface"]), cosem.Obis(*a["obis"]), a["attr"]), a["index"])
                def mkdt(v):
                    us, off = (v[6], v[7]) if len(v) > 6 else (0, None)
                    tz = None if off is None else pydt.timezone(pydt.timedelta(minutes=off))
                    return pydt.datetime(*v[:6], us, tzinfo=tz)
                rd = RangeDescriptor(co, mkdt(a["from"]), mkdt(a["to"]))
                return "ok " + fw.hx(rd.to_bytes()[1:])     # without the access-selector byte
            a = d["args"]

            def dtb(v):
                y, m, dd_, H, M, S = v[:6]
                us, off = (v[6], v[7]) if len(v) > 6 else (0, None)
                # hundredths = whole hundredths of the second; deviation = minutes to add to local time to get UTC
                dev = b"\x80\x00" if off is None else ((-off) & 0xFFFF).to_bytes(2, "big")
                return y.to_bytes(2, "big") + bytes([m, dd_, 0xFF, H, M, S, us // 10000]) + dev + b"\x00"
            tree = ("s", [("s", [("u16", a["iface"]), ("o", bytes(a["obis"])), ("i8", a["attr"]), ("u16", a["index"])]),
                          ("o", dtb(a["from"])), ("o", dtb(a["to"])), ("a", [])])
            return fw.Case("axdr enc " + " ".join(spec_tokens(tree)), impl, "prop", d, tags=("range-descriptor",))
        raise fw.MachineryError(op)

    # ------------------------------------------------------------------ generators
    def gen_leaf(self, rng):
        k = rng.choice(["n", "b", "i8", "i16", "i32", "i64", "u8", "u16", "u32", "u64", "e", "o", "o", "dt", "da", "ti"])
        if k == "n":
            return ("n",)
        if k == "b":
            return ("b", rng.random() < 0.5)
        if k in INT:
            _, size, sg = INT[k]
            lo, hi = (-(1 << (8 * size - 1)), (1 << (8 * size - 1)) - 1) if sg else (0, (1 << (8 * size)) - 1)
            return (k, rng.choice([lo, hi, 0, 1, -1 if sg else 1, lo + 1, hi - 1, rng.randint(lo, hi)]))
        if k == "o":
            n = rng.choice([0, 1, 2, 12, 127, 128, 129, 255, 256, rng.randint(0, 400)])
            return ("o", bytes(rng.getrandbits(8) for _ in range(n)))
        if k == "dt":
            y, m, d = rng.randint(1, 9999), rng.randint(1, 12), rng.randint(1, 28)
            H, M, S, hu = rng.randint(0, 23), rng.randint(0, 59), rng.randint(0, 59), rng.randint(0, 99)
            off = rng.choice([None, 0, 60, -120, rng.randint(-840, 840)])
            st = rng.choice([0, 1, 0x80, 0x8F])
            dev = 0x8000 if off is None else (-off) % 65536
            b = y.to_bytes(2, "big") + bytes([m, d, 0xFF, H, M, S, hu]) + dev.to_bytes(2, "big") + bytes([st])
            return ("dt", b, (y, m, d, H, M, S, hu, off, st))
        if k == "da":
            y, m, d = rng.randint(1, 9999), rng.randint(1, 12), rng.randint(1, 28)
            return ("da", y.to_bytes(2, "big") + bytes([m, d, rng.choice([0xFF, 1, 7])]), (y, m, d))
        H, M, S, hu = rng.randint(0, 23), rng.randint(0, 59), rng.randint(0, 59), rng.randint(0, 99)
        return ("ti", bytes([H, M, S, hu]), (H, M, S, hu))

    def gen_tree(self, rng, depth, width):
        if depth == 0 or rng.random() < 0.35:
            return self.gen_leaf(rng)
        n = rng.choice([0, 1, 2, 3, rng.randint(0, width)])
        return (rng.choice(["a", "s"]), [self.gen_tree(rng, depth - 1, max(1, width // 3)) for _ in range(n)])

    def cases(self, rng, tier, deep):
        mk = self.make_case
        trees = []
        # boundary leaves
        for k, (_, size, sg) in INT.items():
            lo, hi = (-(1 << (8 * size - 1)), (1 << (8 * size - 1)) - 1) if sg else (0, (1 << (8 * size)) - 1)
            for v in (lo, hi, 0, 1, lo + 1, hi - 1):
                trees.append((k, v))
        for n in (0, 1, 127, 128, 255, 256, 65535, 65536, 70000):
            trees.append(("o", bytes((i * 7 + 3) % 256 for i in range(n))))
        for n in (0, 1, 127, 128, 300):
            trees.append(("a", [("u8", i % 256) for i in range(n)]))
            trees.append(("s", [("n",) for _ in range(n)]))
        trees += [("n",), ("b", True), ("b", False)]
        # calendar boundaries: the last day of every month, 29 February in years divisible by 4 / 100 / 400
        for (y, m, d) in [(2000, 2, 29), (2400, 2, 29), (1600, 2, 29), (2024, 2, 29), (4, 2, 29), (2100, 2, 28), (1900, 2, 28), (9999, 12, 31), (1, 1, 1)] + \
                [(2023, mm, 31 if mm in (1, 3, 5, 7, 8, 10, 12) else 30 if mm != 2 else 28) for mm in range(1, 13)]:
            trees.append(("da", y.to_bytes(2, "big") + bytes([m, d, 0xFF]), (y, m, d)))
            off, st = rng.choice([None, 0, 60, -120]), rng.choice([0, 0x80])
            dev = 0x8000 if off is None else (-off) % 65536
            H, M, S, hu = rng.randint(0, 23), rng.randint(0, 59), rng.randint(0, 59), rng.randint(0, 99)
            trees.append(("dt", y.to_bytes(2, "big") + bytes([m, d, 0xFF, H, M, S, hu]) + dev.to_bytes(2, "big") + bytes([st]), (y, m, d, H, M, S, hu, off, st)))
            trees.append(("s", [trees[-1], ("a", [trees[-2]])]))
        # many empty containers side by side (flat, not deep), also as the last column of many rows
        for n in (31, 32, 33, 64, 100, 300):
            trees.append(("a", [("a", []) for _ in range(n)]))
            trees.append(("s", [("s", []) for _ in range(n)]))
            trees.append(("a", [("s", [("u8", i % 256), ("a", [])]) for i in range(n)]))
            trees.append(("s", [("a", [("s", [])]) for _ in range(n)] + [("s", [("a", [("u8", 1)])])]))
        nested = ("u8", 7)
        for _ in range(6):
            nested = ("s", [nested, ("a", [nested])])
        trees.append(nested)
        for _ in range(600 if deep else 60):
            trees.append(self.gen_tree(rng, rng.randint(1, 6), rng.choice([3, 10, 60, 300])))
        for _ in range(300 if deep else 40):
            trees.append(self.gen_leaf(rng))
        for t in trees:
            enc = ref_encode(t)
            if len(enc) > 200000:
                continue
            tj = tree_to_json(t)
            yield mk({"op": "enc", "tree": tj})
            yield mk({"op": "parse", "data": enc.hex(), "expect": "ok " + expected_py(t), "kind": "prop", "tag": "roundtrip"})
            # proper prefixes must be refused
            cutpoints = range(1, len(enc)) if (deep and len(enc) <= 600) else sorted(set(
                [1, 2, 3, len(enc) - 1, len(enc) - 2] + [rng.randrange(1, max(2, len(enc))) for _ in range(35)]))
            for n in cutpoints:
                if 0 < n < len(enc):
                    yield mk({"op": "parse", "data": enc[:n].hex(), "expect": "err decode", "kind": "prop", "tag": "prefix"})
        # two values in a row
        for _ in range(200 if deep else 30):
            a, b = self.gen_leaf(rng), self.gen_tree(rng, 2, 4)
            yield mk({"op": "parse", "data": (ref_encode(a) + ref_encode(b)).hex(),
                      "expect": "ok [" + expected_py(a) + "," + expected_py(b) + "]", "kind": "prop", "tag": "two-values"})
        # declared count/length exceeding the data
        for hexs in ("0905010203", "0105110111021103", "0203110111", "09820100aabb", "0184ffffffff", "098400000005aabbccdd", "01811101"):
            yield mk({"op": "parse", "data": hexs, "expect": "err decode", "kind": "prop", "tag": "declared-exceeds"})
        # encoders
        for v in (0, 1, 255, 256, 65535, 65536, 2 ** 32 - 1, 2 ** 32):
            yield mk({"op": "tobytes", "tree": ["u32", v]})
            yield mk({"op": "tobytes", "tree": ["u16", v]})
        for v in (-129, -128, -1, 0, 1, 127, 128, 200, 255):
            yield mk({"op": "tobytes", "tree": ["i8", v]})
        for n in (0, 1, 127, 128, 129, 255, 256, 300, 65535, 65536):
            yield mk({"op": "tobytes", "tree": ["o", (bytes((i * 5) % 256 for i in range(n))).hex()]})
        for k, v in (("u8", 5), ("i16", 5), ("b", True)):
            yield mk({"op": "tobytes", "tree": [k, v], "kind": "model"})
        for _ in range(60 if deep else 8):
            yield mk({"op": "range_descriptor", "args": {
                "iface": rng.choice([1, 3, 7, 8, 70]), "obis": [rng.getrandbits(8) for _ in range(6)], "attr": rng.randint(-128, 127),
                "index": rng.choice([0, 1, 65535]), "from": [rng.randint(1, 9999), rng.randint(1, 12), rng.randint(1, 28), rng.randint(0, 23), rng.randint(0, 59), rng.randint(0, 59)],
                "to": [rng.randint(1, 9999), rng.randint(1, 12), rng.randint(1, 28), 0, 0, 0]}})
        # range descriptors whose bounds carry microseconds (every hundredth, the last ones of a second) and UTC offsets on both
        # sides of zero
        for us in ([0, 9999, 10000, 126000, 290000, 570000, 580000, 994999, 995000, 999999] if not deep else
                   [h * 10000 + x for h in range(100) for x in (0, 4999, 9999)]):
            for off in (None, 0, 60, -1, -60, -300, -720, 840, -840):
                yield mk({"op": "range_descriptor", "args": {
                    "iface": 8, "obis": [0, 0, 1, 0, 0, 255], "attr": 2, "index": 0,
                    "from": [2021, 7, 15, 12, 30, 59, us, off], "to": [2021, 12, 31, 23, 59, 59, 999999 if us % 20000 else 0, off]}})
                if deep or us in (0, 999999):
                    continue
                break
        # model correspondence outside the property: random and mutated inputs
        pool = [ref_encode(t) for t in trees if len(ref_encode(t)) < 300]
        for _ in range(20000 if deep else 1500):
            r = rng.random()
            if r < 0.5 and pool:
                b = bytearray(rng.choice(pool))
                for _ in range(rng.randint(1, 3)):
                    if b:
                        b[rng.randrange(len(b))] = rng.getrandbits(8)
                data = bytes(b)
            else:
                data = bytes(rng.choice([0, 1, 2, 3, 5, 6, 9, 15, 16, 17, 18, 20, 21, 22, 25, 26, 27, 4, 10, 23, 255, rng.getrandbits(8)])
                             if i == 0 or rng.random() < 0.3 else rng.getrandbits(8) & (0x0F if rng.random() < 0.5 else 0xFF)
                             for i in range(rng.randint(1, 30)))
            yield mk({"op": "parse", "data": data.hex(), "kind": "model", "tag": "random"})


PROP = C14()
