"""C15 - profile buffers and association object lists are interpreted column-by-column."""
import datetime as pydt

from harness import framework as fw
from harness.props import c14

EPOCH = pydt.datetime(1, 1, 1)


STATUS = [0x00, 0x00, 0x01, 0x80, 0x0F, 0x02, 0x8F, 0x00]


def dt_bytes(us, zone, ident=0):
    """12-byte date-time for `us` microseconds after 0001-01-01 (multiple of 10 ms); zone 0 = naive,
    otherwise UTC offset = zone - 900 minutes.  The clock-status byte varies with the cell (invalid, doubtful, summer time...):
    a transmitted timestamp is a timestamp whatever its status says."""
    dt = EPOCH + pydt.timedelta(microseconds=us)
    dev = 0x8000 if zone == 0 else (-(zone - 900)) % 65536
    return dt.year.to_bytes(2, "big") + bytes([dt.month, dt.day, 0xFF, dt.hour, dt.minute, dt.second,
                                               dt.microsecond // 10000]) + dev.to_bytes(2, "big") + bytes([STATUS[ident % len(STATUS)]])


def stamp_of(dt):
    off = dt.utcoffset()
    zone = 0 if off is None else int(off.total_seconds() // 60) + 900
    td = dt.replace(tzinfo=None) - EPOCH
    return (td.days * 86400 + td.seconds) * 1000000 + td.microseconds, zone


class C15(fw.Prop):
    id = "C15"
    anchors = ["dlms_cosem/parsers.py", "dlms_cosem/cosem/association.py", "dlms_cosem/cosem/profile_generic.py"]
    design_ref = "DESIGN.md §6 C15"
    rule = ("buffers of 0..200 rows x 1..12 columns, the clock column in every position (also two clock columns and none), null patterns "
            "none / all / first row / alternating / random 30 %, capture periods 0,1,15,60,1440, naive and aware timestamps; rows of wrong "
            "width at every position; a non-timestamp value in a clock column; the same buffers through parse_bytes (A-XDR array of "
            "structures); object lists with every access-mode byte 0..255, 0..20 attributes/methods, selector lists present/absent/empty, "
            "duplicate attribute ids, unknown interface classes, logical names of wrong length; row counts written in the long form (0x81 n, 0x82 00 n); boolean cells whose TRUE is FF / 80 / 02; non-trivial = distinct protocol line")
    trusted_base = ["extract.py (parse_access_right graph, enum members)", "C14 (decoding of the transmitted bytes), C16 (meaning of timestamps)"]
    assumptions = ["with more than one clock column the code keeps a single running timestamp (the most recent transmitted or filled one); "
                   "with one clock column this is the previous row's timestamp, as the property says",
                   "a null outside a clock column is reported as a cell bound to its capture object holding None"]
    technique = "Lean 4 proof by induction over rows and columns (shape, binding, values, fill recurrence against a simple fold specification, width refusal) and kernel-decided equality of the extracted access-right graph with 'bits set'; differential correspondence"
    level_text = ("C15_shape / C15_cells / C15_fill / C15_width_refused / C15_rights / C15_objects: theorems about the model of parse_entries (any number of rows, columns and "
                  "null patterns) and of the object-list parser, the access-right decoder being the complete graph regenerated from the code. Tied to parsers.py by differential "
                  "comparison on generated buffers (directly and through parse_bytes) and object lists.")
    level_note = "Trusted: Lean kernel (+propext, Classical.choice, Quot.sound), extract.py, C14/C16, the correspondence harness."
    chunk = 1500

    # ------------------------------------------------------------------ profile buffers
    def entries_case(self, d, via_bytes=False):
        period, clocks, rows = d["period"], d["clocks"], d["rows"]

        def cell_txt(c):
            if c[0] == "N":
                return "N"
            if c[0] == "V":
                return f"V{c[1]}"
            return f"T{c[1]}:{c[2]}:{c[3]}"
        line = (f"pars entries {period} {''.join('1' if c else '0' for c in clocks)} " +
                (";".join((",".join(cell_txt(c) for c in r) if r else "_") for r in rows) if rows else "-"))

        def impl():
            from dlms_cosem import cosem, enumerations as en
            from dlms_cosem.parsers import ProfileGenericBufferParser, ColumnValue
            # (same_clock: the one clock object of the meter captured in several columns - equal capture objects)
            caps = [cosem.CosemAttribute(en.CosemInterface.CLOCK if c else en.CosemInterface.REGISTER,
                                         cosem.Obis(0, 0, 1, 0, 0, 255) if (c and d.get("same_clock")) else cosem.Obis(1, 0, j, 8, 0, 255), 2)
                    for j, c in enumerate(clocks)]
            ids = {}

            FALSY = {0: 0, 1: False, 2: b"", 3: []}      # value ids 0..3 stand for transmitted values that are falsy in Python

            def to_py(c):
                if c[0] == "N":
                    return None
                if c[0] == "V":
                    if c[1] in FALSY:
                        ids[b""] = 2
                        return FALSY[c[1]]
                    return c[1]
                b = dt_bytes(c[2], c[3], c[1])
                ids[b] = c[1]
                return b
            parser = ProfileGenericBufferParser(capture_objects=caps, capture_period=period)
            if d.get("used_before"):
                # the same parser object has parsed another buffer (with transmitted clocks) before: a buffer is parsed on
                # its own - leading null clocks have no previous row
                import datetime as _dt
                try:
                    parser.parse_entries([[dt_bytes(10 ** 15, 0) if c else 77 for c in clocks] for _ in range(2)])
                except Exception:  # noqa
                    pass
            if via_bytes:
                def to_tree(c):
                    if c[0] == "N":
                        return ("n",)
                    if c[0] == "V":
                        if c[1] == 2:
                            ids[b""] = 2
                            return ("o", b"")
                        if c[1] == 3:
                            return ("a", [])
                        # the value id travels in different integer types (negative for the signed ones); read back by magnitude
                        kind = ("u32", "i64", "i32", "u16", "i16", "u64")[c[1] % 6]
                        if kind == "i16" and c[1] > 32767:
                            kind = "i32"                   # (the id has to fit the type it travels in)
                        if kind == "u16" and c[1] > 65535:
                            kind = "u32"
                        if kind.startswith("i"):
                            return (kind, -c[1])
                        return (kind, c[1])
                    b = dt_bytes(c[2], c[3], c[1])
                    ids[b] = c[1]
                    return ("o", b)
                data = c14.ref_encode(("a", [("s", [to_tree(c) for c in r]) for r in rows]))
                if d.get("long_count") and data[1] < 0x80:
                    # the number of rows written in the long form (0x81 n / 0x82 00 n), as some meters do for every length
                    data = data[:1] + (bytes([0x81, data[1]]) if d["long_count"] == 1 else bytes([0x82, 0x00, data[1]])) + data[2:]
                # parsing is a function of the bytes: buffers cut short in the middle of an element, or holding a type the library
                # does not decode, parsed before (by this and by another parser object) do not influence it
                other = ProfileGenericBufferParser(capture_objects=caps, capture_period=period)
                for bad in (data[:len(data) // 2], data[:-1], b"\x01\x01\x02\x02\x0a\x03abc\x11\x05", data[:3]):
                    for prs in (other, parser):
                        try:
                            prs.parse_bytes(bad)
                        except fw._Timeout:
                            raise
                        except BaseException:  # noqa
                            pass
                out = parser.parse_bytes(data)
            elif d.get("via_profile"):
                # through the profile-generic object of the COSEM layer (always the same logical name, as one meter model
                # read many times, or many meters of one type with differently configured profiles)
                from dlms_cosem.cosem import profile_generic as pg
                from dlms_cosem.protocol.xdlms.selective_access import CaptureObject
                sm = d.get("sort_method")
                inst = pg.ProfileGeneric(logical_name=cosem.Obis(1, 0, 99, 1, 0, 255), capture_objects=[CaptureObject(a, 0) for a in caps],
                                         capture_period=period, sort_method=None if sm is None else pg.SortMethod(sm),
                                         # (what the profile object says about its fill level is not what was transmitted)
                                         entries_in_use=d.get("entries_in_use"), profile_entries=d.get("profile_entries"))
                out = pg.ProfileGeneric.DYNAMIC_CONVERTERS[2](inst, [[to_py(c) for c in r] for r in rows])
            else:
                out = parser.parse_entries([[to_py(c) for c in r] for r in rows])
            txt = []
            for r in out:
                cells = []
                for o in r:
                    if o is None:
                        cells.append("-")
                        continue
                    if not isinstance(o, ColumnValue):
                        cells.append("?" + type(o).__name__)
                        continue
                    col = [k for k, a in enumerate(caps) if a is o.attribute or (d.get("via_profile") and a == o.attribute)]
                    col = col[0] if col else "?"
                    v = o.value
                    if v is None:
                        cells.append(f"{col}=null")
                    elif isinstance(v, pydt.datetime):
                        us, zone = stamp_of(v)
                        cells.append(f"{col}=t{us}:{zone}")
                    elif isinstance(v, (bytes, bytearray)):
                        cells.append(f"{col}=v{ids.get(bytes(v), '?')}")
                    elif v is False:
                        cells.append(f"{col}=v1")
                    elif isinstance(v, list) and not v:
                        cells.append(f"{col}=v3")
                    elif via_bytes and isinstance(v, int) and v < 0:
                        cells.append(f"{col}=v{-v}")
                    else:
                        cells.append(f"{col}=v{v}")
                txt.append(",".join(cells))
            return "ok " + ";".join(txt)
        return fw.Case(line, impl, "prop", dict(d, via_bytes=via_bytes), tags=("entries-bytes" if via_bytes else ("entries-profile" if d.get("via_profile") else "entries"),))

    # ------------------------------------------------------------------ object lists
    def objects_case(self, d):
        objs = d["objs"]

        def sel_txt(s):
            return "none" if s is None else ("empty" if s == [] else "+".join(map(str, s)))
        line = "pars objects " + (";".join(
            f"{o['cls']}|{o['ver']}|{o['ln']}|" + ",".join(f"{a}:{m}:{sel_txt(s)}" for a, m, s in o["attrs"]) + "|" +
            ",".join(f"{a}:{m}" for a, m in o["meths"]) for o in objs) if objs else "-")

        def impl():
            from dlms_cosem.parsers import AssociationObjectListParser
            inp = [[o["cls"], o["ver"], bytes.fromhex(o["ln"]),
                    [[[a, m, s] for a, m, s in o["attrs"]], [[a, m] for a, m in o["meths"]]]] for o in objs]
            out = AssociationObjectListParser.parse_entries(inp)
            txt = []
            for x in out:
                ln = x.logical_name
                attrs = ",".join(f"{k}:[{'+'.join(str(int(r)) for r in v.access_rights)}]:[{'+'.join(map(str, v.access_selectors))}]"
                                 + ("" if v.attribute == k else "!key") for k, v in x.attribute_access_rights.items())
                meths = ",".join(f"{k}:[{'+'.join(str(int(r)) for r in v.access_rights)}]" + ("" if v.method == k else "!key")
                                 for k, v in x.method_access_rights.items())
                txt.append(f"{int(x.interface)}|{x.version}|{ln.a}.{ln.b}.{ln.c}.{ln.d}.{ln.e}.{ln.f}|{attrs}|{meths}")
            return "ok " + ";".join(txt)
        return fw.Case(line, impl, "prop", d, tags=("objects",))

    def bool_case(self, d):
        """boolean cells whose TRUE is written as any non-zero octet (FF, 80, 02, 01): the cell holds the transmitted value."""
        octets = d["octets"]

        def impl():
            from dlms_cosem import cosem, enumerations as en
            from dlms_cosem.parsers import ProfileGenericBufferParser
            caps = [cosem.CosemAttribute(en.CosemInterface.REGISTER, cosem.Obis(1, 0, j, 8, 0, 255), 2) for j in range(len(octets[0]))]
            data = bytes([1, len(octets)]) + b"".join(bytes([2, len(r)]) + b"".join(bytes([3, o]) for o in r) for r in octets)
            out = ProfileGenericBufferParser(capture_objects=caps, capture_period=60).parse_bytes(data)
            got = [[c.value for c in r] for r in out]
            want = [[o != 0 for o in r] for r in octets]
            return "ok bool" + ("" if got == want else f" cells-hold:{got}")
        return fw.Case("echo bool", impl, "prop", d, tags=("boolean-octets",))

    def make_case(self, d):
        if d.get("op") == "bool":
            return self.bool_case(d)
        if d["op"] == "entries":
            return self.entries_case(d, via_bytes=d.get("via_bytes", False))
        return self.objects_case(d)

    def cases(self, rng, tier, deep):
        yield self.make_case({"op": "bool", "octets": [[0xFF, 0x00], [0x80, 0x01], [0x02, 0x7F]]})
        yield self.make_case({"op": "bool", "octets": [[rng.choice([0, 1, 0xFF, rng.getrandbits(8)]) for _ in range(3)] for _ in range(5)]})
        nid = [100]

        def fresh():
            nid[0] += 1
            return nid[0]

        def gen_buffer(nrows, ncols, clocks, pattern, zone):
            rows = []
            t = rng.randrange(0, 10 ** 15, 10000)
            for i in range(nrows):
                row = []
                for j in range(ncols):
                    if pattern == "none":
                        null = False
                    elif pattern == "all":
                        null = True
                    elif pattern == "first":
                        null = i == 0
                    elif pattern == "alt":
                        null = (i + j) % 2 == 0
                    else:
                        null = rng.random() < 0.3
                    if null:
                        row.append(["N"])
                    elif clocks[j]:
                        t += rng.randrange(10000, 10 ** 10, 10000)
                        row.append(["T", fresh(), t, zone])
                    else:
                        row.append(["V", fresh()] if rng.random() < 0.8 else ["T", fresh(), rng.randrange(0, 10 ** 15, 10000), 0])
                rows.append(row)
            return rows
        n = 400 if deep else 60
        for k in range(n):
            ncols = rng.randint(1, 12)
            nrows = rng.choice([0, 1, 2, 3, rng.randint(0, 30), rng.randint(0, 200 if deep else 60)])
            style = rng.random()
            clocks = [False] * ncols
            if style < 0.7:
                clocks[rng.randrange(ncols)] = True
            elif style < 0.85 and ncols >= 2:
                for j in rng.sample(range(ncols), 2):
                    clocks[j] = True
            period = rng.choice([0, 1, 15, 60, 1440])
            pattern = rng.choice(["none", "all", "first", "alt", "rand"])
            zone = rng.choice([0, 0, 900, 960, 60])
            rows = gen_buffer(nrows, ncols, clocks, pattern, zone)
            d = {"op": "entries", "period": period, "clocks": clocks, "rows": rows}
            yield self.make_case(d)
            if k % 3 == 0:
                yield self.make_case(dict(d, via_bytes=True))
            if k % 6 == 1:
                yield self.make_case(dict(d, via_bytes=True, long_count=1 + k % 2))
            if k % 4 == 1:
                yield self.make_case(dict(d, via_profile=True, sort_method=rng.choice([None, 1, 2, 3, 4, 5, 6])))
                yield self.make_case(dict(d, via_profile=True, sort_method=rng.choice([None, 1, 2]), entries_in_use=rng.choice([0, 1, max(nrows - 1, 0), nrows, nrows + 5]),
                                          profile_entries=rng.choice([None, 0, nrows, 1000])))
            if k % 5 == 2:
                yield self.make_case(dict(d, used_before=True))
            if nrows and k % 4 == 0:
                bad = [list(r) for r in rows]
                i = rng.randrange(nrows)
                bad[i] = bad[i][:-1] if rng.random() < 0.5 and ncols > 0 else bad[i] + [["V", fresh()]]
                yield self.make_case({"op": "entries", "period": period, "clocks": clocks, "rows": bad})
            if nrows and any(clocks) and k % 7 == 0:
                bad = [list(r) for r in rows]
                i = rng.randrange(nrows)
                bad[i][clocks.index(True)] = ["V", fresh()]
                yield self.make_case({"op": "entries", "period": period, "clocks": clocks, "rows": bad})
        # transmitted values that are falsy in Python (0, False, empty octet string, empty array) are values, not nulls
        for falsy in (0, 1, 2, 3):
            for clocks in ([False, False], [True, False], [False, True, False]):
                rows = [[["V", falsy] if not c else ["T", fresh(), 10 ** 12 + 10 ** 9 * i, 0] for c in clocks] for i in range(3)]
                rows.append([["V", falsy] if not c else ["N"] for c in clocks])
                yield self.make_case({"op": "entries", "period": 15, "clocks": clocks, "rows": rows})
                if falsy != 1:
                    yield self.make_case({"op": "entries", "period": 15, "clocks": clocks, "rows": rows, "via_bytes": True})
        # the same clock object captured in two or three columns (equal capture objects), nulls in either
        for clocks in ([True, True], [True, False, True], [False, True, False, True, True], [True, False, False, True]):
            for pattern in ("alt", "none", "all"):
                d = {"op": "entries", "period": 15, "clocks": clocks, "rows": gen_buffer(5, len(clocks), clocks, pattern, rng.choice([0, 60])), "same_clock": True}
                yield self.make_case(d)
                yield self.make_case(dict(d, via_bytes=True))
        # clock column in every position of a 12-column buffer
        for c in range(12):
            clocks = [j == c for j in range(12)]
            yield self.make_case({"op": "entries", "period": 15, "clocks": clocks, "rows": gen_buffer(6, 12, clocks, "alt", 0)})
        # object lists: every access mode
        classes = [1, 3, 7, 8, 15, 70]
        for mode in range(256):
            yield self.make_case({"op": "objects", "objs": [{"cls": classes[mode % 6], "ver": mode % 4, "ln": bytes([0, 0, mode, 0, 0, 255]).hex(),
                                                             "attrs": [[1, mode, None], [2, 255 - mode, [1, 2]]], "meths": [[1, mode]]}]})
        for _ in range(300 if deep else 40):
            objs = []
            for _ in range(rng.randint(0, 5)):
                na, nm = rng.randint(0, 20), rng.randint(0, 20)
                aid = rng.sample(range(-10, 60), na) if rng.random() < 0.85 else [rng.randint(1, 4) for _ in range(na)]
                mid = rng.sample(range(1, 60), nm) if rng.random() < 0.85 else [rng.randint(1, 3) for _ in range(nm)]
                objs.append({"cls": rng.choice(classes + [2, 9999] if rng.random() < 0.1 else classes), "ver": rng.randint(0, 3),
                             "ln": bytes(rng.getrandbits(8) for _ in range(6 if rng.random() < 0.95 else 5)).hex(),
                             "attrs": [[a, rng.getrandbits(8), rng.choice([None, [], [1], [1, 2, 3]])] for a in aid],
                             "meths": [[m, rng.getrandbits(8)] for m in mid]})
            yield self.make_case({"op": "objects", "objs": objs})


PROP = C15()
