"""C10 - HDLC receive path yields the same frames however the byte stream is chunked."""
import hashlib

from harness import framework as fw


def _addr():
    from dlms_cosem.hdlc.address import HdlcAddress
    return HdlcAddress(1, None, "client"), HdlcAddress(1, 17, "server")


def frame_bytes(i, payload, segmented=False, final=True, srv=None):
    from dlms_cosem.hdlc import frames
    client, server = _addr()
    if srv is not None:
        from dlms_cosem.hdlc.address import HdlcAddress
        server = HdlcAddress(srv[0], srv[1], "server")
    return frames.InformationFrame(client, server, payload, send_sequence_number=i % 8, receive_sequence_number=0,
                                   segmented=segmented, final=final).to_bytes()


def token(n, payloads):
    h = hashlib.blake2b(b"|".join(p.hex().encode() for p in payloads[:n]), digest_size=6).hexdigest()
    return f"{n}:{h}"


def run_ua(ua, cuts):
    """a UA (answer to SNRM) arriving in pieces: delivered exactly when its last byte is in, nothing raised before, nothing left."""
    from dlms_cosem.hdlc.connection import HdlcConnection
    from dlms_cosem.hdlc import frames, state as hstate
    client, server = _addr()
    conn = HdlcConnection(server, client)
    conn.send(frames.SetNormalResponseModeFrame(server, client))
    chunks = [ua[a:b] for a, b in zip([0] + cuts, cuts + [len(ua)])]
    fed = 0
    for ch in chunks:
        conn.receive_data(ch)
        fed += len(ch)
        got = None
        while True:
            ev = conn.next_event()
            if ev is not hstate.NEED_DATA:
                got = ev
                break
            if conn.buffer.find(b"\x7e", conn.buffer_search_position) < 0:
                break
        if got is not None and fed < len(ua):
            return f"ok ua delivered-after-{fed}-of-{len(ua)}-bytes"
        if got is None and fed == len(ua):
            return f"ok ua never-delivered buffer={len(conn.buffer)}"
        if got is not None and (bytes(got.payload) != bytes(ua[9:-3] if len(ua) > 11 else b"") or len(conn.buffer)):
            return f"ok ua delivered-payload={bytes(got.payload).hex()} buffer={len(conn.buffer)}"
    return "ok ua"


def run_stream(chunks, with_token=True, second_conn=False, reuse_buf=False):
    """feed the chunks to a real HdlcConnection that awaits a response; poll until nothing is pending."""
    from dlms_cosem.hdlc.connection import HdlcConnection
    from dlms_cosem.hdlc import frames, state as hstate
    client, server = _addr()
    conn = HdlcConnection(server, client)
    conn.send(frames.SetNormalResponseModeFrame(server, client))
    conn.receive_data(frames.UnNumberedAcknowledgmentFrame(client, server, b"").to_bytes())
    assert conn.next_event() is not hstate.NEED_DATA
    conn.send(frames.ReceiveReadyFrame(server, client, receive_sequence_number=conn.server_rsn))
    outs = ["ok"]
    delivered = []
    other = None
    shared_buf = bytearray()
    if second_conn:
        # another connection in the same process (another meter on another port) that is in the middle of receiving a frame
        # of its own: connections do not share their receive buffers
        other = HdlcConnection(server, client)
        other.send(frames.SetNormalResponseModeFrame(server, client))
        other.receive_data(frames.UnNumberedAcknowledgmentFrame(client, server, b"").to_bytes())
        other.next_event()
        other.send(frames.ReceiveReadyFrame(server, client, receive_sequence_number=other.server_rsn))
        other.receive_data(b"\x7e\xa0\x19\x03\x02")
    for ch in chunks:
        if other is not None:
            other.receive_data(b"\x23")
            other.next_event()
        if reuse_buf:
            # the caller reads into one buffer of its own and hands that same object over every time
            shared_buf[:] = ch
            conn.receive_data(shared_buf)
        else:
            conn.receive_data(ch)
        new = []
        while True:
            ev = conn.next_event()
            if ev is hstate.NEED_DATA:
                if conn.buffer.find(b"\x7e", conn.buffer_search_position) < 0:
                    break
                continue
            new.append(bytes(ev.payload))
            # keep the link in the receiving state, as the transport does between segments
            conn.send(frames.ReceiveReadyFrame(server, client, receive_sequence_number=conn.server_rsn))
        delivered.extend(new)
        outs.append(f"{token(len(delivered), delivered) if with_token else '-'} | n={len(delivered)} buf={len(conn.buffer)} "
                    f"pos={conn.buffer_search_position} new={','.join(fw.hx(p) for p in new)}")
    return outs


class C10(fw.Prop):
    id = "C10"
    anchors = ["dlms_cosem/hdlc/connection.py", "dlms_cosem/hdlc/frames.py"]
    design_ref = "DESIGN.md §6 C10"
    rule = ("streams of 1..8 information frames (correctly numbered), consecutive frames sharing a flag or not, payload lengths 0..2030, "
            "flag-byte density 0/5/50/100 %; every single cut position and every pair of cut positions for streams <= 60 bytes, random "
            "multi-cuts down to 1-byte chunks for long ones; after every chunk the harness polls until no flag lies at or after the search "
            "position; left side of each line = what C10 demands (number and digest of the frames wholly received so far), right side = the "
            "model's buffer length / search position / newly delivered payloads; malformed streams (garbage between frames, doubled flags) "
            "validate the model outside the theorem; streams handed over in one re-used bytearray; the longest frames from four-byte stations with shared and own flags; the UA answering SNRM in pieces (bare, with parameters 126/128, with 0x7E in a check sequence); non-trivial = distinct (stream, cut set)")
    trusted_base = ["C09 (frame parser accepts complete frames and refuses proper prefixes)", "the correspondence harness (RR sent after each delivered frame keeps the link awaiting a response)"]
    assumptions = ["'polling until none is pending' = polling until no flag byte lies at or after buffer_search_position (one poll examines one candidate flag)"]
    technique = "Lean 4 proof: online draining = batch draining (appending never changes a possible poll), batch delivery by induction over frames using parser facts P1/P2 proved for the C09 parser; differential correspondence over all cut positions"
    level_text = ("C10_prefix_delivery / C10_chunking_irrelevant: for every list of frames (bodies with flag bytes anywhere but first), every shared/separate flag choice and every "
                  "partition into chunks, the model of receive_data/next_event/_find_frame/_tidy_buffer delivers exactly the frames wholly received, in order, once, and ends with an "
                  "empty buffer; C10_good_of_wf discharges the parser hypotheses for the modelled library parser on every well-formed frame. Tied to connection.py by differential runs "
                  "over every cut position (pairs of cuts for short streams).")
    level_note = "Trusted: Lean kernel (+propext, Classical.choice, Quot.sound), the correspondence harness; link state/sequence handling during reception is C11."
    chunk = 3000

    def make_case(self, d):
        if d.get("ua"):
            ua = bytes.fromhex(d["ua"])
            return fw.Case("echo ua", lambda: run_ua(ua, list(d["cuts"])), "prop", dict(d), tags=("ua-in-pieces",))
        frames = [bytes.fromhex(x) for x in d["frames"]]          # complete wire frames
        payloads = [bytes.fromhex(x) for x in d["payloads"]]
        share = d["share"]
        garbage = [bytes.fromhex(x) for x in d.get("garbage", [""] * len(frames))]
        stream = b""
        ends = []
        for i, f in enumerate(frames):
            g = garbage[i] if i < len(garbage) else b""
            if i > 0 and share[i - 1] and not g:
                stream += f[1:]
            else:
                stream += g + f
            ends.append(len(stream))
        cuts = sorted(set(c for c in d["cuts"] if 0 < c < len(stream)))
        chunks = [stream[a:b] for a, b in zip([0] + cuts, cuts + [len(stream)])]
        # pieces of size zero (a read that timed out with nothing): inserted at the given chunk indices
        for i in sorted(d.get("empties", []), reverse=True):
            chunks.insert(min(i, len(chunks)), b"")
        lines = ["rx init"]
        fed = 0
        for ch in chunks:
            fed += len(ch)
            n = sum(1 for e in ends if e <= fed)
            # with garbage in the stream the property demands nothing: compare the model side only
            lines.append(f"rx feed {fw.hx(ch)} {token(n, payloads) if not d.get('garbage') else '-'}")
        kind = "split" if not d.get("garbage") else "model"
        return fw.Case(lines, lambda: run_stream(chunks, with_token=not d.get("garbage"), second_conn=bool(d.get("second_conn")),
                                                 reuse_buf=bool(d.get("reuse_buf"))), kind, dict(d),
                       tags=(d.get("tag", "stream"), f"frames{len(frames)}"))

    def gen_stream(self, rng, nframes, maxlen, density):
        payloads = []
        for _ in range(nframes):
            L = rng.choice([0, 1, 2, rng.randint(0, maxlen), rng.randint(0, maxlen)])
            p = bytes(0x7E if rng.random() < density else rng.getrandbits(8) for _ in range(L))
            payloads.append(p)
        frames = [frame_bytes(i, p, segmented=(i < nframes - 1)) for i, p in enumerate(payloads)]
        share = [rng.random() < 0.5 for _ in range(nframes - 1)]
        return frames, payloads, share

    def cases(self, rng, tier, deep):
        mk = self.make_case

        def d_of(frames, payloads, share, cuts, tag, garbage=None):
            d = {"frames": [f.hex() for f in frames], "payloads": [p.hex() for p in payloads], "share": share, "cuts": cuts, "tag": tag}
            if garbage:
                d["garbage"] = [g.hex() for g in garbage]
            return d
        # short streams: every cut and every pair of cuts
        for rep in range(12 if deep else 3):
            for density in (0.0, 0.05, 0.5, 1.0):
                n = rng.randint(1, 3)
                frames, payloads, share = self.gen_stream(rng, n, 6, density)
                total = sum(len(f) for f in frames) - sum(share)
                if total > 60:
                    continue
                yield mk(d_of(frames, payloads, share, [], "one-chunk"))
                for c in range(1, total):
                    yield mk(d_of(frames, payloads, share, [c], "every-cut"))
                pairs = [(a, b) for a in range(1, total) for b in range(a + 1, total)]
                if not deep:
                    pairs = rng.sample(pairs, min(len(pairs), 150))
                for a, b in pairs:
                    yield mk(d_of(frames, payloads, share, [a, b], "every-cut-pair"))
                yield mk(d_of(frames, payloads, share, list(range(1, total)), "one-byte-chunks"))
        # pieces of size zero between the pieces; a second connection alive in the same process; payloads that are themselves
        # complete valid frames (a forwarded / captured frame, flags and check sequences included)
        for rep in range(30 if deep else 6):
            n = rng.randint(1, 3)
            frames, payloads, share = self.gen_stream(rng, n, 8, rng.choice([0.0, 0.3]))
            total = sum(len(f) for f in frames) - sum(share)
            cuts = sorted(rng.sample(range(1, total), min(total - 1, rng.randint(1, 6))))
            d = d_of(frames, payloads, share, cuts, "empty-pieces")
            d["empties"] = [rng.randint(0, len(cuts) + 1) for _ in range(rng.randint(1, 3))]
            yield mk(d)
            d = d_of(frames, payloads, share, cuts, "second-connection")
            d["second_conn"] = True
            yield mk(d)
        for rep in range(20 if deep else 4):
            inner = frame_bytes(rng.randrange(8), bytes(rng.getrandbits(8) for _ in range(rng.randint(1, 12))))
            payloads = [rng.choice([inner, b"\x01" + inner, inner + b"\x02", inner + inner[1:]])] + [b"\x05\x06"]
            frames = [frame_bytes(i, p, segmented=(i < 1)) for i, p in enumerate(payloads)]
            share = [rng.random() < 0.5]
            total = sum(len(f) for f in frames) - sum(share)
            yield mk(d_of(frames, payloads, share, [], "embedded-frame"))
            for c in (range(1, total) if deep else rng.sample(range(1, total), min(total - 1, 12))):
                yield mk(d_of(frames, payloads, share, [c], "embedded-frame"))
            yield mk(d_of(frames, payloads, share, list(range(1, total)), "embedded-frame"))
        # a flag inside the payload that is preceded by the check sequence of everything before it: the piece up to that flag
        # is a frame in every respect but its length field
        from harness.props.c18 import crc_x25 as _crc
        for rep in range(40 if deep else 10):
            p1 = bytes(rng.getrandbits(8) for _ in range(rng.choice([0, 1, 6, 20, 130])))
            p2 = bytes(rng.getrandbits(8) for _ in range(rng.choice([0, 1, 9, 40])))
            srv = rng.choice([None, (1, 17), (300, 17)])
            f0 = frame_bytes(0, p1 + b"\x00\x00\x7e" + p2, srv=srv)
            start = len(f0) - 3 - (len(p1) + 3 + len(p2))
            x = _crc(f0[1:start + len(p1)])
            crafted = p1 + x + b"\x7e" + p2
            payloads = [crafted, b"\x05\x06"]
            frames = [frame_bytes(i, p, segmented=(i < 1), srv=srv) for i, p in enumerate(payloads)]
            share = [rng.random() < 0.5]
            total = sum(len(f) for f in frames) - sum(share)
            inner = start + len(p1) + 3          # right after the inner flag
            yield mk(d_of(frames, payloads, share, [], "inner-check-sequence"))
            yield mk(d_of(frames, payloads, share, [inner], "inner-check-sequence"))
            yield mk(d_of(frames, payloads, share, sorted({inner - 1, inner, inner + 1} & set(range(1, total))), "inner-check-sequence"))
            if total < 400:
                yield mk(d_of(frames, payloads, share, list(range(1, total)), "inner-check-sequence"))
        # the same streams handed over in one re-used bytearray (the caller's read buffer)
        for rep in range(20 if deep else 5):
            n = rng.randint(1, 4)
            frames, payloads, share = self.gen_stream(rng, n, rng.choice([8, 60]), rng.choice([0.0, 0.3]))
            total = sum(len(f) for f in frames) - sum(share)
            for cuts in ([], sorted(rng.sample(range(1, total), min(total - 1, rng.randint(1, 8)))), list(range(1, total))):
                d = d_of(frames, payloads, share, cuts, "reused-read-buffer")
                d["reuse_buf"] = True
                yield mk(d)
        # stations with two- and four-byte addresses sending the longest frames (payload 2028..2030), own and shared flags
        for srv in ((1, None), (1, 17), (1, 300), (300, 17), (16383, 16383)):
            for L in (2028, 2029, 2030):
                for sh in (False, True):
                    payloads = [bytes(rng.getrandbits(8) | 1 for _ in range(5)), bytes((i * 7 + L) % 256 for i in range(L)), b"\x01\x02"]
                    frames = [frame_bytes(i, p, segmented=(i < 2), srv=srv) for i, p in enumerate(payloads)]
                    share = [sh, sh]
                    total = sum(len(f) for f in frames) - sum(share)
                    yield mk(d_of(frames, payloads, share, sorted(rng.sample(range(1, total), 6)), "longest-frames"))
        # the UA answering SNRM, in pieces: bare, with negotiation parameters (126 = 0x7E), with check sequences containing 0x7E
        from harness.props.c18 import crc_x25

        def ua_bytes(info):
            n = 2 + 1 + 2 + 1 + 2 + (len(info) + 2 if info else 0)
            head = (0xA000 | n).to_bytes(2, "big") + bytes([0x03, 0x02, 0x23, 0x73])
            body = head + crc_x25(head) + info
            return b"\x7e" + body + (crc_x25(body) if info else b"") + b"\x7e"

        def params(tx, rx, w=1):
            body = b"\x05\x01" + bytes([tx]) + b"\x06\x01" + bytes([rx]) + b"\x07\x04" + w.to_bytes(4, "big") + b"\x08\x04\x00\x00\x00\x01"
            return b"\x81\x80" + bytes([len(body)]) + body
        uas = [ua_bytes(b""), ua_bytes(params(128, 128)), ua_bytes(params(126, 126)), ua_bytes(params(126, 128)), ua_bytes(params(0x7E, 0x7E, 0x7E7E7E7E))]
        for w in range(1, 3000):
            u = ua_bytes(params(128, 128, w))
            if 0x7E in u[-3:-1] and len(uas) < 8:
                uas.append(u)
        for u in uas:
            yield mk({"ua": u.hex(), "cuts": [], "tag": "ua"})
            for c in range(1, len(u)):
                yield mk({"ua": u.hex(), "cuts": [c], "tag": "ua"})
            yield mk({"ua": u.hex(), "cuts": list(range(1, len(u))), "tag": "ua"})
        # long streams: random multi-cuts
        for _ in range(400 if deep else 40):
            n = rng.randint(1, 8)
            density = rng.choice([0.0, 0.05, 0.5, 1.0])
            frames, payloads, share = self.gen_stream(rng, n, rng.choice([20, 200, 2030]), density)
            total = sum(len(f) for f in frames) - sum(share)
            style = rng.random()
            if style < 0.25:
                cuts = list(range(1, total))
            else:
                cuts = sorted(rng.sample(range(1, total), min(total - 1, rng.randint(1, 40))))
            yield mk(d_of(frames, payloads, share, cuts, "random-cuts"))
        # the longest payloads made of flags (every byte a candidate end of frame), in one piece and in a few large pieces
        for L, density in ((2030, 1.0), (1200, 1.0), (2030, 0.9), (1500, 0.7)):
            pl = bytes(0x7E if rng.random() < density else rng.getrandbits(8) for _ in range(L))
            payloads = [pl, b"\x01\x7e\x02"]
            frames = [frame_bytes(i, p, segmented=(i < 1)) for i, p in enumerate(payloads)]
            for share in ([False], [True]):
                total = sum(len(f) for f in frames) - sum(share)
                for cuts in ([], [1000], [5, total - 3], sorted(rng.sample(range(1, total), 3))):
                    yield mk(d_of(frames, payloads, share, cuts, "flags-only-payload"))
        # malformed: garbage between frames, doubled flags (model validation only)
        for _ in range(300 if deep else 40):
            n = rng.randint(1, 4)
            frames, payloads, share = self.gen_stream(rng, n, 12, rng.choice([0.0, 0.3]))
            garbage = [rng.choice([b"", b"\x7e", b"\x7e\x7e", bytes(rng.getrandbits(8) for _ in range(rng.randint(1, 6)))]) for _ in range(n)]
            if not any(garbage):
                garbage[0] = b"\x7e"
            total = sum(len(f) for f in frames) + sum(len(g) for g in garbage)
            cuts = sorted(rng.sample(range(1, total), min(total - 1, rng.randint(0, 10))))
            yield mk(d_of(frames, payloads, share, cuts, "garbage", garbage))


PROP = C10()
