"""C16 - date-time codec round-trips and keeps the DLMS sign convention for UTC deviation."""
import datetime as pydt

from harness import framework as fw


class ZoneWithDst(pydt.tzinfo):
    """a time zone object of the real kind: a total offset of which one hour is daylight saving time."""

    def __init__(self, minutes):
        self.m = minutes

    def utcoffset(self, dt):
        return pydt.timedelta(minutes=self.m)

    def dst(self, dt):
        return pydt.timedelta(hours=1)

    def tzname(self, dt):
        return "X"


def mk_dt(v, zone="fixed", fold=0):
    from dateutil.tz import tzoffset
    y, m, d, H, M, S, us, off = v
    if zone.startswith("tzstr:"):
        # a zone with summer time rules (POSIX TZ string, no database needed): the offset is what the zone says for this local
        # time and this fold
        from dateutil import tz
        return pydt.datetime(y, m, d, H, M, S, us, tzinfo=tz.tzstr(zone[6:]), fold=fold)
    if off is None:
        tz = None
    elif zone == "dst":
        tz = ZoneWithDst(off)
    elif zone == "stdlib":
        tz = pydt.timezone(pydt.timedelta(minutes=off))
    else:
        tz = tzoffset(None, off * 60)
    return pydt.datetime(y, m, d, H, M, S, us, tzinfo=tz)


def status_obj(b):
    from dlms_cosem.time import ClockStatus
    return ClockStatus(bool(b & 1), bool(b & 2), bool(b & 4), bool(b & 8), bool(b & 0x80))


def show(dt, status):
    off = dt.utcoffset()
    offs = "none" if off is None else str(int(off.total_seconds() // 60))
    if off is not None and off.total_seconds() % 60:
        offs += "+frac"
    st = status.to_bytes()[0] if status is not None else "nostatus"
    return f"ok {dt.year} {dt.month} {dt.day} {dt.hour} {dt.minute} {dt.second} {dt.microsecond} {offs} {st}"


def again(t, bs, out, status):
    """the same 12 bytes decoded once more after the caller changed the status object it was given, and handed over as a
    bytearray (what the A-XDR decoder passes for a date-time inside a structure): the same answer."""
    fw.scribble(status)
    note = ""
    for name, data in (("second-decode", bytes(bs)), ("bytearray", bytearray(bs))):
        try:
            d2, s2 = t.datetime_from_bytes(data)
            o2 = show(d2, s2)
        except fw._Timeout:
            raise
        except Exception as e:  # noqa
            o2 = "err " + type(e).__name__
        if o2 != out:
            note += f" !{name}-gives:{o2}"
        else:
            fw.scribble(s2)
    return note


def out_of_range(b):
    y = b[0] * 256 + b[1]
    mo, da, wd, ho, mi, se, hu = b[2:9]
    raw = b[9] * 256 + b[10]
    dev = raw - 65536 if raw >= 32768 else raw
    import calendar
    if y == 0 or y > 9999 or mo == 0 or mo > 12 or da == 0:
        return True
    if da > calendar.monthrange(y, mo)[1]:
        return True
    if wd != 0xFF and (wd == 0 or wd > 7):
        return True
    if (ho != 0xFF and ho > 23) or (mi != 0xFF and mi > 59) or (se != 0xFF and se > 59) or (hu != 0xFF and hu > 99):
        return True
    if dev != -32768 and (dev < -840 or dev > 840):
        return True
    return False


class C16(fw.Prop):
    id = "C16"
    anchors = ["dlms_cosem/time.py"]
    design_ref = "DESIGN.md §6 C16"
    rule = ("years {1,2,1999,2000,2024,2100,9998,9999} x every month end incl. 29 Feb x times incl. 23:59:59; hundredths 0..99 exhaustive and "
            "microseconds at +-1 around multiples of 10 000; all 1 681 offsets -840..+840 and none; all 32 status flag sets on encode and all 256 "
            "status bytes on decode; 12-byte inputs with each field swept over 0..255 (others valid) and random; each value is encoded (compared "
            "with the 12-byte layout), round-tripped (compared with the truncated value), and raw inputs are decoded (out-of-range ones must be refused); "
            "zones with summer-time rules (CET, US Eastern, Australia, New Zealand) around both changes with fold 0 and 1; every clock-status byte inside a data-notification; every decode repeated after the status object was overwritten, and with the 12 bytes as a bytearray; non-trivial = distinct protocol line")
    trusted_base = ["Spec.DateTime is my reading of Blue Book 4.1.6.1", "Python's datetime/dateutil.tzoffset behave as restated in Model.Time (proleptic Gregorian calendar, year 1..9999)"]
    assumptions = ["UTC offsets are whole minutes within -14:00..+14:00", "status bits 4-6 are not represented by the library and are ignored on decode (C20)"]
    technique = "Lean 4 proof (arithmetic over byte fields, two's-complement deviation, calendar predicate) of layout, round trip incl. offset 0, and refusal of every out-of-range field; exhaustive field sweeps as correspondence"
    level_text = ("C16_layout / C16_decode_encode / C16_sign_convention / C16_out_of_range_refused: theorems about the model of datetime_to_bytes/datetime_from_bytes for every "
                  "valid date-time, offset and status byte, and for every 12-byte input with a field out of range. Tied to time.py by differential comparison over boundary dates, "
                  "all offsets, all status bytes and per-field sweeps of raw inputs.")
    level_note = "Trusted: Lean kernel (+propext, Classical.choice, Quot.sound), Python's calendar as restated, the correspondence harness."

    def make_case(self, d):
        op = d["op"]
        if op in ("enc", "rt"):
            v = d["v"]
            st = d["st"]
            y, m, dd, H, M, S, us, off = v
            args = f"{y} {m} {dd} {H} {M} {S} {us} {'none' if off is None else off} {st}"

            def impl():
                from dlms_cosem import time as t
                if off is not None and d.get("zone") != "dst" and not d.get("zone", "").startswith("tzstr:"):
                    # the same instant written in another zone is encoded first: what a date-time encodes to depends on its own
                    # local fields and offset only, not on equal instants seen earlier
                    other = mk_dt(v).astimezone(pydt.timezone(pydt.timedelta(minutes=(off + 60 if off < 780 else off - 60))))
                    try:
                        t.datetime_to_bytes(other, status_obj(st))
                    except Exception:  # noqa
                        pass
                bs = t.datetime_to_bytes(mk_dt(v, d.get("zone", "fixed"), d.get("fold", 0)), status_obj(st))
                if op == "enc":
                    return "ok " + fw.hx(bs)
                dt2, st2 = t.datetime_from_bytes(bs)
                out = show(dt2, st2)
                return out + again(t, bs, out, st2)
            return fw.Case(f"time {op} {args}", impl, "prop", d, tags=(op,))
        if op == "dn":
            # the date-time inside a data-notification: what the date-time codec refuses is not delivered as "no date-time"
            b = bytes.fromhex(d["b"])

            def impl():
                from dlms_cosem.protocol import xdlms
                from dlms_cosem import time as t
                apdu = b"\x0f\x00\x00\x00\x01\x0c" + b + b"\x09\x01\x01"
                try:
                    t.datetime_from_bytes(b)
                    alone = "ok"
                except Exception:  # noqa
                    alone = "refused"
                try:
                    n = xdlms.DataNotification.from_bytes(apdu)
                    inside = "ok" if n.date_time is not None else "ok-without-date-time"
                    if alone == "ok" and inside == "ok" and n.date_time != t.datetime_from_bytes(b)[0]:
                        inside = "ok-another-date-time"
                except Exception:  # noqa
                    inside = "refused"
                return "ok dn" + ("" if alone == inside else f" date-time-alone:{alone} in-data-notification:{inside}")
            return fw.Case("echo dn", impl, "prop", d, tags=("data-notification",))
        if op == "dec":
            b = bytes.fromhex(d["b"])

            def impl():
                from dlms_cosem import time as t
                dt2, st2 = t.datetime_from_bytes(b)
                out = show(dt2, st2)
                return out + again(t, b, out, st2)
            kind = "prop" if (len(b) == 12 and out_of_range(b)) or len(b) != 12 else "model"
            return fw.Case(f"time dec {fw.hx(b)}", impl, kind, d, tags=("dec-" + kind,))
        raise fw.MachineryError(op)

    def cases(self, rng, tier, deep):
        mk = self.make_case
        import calendar
        years = [1, 2, 1999, 2000, 2024, 2100, 9998, 9999]
        vals = []
        for y in years:
            for m in range(1, 13):
                last = calendar.monthrange(y, m)[1]
                for dday in (1, last):
                    vals.append([y, m, dday, rng.choice([0, 23]), rng.choice([0, 59]), rng.choice([0, 59]), rng.choice([0, 999999, 10000]), rng.choice([None, 0, 60, -60])])
        for h in range(100):
            for delta in (0, 1, 9999):
                vals.append([2020, 1, 6, 12, 30, 15, h * 10000 + delta, None])
        for off in range(-840, 841):
            if deep or off % 7 == 0 or abs(off) in (0, 1, 59, 60, 61, 255, 256, 719, 720, 721, 839, 840):
                vals.append([2021, 6, 15, 1, 2, 3, 450000, off])
        for _ in range(5000 if deep else 300):
            y = rng.choice([rng.randint(1, 9999), rng.randint(1990, 2040)])
            m = rng.randint(1, 12)
            vals.append([y, m, rng.randint(1, calendar.monthrange(y, m)[1]), rng.randint(0, 23), rng.randint(0, 59),
                         rng.randint(0, 59), rng.randint(0, 999999), rng.choice([None, rng.randint(-840, 840)])])
        for i, v in enumerate(vals):
            st = [0, 1, 2, 4, 8, 0x80, 0x8F][i % 7]
            zone = ["fixed", "fixed", "stdlib", "dst"][i % 4]        # (how the caller's tzinfo is implemented does not matter)
            yield mk({"op": "enc", "v": v, "st": st, "zone": zone})
            yield mk({"op": "rt", "v": v, "st": st, "zone": zone})
        for j in range(32):
            st = (j & 15) | (0x80 if j & 16 else 0)
            yield mk({"op": "enc", "v": [2020, 2, 29, 0, 0, 0, 0, 0], "st": st})
            yield mk({"op": "rt", "v": [2020, 2, 29, 0, 0, 0, 0, 0], "st": st})
        # raw inputs: sweep each field
        base = bytes.fromhex("07e40106ff00030000ffc400")
        for pos in range(12):
            for val in range(256):
                b = bytearray(base)
                b[pos] = val
                yield mk({"op": "dec", "b": bytes(b).hex()})
        # the same sweeps around other values: midnight sharp at the end of a month, hundredths not specified, the last instant of
        # a year with the deviation not specified (a field out of range is refused whatever the other fields are)
        for other in ("07e4011fff0000000000 3c00", "07e4011fff000000ffffc480", "07e40c1fff173b3b63800080", "07e4021d07000000008000ff"):
            ob = bytes.fromhex(other.replace(" ", ""))
            for pos in range(12):
                for val in (range(256) if (deep or pos in (4, 5)) else list(range(0, 70)) + [99, 100, 101, 127, 128, 253, 254, 255]):
                    b = bytearray(ob)
                    b[pos] = val
                    yield mk({"op": "dec", "b": bytes(b).hex()})
        for dev in list(range(-900, 901, 1 if deep else 13)) + [-32768, 32767, -841, -840, 840, 841, 0]:
            b = bytearray(base)
            b[9:11] = (dev % 65536).to_bytes(2, "big")
            yield mk({"op": "dec", "b": bytes(b).hex()})
        for y in (0, 1, 9999, 10000, 0xFFFF):
            b = bytearray(base)
            b[0:2] = y.to_bytes(2, "big")
            yield mk({"op": "dec", "b": bytes(b).hex()})
        for (y, m, dd) in ((2021, 2, 29), (2020, 2, 29), (2020, 2, 30), (1900, 2, 29), (2000, 2, 29), (2021, 4, 31), (2021, 6, 31)):
            b = bytearray(base)
            b[0:2] = y.to_bytes(2, "big"); b[2] = m; b[3] = dd
            yield mk({"op": "dec", "b": bytes(b).hex()})
        for _ in range(20000 if deep else 1500):
            b = bytearray(base)
            for _ in range(rng.randint(1, 4)):
                b[rng.randrange(12)] = rng.getrandbits(8)
            yield mk({"op": "dec", "b": bytes(b).hex()})
        for n in (0, 1, 5, 11, 13, 24):
            yield mk({"op": "dec", "b": (base * 2)[:n].hex()})
        for pos, val in ((2, 13), (2, 0), (3, 0), (3, 32), (4, 9), (5, 24), (6, 60), (7, 60), (8, 100), (2, 1), (5, 23)):
            b = bytearray(base)
            b[pos] = val
            yield mk({"op": "dn", "b": bytes(b).hex()})
        for dev in (900, -900, 841, 840):
            b = bytearray(base)
            b[9:11] = (dev % 65536).to_bytes(2, "big")
            yield mk({"op": "dn", "b": bytes(b).hex()})
        for stb in range(256):
            # every clock-status byte: the date-time of a data-notification is the one the codec decodes
            b = bytearray(base)
            b[11] = stb
            if stb % 3 == 0:
                b[9:11] = rng.choice([b"\x80\x00", b"\x00\x00", b"\xff\xc4", b"\x00\x3c"])
            yield mk({"op": "dn", "b": bytes(b).hex()})
        # zones with summer time: the repeated hour when it ends (fold 0 = still summer time, fold 1 = already normal time), the
        # hours around it and around its start
        zones = {"CET-1CEST,M3.5.0,M10.5.0/3": [(2021, 10, 31), (2021, 3, 28), (2024, 10, 27)],
                 "EST5EDT,M3.2.0,M11.1.0": [(2021, 11, 7), (2021, 3, 14)],
                 "AEST-10AEDT,M10.1.0,M4.1.0/3": [(2021, 4, 4), (2021, 10, 3)],
                 "NZST-12NZDT,M9.5.0,M4.1.0/3": [(2022, 4, 3)]}
        for spec, days in zones.items():
            for (y, m, dd) in days:
                for H in (0, 1, 2, 3, 4):
                    for M in (0, 30, 59):
                        for fold in (0, 1):
                            z = "tzstr:" + spec
                            probe = mk_dt([y, m, dd, H, M, 7, 0, 0], z, fold)
                            off = probe.utcoffset()
                            if off is None:
                                continue
                            v = [y, m, dd, H, M, 7, 120000, int(off.total_seconds() // 60)]
                            st = rng.choice([0, 0x80, 0x08])
                            yield mk({"op": "enc", "v": v, "st": st, "zone": z, "fold": fold})
                            yield mk({"op": "rt", "v": v, "st": st, "zone": z, "fold": fold})


PROP = C16()
